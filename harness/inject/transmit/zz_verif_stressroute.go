//go:build verif

package transmit

import (
	"sort"

	"github.com/honeycombio/refinery/types"
)

// Accessor for the C16 harness (vh_stressroute).  Unexported names touched:
// DirectTransmission.{eventBatches, batchMutex, sendBatch}, transmitKey, eventBatch.{mutex, events}.

// VerifStressrouteKey is a batch key as EnqueueEvent computes it at enqueue time.
type VerifStressrouteKey struct{ APIHost, APIKey, Dataset string }

// VerifStressrouteDispatch does, for every batch that has events, what the ticker branch of
// dispatchStaleBatches does with a batch that is old enough — take the events under the batch's
// mutex, leave the batch empty, hand them to sendBatch — but on the caller's goroutine and in the
// order given (batches not listed follow in sorted key order and are reported), so that "a batch is
// dispatched" is a step the harness schedules.  Returns the number of events handed to sendBatch.
func VerifStressrouteDispatch(d *DirectTransmission, order []VerifStressrouteKey) (events int, unlisted []VerifStressrouteKey) {
	listed := map[transmitKey]bool{}
	var keys []transmitKey
	for _, k := range order {
		tk := transmitKey{apiHost: k.APIHost, apiKey: k.APIKey, dataset: k.Dataset}
		if !listed[tk] {
			listed[tk] = true
			keys = append(keys, tk)
		}
	}
	var rest []transmitKey
	d.batchMutex.RLock()
	for k, b := range d.eventBatches {
		b.mutex.Lock()
		n := len(b.events)
		b.mutex.Unlock()
		if !listed[k] && n > 0 {
			rest = append(rest, k)
		}
	}
	d.batchMutex.RUnlock()
	sort.Slice(rest, func(i, j int) bool {
		a, b := rest[i], rest[j]
		if a.apiHost != b.apiHost {
			return a.apiHost < b.apiHost
		}
		if a.apiKey != b.apiKey {
			return a.apiKey < b.apiKey
		}
		return a.dataset < b.dataset
	})
	for _, k := range rest {
		unlisted = append(unlisted, VerifStressrouteKey{k.apiHost, k.apiKey, k.dataset})
	}
	for _, k := range append(keys, rest...) {
		d.batchMutex.RLock()
		batch, exists := d.eventBatches[k]
		d.batchMutex.RUnlock()
		if !exists {
			continue
		}
		batch.mutex.Lock()
		var evs []*types.Event
		if len(batch.events) > 0 {
			evs = batch.events
			batch.events = nil
		}
		batch.mutex.Unlock()
		if len(evs) > 0 {
			events += len(evs)
			d.sendBatch(evs)
		}
	}
	return
}
