//go:build verif

package transmit

import (
	"sort"

	"github.com/honeycombio/refinery/types"
)

// Accessor for the C16 harness (vh_stressroute).  Unexported names touched:
// DirectTransmission.{eventBatches, batchMutex, sendBatch}, eventBatch.{mutex, events}.
// The batch map's key type is not named and its fields are not read: a batch is identified by
// the destination its first waiting event carries.

// VerifStressrouteKey is a batch key as EnqueueEvent computes it at enqueue time.
type VerifStressrouteKey struct{ APIHost, APIKey, Dataset string }

// VerifStressrouteDispatch does, for every batch that has events, what the ticker branch of
// dispatchStaleBatches does with a batch that is old enough — take the events under the batch's
// mutex, leave the batch empty, hand them to sendBatch — but on the caller's goroutine and in the
// order given (batches not listed follow in sorted key order and are reported), so that "a batch is
// dispatched" is a step the harness schedules.  Returns the number of events handed to sendBatch.
func VerifStressrouteDispatch(d *DirectTransmission, order []VerifStressrouteKey) (events int, unlisted []VerifStressrouteKey) {
	type held struct {
		key   VerifStressrouteKey
		batch *eventBatch
	}
	var waiting []held
	d.batchMutex.RLock()
	for _, b := range d.eventBatches {
		b.mutex.Lock()
		if len(b.events) > 0 {
			e := b.events[0]
			waiting = append(waiting, held{VerifStressrouteKey{e.APIHost, e.APIKey, e.Dataset}, b})
		}
		b.mutex.Unlock()
	}
	d.batchMutex.RUnlock()
	less := func(a, b VerifStressrouteKey) bool {
		if a.APIHost != b.APIHost {
			return a.APIHost < b.APIHost
		}
		if a.APIKey != b.APIKey {
			return a.APIKey < b.APIKey
		}
		return a.Dataset < b.Dataset
	}
	sort.SliceStable(waiting, func(i, j int) bool { return less(waiting[i].key, waiting[j].key) })
	taken := make([]bool, len(waiting))
	var seq []*eventBatch
	for _, k := range order {
		for i, w := range waiting {
			if !taken[i] && w.key == k {
				taken[i] = true
				seq = append(seq, w.batch)
			}
		}
	}
	for i, w := range waiting {
		if !taken[i] {
			unlisted = append(unlisted, w.key)
			seq = append(seq, w.batch)
		}
	}
	for _, batch := range seq {
		batch.mutex.Lock()
		var evs []*types.Event
		if len(batch.events) > 0 {
			evs = batch.events
			batch.events = nil
		}
		batch.mutex.Unlock()
		if len(evs) > 0 {
			events += len(evs)
			d.sendBatch(evs)
		}
	}
	return
}
