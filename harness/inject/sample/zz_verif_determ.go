//go:build verif

package sample

// VerifShardingSalt exposes the salt the deterministic sampler appends to the trace ID before
// hashing (C10 harness: the hash graph is computed with the package's own constant).
// Unexported names touched: shardingSalt.
func VerifShardingSalt() string { return shardingSalt }
