//go:build verif

package sample

import (
	"github.com/honeycombio/refinery/config"
	"github.com/honeycombio/refinery/types"
)

// Accessor for the `nocrash` harness (property C28).
// Unexported names touched: ruleMatchesTrace, ruleMatchesSpanInTrace.

// VerifNocrashRuleMatches says whether RulesBasedSampler.GetSampleRate would treat the rule as
// matching the trace: the same scope switch, the same two matching functions.  (Which rule
// matches is an external input of the C28 model: regexps and comparisons are not modelled.)
func VerifNocrashRuleMatches(t *types.Trace, rule *config.RulesBasedSamplerRule, nested bool) bool {
	switch rule.Scope {
	case "span":
		return ruleMatchesSpanInTrace(t, rule, nested)
	case "trace", "":
		return ruleMatchesTrace(t, rule, nested)
	default:
		return true
	}
}

// VerifNocrashStopAll stops the third-party samplers a factory created (housekeeping of the
// harness between cases: SamplerFactory.ClearDynsamplers looks for a `Stop()` method without a
// result, which the dynsampler-go types do not have, so their goroutines would accumulate).
// Unexported names touched: SamplerFactory.sharedDynsamplers, SamplerFactory.mutex.
func VerifNocrashStopAll(s *SamplerFactory) {
	s.mutex.Lock()
	defer s.mutex.Unlock()
	for _, e := range s.sharedDynsamplers {
		if st, ok := e.dynsampler.(interface{ Stop() error }); ok {
			func() {
				defer func() { recover() }() // a sampler whose Start was refused has a nil `done` channel
				st.Stop()
			}()
		}
	}
}
