//go:build verif

// Accessors for the rules harness (property C08).  Unexported names touched:
// extractValueFromSpan, conditionMatchesValue, ruleMatchesTrace, ruleMatchesSpanInTrace,
// RulesBasedSampler.samplers (only to delete an entry).
package sample

import (
	"github.com/honeycombio/refinery/config"
	"github.com/honeycombio/refinery/types"
)

// VerifRulesCondOnSpan evaluates one condition against one span exactly as the two rule loops
// do: extract the value, then use the typed matcher if Init installed one, else the untyped one.
func VerifRulesCondOnSpan(t *types.Trace, sp *types.Span, c *config.RulesBasedSamplerCondition, nested bool) (value any, exists, onlyRoot, matched bool) {
	value, exists, onlyRoot = extractValueFromSpan(t, sp, c, nested)
	if c.Matches == nil {
		matched = conditionMatchesValue(c, value, exists)
	} else {
		matched = c.Matches(value, exists)
	}
	return
}

func VerifRulesMatchTrace(t *types.Trace, r *config.RulesBasedSamplerRule, nested bool) bool {
	return ruleMatchesTrace(t, r, nested)
}

func VerifRulesMatchSpan(t *types.Trace, r *config.RulesBasedSamplerRule, nested bool) bool {
	return ruleMatchesSpanInTrace(t, r, nested)
}

// VerifRulesForgetDownstream removes the rule's downstream sampler from the table, which is the
// state Start() leaves behind when the factory could not create it.
func VerifRulesForgetDownstream(s *RulesBasedSampler, r *config.RulesBasedSamplerRule) {
	delete(s.samplers, r.String())
}
