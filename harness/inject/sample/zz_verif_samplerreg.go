//go:build verif

package sample

// Accessors for the samplerreg harness (properties C12, C13).
// Unexported names touched: SamplerFactory.{mutex,sharedDynsamplers,goalThroughputConfigs,peerCount},
// sharedDynsamplerEntry.dynsampler, the `dynsampler` field of the five dynsampler-backed samplers,
// RulesBasedSampler.samplers.

// VerifSamplerregInstances returns the dynsampler instance (rate-tracking state) behind a sampler:
// one element for a dynsampler-backed sampler, nil for a deterministic one, and for a rules-based
// sampler one element per rule of its configuration, in rule order (nil where the rule has no
// dynsampler-backed downstream sampler).
func VerifSamplerregInstances(s Sampler) []any {
	switch t := s.(type) {
	case *DynamicSampler:
		return []any{t.dynsampler}
	case *EMADynamicSampler:
		return []any{t.dynsampler}
	case *TotalThroughputSampler:
		return []any{t.dynsampler}
	case *EMAThroughputSampler:
		return []any{t.dynsampler}
	case *WindowedThroughputSampler:
		return []any{t.dynsampler}
	case *RulesBasedSampler:
		out := make([]any, 0, len(t.Config.Rules))
		for _, rule := range t.Config.Rules {
			ds, ok := t.samplers[rule.String()]
			if !ok || ds == nil {
				out = append(out, nil)
				continue
			}
			in := VerifSamplerregInstances(ds)
			if len(in) == 1 {
				out = append(out, in[0])
			} else {
				out = append(out, nil)
			}
		}
		return out
	}
	return []any{nil}
}

// VerifSamplerregRegistry copies the factory's registry (key -> dynsampler instance), its goal
// bookkeeping (key -> configured goal) and the peer count in force, under the factory mutex.
func VerifSamplerregRegistry(f *SamplerFactory) (reg map[string]any, goals map[string]int, peerCount int) {
	f.mutex.Lock()
	defer f.mutex.Unlock()
	reg = make(map[string]any, len(f.sharedDynsamplers))
	for k, e := range f.sharedDynsamplers {
		if k == verifSamplerregSentinel {
			continue
		}
		reg[k] = e.dynsampler
	}
	goals = make(map[string]int, len(f.goalThroughputConfigs))
	for k, v := range f.goalThroughputConfigs {
		goals[k] = v
	}
	return reg, goals, f.peerCount
}

const verifSamplerregSentinel = "\x00verif-sentinel"

// VerifSamplerregSentinel puts (on=true) or removes a marker entry without a dynsampler in the
// registry, so that a harness can tell whether ClearDynsamplers has run; it reports whether the
// marker was present before the call.
func VerifSamplerregSentinel(f *SamplerFactory, on bool) (was bool) {
	f.mutex.Lock()
	defer f.mutex.Unlock()
	_, was = f.sharedDynsamplers[verifSamplerregSentinel]
	if on {
		f.sharedDynsamplers[verifSamplerregSentinel] = sharedDynsamplerEntry{}
	} else {
		delete(f.sharedDynsamplers, verifSamplerregSentinel)
	}
	return was
}

// VerifSamplerregHasSentinel reports whether the marker entry is in the registry.
func VerifSamplerregHasSentinel(f *SamplerFactory) bool {
	f.mutex.Lock()
	defer f.mutex.Unlock()
	_, ok := f.sharedDynsamplers[verifSamplerregSentinel]
	return ok
}
