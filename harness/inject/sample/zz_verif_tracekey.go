//go:build verif

// Accessors for the C11 harness (vh_tracekey). Unexported names touched:
// maxKeyLength, newTraceKey, traceKey.build,
// the five samplers' `dynsampler` fields and createDynForDynamicSampler.
package sample

import (
	"time"

	dynsampler "github.com/honeycombio/dynsampler-go"

	"github.com/honeycombio/refinery/config"
	"github.com/honeycombio/refinery/logger"
	"github.com/honeycombio/refinery/metrics"
	"github.com/honeycombio/refinery/types"
)

func VerifTKMaxKeyLength() int { return maxKeyLength }

// VerifTKNew returns the real build method of one real traceKey (reused across traces, as a
// sampler reuses it).
func VerifTKNew(fields []string, useTraceLength bool) func(*types.Trace) (string, int) {
	return newTraceKey(fields, useTraceLength).build
}

// VerifTKDyn wraps the dynsampler of a DynamicSampler (the only one held through the interface):
// it records the call and can replace the answer.
type VerifTKDyn struct {
	dynsampler.Sampler
	Force     *int
	Calls     int
	LastKey   string
	LastCount int
	LastRate  int
}

func (v *VerifTKDyn) GetSampleRateMulti(key string, count int) int {
	r := v.Sampler.GetSampleRateMulti(key, count)
	if v.Force != nil {
		r = *v.Force
	}
	v.Calls++
	v.LastKey, v.LastCount, v.LastRate = key, count, r
	return r
}

func (v *VerifTKDyn) GetSampleRate(key string) int { return v.GetSampleRateMulti(key, 1) }

// VerifTKSampler is one real, started sampler of the given kind.
type VerifTKSampler struct {
	S    Sampler
	Kind string
	Rec  *VerifTKDyn // kind "dynamic" only
	dyn  dynsampler.Sampler
}

const verifTKLong = config.Duration(24 * time.Hour)

func VerifTKNewSampler(kind string, fields []string, tl bool) *VerifTKSampler {
	lg := &logger.NullLogger{}
	met := &metrics.NullMetrics{}
	v := &VerifTKSampler{Kind: kind}
	switch kind {
	case "dynamic":
		cfg := &config.DynamicSamplerConfig{SampleRate: 7, ClearFrequency: verifTKLong, FieldList: fields, UseTraceLength: tl}
		v.Rec = &VerifTKDyn{Sampler: createDynForDynamicSampler(cfg)}
		s := &DynamicSampler{Config: cfg, Logger: lg, Metrics: met, dynsampler: v.Rec}
		s.Start()
		v.S, v.dyn = s, v.Rec
	case "emadynamic":
		cfg := &config.EMADynamicSamplerConfig{GoalSampleRate: 5, AdjustmentInterval: verifTKLong, Weight: 0.5, FieldList: fields, UseTraceLength: tl}
		s := &EMADynamicSampler{Config: cfg, Logger: lg, Metrics: met}
		s.Start()
		v.S, v.dyn = s, s.dynsampler
	case "emathroughput":
		cfg := &config.EMAThroughputSamplerConfig{GoalThroughputPerSec: 100, InitialSampleRate: 3, AdjustmentInterval: verifTKLong, Weight: 0.5, FieldList: fields, UseTraceLength: tl}
		s := &EMAThroughputSampler{Config: cfg, Logger: lg, Metrics: met}
		s.Start()
		v.S, v.dyn = s, s.dynsampler
	case "windowedthroughput":
		cfg := &config.WindowedThroughputSamplerConfig{GoalThroughputPerSec: 100, UpdateFrequency: verifTKLong, LookbackFrequency: 2 * verifTKLong, FieldList: fields, UseTraceLength: tl}
		s := &WindowedThroughputSampler{Config: cfg, Logger: lg, Metrics: met}
		s.Start()
		v.S, v.dyn = s, s.dynsampler
	case "totalthroughput":
		cfg := &config.TotalThroughputSamplerConfig{GoalThroughputPerSec: 100, ClearFrequency: verifTKLong, FieldList: fields, UseTraceLength: tl}
		s := &TotalThroughputSampler{Config: cfg, Logger: lg, Metrics: met}
		s.Start()
		v.S, v.dyn = s, s.dynsampler
	default:
		return nil
	}
	return v
}

// Force makes the sampler's dynsampler answer r from now on, where that is possible without
// touching dynsampler internals: the recording wrapper (dynamic), or the exported rate a fresh
// EMA sampler answers with until it has data (emadynamic, emathroughput; their adjustment
// interval is 24h). Returns false for the kinds whose answer can only be observed.
func (v *VerifTKSampler) Force(r int) bool {
	switch s := v.S.(type) {
	case *DynamicSampler:
		v.Rec.Force = &r
		return true
	case *EMADynamicSampler:
		s.dynsampler.GoalSampleRate = r
		return true
	case *EMAThroughputSampler:
		s.dynsampler.InitialSampleRate = r
		return true
	}
	return false
}

// Unforce restores the answer the sampler's dynsampler gives by itself.
func (v *VerifTKSampler) Unforce() {
	switch s := v.S.(type) {
	case *DynamicSampler:
		v.Rec.Force = nil
	case *EMADynamicSampler:
		s.dynsampler.GoalSampleRate = s.Config.GoalSampleRate
	case *EMAThroughputSampler:
		s.dynsampler.InitialSampleRate = s.Config.InitialSampleRate
	}
}

// DynRate is what the sampler's dynsampler answered for the last call (dynamic: recorded) or
// answers for key now (others; count 0: nothing is added to its statistics, and its answer does
// not change between adjustment ticks, which are 24h apart here).
func (v *VerifTKSampler) DynRate(key string) int {
	if v.Rec != nil {
		return v.Rec.LastRate
	}
	return v.dyn.GetSampleRateMulti(key, 0)
}

func (v *VerifTKSampler) Stop() { v.dyn.Stop() }
