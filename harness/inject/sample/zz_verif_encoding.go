//go:build verif

package sample

// Accessors for the `encoding` harness (property C09).  Unexported names touched:
// maxKeyLength, distinctValue (Reset / AddAsString / Values).

func VerifEncodingMaxKeyLength() int { return maxKeyLength }

// VerifEncodingAsString is the rendering of a value by the real distinctValue.AddAsString.
func VerifEncodingAsString(v any) (string, bool) {
	d := &distinctValue{}
	d.Reset([]string{"f"}, 1<<30)
	d.AddAsString(v, 0)
	vals := d.Values(0)
	if len(vals) != 1 {
		return "", false
	}
	return vals[0], true
}
