//go:build verif

package sample

import (
	"github.com/honeycombio/refinery/config"
	"github.com/honeycombio/refinery/logger"
	"github.com/honeycombio/refinery/metrics"
)

// Accessor for the `decorate` verification harness (property C04, sampler rate floor).
// Unexported names touched: DynamicSampler.dynsampler.

// verifDecorateFakeDyn is a dynsampler that answers a fixed rate.
type verifDecorateFakeDyn struct{ rate int }

func (f *verifDecorateFakeDyn) Start() error                       { return nil }
func (f *verifDecorateFakeDyn) Stop() error                        { return nil }
func (f *verifDecorateFakeDyn) GetSampleRate(string) int           { return f.rate }
func (f *verifDecorateFakeDyn) GetSampleRateMulti(string, int) int { return f.rate }
func (f *verifDecorateFakeDyn) SaveState() ([]byte, error)         { return nil, nil }
func (f *verifDecorateFakeDyn) LoadState([]byte) error             { return nil }
func (f *verifDecorateFakeDyn) GetMetrics(string) map[string]int64 { return map[string]int64{} }

// VerifDecorateDynamicSampler is a real, started DynamicSampler whose dynsampler answers `rate`.
func VerifDecorateDynamicSampler(rate int, lg logger.Logger, m metrics.Metrics) (Sampler, error) {
	d := &DynamicSampler{
		Config:     &config.DynamicSamplerConfig{SampleRate: 1, FieldList: []string{"cls"}},
		Logger:     lg,
		Metrics:    m,
		dynsampler: &verifDecorateFakeDyn{rate: rate},
	}
	return d, d.Start()
}
