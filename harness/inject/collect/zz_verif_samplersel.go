//go:build verif

package collect

import (
	"context"

	"github.com/honeycombio/refinery/generics"
	"github.com/honeycombio/refinery/types"
)

// Accessors for the `samplersel` harness (property C14).
// Unexported names touched: CollectorWorker.{processSpan, makeDecision, cache, datasetSamplers},
// sendableTrace.{reason, sampleKey, samplerSelector, rate}.

// VerifSamplerselProcess is the body of the collect loop for one arriving span (trace creation from
// the first span, AddSpan, root bookkeeping) on a worker whose loop is not running.
func VerifSamplerselProcess(w *CollectorWorker, sp *types.Span) { w.processSpan(context.Background(), sp) }

// VerifSamplerselReloadWorker is the reload branch of the worker's collect loop: the cached samplers
// are dropped so that they are rebuilt from the configuration now in force.
func VerifSamplerselReloadWorker(w *CollectorWorker) { clear(w.datasetSamplers) }

// VerifSamplerselDecision is what makeDecision answered for a buffered trace.
type VerifSamplerselDecision struct {
	Found     bool
	Selector  string
	Rate      uint
	Reason    string
	SampleKey string
	// the key fields of the sampler the worker used (GetKeyFields of datasetSamplers[selector])
	AllFields, NonRootFields []string
	Trace                    *types.Trace
}

// VerifSamplerselDecide runs the real makeDecision on the trace buffered under traceID and then
// drops the trace from the worker's cache (the harness does not exercise sending).
func VerifSamplerselDecide(w *CollectorWorker, traceID string) VerifSamplerselDecision {
	tr := w.cache.Get(traceID)
	if tr == nil {
		return VerifSamplerselDecision{}
	}
	s, err := w.makeDecision(context.Background(), tr, TraceSendExpired)
	if err != nil {
		return VerifSamplerselDecision{}
	}
	d := VerifSamplerselDecision{Found: true, Selector: s.samplerSelector, Rate: s.rate, Reason: s.reason, SampleKey: s.sampleKey, Trace: tr}
	if smp, ok := w.datasetSamplers[s.samplerSelector]; ok && smp != nil {
		d.AllFields, d.NonRootFields = smp.GetKeyFields()
	}
	w.cache.RemoveTraces(generics.NewSet(traceID))
	return d
}
