//go:build verif

// Accessors for the C15 harness (vh_stress).  Unexported identifiers touched:
// StressRelief.{disableStressLevelReport, onStressLevelUpdate, lock, stressLevels, mode,
// activateLevel, deactivateLevel, minDuration, stressed, stayOnUntil, overallStressLevel},
// stressReport.{key, level, timestamp}, newStressReliefMessage.
package collect

import (
	"context"
	"time"
)

// VerifDisableLoop makes Start() skip the periodic Recalc/publish goroutine (the test-only switch).
func (s *StressRelief) VerifDisableLoop() { s.disableStressLevelReport = true }

// VerifOnMessage delivers one pubsub message to the real subscription callback.
func (s *StressRelief) VerifOnMessage(msg string) { s.onStressLevelUpdate(context.Background(), msg) }

// VerifStressMessage is the wire form a peer publishes for (id, level).
func VerifStressMessage(level uint, id string) string {
	return newStressReliefMessage(level, id).String()
}

type VerifStressReport struct {
	MapKey    string
	Key       string
	Level     uint
	Timestamp time.Time
}

func (s *StressRelief) VerifReports() []VerifStressReport {
	s.lock.RLock()
	defer s.lock.RUnlock()
	out := make([]VerifStressReport, 0, len(s.stressLevels))
	for k, r := range s.stressLevels {
		out = append(out, VerifStressReport{MapKey: k, Key: r.key, Level: r.level, Timestamp: r.timestamp})
	}
	return out
}

type VerifStressState struct {
	Mode        int
	Activate    uint
	Deactivate  uint
	MinDuration time.Duration
	Stressed    bool
	StayOnUntil time.Time
	Overall     uint
}

func (s *StressRelief) VerifState() VerifStressState {
	s.lock.RLock()
	defer s.lock.RUnlock()
	return VerifStressState{
		Mode: int(s.mode), Activate: s.activateLevel, Deactivate: s.deactivateLevel,
		MinDuration: s.minDuration, Stressed: s.stressed, StayOnUntil: s.stayOnUntil,
		Overall: s.overallStressLevel,
	}
}
