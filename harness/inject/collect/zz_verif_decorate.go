//go:build verif

package collect

import (
	"context"

	"github.com/honeycombio/refinery/sample"
	"github.com/honeycombio/refinery/types"
)

// Accessors for the `decorate` verification harness (properties C04, C06).  Compiled in only
// through `go build -tags verif -overlay`; never part of /repo.
//
// Unexported names touched:
//   InMemCollector.{workers, tracesToSend, getWorkerIDForTrace, hostname}
//   CollectorWorker.{pause, reload, cache, datasetSamplers, processSpan, sendExpiredTracesInCache}
//   sendableTrace (opaque), hashSeed
//
// The harness owns the schedule: every worker is parked with the code's own pause channel; the
// sendTraces goroutine started by Start() lives for the whole case and is handed one decided trace
// at a time (a sentinel trace synchronises with it).

// VerifDecorateDecision is what a sampler answered for a trace.
type VerifDecorateDecision struct {
	Rate   uint
	Keep   bool
	Reason string
	Key    string
}

// verifDecorateSampler records the answer of the sampler the factory built (or gives the
// scripted answer of the harness for the stub environment).
type verifDecorateSampler struct {
	inner sample.Sampler
	stub  *VerifDecorateDecision
	last  *VerifDecorateDecision
}

func (s *verifDecorateSampler) GetSampleRate(t *types.Trace) (uint, bool, string, string) {
	var d VerifDecorateDecision
	if s.stub != nil {
		d = *s.stub
	} else {
		d.Rate, d.Keep, d.Reason, d.Key = s.inner.GetSampleRate(t)
	}
	s.last = &d
	return d.Rate, d.Keep, d.Reason, d.Key
}
func (s *verifDecorateSampler) GetKeyFields() ([]string, []string) { return s.inner.GetKeyFields() }
func (s *verifDecorateSampler) Start() error                       { return nil }

type VerifDecorateCtl struct {
	i       *InMemCollector
	orig    chan sendableTrace // the channel the collector's own sendTraces goroutine ranges over
	held    chan sendableTrace // where send() puts decided traces once the gate is installed
	pending []sendableTrace
	rel     []chan struct{}
}

// VerifDecorateTakeOver parks the workers.  The sendTraces goroutine started by Start() stays alive
// for the whole case, as in the real collector; after one Barrier round trip (which proves it is
// ranging over the collector's own channel) Gate() points the collector's field at a holding
// channel, and Drain hands one decided trace at a time to the goroutine.
func VerifDecorateTakeOver(i *InMemCollector) *VerifDecorateCtl {
	c := &VerifDecorateCtl{i: i, orig: i.tracesToSend}
	c.Park()
	return c
}

// Barrier pushes a one-span sentinel trace to the sendTraces goroutine; when the transmission
// sees that span, every trace handed over before it has been forwarded completely.
func (c *VerifDecorateCtl) Barrier(sentinel *types.Span) {
	tr := &types.Trace{TraceID: sentinel.TraceID}
	tr.AddSpan(sentinel)
	c.orig <- sendableTrace{Trace: tr}
}

// Gate must be called while the sendTraces goroutine is idle (right after a Barrier round trip).
func (c *VerifDecorateCtl) Gate() {
	c.held = make(chan sendableTrace, 4096)
	c.i.tracesToSend = c.held
}

// Restore points the collector back at its own channel so that Stop() closes the right one.
func (c *VerifDecorateCtl) Restore() { c.i.tracesToSend = c.orig }

func (c *VerifDecorateCtl) Park() {
	c.rel = c.rel[:0]
	for _, w := range c.i.workers {
		ch := make(chan struct{})
		w.pause <- ch
		c.rel = append(c.rel, ch)
	}
}

func (c *VerifDecorateCtl) Release() {
	for _, ch := range c.rel {
		close(ch)
	}
	c.rel = c.rel[:0]
}

// ReloadPending reports how many workers have an unconsumed reload signal.
func (c *VerifDecorateCtl) ReloadPending() int {
	n := 0
	for _, w := range c.i.workers {
		n += len(w.reload)
	}
	return n
}

func (c *VerifDecorateCtl) NumWorkers() int { return len(c.i.workers) }

func (c *VerifDecorateCtl) worker(tid string) *CollectorWorker {
	return c.i.workers[c.i.getWorkerIDForTrace(tid)]
}

// Live is the number of spans buffered for the trace, -1 when it is not in the trace cache.
func (c *VerifDecorateCtl) Live(tid string) int {
	tr := c.worker(tid).cache.Get(tid)
	if tr == nil {
		return -1
	}
	return len(tr.GetSpans())
}

// ProcessSpan is the body of the incoming-span branch of collect() for the owning worker.
func (c *VerifDecorateCtl) ProcessSpan(sp *types.Span) {
	c.worker(sp.TraceID).processSpan(context.Background(), sp)
}

// Decide makes exactly this trace due (SendBy := now; no other trace is due because the fake
// clock never advances) and runs the real ticker branch body; the sampler's answer is recorded.
// queued is the number of traces send() put on tracesToSend.
func (c *VerifDecorateCtl) Decide(tid string, stub *VerifDecorateDecision) (found bool, dec *VerifDecorateDecision, queued int) {
	w := c.worker(tid)
	tr := w.cache.Get(tid)
	if tr == nil {
		return false, nil, 0
	}
	selector := c.i.Config.DetermineSamplerKey(tr.APIKey, tr.Environment, tr.Dataset)
	var inner sample.Sampler
	if cur, ok := w.datasetSamplers[selector]; ok {
		if ws, isW := cur.(*verifDecorateSampler); isW {
			inner = ws.inner
		} else {
			inner = cur
		}
	} else {
		inner = c.i.SamplerFactory.GetSamplerImplementationForKey(selector)
	}
	rec := &verifDecorateSampler{inner: inner, stub: stub}
	w.datasetSamplers[selector] = rec
	now := c.i.Clock.Now()
	tr.SendBy = now
	w.cache.Set(tr)
	w.sendExpiredTracesInCache(context.Background(), now)
	for {
		select {
		case t := <-c.held:
			c.pending = append(c.pending, t)
			queued++
			continue
		default:
		}
		break
	}
	return true, rec.last, queued
}

// Drain hands the oldest decided trace to the collector's own sendTraces goroutine (follow it with
// a Barrier to know when it has been forwarded).
func (c *VerifDecorateCtl) Drain() (tid string, ok bool) {
	if len(c.pending) == 0 {
		return "", false
	}
	t := c.pending[0]
	c.pending = c.pending[1:]
	c.orig <- t
	return t.TraceID, true
}

func (c *VerifDecorateCtl) Pending() int { return len(c.pending) }

// VerifDecorateHostname is the hostname the collector captured.
func VerifDecorateHostname(i *InMemCollector) string { return i.hostname }

// VerifDecorateStressHashSeed is the seed of the stress-relief trace hash.
func VerifDecorateStressHashSeed() uint64 { return hashSeed }
