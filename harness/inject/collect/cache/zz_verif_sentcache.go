//go:build verif

package cache

import (
	"time"

	"github.com/dgryski/go-wyhash"
	"github.com/jonboulle/clockwork"
	cuckoo "github.com/panmari/cuckoofilter"
)

// Verification accessors for cuckooSentCache (property C31).  Compiled in only through
// `go build -tags verif -overlay`; never part of /repo.
//
// Unexported names touched:
//   cuckooSentCache{dropped, recentDroppedIDs, keptReasons}
//   CuckooTraceChecker{current, future, capacity, addch, done, shutdownWG, drain}
//   KeptReasonsCache{hashSeed}

// VerifSentCache is a handle on a real cuckooSentCache whose add-queue goroutine is parked.
type VerifSentCache struct{ c *cuckooSentCache }

// VerifWrapSentCache stops the 100 µs add-queue goroutine of the dropped-trace checker (so that
// "recorded but not yet in the filter" is a state the harness can hold) and swaps the recent-drop
// set's clock.  Nothing has been recorded yet, so the goroutine had nothing to do so far.
func VerifWrapSentCache(t TraceSentCache, clock clockwork.Clock) *VerifSentCache {
	c := t.(*cuckooSentCache)
	d := c.dropped
	close(d.done)
	d.shutdownWG.Wait()
	d.done = make(chan struct{}) // so that Stop() can close it again
	c.recentDroppedIDs.Clock = clock
	return &VerifSentCache{c: c}
}

// Filters returns the two generations as they are right now (future may be nil).
func (v *VerifSentCache) Filters() (cur, fut *cuckoo.Filter) {
	return v.c.dropped.current, v.c.dropped.future
}

func (v *VerifSentCache) QueueLen() int      { return len(v.c.dropped.addch) }
func (v *VerifSentCache) QueueCap() int      { return cap(v.c.dropped.addch) }
func (v *VerifSentCache) NextCapacity() uint { return v.c.dropped.capacity }

// DrainOnce is one call of the checker's own drain() (what its goroutine does on a tick).
func (v *VerifSentCache) DrainOnce() { v.c.dropped.drain() }

// MonitorTick is the body of one tick of cuckooSentCache.monitor().
func (v *VerifSentCache) MonitorTick() int {
	v.c.dropped.Maintain()
	return v.c.recentDroppedIDs.Length()
}

func (v *VerifSentCache) FilterCheck(id string) bool { return v.c.dropped.Check(id) }
func (v *VerifSentCache) RecentTTL() time.Duration   { return v.c.recentDroppedIDs.TTL }

// ReasonHash is the key KeptReasonsCache.Set computes for a reason string.
func (v *VerifSentCache) ReasonHash(reason string) uint64 {
	return wyhash.Hash([]byte(reason), v.c.keptReasons.hashSeed)
}
