//go:build verif

package cache

// Accessor for the `collector` verification harness (C01, C02, C05).
// Unexported names touched: cuckooSentCache.{recentDroppedIDs, dropped}.

// VerifCollectorDroppedLookup evaluates the two dropped-trace tests of CheckSpan without their
// side effects (no TTL refresh) and without touching the kept LRU.
func VerifCollectorDroppedLookup(t TraceSentCache, traceID string) bool {
	c, ok := t.(*cuckooSentCache)
	if !ok {
		return false
	}
	return c.recentDroppedIDs.Contains(traceID) || c.dropped.Check(traceID)
}
