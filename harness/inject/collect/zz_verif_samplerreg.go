//go:build verif

package collect

import (
	"github.com/honeycombio/refinery/logger"
	"github.com/honeycombio/refinery/sample"
)

// Accessors for the samplerreg harness (C12): the real InMemCollector.reloadConfigs driven on a
// collector shell whose workers are parked (never started).
// Unexported names touched: InMemCollector.{workers,reloadConfigs}, CollectorWorker.reload.

type verifSamplerregStress struct {
	MockStressReliever
	hook func()
}

func (s *verifSamplerregStress) UpdateFromConfig() {
	if s.hook != nil {
		s.hook()
	}
}

// VerifSamplerregCollector is an InMemCollector with n parked workers, the given sampler factory
// and a stress reliever whose UpdateFromConfig runs a hook (a point in the middle of a reload).
type VerifSamplerregCollector struct {
	c  *InMemCollector
	sr *verifSamplerregStress
}

func VerifSamplerregNewCollector(f *sample.SamplerFactory, n int) *VerifSamplerregCollector {
	sr := &verifSamplerregStress{}
	c := &InMemCollector{Logger: &logger.NullLogger{}, SamplerFactory: f, StressRelief: sr}
	for i := 0; i < n; i++ {
		c.workers = append(c.workers, &CollectorWorker{reload: make(chan struct{}, 1)})
	}
	return &VerifSamplerregCollector{c: c, sr: sr}
}

// Reload runs the real reloadConfigs; midReload is called from StressRelief.UpdateFromConfig.
func (v *VerifSamplerregCollector) Reload(midReload func()) {
	v.sr.hook = midReload
	v.c.reloadConfigs()
	v.sr.hook = nil
}

// Pending tells whether worker w has an unprocessed reload signal.
func (v *VerifSamplerregCollector) Pending(w int) bool { return len(v.c.workers[w].reload) > 0 }

// TakeSignal is the receive of the worker loop's `case <-cl.reload`, non-blocking.
func (v *VerifSamplerregCollector) TakeSignal(w int) bool {
	select {
	case <-v.c.workers[w].reload:
		return true
	default:
		return false
	}
}
