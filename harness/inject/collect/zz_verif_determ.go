//go:build verif

package collect

// VerifStressHashSeed exposes the wyhash seed of stress-relief sampling (C10 harness).
// Unexported names touched: hashSeed.
func VerifStressHashSeed() uint64 { return hashSeed }

// VerifDetermNoLoop makes Start() skip the periodic Recalc/publish goroutine (the package's own
// test-only switch), so the C10 harness calls Recalc itself.  Unexported names touched:
// StressRelief.disableStressLevelReport.
func (s *StressRelief) VerifDetermNoLoop() { s.disableStressLevelReport = true }

// VerifDetermReloadPending reports whether a reload signal posted by sendReloadSignal is still
// waiting for monitor() (C10 wiring leg).  Unexported names touched: InMemCollector.reload.
func VerifDetermReloadPending(i *InMemCollector) int { return len(i.reload) }
