//go:build verif

package collect

// VerifStressHashSeed exposes the wyhash seed of stress-relief sampling (C10 harness).
// Unexported names touched: hashSeed.
func VerifStressHashSeed() uint64 { return hashSeed }
