//go:build verif

package collect

import (
	"context"
	"sync"
	"time"

	"github.com/honeycombio/refinery/collect/cache"
	"github.com/honeycombio/refinery/types"
)

// Accessors for the `collector` verification harness (properties C01, C02, C05).  Compiled in only
// through `go build -tags verif -overlay`; never part of /repo.
//
// Unexported names touched:
//   InMemCollector.{workers, tracesToSend, getWorkerIDForTrace}
//   CollectorWorker.{pause, incoming, reload, sendEarly, cache, sampleCache, sendExpiredTracesInCache}
//   sendEarly.{wg, bytesToSend}
//   sendableTrace.{Trace, reason, sendReason, shouldSend, rate}
//
// Span arrival goes through the exported AddSpan and the worker's own collect() loop, reload goes
// through Config.Reload() -> monitor() -> reloadConfigs() -> the loop's reload branch, ejection
// through the loop's sendEarly branch; only the tick is called directly (the loop's ticker is set
// to an interval the fake clock never reaches, so that the harness owns the schedule).

func VerifCollectorNumWorkers(i *InMemCollector) int { return len(i.workers) }

// VerifCollectorOwner is the worker the code routes a trace id to, for a collector with n workers.
func VerifCollectorOwner(traceID string, n int) int {
	i := &InMemCollector{workers: make([]*CollectorWorker, n)}
	return i.getWorkerIDForTrace(traceID)
}

// VerifCollectorPark parks worker w with the code's own pause channel (returns once the worker has
// finished whatever it was doing and received the signal); closing the returned channel releases it.
func VerifCollectorPark(i *InMemCollector, w int) chan struct{} {
	ch := make(chan struct{})
	i.workers[w].pause <- ch
	return ch
}

func VerifCollectorIncomingLen(i *InMemCollector, w int) int { return len(i.workers[w].incoming) }
func VerifCollectorReloadLen(i *InMemCollector, w int) int   { return len(i.workers[w].reload) }

// VerifCollectorTick is the body of the ticker branch of collect() for a parked worker.
func VerifCollectorTick(i *InMemCollector, w int, now time.Time) {
	i.workers[w].sendExpiredTracesInCache(context.Background(), now)
}

// VerifCollectorSendEarly posts the memory-overrun signal exactly as checkAlloc does.
func VerifCollectorSendEarly(i *InMemCollector, w int, bytes int) *sync.WaitGroup {
	wg := &sync.WaitGroup{}
	wg.Add(1)
	i.workers[w].sendEarly <- sendEarly{wg: wg, bytesToSend: bytes}
	return wg
}

// VerifCollectorBuffered lists the traces buffered by (parked) worker w, map order.
func VerifCollectorBuffered(i *InMemCollector, w int) []*types.Trace {
	return i.workers[w].cache.GetAll()
}

func VerifCollectorGet(i *InMemCollector, w int, traceID string) *types.Trace {
	return i.workers[w].cache.Get(traceID)
}

// VerifCollectorDroppedLookup: does the dropped half of worker w's decision record claim this id
// right now (read-only; the kept LRU is not touched).
func VerifCollectorDroppedLookup(i *InMemCollector, w int, traceID string) bool {
	return cache.VerifCollectorDroppedLookup(i.workers[w].sampleCache, traceID)
}

// VerifCollectorSent describes one element of tracesToSend.
type VerifCollectorSent struct {
	TraceID    string
	ShouldSend bool
	KeepSample bool
	Rate       uint
	TraceRate  uint
	Reason     string
	SendReason string
	NumSpans   int
}

// VerifCollectorGate holds decided traces between send() and sendTraces(): after Start() the
// sendTraces goroutine ranges over the original channel; the collector's field is pointed at a
// second channel which only the harness reads, and ReleaseOne moves one element across.  This
// makes "sendTraces consumes one decided trace" a step the harness schedules.
type VerifCollectorGate struct {
	i       *InMemCollector
	orig    chan sendableTrace
	held    chan sendableTrace
	pending []sendableTrace
}

// VerifCollectorNewGate must be called with every worker parked and after one VerifCollectorBarrier
// round trip (so that the sendTraces goroutine is known to be ranging over the original channel).
func VerifCollectorNewGate(i *InMemCollector) *VerifCollectorGate {
	g := &VerifCollectorGate{i: i, orig: i.tracesToSend, held: make(chan sendableTrace, cap(i.tracesToSend))}
	i.tracesToSend = g.held
	return g
}

func verifCollectorDescribe(t sendableTrace) VerifCollectorSent {
	return VerifCollectorSent{TraceID: t.TraceID, ShouldSend: t.shouldSend, KeepSample: t.KeepSample, Rate: t.rate,
		TraceRate: t.Trace.SampleRate(), Reason: t.reason, SendReason: t.sendReason, NumSpans: len(t.GetSpans())}
}

// Collect moves everything send() has queued so far into the pending list and describes it.
func (g *VerifCollectorGate) Collect() []VerifCollectorSent {
	var out []VerifCollectorSent
	for {
		select {
		case t := <-g.held:
			g.pending = append(g.pending, t)
			out = append(out, verifCollectorDescribe(t))
		default:
			return out
		}
	}
}

func (g *VerifCollectorGate) Pending() int { return len(g.pending) }

// ReleaseOne hands the oldest pending trace to the real sendTraces goroutine.
func (g *VerifCollectorGate) ReleaseOne() (VerifCollectorSent, bool) {
	if len(g.pending) == 0 {
		return VerifCollectorSent{}, false
	}
	t := g.pending[0]
	g.pending = g.pending[1:]
	g.orig <- t
	return verifCollectorDescribe(t), true
}

// Barrier pushes a one-span sentinel trace to the sendTraces goroutine; when the transmission sees
// that span, every trace released before it has been forwarded completely.
func (g *VerifCollectorGate) Barrier(sentinel *types.Span) {
	VerifCollectorBarrier(g.i, g.orig, sentinel)
}

func VerifCollectorBarrier(i *InMemCollector, ch chan sendableTrace, sentinel *types.Span) {
	tr := &types.Trace{TraceID: sentinel.TraceID}
	tr.AddSpan(sentinel)
	if ch == nil {
		ch = i.tracesToSend
	}
	ch <- sendableTrace{Trace: tr}
}

// Restore points the collector back at its own channel so that Stop() closes the right one.
func (g *VerifCollectorGate) Restore() { g.i.tracesToSend = g.orig }
