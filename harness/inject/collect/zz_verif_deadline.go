//go:build verif

package collect

import (
	"context"
	"sync"
	"time"

	"github.com/honeycombio/refinery/types"
)

// Accessors for the `deadline` verification harness (properties C03, C07).  Compiled in only
// through `go build -tags verif -overlay`; never part of /repo.
//
// Unexported names touched: InMemCollector.{workers, done, monitorWG, tracesToSend, checkAlloc,
// getWorkerIDForTrace}, CollectorWorker.{pause, cache, sendEarly, processSpan,
// sendExpiredTracesInCache, sendTracesEarly}, sendEarly.{wg, bytesToSend}, sendableTrace.

// VerifDeadlineStopMonitor stops the background monitor goroutine (the first thing Stop() does)
// so that the harness is the only caller of checkAlloc, and re-arms `done` so that the real
// Stop() can still be called at the end of the case.
func VerifDeadlineStopMonitor(i *InMemCollector) {
	close(i.done)
	i.monitorWG.Wait()
	i.done = make(chan struct{})
}

// VerifDeadlineParkWorker parks worker w with the code's own pause channel: the send completes only
// when the worker's collect() loop is in its select, i.e. after it has finished whatever event it was
// handling.  The returned function releases it (the loop then starts its next iteration).
func VerifDeadlineParkWorker(i *InMemCollector, w int) (release func()) {
	ch := make(chan struct{})
	i.workers[w].pause <- ch
	return func() { close(ch) }
}

func VerifDeadlineNumWorkers(i *InMemCollector) int { return len(i.workers) }

func VerifDeadlineWorkerFor(i *InMemCollector, traceID string) int {
	return i.getWorkerIDForTrace(traceID)
}

func VerifDeadlineProcessSpan(i *InMemCollector, w int, sp *types.Span) {
	i.workers[w].processSpan(context.Background(), sp)
}

func VerifDeadlineTick(i *InMemCollector, w int, now time.Time) {
	i.workers[w].sendExpiredTracesInCache(context.Background(), now)
}

func VerifDeadlineEject(i *InMemCollector, w int, bytes int) {
	i.workers[w].sendTracesEarly(context.Background(), bytes)
}

// VerifDeadlineGet returns the buffered trace (nil if not buffered) of worker w.
func VerifDeadlineGet(i *InMemCollector, w int, traceID string) *types.Trace {
	return i.workers[w].cache.Get(traceID)
}

// VerifDeadlineBuffered returns the traces buffered by worker w (map order).
func VerifDeadlineBuffered(i *InMemCollector, w int) []*types.Trace {
	return i.workers[w].cache.GetAll()
}

// VerifDeadlineBarrier pushes a one-span sentinel trace through tracesToSend; when the recording
// transmission sees its span every trace sent before it has been forwarded completely.
func VerifDeadlineBarrier(i *InMemCollector, sentinel *types.Span) {
	tr := &types.Trace{TraceID: sentinel.TraceID}
	tr.AddSpan(sentinel)
	i.tracesToSend <- sendableTrace{Trace: tr}
}

// VerifDeadlineCheckAlloc runs the real checkAlloc on its own goroutine and plays the part of the
// (parked) workers' `sendEarly` select branch: for every worker, in index order, it receives the
// request the code sent, reports the share through `each`, runs the real sendTracesEarly with the
// requested byte count and signals the wait group.  Returns false when checkAlloc returned
// without asking any worker (no overage).
func VerifDeadlineCheckAlloc(i *InMemCollector, before func(w int, bytes int), after func(w int)) bool {
	var done sync.WaitGroup
	fin := make(chan struct{})
	done.Add(1)
	go func() {
		defer done.Done()
		defer close(fin)
		i.checkAlloc(context.Background())
	}()
	evicted := false
	for k, w := range i.workers {
		select {
		case se := <-w.sendEarly:
			evicted = true
			before(k, se.bytesToSend)
			w.sendTracesEarly(context.Background(), se.bytesToSend)
			se.wg.Done()
			after(k)
		case <-fin:
			done.Wait()
			return evicted
		}
	}
	done.Wait()
	return evicted
}
