//go:build verif

package collect

import (
	"context"

	"github.com/dgryski/go-wyhash"

	"github.com/honeycombio/refinery/types"
)

// Accessors for the C16 harness (vh_stressroute).  Unexported names touched:
//   InMemCollector.{workers, tracesToSend, done, reload}, inMemCollectorMetrics,
//   NewCollectorWorker's result: CollectorWorker.{incoming, fromPeer, cache, processSpan, Stop},
//   StressRelief.{lock, stressed, sampleRate, upperBound}, hashSeed, InMemCollector.reloadConfigs,
//   CollectorWorker.sampleCache.
//
// The collector is set up as Start() sets it up for the paths driven here (its workers with their
// queues, trace buffer and decision record) but none of its goroutines (collect loops, sendTraces,
// monitor) is started: the harness owns the schedule and runs the loop body itself (DESIGN §2.3).

// VerifStressrouteInit is the part of Start() that creates state, without the `go` statements.
func VerifStressrouteInit(i *InMemCollector) error {
	imc := i.Config.GetCollectionConfig()
	i.StressRelief.UpdateFromConfig()
	for _, m := range inMemCollectorMetrics {
		i.Metrics.Register(m)
	}
	i.tracesToSend = make(chan sendableTrace, 1000)
	i.done = make(chan struct{})
	i.reload = make(chan struct{}, 1)
	n := imc.GetWorkerCount()
	i.workers = make([]*CollectorWorker, n)
	for id := range i.workers {
		w, err := NewCollectorWorker(id, i, imc.GetIncomingQueueSizePerWorker(), imc.GetPeerQueueSizePerWorker())
		if err != nil {
			return err
		}
		i.workers[id] = w
	}
	return nil
}

// VerifStressrouteStop stops what NewCollectorWorker started (the decision record's goroutines).
func VerifStressrouteStop(i *InMemCollector) {
	for _, w := range i.workers {
		w.Stop()
	}
}

// VerifStressrouteQueued is the number of spans waiting in the workers' channels.
func VerifStressrouteQueued(i *InMemCollector) (incoming, fromPeer int) {
	for _, w := range i.workers {
		incoming += len(w.incoming)
		fromPeer += len(w.fromPeer)
	}
	return
}

// VerifStressrouteWork is one iteration of CollectorWorker.collect() for the first worker that has
// something queued: the peer channel is served before the incoming channel, the span goes to
// processSpan.  Returns the span processed (nil: every channel is empty).
func VerifStressrouteWork(i *InMemCollector) (sp *types.Span, fromPeer bool) {
	for _, w := range i.workers {
		select {
		case sp = <-w.fromPeer:
			w.processSpan(context.Background(), sp)
			return sp, true
		default:
		}
	}
	for _, w := range i.workers {
		select {
		case sp = <-w.incoming:
			w.processSpan(context.Background(), sp)
			return sp, false
		default:
		}
	}
	return nil, false
}

// VerifStressrouteBuffered: number of spans held in the trace buffer for this trace id (-1: the
// trace is not buffered) and the number of buffered traces.
func VerifStressrouteBuffered(i *InMemCollector, traceID string) (spans int, traces int) {
	spans = -1
	w := i.workers[i.getWorkerIDForTrace(traceID)]
	if t := w.cache.Get(traceID); t != nil {
		spans = len(t.GetSpans())
	}
	for _, w := range i.workers {
		traces += w.cache.GetCacheEntryCount()
	}
	return
}

// VerifStressrouteSetStressed forces the real StressRelief's activation state (what Recalc
// computes from the stress level; C15 covers that computation).
func (s *StressRelief) VerifStressrouteSetStressed(b bool) {
	s.lock.Lock()
	s.stressed = b
	s.lock.Unlock()
}

// VerifStressrouteRule returns the constants of the deterministic rule as configured now.
func (s *StressRelief) VerifStressrouteRule() (sampleRate, upperBound uint64) {
	s.lock.RLock()
	defer s.lock.RUnlock()
	return s.sampleRate, s.upperBound
}

// VerifStressrouteHash is the hash GetSampleRate compares with the upper bound.
func VerifStressrouteHash(traceID string) uint64 {
	return wyhash.Hash([]byte(traceID), hashSeed)
}

// VerifStressrouteReload is what monitor() does when the configuration's reload callback has
// fired: reloadConfigs (SamplerFactory.ClearDynsamplers, StressRelief.UpdateFromConfig, worker
// reload signals).
func VerifStressrouteReload(i *InMemCollector) { i.reloadConfigs() }

// VerifStressrouteRecord enters a decision of the normal sampler into the trace's worker's
// decision record exactly as makeDecision does (`trace.SetSampleRate(rate)`,
// `sampleCache.Record(trace, shouldSend, reason)`); the sampler itself is not run.
func VerifStressrouteRecord(i *InMemCollector, traceID string, keep bool, rate uint) {
	w := i.workers[i.getWorkerIDForTrace(traceID)]
	now := i.Clock.Now()
	trace := &types.Trace{TraceID: traceID, ArrivalTime: now, SendBy: now}
	trace.SetSampleRate(rate)
	trace.KeepSample = keep
	w.sampleCache.Record(trace, keep, "verif/normal-sampler")
}
