//go:build verif

package collect

import (
	"sort"
	"time"

	"github.com/honeycombio/refinery/collect/cache"
	"github.com/honeycombio/refinery/types"
)

// Accessors for the `shutdown` verification harness (property C36).  Compiled in only through
// `go build -tags verif -overlay`; never part of /repo.
//
// Unexported names touched:
//   InMemCollector.{workers, tracesToSend, getWorkerIDForTrace}
//   CollectorWorker.{pause, incoming, fromPeer, cache, sampleCache, healthCheckInAt}
//   sendableTrace.{Trace}
//
// Spans arrive through the exported AddSpan / AddSpanFromPeer and are processed by the worker's own
// collect() loop; ticks are the loop's own ticker (fake clock); Stop is the exported Stop.

func VerifShutdownNumWorkers(i *InMemCollector) int { return len(i.workers) }

func VerifShutdownOwner(i *InMemCollector, traceID string) int { return i.getWorkerIDForTrace(traceID) }

// VerifShutdownPark parks worker w with the code's own pause channel: the call returns once the
// worker has finished whatever it was doing and taken the signal in its select; closing the
// returned channel releases it.
func VerifShutdownPark(i *InMemCollector, w int) chan struct{} {
	ch := make(chan struct{})
	i.workers[w].pause <- ch
	return ch
}

// VerifShutdownParkOr is VerifShutdownPark, but gives up when `other` is closed first (the worker is
// blocked somewhere inside a pass and will not come back to its select).
func VerifShutdownParkOr(i *InMemCollector, w int, other <-chan struct{}) (chan struct{}, bool) {
	ch := make(chan struct{})
	select {
	case i.workers[w].pause <- ch:
		return ch, true
	case <-other:
		return nil, false
	}
}

func VerifShutdownQueueLens(i *InMemCollector, w int) (incoming, fromPeer int) {
	return len(i.workers[w].incoming), len(i.workers[w].fromPeer)
}

// VerifShutdownTicked: has worker w entered the ticker branch of collect() at the instant `now`
// (the branch starts by storing the clock reading in healthCheckInAt).
func VerifShutdownTicked(i *InMemCollector, w int, now time.Time) bool {
	return i.workers[w].healthCheckInAt.Load() == now.UnixNano()
}

type VerifShutdownTrace struct {
	ID    string
	Spans int
}

// VerifShutdownBuffered lists the traces in worker w's buffer, sorted by id.  Only for a worker
// that is parked or has exited.
func VerifShutdownBuffered(i *InMemCollector, w int) []VerifShutdownTrace {
	var out []VerifShutdownTrace
	for _, t := range i.workers[w].cache.GetAll() {
		out = append(out, VerifShutdownTrace{ID: t.TraceID, Spans: len(t.GetSpans())})
	}
	sort.Slice(out, func(a, b int) bool { return out[a].ID < out[b].ID })
	return out
}

// VerifShutdownClosed: has Stop closed worker w's fromPeer channel.  Only for a worker whose
// fromPeer queue is empty (nothing is taken from it then).
func VerifShutdownClosed(i *InMemCollector, w int) bool {
	select {
	case _, ok := <-i.workers[w].fromPeer:
		return !ok
	default:
		return false
	}
}

type verifShutdownCache struct {
	cache.TraceSentCache
	hook func()
}

func (c verifShutdownCache) Stop() {
	c.hook()
	c.TraceSentCache.Stop()
}

// VerifShutdownOnWorkersDone makes Stop call hook right after workersWG.Wait() has returned (that
// is when it stops worker 0's decision cache).  Only while worker 0 is parked.
func VerifShutdownOnWorkersDone(i *InMemCollector, hook func()) {
	w := i.workers[0]
	w.sampleCache = verifShutdownCache{TraceSentCache: w.sampleCache, hook: hook}
}

// VerifShutdownSentinel puts a one-span trace into tracesToSend.
func VerifShutdownSentinel(i *InMemCollector, sp *types.Span) {
	tr := &types.Trace{TraceID: sp.TraceID, APIKey: sp.APIKey, Dataset: sp.Dataset}
	tr.AddSpan(sp)
	i.tracesToSend <- sendableTrace{Trace: tr}
}

// VerifShutdownGate holds decided traces between send() and the sendTraces goroutine, so that
// "sendTraces takes one trace" is a step the harness schedules: the goroutine keeps ranging over
// the original channel, the collector's field points at a second channel only the harness reads.
// Restore undoes this before Stop (which closes the field's channel).
type VerifShutdownGate struct {
	i       *InMemCollector
	orig    chan sendableTrace
	held    chan sendableTrace
	pending []sendableTrace
}

// VerifShutdownNewGate: every worker parked, and the sendTraces goroutine known to be ranging over
// the original channel (a sentinel has come out of it).
func VerifShutdownNewGate(i *InMemCollector) *VerifShutdownGate {
	g := &VerifShutdownGate{i: i, orig: i.tracesToSend, held: make(chan sendableTrace, 4096)}
	i.tracesToSend = g.held
	return g
}

// Collect moves everything send() has queued so far to the pending list (queue order).
func (g *VerifShutdownGate) Collect() []VerifShutdownTrace {
	var out []VerifShutdownTrace
	for {
		select {
		case t := <-g.held:
			g.pending = append(g.pending, t)
			out = append(out, VerifShutdownTrace{ID: t.TraceID, Spans: len(t.GetSpans())})
		default:
			return out
		}
	}
}

// ReleaseOne gives the oldest pending trace to the sendTraces goroutine.
func (g *VerifShutdownGate) ReleaseOne() (VerifShutdownTrace, bool) {
	if len(g.pending) == 0 {
		return VerifShutdownTrace{}, false
	}
	t := g.pending[0]
	g.pending = g.pending[1:]
	g.orig <- t
	return VerifShutdownTrace{ID: t.TraceID, Spans: len(t.GetSpans())}, true
}

// Restore puts the pending traces into the collector's own channel and points the field back at
// it; returns how many traces that were.  Every worker parked.
func (g *VerifShutdownGate) Restore() int {
	g.Collect()
	n := len(g.pending)
	g.i.tracesToSend = g.orig
	for _, t := range g.pending {
		g.orig <- t
	}
	g.pending = nil
	return n
}
