//go:build verif

package config

// VerifReloadHold takes the write side of fileConfig.mux (the lock Reload uses around its
// compare-and-assign) and returns the function that releases it.  The C27 harness uses it to line
// up several Reload calls, all of which have read and built the same new content, right before
// their critical section.  Touches one unexported name: fileConfig.mux.
func VerifReloadHold(c Config) (release func(), ok bool) {
	f, isFile := c.(*fileConfig)
	if !isFile {
		return func() {}, false
	}
	f.mux.Lock()
	return f.mux.Unlock, true
}
