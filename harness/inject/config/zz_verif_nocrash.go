//go:build verif

package config

// Accessor for the `nocrash` harness (property C28).
// Unexported names touched: newFileConfig, configData (through NewConfigData), fileConfig.callbacks.

// VerifNocrashLoad runs the real loader on a main configuration and a rules file given as YAML
// text: newFileConfig is what NewConfig calls after it has read the bytes from its locations, so
// this is validation (both metadata passes for the main file, ValidateRules for the rules), YAML
// decoding into the real structs, defaults.  A nil Config means the configuration was refused
// (the error says why); a non-nil Config with a non-nil error means warnings only.
func VerifNocrashLoad(mainYAML, rulesYAML []byte) (Config, error) {
	cfg, err := newFileConfig(&CmdEnv{},
		[]configData{NewConfigData(mainYAML, FormatYAML, "verif-main.yaml")},
		[]configData{NewConfigData(rulesYAML, FormatYAML, "verif-rules.yaml")})
	if cfg == nil {
		return nil, err
	}
	cfg.callbacks = make([]ConfigReloadCallback, 0)
	return cfg, err
}
