//go:build verif

package config

// Accessors for the C38 (config converter) verification harness.  Unexported names touched:
// newFileConfig, configData (through NewConfigData), fileConfig.mainConfig, fileConfig.rulesConfig,
// unitSlice, reverseUnitMap, unitMap.

import (
	"errors"
	"sort"
	"strings"
)

// VerifConvertLoad runs the real v2 loader (validation of config and rules, load into the config
// struct, defaults) on in-memory YAML documents.  main is the *configContents the getters read
// from (nil when the load was refused), rules the loaded rules.  fatal is "" on success,
// "invalid" when validation refused the files (msgs = the validator's error messages, sorted),
// "error" for any other failure (YAML syntax, decode) with msgs[0] the error text.
func VerifConvertLoad(cfgYAML, rulesYAML []byte) (main any, rules *V2SamplerConfig, fatal string, msgs []string) {
	opts := &CmdEnv{}
	cData := []configData{NewConfigData(cfgYAML, FormatYAML, "converted-config.yaml")}
	rData := []configData{NewConfigData(rulesYAML, FormatYAML, "converted-rules.yaml")}
	fc, err := newFileConfig(opts, cData, rData)
	if fc == nil {
		var fce *FileConfigError
		if errors.As(err, &fce) {
			for _, r := range fce.ConfigResults {
				if r.IsError() {
					msgs = append(msgs, "config: "+r.Message)
				}
			}
			for _, r := range fce.RulesResults {
				if r.IsError() {
					msgs = append(msgs, "rules: "+r.Message)
				}
			}
			sort.Strings(msgs)
			return nil, nil, "invalid", msgs
		}
		m := "nil"
		if err != nil {
			m = err.Error()
		}
		return nil, nil, "error", []string{m}
	}
	return fc.mainConfig, fc.rulesConfig, "", nil
}

// VerifConvertMemUnits lists, in the order MemorySize.MarshalText tries them, every unit it can
// print: the divisor, the suffix it prints, and the scalar MemorySize.UnmarshalText applies when
// it reads that suffix back (0 when it does not know it).
func VerifConvertMemUnits() (sizes []uint64, names []string, parsed []uint64) {
	for _, u := range unitSlice {
		n, ok := reverseUnitMap[u]
		if !ok {
			continue
		}
		sizes = append(sizes, u)
		names = append(names, n)
		parsed = append(parsed, unitMap[strings.ToLower(n)])
	}
	return
}
