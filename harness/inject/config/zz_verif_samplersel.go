//go:build verif

package config

// Accessor for the `samplersel` harness (property C14).
// Unexported names touched: newFileConfig, configData (through NewConfigData), fileConfig.callbacks.

// VerifSamplerselNewFileConfig loads a main configuration and a rules file (both YAML text) through the
// real loader (validation unless noValidate, defaults, YAML decoding) and returns the real
// *fileConfig as a Config.  A non-nil Config together with a non-nil error means warnings only,
// exactly as NewConfig treats it.
func VerifSamplerselNewFileConfig(mainYAML, rulesYAML []byte, noValidate bool) (Config, error) {
	opts := &CmdEnv{NoValidate: noValidate}
	cfg, err := newFileConfig(opts,
		[]configData{NewConfigData(mainYAML, FormatYAML, "verif-main.yaml")},
		[]configData{NewConfigData(rulesYAML, FormatYAML, "verif-rules.yaml")})
	if cfg == nil {
		return nil, err
	}
	cfg.callbacks = make([]ConfigReloadCallback, 0)
	return cfg, err
}
