//go:build verif

package config

// Accessors for the C29 (settings) verification harness.  Unexported names touched:
// fileConfig.mainConfig, configContents, expandEnvVarsInString, envGetterFunc.

// VerifSettingsContents returns a fresh, empty main-config struct (for enumerating its fields by
// reflection).
func VerifSettingsContents() any { return &configContents{} }

// VerifSettingsMain returns the main-config struct a loaded Config reads its getters from.
func VerifSettingsMain(c Config) any {
	f, ok := c.(*fileConfig)
	if !ok || f == nil {
		return nil
	}
	f.mux.RLock()
	defer f.mux.RUnlock()
	return f.mainConfig
}

// VerifSettingsExpand is the real string-level expansion with the real (os.Getenv) getter.
func VerifSettingsExpand(s string) string { return expandEnvVarsInString(s, envGetterFunc) }
