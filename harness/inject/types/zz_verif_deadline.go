//go:build verif

package types

// Accessors for the `deadline` verification harness (property C07).  Compiled in only through
// `go build -tags verif -overlay`; never part of /repo.
// Unexported names touched: cacheImpactFactor, Trace.totalImpact.

// VerifDeadlineCacheImpactFactor returns the package constant used by Span.CacheImpact.
func VerifDeadlineCacheImpactFactor() int { return cacheImpactFactor }

// VerifDeadlineTotalImpact reads the memoised Trace.CacheImpact value without computing it
// (calling CacheImpact would memoise, i.e. change what a later ejection sees).
func VerifDeadlineTotalImpact(t *Trace) int { return t.totalImpact }
