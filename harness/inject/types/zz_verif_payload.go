//go:build verif

package types

import "sort"

// Accessors for the `payload` harness (properties C21, C20).
// Unexported names touched: metadataFields (+ its expectedType), Payload.memoizedFields,
// Payload.missingFields.

// VerifPayloadMetaTable returns the reserved metadata field table of the code:
// name -> "str" | "bool" | "int" (the expectedType of each entry of metadataFields).
func VerifPayloadMetaTable() map[string]string {
	out := make(map[string]string, len(metadataFields))
	for k, f := range metadataFields {
		switch f.expectedType {
		case FieldTypeString:
			out[k] = "str"
		case FieldTypeBool:
			out[k] = "bool"
		case FieldTypeInt64:
			out[k] = "int"
		default:
			out[k] = "other"
		}
	}
	return out
}

// VerifPayloadState lists (sorted) the keys a payload holds memoized and the keys it has recorded
// as missing.
func VerifPayloadState(p *Payload) (memo []string, missing []string) {
	for k := range p.memoizedFields {
		memo = append(memo, k)
	}
	sort.Strings(memo)
	missing = append(missing, p.missingFields...)
	sort.Strings(missing)
	return
}
