//go:build verif

package types

import "sort"

// Accessors for the `samplersel` harness (property C14).
// Unexported names touched: Payload.memoizedFields, Payload.missingFields.

// VerifSamplerselMemo lists (sorted) the field names a payload has memoized and the names it has
// recorded as missing: after ingestion this is exactly what NewCoreFieldsUnmarshaler's field
// selection extracted, resp. looked for and did not find.
func VerifSamplerselMemo(p *Payload) (memo []string, missing []string) {
	for k := range p.memoizedFields {
		memo = append(memo, k)
	}
	sort.Strings(memo)
	missing = append(missing, p.missingFields...)
	sort.Strings(missing)
	return
}
