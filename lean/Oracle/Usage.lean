import Oracle.Lib
import Refinery.Model.Usage
/-
Oracle for the usage tracker + agent send loop (C34).
case args: mode=agent|raw|loop
ops:  add <sig> <reading> | report | sent | fail | tick <script> <mids>
      script = one letter per SendCustomMessage answer: a accepted, p pending (channel closed later),
      e error, A accepted / P pending with a channel that is never closed before shutdown
obs:  add/sent/fail : <state>
      report        : ok r=<points> <state> | nodata <state> | negative <state>
      tick          : res=<nil|nodata|negative|senderr|pending|ctx|dead> sends=<n> made=<points|none> got=<points|none> <state>
loop mode (the real reportUsagePeriodically goroutine on the fake clock, one-slot client):
      ops  add <sig> <reading> | ltick <a|e> | confirm <a|e> | other
      obs  [closed=<none|report|other>] [other=<ok|busy>] [acc=<points;points|none> sends=<n>] insend=<n> slot=<free|report|other> <state>
<state>  = cur=<sig:v,…|-> last=<…> lu=<v0,v1,v2,v3>
<points> = <sig:v1+v2,…> (values ascending)
-/
open Refinery.Model.Usage Oracle

def nsig : Nat := 4

/-- which tracker the oracle predicts: `false` = the code as it is (`lastDataPoints` overwritten),
`true` = the repaired tracker of `conservation_fixed` (flip when the repair lands in /repo). -/
def variant : Bool := true

def insInt (x : Int) : List Int → List Int
  | [] => [x]
  | y :: t => if x ≤ y then x :: y :: t else y :: insInt x t

def sortInts (l : List Int) : List Int := l.foldr insInt []

def joinOr (l : List String) : String := if l.isEmpty then "-" else ",".intercalate l

def bagStr (b : Bag) : String :=
  joinOr ((List.range nsig).filterMap fun s => if has s b then some s!"{s}:{tot s b}" else none)

def stateStr (st : St) : String :=
  s!"cur={bagStr st.cur} last={bagStr st.last} lu={",".intercalate ((List.range nsig).map fun s => toString (st.lastUsage s))}"

def pointsStr (r : Report) : String :=
  joinOr ((List.range nsig).filterMap fun s =>
    let p := sortInts (r.points s)
    if p.isEmpty then none else some s!"{s}:{"+".intercalate (p.map toString)}")

/-- the agent's `sendUsageReport` = the model's `astep … (.tick deliver mids)`; the observation is
the error class, the number of `SendCustomMessage` calls, the report made and the report accepted. -/
def parseScript (s : String) : Option (List Resp) :=
  if s.isEmpty then none else
  s.toList.mapM fun c => match c with
    | 'a' => some Resp.acc | 'A' => some Resp.accHang | 'p' => some Resp.pend
    | 'P' => some Resp.pendHang | 'e' => some Resp.err | _ => none

def tick (st : St) (script : List Resp) (mids : List (Nat × Nat)) : St × Bool × String :=
  let lr := loopRes script
  let st3 := astep variant st (AOp.ofScript script mids)
  match (step variant st .report).2 with
  | .report r =>
    let res := match lr.fin with
      | .completed => "nil" | .sendErr => "senderr" | .stillPending => "pending" | .cancelled => "ctx"
    let got := if lr.accepted then pointsStr r else "none"
    (st3, lr.dead, s!"res={res} sends={lr.sends} made={pointsStr r} got={got} {stateStr st3}")
  | .noData => (st3, false, s!"res=nodata sends=0 made=none got=none {stateStr st3}")
  | .negative => (st3, false, s!"res=negative sends=0 made=none got=none {stateStr st3}")
  | .none => (st3, false, "bad-op")

def parseMids (s : String) : Option (List (Nat × Nat)) :=
  if s == "-" then some [] else
    (s.splitOn ",").mapM fun m =>
      match m.splitOn ":" with
      | [a, b] => match a.toNat?, b.toNat? with
        | some a, some b => if a < nsig then some (a, b) else none
        | _, _ => none
      | _ => none

structure OSt where
  st : St := {}
  dead : Bool := false      -- the agent was shut down (a hanging answer was consumed: the real loop's
                            -- behaviour after that is a race, the harness does not run it)
  loop : Bool := false      -- mode=loop: the tracker state is `l.st`
  l : LSt := {}

def loopInfo (l : LSt) : String :=
  let ins := match l.phase with | .idle => 0 | _ => 1
  let slot := match l.slot with | .free => "free" | .other => "other" | .report _ => "report"
  s!"insend={ins} slot={slot} {stateStr l.st}"

def accStr (acc : List Report) : String :=
  if acc.isEmpty then "none" else ";".intercalate (acc.map pointsStr)

def loopStep (sd : OSt) (op : List String) : OSt × Option String :=
  let l := sd.l
  let flag (x : String) : Option Bool := if x == "a" then some true else if x == "e" then some false else none
  match op with
  | ["add", s, v] => match s.toNat?, v.toNat? with
    | some s, some v =>
      if s < nsig then let r := lstep variant l (.add s v); ({ sd with l := r.l }, some (loopInfo r.l))
      else (sd, some "bad-op")
    | _, _ => (sd, some "bad-op")
  | ["ltick", x] => match flag x with
    | some a =>
      let r := lstep variant l (.tick a)
      ({ sd with l := r.l }, some s!"acc={accStr r.acc} sends={r.sends} {loopInfo r.l}")
    | none => (sd, some "bad-op")
  | ["confirm", x] => match flag x with
    | some a =>
      let closed := match l.slot with | .free => "none" | .other => "other" | .report _ => "report"
      let r := lstep variant l (.confirm a)
      ({ sd with l := r.l }, some s!"closed={closed} acc={accStr r.acc} sends={r.sends} {loopInfo r.l}")
    | none => (sd, some "bad-op")
  | ["other"] =>
    let ok := match l.slot with | .free => "ok" | _ => "busy"
    let r := lstep variant l .other
    ({ sd with l := r.l }, some s!"other={ok} {loopInfo r.l}")
  | _ => (sd, some "bad-op")

def usageStep (sd : OSt) (op : List String) (_ : List (List String)) : OSt × Option String :=
  if sd.loop then loopStep sd op else
  let st := sd.st
  let dead := sd.dead
  let mk (st' : St) (d : Bool) : OSt := { sd with st := st', dead := d }
  match op with
  | ["add", s, v] => match s.toNat?, v.toNat? with
    | some s, some v =>
      if s < nsig then let st' := (step variant st (.add s v)).1; (mk st' dead, some (stateStr st'))
      else (sd, some "bad-op")
    | _, _ => (sd, some "bad-op")
  | ["report"] =>
    match step variant st .report with
    | (st', .report r) => (mk st' dead, some s!"ok r={pointsStr r} {stateStr st'}")
    | (st', .noData) => (mk st' dead, some s!"nodata {stateStr st'}")
    | (st', .negative) => (mk st' dead, some s!"negative {stateStr st'}")
    | (st', .none) => (mk st' dead, some "bad-op")
  | ["sent"] => let st' := (step variant st .sent).1; (mk st' dead, some (stateStr st'))
  | ["fail"] => let st' := (step variant st .fail).1; (mk st' dead, some (stateStr st'))
  | ["tick", sc, mids] =>
    match parseScript sc, parseMids mids with
    | some script, some ms =>
      if dead then (sd, some s!"res=dead sends=0 made=none got=none {stateStr st}")
      else let (st', d, obs) := tick st script ms; (mk st' d, some obs)
    | _, _ => (sd, some "bad-op")
  | _ => (sd, some "bad-op")

/-! ## Monitor: C34 on the implementation's own observations -/

abbrev Vec := Nat → Int
def vzero : Vec := fun _ => 0
def vset (v : Vec) (i : Nat) (x : Int) : Vec := fun j => if j = i then x else v j
def vadd (a b : Vec) : Vec := fun j => a j + b j

structure MSt where
  growth : Vec := vzero        -- last non-zero reading fed to Add, per signal
  sent : Vec := vzero          -- usage in reports the client accepted / completeSend confirmed
  held : Option Vec := none    -- totals of the report the caller holds (raw ops)
  pcur : Vec := vzero          -- implementation's currentDataPoints after the previous op
  plast : Vec := vzero         -- implementation's lastDataPoints after the previous op
  carried : Vec := vzero       -- implementation's lastDataPoints just before the latest report
  disc : Vec := vzero          -- growth − sent − waiting at the last check (already reported)
  off : Bool := false          -- completeSend with nothing held: not a history of the agent
  overlap : Bool := false      -- loop mode: two sendUsageReport calls were in progress at once

def parseMap (s : String) : Vec :=
  if s == "-" then vzero else
    (s.splitOn ",").foldl (fun v e =>
      match e.splitOn ":" with
      | [a, b] => match a.toNat?, b.toInt? with
        | some a, some b => vset v a b
        | _, _ => v
      | _ => v) vzero

/-- points string → list of (signal, values); `none` for "none"/unparsable -/
def parsePoints (s : String) : Option (List (Nat × List Int)) :=
  if s == "-" then some [] else
    (s.splitOn ",").mapM fun e =>
      match e.splitOn ":" with
      | [a, b] => match a.toNat?, (b.splitOn "+").mapM String.toInt? with
        | some a, some vs => some (a, vs)
        | _, _ => none
      | _ => none

def pointsTotal (p : List (Nat × List Int)) : Vec :=
  p.foldl (fun v e => vset v e.1 (v e.1 + e.2.foldl (· + ·) 0)) vzero

def negFails (what : String) (p : List (Nat × List Int)) : List Fail :=
  p.filterMap fun e =>
    if e.2.any (· < 0) then
      some { prop := "C34", sig := "C34:negative-data-point", what := s!"{what} has a negative data point for signal {e.1}" }
    else none

/-- conservation at a point where no report is in flight: sent + waiting = growth, per signal.
`failure`: the check follows a report that was made but not accepted; `claimed`: … and the loop
nevertheless returned nil. -/
def check (m : MSt) (cur last : Vec) (failure : Bool) (claimed : Bool := false) : MSt × List Fail :=
  if m.off then (m, []) else
  let r := (List.range nsig).foldl (fun (acc : Vec × List Fail) s =>
    let d := m.growth s - m.sent s - cur s - last s
    let old := m.disc s
    if d = old then acc
    else
      let f : Fail :=
        if d > old then
          if claimed then
            { prop := "C34", sig := "C34:usage-lost:cleared-without-accepted-send",
              what := s!"signal {s}: the send loop reported success and cleared the unsent data points although the client accepted no message (growth {m.growth s}, sent {m.sent s}, waiting {cur s + last s}: unaccounted usage went from {old} to {d})" }
          else if failure && m.carried s > 0 && d - old = m.carried s then
            { prop := "C34", sig := "C34:usage-lost:failed-send-drops-carried-pending",
              what := s!"signal {s}: a failed report carried {m.carried s} from an earlier failed report; that usage is in no later report and not pending (growth {m.growth s}, sent {m.sent s}, waiting {cur s + last s})" }
          else
            { prop := "C34", sig := "C34:usage-lost:unexplained",
              what := s!"signal {s}: growth {m.growth s}, sent {m.sent s}, waiting {cur s + last s}: unaccounted usage went from {old} to {d}" }
        else
          { prop := "C34", sig := "C34:double-count",
            what := s!"signal {s}: growth {m.growth s}, sent {m.sent s}, waiting {cur s + last s}: sent + waiting grew by more than the counter (unaccounted usage went from {old} to {d})" }
      (vset acc.1 s d, acc.2 ++ [f])) (m.disc, [])
  ({ m with disc := r.1 }, r.2)

def noteAdd (m : MSt) (s v : Nat) : MSt :=
  if v = 0 then m else { m with growth := vset m.growth s v }

def usageMon (m : MSt) (op : List String) (_ : List (List String)) (obs : Option String) : MSt × List Fail :=
  match obs with
  | none => (m, [])
  | some o =>
    let toks := o.splitOn " "
    match kv toks "cur", kv toks "last" with
    | some c, some l =>
      let cur := parseMap c
      let last := parseMap l
      let fin (p : MSt × List Fail) : MSt × List Fail := ({ p.1 with pcur := cur, plast := last }, p.2)
      match kv toks "insend" with
      | some ins =>
        -- loop mode: the real reporting loop; conservation is judged at quiescence (no
        -- sendUsageReport in progress, no report occupying the client's slot)
        let n := ins.toNat?.getD 0
        let m := match op with
          | ["add", s, v] => noteAdd m (s.toNat?.getD 0) (v.toNat?.getD 0)
          | _ => m
        let accs := match kv toks "acc" with
          | some a => if a == "none" then [] else (a.splitOn ";").map parsePoints
          | none => []
        let (m, f1) := accs.foldl (fun (p : MSt × List Fail) a => match a with
          | some pts => ({ p.1 with sent := vadd p.1.sent (pointsTotal pts) }, p.2 ++ negFails "report" pts)
          | none => (p.1, p.2 ++ [{ prop := "C34", sig := "C34:unreadable-report", what := o : Fail }])) (m, [])
        let m := { m with overlap := m.overlap || n ≥ 2 }
        if n == 0 && kv toks "slot" != some "report" then
          let (m, f2) := check m cur last false
          let f2 := f2.map fun f =>
            if !m.overlap then f
            else if f.sig.startsWith "C34:double-count" then
              { f with sig := "C34:double-count:overlapping-sends", what := "reports were built while an earlier one was unconfirmed; " ++ f.what }
            else if f.sig.startsWith "C34:usage-lost" then
              { f with sig := "C34:usage-lost:overlapping-sends", what := "reports were built while an earlier one was unconfirmed; " ++ f.what }
            else f
          fin (m, f1 ++ f2)
        else fin (m, f1)
      | none =>
      match op with
      | ["add", s, v] =>
        let m := noteAdd m (s.toNat?.getD 0) (v.toNat?.getD 0)
        if m.held.isNone then fin (check m cur last false) else fin (m, [])
      | ["report"] =>
        if toks.head? == some "ok" then
          -- a report still held is abandoned: that is a failed send, judged on the state before
          let (m, f1) := if m.held.isSome then check { m with held := none } m.pcur m.plast true else (m, [])
          match (kv toks "r").bind parsePoints with
          | some p => fin ({ m with held := some (pointsTotal p), carried := m.plast }, f1 ++ negFails "report" p)
          | none => fin (m, f1 ++ [{ prop := "C34", sig := "C34:unreadable-report", what := o }])
        else fin (m, [])
      | ["sent"] =>
        match m.held with
        | some t => fin (check { m with sent := vadd m.sent t, held := none } cur last false)
        | none => fin ({ m with off := true }, [])
      | ["fail"] =>
        let was := m.held.isSome
        fin (check { m with held := none } cur last was)
      | ["tick", _, mids] =>
        -- a report still held by a raw `report` is abandoned by this tick
        let (m, f0) := if m.held.isSome then check { m with held := none } m.pcur m.plast true else (m, [])
        let made := (kv toks "made").getD "none"
        let got := (kv toks "got").getD "none"
        let m := if made == "none" then m else
          ((parseMids mids).getD []).foldl (fun m x => noteAdd m x.1 x.2) { m with carried := m.plast }
        let f1 := if made == "none" then [] else
          match parsePoints made with
          | some p => negFails "report" p
          | none => [{ prop := "C34", sig := "C34:unreadable-report", what := made : Fail }]
        let (m, f2) := if got == "none" then (m, []) else
          match parsePoints got with
          | some p => ({ m with sent := vadd m.sent (pointsTotal p) }, [])
          | none => (m, [{ prop := "C34", sig := "C34:bad-delivery", what := got : Fail }])
        let res := (kv toks "res").getD ""
        let noAcc := made != "none" && got == "none"
        -- shutdown (ctx / dead): whatever is waiting dies with the process; nothing is judged any more
        let (m, f3) := if res == "ctx" || res == "dead" then ({ m with off := true }, [])
          else check m cur last noAcc (noAcc && res == "nil")
        fin (m, f0 ++ f1 ++ f2 ++ f3)
      | _ => fin (m, [])
    | _, _ => (m, [])

def comp : Component OSt MSt where
  init := fun args => { loop := (kv args "mode") == some "loop" }
  step := usageStep
  minit := fun _ => {}
  mon := usageMon

def main : IO Unit := do runLoop comp (← IO.getStdin)
