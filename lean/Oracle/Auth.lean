import Oracle.Lib
import Refinery.Model.Auth
/-
Oracle for ingest authorization and key replacement (C24).
case args: mode=<enc> aolk=<0|1> sk=<enc> rk=<enc,..|-> rkid=<enc,..|-> auth=… grid=<0|1>
op:        req ep=<endpoint> hdr=<long|short|none> key=<enc>
           reconf mode=… aolk=… sk=… rk=… rkid=…      (configuration reloaded; no obs)
ext:       legacy <enckey> = <0|1>        authid <enckey> = <encid>
obs:       st=<ok|unauth|other:..> why=<-|unlisted|blank|nohdr|other> sent=<enc,..|->

Tokens are percent-encoded by the harness kit (`Enc`); the harness only produces ASCII.
-/
open Refinery.Model.Auth Oracle

def hexDigit (n : Nat) : Char := "0123456789ABCDEF".toList.getD n '0'

def unhex (c : Char) : Nat :=
  if '0' ≤ c ∧ c ≤ '9' then c.toNat - '0'.toNat
  else if 'A' ≤ c ∧ c ≤ 'F' then c.toNat - 'A'.toNat + 10
  else if 'a' ≤ c ∧ c ≤ 'f' then c.toNat - 'a'.toNat + 10
  else 0

def encOK (c : Char) : Bool :=
  c.isAlphanum || c == '.' || c == '_' || c == ':' || c == '/' || c == '+' || c == '-'

/-- kit.Enc (ASCII) -/
def enc (s : String) : String :=
  if s == "" then "%" else
    String.ofList (s.toList.flatMap fun c =>
      if encOK c then [c] else ['%', hexDigit (c.toNat / 16), hexDigit (c.toNat % 16)])

def decChars : List Char → List Char
  | '%' :: a :: b :: rest => Char.ofNat (unhex a * 16 + unhex b) :: decChars rest
  | c :: rest => c :: decChars rest
  | [] => []

/-- kit.Dec (ASCII) -/
def dec (s : String) : String := if s == "%" then "" else String.ofList (decChars s.toList)

def decList (s : String) : List String :=
  if s == "-" || s == "" then [] else (s.splitOn ",").map dec

def encList (l : List String) : String :=
  if l.isEmpty then "-" else ",".intercalate (l.map enc)

def cfgOf (args : List String) : Cfg :=
  { receiveKeys := decList ((kv args "rk").getD "-")
    receiveKeyIDs := decList ((kv args "rkid").getD "-")
    sendKey := dec ((kv args "sk").getD "%")
    sendKeyMode := dec ((kv args "mode").getD "none")
    acceptOnlyListed := (kv args "aolk").getD "0" == "1" }

/-- the external functions, as far as this operation exercised them (`ext` lines) -/
def envOf (exts : List (List String)) : Env :=
  let look (fn key : String) : Option String := exts.findSome? fun e =>
    match e with
    | [f, k, "=", v] => if f == fn && dec k == key then some v else none
    | _ => none
  { legacy := fun k => look "legacy" k == some "1"
    authID := fun k => dec ((look "authid" k).getD "%")
    huskyOK := fun k => k != "" }

def endpointOf : String → Option Endpoint
  | "event" => some .event
  | "batch" => some .batch
  | "otlp-traces-http" => some .otlpTracesHTTP
  | "otlp-logs-http" => some .otlpLogsHTTP
  | "otlp-traces-grpc" => some .otlpTracesGRPC
  | "otlp-logs-grpc" => some .otlpLogsGRPC
  | "v1-mw" => some .event      -- one kept instance of `apiKeyProcessor`: the same composition as the /1/ endpoints
  | _ => none

def whyStr : Why → String
  | .unlisted => "unlisted" | .blank => "blank" | .nohdr => "nohdr"

def resultStr : Result → String
  | .rejected w => s!"st=unauth why={whyStr w} sent=-"
  | .failed => "st=other:500 why=nohdr sent=-"
  | .sent k => s!"st=ok why=- sent={enc k}"

structure Req where
  ep : Endpoint
  epName : String
  long : String
  short : String

def parseReq (op : List String) : Option Req :=
  match op with
  | "req" :: rest =>
    match (kv rest "ep"), (kv rest "hdr"), (kv rest "key") with
    | some e, some h, some k =>
      match endpointOf e with
      | none => none
      | some ep =>
        let key := dec k
        match h with
        | "long" => some { ep := ep, epName := e, long := key, short := "" }
        | "short" => some { ep := ep, epName := e, long := "", short := key }
        | "none" => some { ep := ep, epName := e, long := "", short := "" }
        | _ => none
    | _, _, _ => none
  | _ => none

def authStep (c : Cfg) (op : List String) (exts : List (List String)) : Cfg × Option String :=
  match op with
  | "reconf" :: args => (cfgOf args, none)    -- every endpoint reads the configuration in force per request
  | _ =>
  match parseReq op with
  | none => (c, some "bad-op")
  | some r => (c, some (resultStr (serve r.ep c (envOf exts) r.long r.short)))

/-- C24 monitor, on the implementation's observation only.  Expected outcome = the property's own
words: accepted iff `AcceptOnlyListedKeys` is off or the client's key is `SendKey` / listed / listed
by key ID; upstream key from the documented table (`docOutcome`); nothing leaves blank.  Not applied
to configurations that list the empty string as a receive key (the documentation does not say
whether such a blank key is "blank" or "listed"); those are covered by the model comparison only. -/
def authMon (c : Cfg) (op : List String) (exts : List (List String)) (obs : Option String) : Cfg × List Fail :=
  match op with
  | "reconf" :: args => (cfgOf args, [])
  | _ =>
  match parseReq op, obs with
  | some r, some o =>
    -- the property is observed at the ingest endpoints; the kept `apiKeyProcessor` instance
    -- (`ep=v1-mw`) is compared with the model only
    if r.epName == "v1-mw" then (c, []) else
    let toks := o.splitOn " "
    let st := (kv toks "st").getD "?"
    let sent := decList ((kv toks "sent").getD "-")
    let env := envOf exts
    let k := clientKey r.ep r.long r.short
    let kid := keyIDOf c env k
    let cl := classify c k kid
    let ctx := s!"ep={r.epName}:mode={enc c.sendKeyMode}"
    let mk (sig what : String) : Fail := { prop := "C24", sig := sig, what := what }
    let blankOut := if sent.any (· == "") then
        [mk s!"C24:blank-key-upstream:{ctx}:key={cl.name}" s!"an event left with a blank API key ({r.epName}, client key class {cl.name})"]
      else []
    let statusFail := if st != "ok" && st != "unauth" then
        [mk s!"C24:unexpected-status:ep={r.epName}:st={st}" s!"well-formed request answered with status {st}"]
      else []
    let refusedButSent := if st != "ok" && !sent.isEmpty then
        [mk s!"C24:refused-but-sent:{ctx}:key={cl.name}" s!"request refused ({st}) but {sent.length} event(s) left"]
      else []
    let wf := !c.receiveKeys.contains ""
    let specFails :=
      if !wf then [] else
      let accepted := acceptedByClass c cl
      let expected : Option String :=
        if !accepted then none
        else match Mode.ofName? c.sendKeyMode with
          | some m => docReplace c m k kid
          | none => realize "" k .keep
      match expected with
      | none =>
        if st == "ok" || !sent.isEmpty then
          if !accepted then
            [mk s!"C24:accepted-unauthorised-key:{ctx}:key={cl.name}"
              s!"AcceptOnlyListedKeys is on and the client's key ({cl.name}) is neither listed nor SendKey, yet {r.epName} accepted it (upstream keys: {encList sent})"]
          else
            [mk s!"C24:accepted-blank-key:{ctx}" s!"no key to send with, yet {r.epName} accepted the request"]
        else []
      | some want =>
        if st != "ok" then
          [mk s!"C24:refused-authorised-key:{ctx}:key={cl.name}" s!"{r.epName} refused ({st}) a request the documentation accepts"]
        else if sent != [want] then
          let got := match sent with
            | [] => "nothing"
            | [g] => if g == k then "client" else if g == c.sendKey then "sendkey" else "other"
            | _ => "several"
          [mk s!"C24:wrong-upstream-key:{ctx}:key={cl.name}:sent={got}"
            s!"documented upstream key {enc want}, implementation sent {encList sent}"]
        else []
    (c, blankOut ++ statusFail ++ refusedButSent ++ specFails)
  | _, _ => (c, [])

def comp : Component Cfg Cfg where
  init := cfgOf
  step := authStep
  minit := cfgOf
  mon := authMon

def main : IO Unit := do runLoop comp (← IO.getStdin)
