import Oracle.Lib
import Refinery.Model.TraceKey
import Refinery.Gen.Tracekey
/-
Oracle for `sample/trace_key.go` + the `GetSampleRate` tail of the dynsampler-backed samplers (C11).

case args:  fields=<enc,enc,…|-> tl=0|1
ops:        key <trace>
            sample <kind> <forced|-> <seed> <trace>
trace:      spans joined by '|' ('-' none); span = ['*'] fields joined by ';' ('_' none);
            field = <enc name>=<type>~<enc raw>
types:      s string, b bool, n nil, int|int8|int16|int32|int64|uint|uint8|uint16|uint32|uint64 (raw = the
            number in decimal), f float64 (raw = shortest round-trip text), a other ([]any{raw,1})
ext:        str <type> <enc raw> = <enc strconv.FormatFloat(v,'f',-1,64) | fmt %v>   (types f, a only; Go stdlib
            fmt <type> <enc raw> = <enc fmt.Sprintf("%v", v)>                        computed by the harness)
            dynrate = <r>     dyncall <enc key> <count>     intn <n> = <d>
obs:        k=<enc key> n=<count>      |   rate=<r> keep=<0|1> reason=<kind> k=<enc key>
-/
open Refinery.Model.TraceKey Oracle

namespace TK

/-! ## percent coding (as `verifkit.Enc/Dec`) -/

def hexDigit (n : Nat) : Char := "0123456789ABCDEF".toList.getD n '0'

def safeByte (b : UInt8) : Bool :=
  let c := Char.ofNat b.toNat
  c.isAlphanum || c == '.' || c == '_' || c == ':' || c == '/' || c == '+' || c == '-'

def enc (s : String) : String :=
  if s.isEmpty then "%" else
  String.ofList <| s.toUTF8.toList.flatMap fun b =>
    if safeByte b then [Char.ofNat b.toNat] else ['%', hexDigit (b.toNat / 16), hexDigit (b.toNat % 16)]

def unhex (c : Char) : Nat :=
  if c.isDigit then c.toNat - '0'.toNat
  else if 'A' ≤ c && c ≤ 'F' then c.toNat - 'A'.toNat + 10
  else if 'a' ≤ c && c ≤ 'f' then c.toNat - 'a'.toNat + 10
  else 0

def decBytes : List Char → List UInt8
  | '%' :: a :: b :: t => UInt8.ofNat (unhex a * 16 + unhex b) :: decBytes t
  | c :: t => UInt8.ofNat c.toNat :: decBytes t
  | [] => []

def dec (s : String) : Option String :=
  if s == "%" then some "" else String.fromUTF8? ⟨(decBytes s.toList).toArray⟩

/-! ## parsing -/

def intTypes : List String :=
  ["int", "int8", "int16", "int32", "int64", "uint", "uint8", "uint16", "uint32", "uint64"]

def parseVal (ty raw : String) : Option Val :=
  if ty == "s" then some (.str raw)
  else if ty == "b" then (if raw == "true" then some (.bool true) else if raw == "false" then some (.bool false) else none)
  else if ty == "n" then some .nil
  else if intTypes.contains ty then raw.toInt?.map (.int ty)
  else if ty == "f" || ty == "a" then some (.ext ty raw)
  else none

def parseField (tok : String) : Option (String × Val) :=
  match tok.splitOn "=" with
  | [n, tv] =>
    match tv.splitOn "~" with
    | [ty, raw] => do
      let n ← dec n
      let raw ← dec raw
      let v ← parseVal ty raw
      some (n, v)
    | _ => none
  | _ => none

/-- one span token → (root flag, span) -/
def parseSpan (tok : String) : Option (Bool × Span) :=
  let (root, body) := if tok.startsWith "*" then (true, (tok.drop 1).toString) else (false, tok)
  if body == "_" || body == "" then some (root, [])
  else do
    let fs ← (body.splitOn ";").mapM parseField
    some (root, fs)

def parseTrace (tok : String) : Option Trace :=
  if tok == "-" then some ⟨[], none⟩
  else do
    let sps ← (tok.splitOn "|").mapM parseSpan
    some ⟨sps.map (·.2), (sps.find? (·.1)).map (·.2)⟩

def parseFields (s : String) : Option (List String) :=
  if s == "-" || s == "" then some [] else (s.splitOn ",").mapM dec

/-! ## renderings supplied by the harness -/

abbrev Tab := List ((String × String) × String)

structure Tabs where
  str : Tab := []
  fmt : Tab := []

def Tabs.add (t : Tabs) (exts : List (List String)) : Tabs :=
  exts.foldl (fun t e =>
    match e with
    | ["str", ty, raw, "=", r] =>
      match dec raw, dec r with
      | some raw, some r => { t with str := ((ty, raw), r) :: t.str }
      | _, _ => t
    | ["fmt", ty, raw, "=", r] =>
      match dec raw, dec r with
      | some raw, some r => { t with fmt := ((ty, raw), r) :: t.fmt }
      | _, _ => t
    | _ => t) t

def Tabs.has (t : Tabs) : Val → Bool
  | .ext ty raw => (t.str.lookup (ty, raw)).isSome && (t.fmt.lookup (ty, raw)).isSome
  | _ => true

def Tabs.covers (t : Tabs) (tr : Trace) : Bool :=
  tr.spans.all fun sp => sp.all fun fv => t.has fv.2

def Tabs.ext (t : Tabs) : Ext :=
  ⟨fun ty raw => (t.str.lookup (ty, raw)).getD "?", fun ty raw => (t.fmt.lookup (ty, raw)).getD "?"⟩

/-- the reference rendering: plain types by the model, floats/others by the Go standard library -/
def Tabs.render (t : Tabs) : Render := renderOf t.ext

def cap : Nat := Refinery.Gen.Tracekey.maxKeyLength.toNat
def pre : String := Refinery.Gen.Tracekey.rootPrefix

def findExt (exts : List (List String)) (name : String) : Option (List String) :=
  (exts.find? fun e => e.head? == some name).map (·.drop 1)

/-! ## model step -/

structure St where
  cfg : Option Cfg
  tabs : Tabs := {}

def kinds : List String := ["dynamic", "emadynamic", "emathroughput", "windowedthroughput", "totalthroughput"]

def step (s : St) (op : List String) (exts : List (List String)) : St × Option String :=
  let s := { s with tabs := s.tabs.add exts }
  match s.cfg with
  | none => (s, some "bad-header")
  | some cfg =>
    match op with
    | ["key", tt] =>
      match parseTrace tt with
      | none => (s, some "bad-op")
      | some tr =>
        if !s.tabs.covers tr then (s, some "missing-ext") else
        let r := build cap pre s.tabs.render cfg tr
        (s, some s!"k={enc r.1} n={r.2}")
    | ["sample", kind, _forced, _seed, tt] =>
      if !kinds.contains kind then (s, some "bad-op") else
      match parseTrace tt with
      | none => (s, some "bad-op")
      | some tr =>
        if !s.tabs.covers tr then (s, some "missing-ext") else
        match (findExt exts "dynrate") with
        | some ["=", rs] =>
          match rs.toInt? with
          | none => (s, some "bad-ext")
          | some r =>
            -- graph of dynsampler: defined where it was called (when the call was observed)
            let dyn : String → Nat → Option Int := fun k n =>
              match findExt exts "dyncall" with
              | some [ek, cnt] => if dec ek == some k && cnt.toNat? == some n then some r else none
              | some _ => none
              | none => some r
            let k := key cap pre s.tabs.render cfg tr
            match dyn k tr.spans.length with
            | none => (s, some s!"dynsampler-asked-with-other-arguments k={enc k} count={tr.spans.length}")
            | some r =>
              let intn : Nat → Option Nat := fun n =>
                match findExt exts "intn" with
                | some [ns, "=", ds] => if ns.toNat? == some n then ds.toNat? else none
                | _ => none
              -- run the model with the total functions the graphs extend to; a point outside the
              -- graph is reported, never defaulted
              let res := getSampleRate cap pre s.tabs.render cfg tr (fun _ _ => r) (fun n => (intn n).getD 0)
              let rate := res.2.rate
              if (intn rate).isNone then (s, some s!"missing-ext intn {rate}") else
              (s, some s!"rate={rate} keep={if res.2.keep then 1 else 0} reason={kind} k={enc res.1}")
        | _ => (s, some "missing-ext dynrate")
    | _ => (s, some "bad-op")

def initSt (args : List String) : St :=
  let tl := (kv args "tl").getD "0" == "1"
  -- `kv` wants exactly one '=': field names are percent-encoded, so that holds
  match parseFields ((kv args "fields").getD "-") with
  | some fs => { cfg := some ⟨fs, tl⟩ }
  | none => { cfg := none }

/-! ## monitor: the property on the implementation's own observations

For every observed (trace, key) of the case the monitor keeps the trace's *value summary*: per
configured non-root field the set of LOGICAL (type-tagged) values it takes — as the generator
wrote them into the op, not as the code renders them —, per root field the root span's value,
the span count.  Each value carries its reference rendering (plain types: the model's; floats and
others: Go's standard library via `ext`), used only to evaluate the hypotheses "free of the
delimiters" and "different values render differently".  Checked against the earlier
observations of the case:

* same value sets (span count included only under UseTraceLength), fewer than `cap` distinct
  values ⇒ same key                                       (determined / perm / dup invariance)
* different value sets, all fields present, reference renderings free of `•` and `,` and
  pairwise different for different values, below the cap ⇒ different keys       (separation)
and on `sample`: rate ≥ 1, keep ⇔ the draw was 0, dynsampler asked with the returned key and the
span count, no panic whatever dynsampler answered. -/

abbrev RV := Val × String            -- logical value with its reference rendering

structure Summary where
  sets : List (List RV)              -- per non-root field (configured order, duplicates kept)
  roots : List (Option RV)           -- per root field
  len : Nat
  distinct : Nat                     -- number of distinct (field, value) pairs
  allPresent : Bool
  delimFree : Bool
  spans : List Span                  -- for the diagnostic (is it a permutation?)

structure Seen where
  sum : Summary
  key : String

structure MSt where
  fields : List String := []
  tl : Bool := false
  tabs : Tabs := {}
  seen : List Seen := []

def dedupV (l : List RV) : List RV :=
  l.foldl (fun a s => if a.any (·.1 == s.1) then a else s :: a) []

def subsetV (a b : List RV) : Bool := a.all fun s => b.any (·.1 == s.1)
def sameSetV (a b : List RV) : Bool := subsetV a b && subsetV b a

def isDelimFree (s : String) : Bool := !(s.toList.contains '•') && !(s.toList.contains ',')

def summarize (m : MSt) (tr : Trace) : Summary :=
  let nonRoot := m.fields.filter fun f => !hasPrefix pre f
  let rootF := (m.fields.filter fun f => hasPrefix pre f).map (cutPrefix pre)
  let x := m.tabs.render
  let sets := nonRoot.map fun f => dedupV (tr.spans.filterMap fun sp => (sp.lookup f).map fun v => (v, x.conv v))
  let roots := rootF.map fun f => tr.root.bind fun r => (r.lookup f).map fun v => (v, x.fmtv v)
  { sets := sets, roots := roots, len := tr.spans.length,
    distinct := (sets.map (·.length)).sum,
    allPresent := sets.all (fun s => !s.isEmpty) && roots.all (·.isSome),
    delimFree := sets.all (fun s => s.all (isDelimFree ·.2)) && roots.all (fun r => (r.map (isDelimFree ·.2)).getD true),
    spans := tr.spans }

def rootsEq (a b : Summary) : Bool := a.roots.map (·.map (·.1)) == b.roots.map (·.map (·.1))

def sameSets (a b : Summary) : Bool :=
  a.sets.length == b.sets.length && (a.sets.zip b.sets).all (fun p => sameSetV p.1 p.2) && rootsEq a b

def noEmpty (l : List RV) : List RV := l.filter (·.1 != Val.str "")

def sameSetsModuloEmpty (a b : Summary) : Bool :=
  a.sets.length == b.sets.length && (a.sets.zip b.sets).all (fun p => sameSetV (noEmpty p.1) (noEmpty p.2)) &&
    rootsEq a b

/-- different values involved in one field never share a reference rendering -/
def renderInj (a b : Summary) : Bool :=
  (a.sets.zip b.sets).all (fun p =>
    let u := p.1 ++ p.2
    u.all fun v => u.all fun w => v.2 != w.2 || v.1 == w.1) &&
  (a.roots.zip b.roots).all (fun p =>
    match p.1, p.2 with
    | some v, some w => v.2 != w.2 || v.1 == w.1
    | _, _ => true)

def isPerm (a b : List Span) : Bool := a.length == b.length && a.all (fun s => a.count s == b.count s)

def showVals (l : List RV) : String := "{" ++ ",".intercalate (l.map fun v => enc v.2) ++ "}"

def showRoots (s : Summary) : String :=
  "[" ++ ",".intercalate (s.roots.map fun r => (r.map fun v => enc v.2).getD "absent") ++ "]"

def checkKey (m : MSt) (sum : Summary) (k : String) : List Fail :=
  let below (s : Summary) := s.distinct < cap
  let fails := m.seen.filterMap fun o =>
    if !(below sum && below o.sum) then none
    else if sameSets sum o.sum then
      if (!m.tl || sum.len == o.sum.len) && k != o.key then
        let how := if isPerm sum.spans o.sum.spans then "span-order" else "span-multiplicity"
        some { prop := "C11", sig := s!"C11:key-depends-on-{how}",
               what := s!"same distinct value sets but keys {enc o.key} and {enc k}" : Fail }
      else none
    else if sum.allPresent && o.sum.allPresent && sum.delimFree && o.sum.delimFree &&
        renderInj sum o.sum && k == o.key then
      if sameSetsModuloEmpty sum o.sum then
        some { prop := "C11", sig := "C11:key-collision:empty-string-value",
               what := s!"value sets differ only by the empty string, both traces get key {enc k}" : Fail }
      else
        some { prop := "C11", sig := "C11:key-collision:distinct-value-sets",
               what := s!"different value sets {" ".intercalate (sum.sets.map showVals)} root={showRoots sum} / {" ".intercalate (o.sum.sets.map showVals)} root={showRoots o.sum} (reference renderings), same key {enc k}" : Fail }
    else none
  fails.take 1

def remember (m : MSt) (sum : Summary) (k : String) : MSt :=
  if m.seen.any (fun o => o.key == k && sameSets sum o.sum && sum.len == o.sum.len) then m
  else { m with seen := ⟨sum, k⟩ :: m.seen }

def mon (m : MSt) (op : List String) (exts : List (List String)) (obs : Option String) : MSt × List Fail :=
  let m := { m with tabs := m.tabs.add exts }
  let toks := (obs.getD "").splitOn " "
  let trTok := match op with
    | ["key", tt] => some tt
    | ["sample", _, _, _, tt] => some tt
    | _ => none
  match trTok.bind parseTrace with
  | none => (m, [])
  | some tr =>
    if !m.tabs.covers tr then (m, []) else
    let isSample := op.head? == some "sample"
    let dynrate : Option Int := match findExt exts "dynrate" with
      | some ["=", rs] => rs.toInt?
      | _ => none
    if (obs.getD "").startsWith "panic" then
      if isSample then
        (m, [{ prop := "C11", sig := "C11:sampler-panics", what := s!"GetSampleRate panicked (dynsampler answered {dynrate}): {obs.getD ""}" }])
      else (m, [])
    else
    match (kv toks "k").bind dec with
    | none => (m, [])
    | some k =>
      let sum := summarize m tr
      let kf := checkKey m sum k
      let m' := remember m sum k
      if !isSample then (m', kf) else
      let rate := ((kv toks "rate").getD "0").toNat?.getD 0
      let keep := (kv toks "keep").getD "0" == "1"
      let f1 := if rate < 1 then
        [{ prop := "C11", sig := "C11:rate-below-one", what := s!"rate {rate} returned" : Fail }] else []
      let f2 := match findExt exts "intn" with
        | some [ns, "=", ds] =>
          if ns.toNat? == some rate && ds.toNat?.isSome && keep != (ds.toNat? == some 0) then
            [{ prop := "C11", sig := "C11:keep-not-iff-draw-zero",
               what := s!"rand.Intn({rate}) drew {ds} but keep={keep}" : Fail }] else []
        | _ => []
      let f3 := match findExt exts "dyncall" with
        | some [ek, cnt] =>
          if dec ek != some k || cnt.toNat? != some tr.spans.length then
            [{ prop := "C11", sig := "C11:dynsampler-asked-with-other-arguments",
               what := s!"dynsampler asked with ({ek}, {cnt}), returned key {enc k}, {tr.spans.length} spans" : Fail }] else []
        | _ => []
      (m', kf ++ f1 ++ f2 ++ f3)

def minit (args : List String) : MSt :=
  { fields := (parseFields ((kv args "fields").getD "-")).getD [], tl := (kv args "tl").getD "0" == "1" }

def comp : Component St MSt where
  init := initSt
  step := step
  minit := minit
  mon := mon

end TK

def main : IO Unit := do runLoop TK.comp (← IO.getStdin)
