import Oracle.Lib
import Refinery.Model.Health
import Refinery.Gen.Health
/-
Oracle for `internal/health.Health` (C30).
case args: subs=<u> mode=<m>        (informational; subsystems are the naturals the ops mention)
ops:  reg <s> <timeout ns> | unreg <s> | rep <s> <0|1> | adv <ns>
obs:  [n=<ticks> ]a=<IsAlive> r=<IsReady> tl=<s:timeLeft,…> rd=<s:ready,…>   (sorted by s)
The tick period is the code's `health.TickerTime` (Refinery.Gen.Health.tickerTime).
-/
open Refinery Refinery.Model.Health Oracle

def T : Nat := Refinery.Gen.Health.tickerTime.toNat

def b01 (b : Bool) : String := if b then "1" else "0"

def listStr (xs : List String) : String := if xs.isEmpty then "-" else ",".intercalate xs

def stateStr (st : St) : String :=
  let tl := (isort (AList.keys st.timeLeft)).filterMap fun k =>
    (AList.get st.timeLeft k).map fun v => s!"{k}:{v}"
  let rd := (isort (AList.keys st.readies)).filterMap fun k =>
    (AList.get st.readies k).map fun v => s!"{k}:{b01 v}"
  s!"a={b01 (isAlive st)} r={b01 (isReady st)} tl={listStr tl} rd={listStr rd}"

def parseOp : List String → Option TOp
  | ["reg", s, t] => match s.toNat?, t.toInt? with
    | some s, some t => some (.register s t) | _, _ => none
  | ["unreg", s] => s.toNat?.map .unregister
  | ["rep", s, "0"] => s.toNat?.map (.report · false)
  | ["rep", s, "1"] => s.toNat?.map (.report · true)
  | ["adv", d] => d.toNat?.map .adv
  | _ => none

def hStep (ts : TSt) (op : List String) (_ : List (List String)) : TSt × Option String :=
  match parseOp op with
  | none => (ts, some "bad-op")
  | some o =>
    let ts' := tstep T ts o
    let pre := match o with
      | .adv d => s!"n={ticksIn T ts.now d} "
      | _ => ""
    (ts', some (pre ++ stateStr ts'.core))

/-! Monitor: the property evaluated on the implementation's `a=` / `r=` answers, against the
history of operations only (per-subsystem `TTrack`, which is computed from the ops, never from
the model state).  Between `timeout - tick` and `timeout + tick` the property says nothing. -/

structure MSt where
  now : Nat := 0
  tracks : List (Nat × TTrack) := []

def fail (sig what : String) : Fail := { prop := "C30", sig := sig, what := what }

def hMon (m : MSt) (op : List String) (_ : List (List String)) (obs : Option String) : MSt × List Fail :=
  match parseOp op, obs with
  | some o, some ob =>
    let tr0 := match subject o with
      | some s => if m.tracks.any (·.1 == s) then m.tracks else m.tracks ++ [(s, ({ now := m.now } : TTrack))]
      | none => m.tracks
    let m' : MSt := { now := m.now + dur o, tracks := tr0.map fun (s, h) => (s, TTrack.step s h o) }
    let toks := ob.splitOn " "
    match kv toks "a", kv toks "r" with
    | some a, some r =>
      let alive := a == "1"
      let ready := r == "1"
      let Ti : Int := T
      -- per subsystem classification from the history alone
      let silent := m'.tracks.filter fun (_, h) =>
        match h.reg, h.rep with
        | some t, some (at_, _) => decide (0 ≤ t) && decide (t + Ti < ((h.now - at_ : Nat) : Int))
        | _, _ => false
      let safe := m'.tracks.all fun (_, h) =>
        match h.reg, h.rep with
        | some t, some (at_, _) => decide (0 < t) && decide (((h.now - at_ : Nat) : Int) + Ti < t)
        | _, _ => true        -- unregistered, or no report since registration: cannot be dead
      let known := m'.tracks.filter fun (_, h) => h.known
      let unreg := known.filter fun (_, h) => h.reg.isNone
      let unrep := known.filter fun (_, h) => h.reg.isSome && h.rep.isNone
      let unready := known.filter fun (_, h) => match h.rep with | some (_, false) => true | _ => false
      let allGood := !known.isEmpty && known.all fun (_, h) =>
        match h.reg, h.rep with
        | some t, some (at_, true) => decide (0 < t) && decide (((h.now - at_ : Nat) : Int) + Ti < t)
        | _, _ => false
      let ids (l : List (Nat × TTrack)) := natList (l.map (·.1))
      let fs : List Fail :=
        (if !alive && safe then
          [fail "C30:dead-though-every-gap-below-timeout-minus-tick" "IsAlive=false although every reporting subsystem last reported less than timeout-tick ago"] else []) ++
        (if alive && !silent.isEmpty then
          [fail "C30:alive-though-silent-beyond-timeout-plus-tick" s!"IsAlive=true although subsystem(s) {ids silent} have been silent for more than timeout+tick"] else []) ++
        (if ready && known.isEmpty then
          [fail "C30:ready-with-nothing-registered" "IsReady=true with no subsystem ever registered"] else []) ++
        (if ready && !unreg.isEmpty then
          [fail "C30:ready-with-unregistered-subsystem" s!"IsReady=true although subsystem(s) {ids unreg} unregistered"] else []) ++
        (if ready && !unrep.isEmpty then
          [fail "C30:ready-before-report" s!"IsReady=true although subsystem(s) {ids unrep} never reported since registration"] else []) ++
        (if ready && !unready.isEmpty then
          [fail "C30:ready-with-unready-subsystem" s!"IsReady=true although subsystem(s) {ids unready} last reported not ready"] else []) ++
        (if ready && !silent.isEmpty then
          [fail "C30:ready-though-silent-beyond-timeout-plus-tick" s!"IsReady=true although subsystem(s) {ids silent} timed out"] else []) ++
        (if !ready && allGood then
          [fail "C30:not-ready-though-all-reported-ready" "IsReady=false although every subsystem is registered, reported ready less than timeout-tick ago"] else [])
      (m', fs)
    | _, _ =>
      -- a panic inside Health is a property failure (no call of the Recorder/Reporter API may
      -- panic); a harness synchronisation problem (tick-sync-timeout, bad-ticker) is not: it is
      -- left to the model comparison, which reports it as a mismatch without a failing input
      if ob.startsWith "panic" then (m', [fail "C30:panic" s!"Health panicked: {ob}"]) else (m', [])
  | _, _ => (m, [])

def comp : Component TSt MSt where
  init := fun _ => {}
  step := hStep
  minit := fun _ => {}
  mon := hMon

def main : IO Unit := do runLoop comp (← IO.getStdin)
