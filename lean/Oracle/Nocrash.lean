import Oracle.Lib
import Refinery.Model.Startup
import Refinery.Gen.Nocrash
/-
Oracle for property C28 (component `nocrash`).

case args: part=A | part=B

Part A — one rules file per case, built by ops and then run through the real loader/validator,
sampler factory and samplers:
  ver <val> | leaf <group> <shape> k=v… | rules <shape> [list=1] k=v… | rule <shape> [conds=1] [sampler=1] k=v…
  | cond <shape> k=v… | down <group> <shape> k=v…                              (no output)
  load | loadfile        obs: accept | reject | loaderr
  reqkeys                obs: ok | panic:<class> | noload
  start                  obs: ok | panic:<class> | exit | crash:ticker | noload
  eval <trace#>          ext: match = <bits>   obs: ok rate=<n> | panic:<class> | nostart
values: i:<int> f:<thousandths> s:<enc> d:<ns> b:0|1 n: l:<elem>,…  elem = s.<enc> | i.<int> | n.

Part B — malformed requests against a real Router (fuzzing in support of the search, no model):
  req <endpoint> …       obs: st=<status> | grpc=<code> | caught-panic … | panic … | hang <top frame> <refinery frame> | fatal <class> <top frame> <refinery frame>
The model answers `*` (unspecified); the monitor flags panics and hangs.
-/
open Refinery.Model.Startup Oracle

/-- the proposed repairs, one flag per defect; the coordinator sets a flag to `true` when the
corresponding `fix:` commit lands in /repo:
  keyFields    C28:getkeyfields-empty-field-name
  det          C28:deterministic-samplerate-zero-mod-2^32
  intn         C28:intn-negative-dynsampler-rate
  emaInterval  C28:emathroughput-start-error-dropped-nil-map
  ticker       C28:newticker-non-positive-interval
  nullElems    C28:rules-null-rule-nil-dereference, C28:rules-null-condition-nil-dereference
  noSampler    C28:no-sampler-configured-os-exit, C28:empty-downstream-sampler-os-exit
(the batch array-header repair has no flag: the request path has no model) -/
def fixes : Fixes :=
  { keyFields := true, det := true, intn := true, emaInterval := true, ticker := true,
    nullElems := true, noSampler := true }

def md : Meta := Refinery.Gen.Nocrash.rulesMeta

/-! ### token parsing -/

def hexVal (c : Char) : Nat :=
  if '0' ≤ c ∧ c ≤ '9' then c.toNat - '0'.toNat
  else if 'A' ≤ c ∧ c ≤ 'F' then c.toNat - 'A'.toNat + 10
  else if 'a' ≤ c ∧ c ≤ 'f' then c.toNat - 'a'.toNat + 10
  else 0

/-- inverse of the kit's `Enc` for the alphabets the generator uses (ASCII) -/
def decGo : List Char → List Char
  | '%' :: a :: b :: rest => Char.ofNat (hexVal a * 16 + hexVal b) :: decGo rest
  | c :: rest => c :: decGo rest
  | [] => []

def dec (s : String) : String := if s == "%" then "" else String.ofList (decGo s.toList)

/-- split at the first occurrence of `sep` -/
def cut (s : String) (sep : Char) : String × String :=
  let cs := s.toList
  (String.ofList (cs.takeWhile (· != sep)), String.ofList ((cs.dropWhile (· != sep)).drop 1))

def parseElem (t : String) : Elem :=
  let (tag, rest) := cut t '.'
  if tag == "s" then .str (dec rest)
  else if tag == "i" then .int (rest.toInt?.getD 0)
  else .null

def parseVal (t : String) : Option Val :=
  let (tag, rest) := cut t ':'
  if tag == "i" then rest.toInt?.map .int
  else if tag == "f" then rest.toInt?.map .flt
  else if tag == "d" then rest.toInt?.map .dur
  else if tag == "s" then some (.str (dec rest))
  else if tag == "b" then some (.bool (rest == "1"))
  else if tag == "n" then some .null
  else if tag == "l" then some (.list (if rest == "" then [] else (rest.splitOn ",").map parseElem))
  else none

/-- `k=v` tokens: values that parse are fields, the rest are flags -/
def parseFields (toks : List String) : Fields × List (String × String) :=
  toks.foldl (fun (acc : Fields × List (String × String)) t =>
    let (k, v) := cut t '='
    match parseVal v with
    | some x => (acc.1 ++ [(k, x)], acc.2)
    | none => (acc.1, acc.2 ++ [(k, v)])) ([], [])

def flag (fl : List (String × String)) (k : String) : Bool := fl.lookup k == some "1"

def mkShape {α : Type} (s : String) (a : α) : Shape α :=
  if s == "null" then .null else if s == "scalar" then .scalar else .obj a

/-! ### state -/

structure St where
  partB : Bool := false
  raw : RawCfg := {}
  loaded : Option Choice := none
  sampler : Option Sampler := none

def mapLastRule (c : RawCfg) (f : RawRule → RawRule) : RawCfg :=
  match c.entries with
  | [.rules (.obj rb)] =>
    match rb.rules with
    | some rs =>
      match rs.reverse with
      | .obj r :: before => { c with entries := [.rules (.obj { rb with rules := some ((.obj (f r) :: before).reverse) })] }
      | _ => c
    | none => c
  | _ => c

def appendRule (c : RawCfg) (r : Shape RawRule) : RawCfg :=
  match c.entries with
  | [.rules (.obj rb)] => { c with entries := [.rules (.obj { rb with rules := some (rb.rules.getD [] ++ [r]) })] }
  | _ => c

def build (c : RawCfg) (op : List String) : Option RawCfg :=
  match op with
  | ["ver", v] => (parseVal v).map fun x => { c with version := x }
  | "leaf" :: g :: sh :: rest => some { c with entries := [.leaf g (mkShape sh (parseFields rest).1)] }
  | "rules" :: sh :: rest =>
    let (f, fl) := parseFields rest
    some { c with entries := [.rules (mkShape sh { fields := f, rules := if flag fl "list" then some [] else none })] }
  | "rule" :: sh :: rest =>
    let (f, fl) := parseFields rest
    some (appendRule c (mkShape sh { fields := f, conds := if flag fl "conds" then some [] else none,
                                      sampler := if flag fl "sampler" then some [] else none }))
  | "cond" :: sh :: rest =>
    some (mapLastRule c fun r => { r with conds := some (r.conds.getD [] ++ [mkShape sh (parseFields rest).1]) })
  | "down" :: g :: sh :: rest =>
    some (mapLastRule c fun r => { r with sampler := some (r.sampler.getD [] ++ [{ group := g, value := mkShape sh (parseFields rest).1 }]) })
  | _ => none

def crashStr : Crash → String
  | .index => "panic:index"
  | .divzero => "panic:divzero"
  | .intn => "panic:intn"
  | .nilmap => "panic:nilmap"
  | .nilptr => "panic:nilptr"
  | .exit => "exit"
  | .ticker => "crash:ticker"

/-- a dynsampler-backed sampler whose ticker fires within a second may already have data when the
harness asks: the answer is then the third-party sampler's (`later`), which the oracle does not know -/
def leafFast : LeafS → Bool
  | .dyn c false => decide (0 < c.interval ∧ c.interval < second)
  | _ => false

def samplerFast : Sampler → Bool
  | .leaf l => leafFast l
  | .rules rs => rs.any fun r => match r.down with | some l => leafFast l | none => false

def matchBits (exts : List (List String)) : Nat → Bool :=
  match exts.find? (fun e => e.head? == some "match") with
  | some e =>
    let bits := (e.getLast?.getD "").toList
    fun i => bits.getD i '0' == '1'
  | none => fun _ => false

def step (s : St) (op : List String) (exts : List (List String)) : St × Option String :=
  if s.partB then (s, some "*") else
  match build s.raw op with
  | some raw' => ({ s with raw := raw' }, none)
  | none =>
    match op with
    | ["load"] | ["loadfile"] =>
      match load md fixes s.raw with
      | .reject => ({ s with loaded := none, sampler := none }, some "reject")
      | .loaderr => ({ s with loaded := none, sampler := none }, some "loaderr")
      | .ok c => ({ s with loaded := some c, sampler := none }, some "accept")
    | ["reqkeys"] =>
      match s.loaded with
      | none => (s, some "noload")
      | some c =>
        match reqKeyFields fixes c with
        | .ok _ => (s, some "ok")
        | .error e => (s, some (crashStr e))
    | ["start"] =>
      match s.loaded with
      | none => (s, some "noload")
      | some c =>
        match start fixes c with
        | .ok sm => ({ s with sampler := some sm }, some "ok")
        | .error e => ({ s with sampler := none }, some (crashStr e))
    | ["eval", _] =>
      match s.sampler with
      | none => (s, some "nostart")
      | some sm =>
        if samplerFast sm then (s, some "*") else
        match eval fixes sm (matchBits exts) none with
        | .ok r => (s, some s!"ok rate={r}")
        | .error e => (s, some (crashStr e))
    | _ => (s, some "bad-op")

/-! ### monitor: the property's conclusion on the implementation's own observations

Part A: a configuration the real loader ACCEPTED (obs `accept`) must not make any later step of
the case panic, exit or crash.  One signature per panic site.  Part B: no request may panic
(caught or not) or hang. -/

structure MSt where
  partB : Bool := false
  accepted : Bool := false
  -- the input class of the rules file under test, read off the builder ops (inputs of the case, not model state)
  rulesObj : Bool := false     -- the entry is a `RulesBasedSampler: {…}` mapping
  topSampler : Bool := false   -- the entry is a mapping under the name of a sampler type
  emptyName : Bool := false    -- some FieldList / Fields sequence contains ""
  detZero : Bool := false      -- a DeterministicSampler.SampleRate that is 0 modulo 2^32
  negRate : Bool := false      -- a negative DynamicSampler.SampleRate / EMADynamicSampler.GoalSampleRate / EMAThroughputSampler.InitialSampleRate
  subMs : Bool := false        -- an EMAThroughputSampler.AdjustmentInterval that is not 0 and below 1 ms
  negDur : Bool := false       -- a negative duration
  nullRule : Bool := false     -- `Rules:` has a null element
  nullCond : Bool := false     -- some `Conditions:` has a null element
  openDowns : Nat := 0         -- rules whose `Sampler:` mapping is (still) empty

def hasEmptyStr : Val → Bool
  | .list l => l.any (fun e => e == .str "")
  | _ => false

def isNegInt : Option Val → Bool
  | some (.int i) => decide (i < 0)
  | _ => false

/-- fold the scalar keys of a sampler mapping `g` into the input class -/
def scanSampler (m : MSt) (g : String) (f : Fields) : MSt :=
  let m := { m with emptyName := m.emptyName || (match f.lookup "FieldList" with | some v => hasEmptyStr v | none => false) }
  let m := { m with negDur := m.negDur || f.any (fun kv => match kv.2 with | .dur n => decide (n < 0) | _ => false) }
  let m := if g == "DeterministicSampler" then
      { m with detZero := m.detZero || (match f.lookup "SampleRate" with | some (.int i) => decide (i % 4294967296 = 0) | _ => false) }
    else m
  let m := if g == "DynamicSampler" then { m with negRate := m.negRate || isNegInt (f.lookup "SampleRate") } else m
  let m := if g == "EMADynamicSampler" then { m with negRate := m.negRate || isNegInt (f.lookup "GoalSampleRate") } else m
  if g == "EMAThroughputSampler" then
    { m with negRate := m.negRate || isNegInt (f.lookup "InitialSampleRate"),
             subMs := m.subMs || (match f.lookup "AdjustmentInterval" with | some (.dur n) => decide (n ≠ 0 ∧ n < millisecond) | _ => false) }
  else m

def resetClass (m : MSt) : MSt :=
  { partB := m.partB, accepted := m.accepted }

def classOf (m : MSt) (op : List String) : MSt :=
  match op with
  | "leaf" :: g :: sh :: rest =>
    scanSampler { resetClass m with topSampler := sh == "obj" && leafNames.contains g } g (parseFields rest).1
  | "rules" :: sh :: _ => { resetClass m with rulesObj := sh == "obj", topSampler := sh == "obj" }
  | "rule" :: sh :: rest =>
    let fl := (parseFields rest).2
    { m with nullRule := m.nullRule || sh == "null", openDowns := m.openDowns + (if flag fl "sampler" then 1 else 0) }
  | "cond" :: sh :: rest =>
    let f := (parseFields rest).1
    { m with nullCond := m.nullCond || sh == "null",
             emptyName := m.emptyName || (match f.lookup "Fields" with | some v => hasEmptyStr v | none => false) }
  | "down" :: g :: _ :: rest => scanSampler { m with openDowns := m.openDowns - 1 } g (parseFields rest).1
  | _ => m

/-- One signature per panic site *and* input class: a crash of a known kind is attributed to the
known finding only when the rules file belongs to that finding's input class and the crash shows
in the phase where that site runs; anything else gets a signature of its own. -/
def siteSig (m : MSt) (phase : String) (obs : String) : Option String :=
  let cls := (obs.splitOn " ").headD ""
  let early := phase == "reqkeys" || phase == "start"
  let other := some s!"C28:{cls}-outside-known-input-class:{phase}"
  if cls == "panic:index" then (if m.emptyName && early then some "C28:getkeyfields-empty-field-name" else other)
  else if cls == "panic:divzero" then (if m.detZero && phase == "start" then some "C28:deterministic-samplerate-zero-mod-2^32" else other)
  else if cls == "panic:intn" then (if m.negRate && phase == "eval" then some "C28:intn-negative-dynsampler-rate" else other)
  else if cls == "panic:nilmap" then (if m.subMs && phase == "eval" then some "C28:emathroughput-start-error-dropped-nil-map" else other)
  else if cls == "panic:nilptr" then
    (if m.nullCond && early then some "C28:rules-null-condition-nil-dereference"
     else if m.nullRule && phase == "start" then some "C28:rules-null-rule-nil-dereference" else other)
  else if cls == "exit" then
    (if phase == "start" && !m.topSampler then some "C28:no-sampler-configured-os-exit"
     else if phase == "start" && m.rulesObj && m.openDowns > 0 then some "C28:empty-downstream-sampler-os-exit" else other)
  else if cls == "crash:ticker" then (if m.negDur && phase == "start" then some "C28:newticker-non-positive-interval" else other)
  else if cls.startsWith "panic" || cls.startsWith "crash" || cls.startsWith "child" then some s!"C28:{phase}-unclassified-crash"
  else none

def mon (m : MSt) (op : List String) (_ : List (List String)) (obs : Option String) : MSt × List Fail :=
  let o := obs.getD ""
  if m.partB then
    match op with
    | "req" :: ep :: _ =>
      let cls := (o.splitOn " ").headD ""
      if cls == "panic" then (m, [{ prop := "C28", sig := s!"C28:request-panic:{ep}", what := s!"request to {ep} panicked out of the handler: {o}" }])
      else if cls == "caught-panic" then (m, [{ prop := "C28", sig := s!"C28:request-panic-caught:{ep}", what := s!"request to {ep} panicked (recovered by panicCatcher): {o}" }])
      else if cls == "hang" then
        let parts := o.splitOn " "
        let top := parts.getD 1 "unknown"
        let site := parts.getD 2 "unknown"
        (m, [{ prop := "C28", sig := s!"C28:request-exhausts-resources:{ep}:{top}", what := s!"request to {ep} did not return within the per-request timeout; busy in {top} (called from {site})" }])
      else if cls == "fatal" then
        let parts := o.splitOn " "
        let kind := parts.getD 1 "other"
        let top := parts.getD 2 "unknown"
        let site := parts.getD 3 "unknown"
        if kind == "out-of-memory" then
          -- same signature as a time-out in the same frame: whether an absurd allocation is refused at once or
          -- keeps the process busy until the timeout depends on the machine
          (m, [{ prop := "C28", sig := s!"C28:request-exhausts-resources:{ep}:{top}", what := s!"request to {ep} killed the process (fatal error: out of memory) in {top} (called from {site})" }])
        else
          (m, [{ prop := "C28", sig := s!"C28:request-fatal:{ep}:{kind}:{top}", what := s!"request to {ep} killed the process ({kind}) in {top} (called from {site})" }])
      else if cls == "worker-error" then (m, [{ prop := "C28", sig := "C28:request-worker-error", what := "the harness could not run its request worker" }])
      else (m, [])
    | _ => (m, [])
  else
    match op with
    | "leaf" :: _ | "rules" :: _ | "rule" :: _ | "cond" :: _ | "down" :: _ => (classOf m op, [])
    | ["load"] | ["loadfile"] =>
      if o.startsWith "panic" then
        ({ m with accepted := false }, [{ prop := "C28", sig := "C28:loader-panic", what := s!"the loader/validator itself panicked: {o}" }])
      else ({ m with accepted := o == "accept" }, [])
    | opn :: _ =>
      if m.accepted && (opn == "reqkeys" || opn == "start" || opn == "eval") then
        match siteSig m opn o with
        | some sig => (m, [{ prop := "C28", sig := sig, what := s!"validated configuration, then `{opn}` answered {o}" }])
        | none => (m, [])
      else (m, [])
    | [] => (m, [])

def comp : Component St MSt where
  init := fun args => { partB := (kv args "part") == some "B" }
  step := step
  minit := fun args => { partB := (kv args "part") == some "B" }
  mon := mon

def main : IO Unit := do runLoop comp (← IO.getStdin)
