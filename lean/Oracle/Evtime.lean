import Oracle.Lib
import Refinery.Model.EventTime
/-
Oracle for event-time handling (C22).
ops:  epoch <path> <digits>          obs: <sec> <nsec>      (path = hdr | json | jsoni; jsoni = JSON batch whose times are read after another
                                      request of the same shape has been decoded, as Router.batch reads them lazily)
      rfc <path> <sec> <nsec> <str>  obs: <sec> <nsec>      (str = RFC 3339 rendering of that instant)
      raw <path> <str>               obs: anything          (out-of-scope strings: model unspecified)
      mp <hex>                       obs: <sec> <nsec> | error    (msgpack batch event, `time` = these bytes)
      enc <sec> <nsec>               obs: <hex>             (transmit.batchedEvent.MarshalMsg time bytes)
-/
open Refinery.Model.EventTime Oracle

def hexVal (c : Char) : Option Nat :=
  if '0' ≤ c ∧ c ≤ '9' then some (c.toNat - '0'.toNat)
  else if 'a' ≤ c ∧ c ≤ 'f' then some (c.toNat - 'a'.toNat + 10) else none

def unhex : List Char → Option (List Nat)
  | [] => some []
  | a :: b :: t => do
    let x ← hexVal a; let y ← hexVal b; let r ← unhex t
    pure ((x * 16 + y) :: r)
  | _ => none

def hexDigit (n : Nat) : Char := "0123456789abcdef".toList.getD n '?'
def toHex (bs : List Nat) : String := String.ofList (bs.flatMap fun b => [hexDigit (b / 16), hexDigit (b % 16)])

def inst : Option (Nat × Nat) → String
  | some (s, n) => s!"{s} {n}"
  | none => "error"

def evStep (st : Unit) (op : List String) (_ : List (List String)) : Unit × Option String :=
  match op with
  | ["epoch", _, ds] => (st, some (match parseEpoch ds with | some r => inst (some r) | none => "*"))
  | ["rfc", _, s, n, _] => (st, some s!"{s} {n}")
  | ["raw", _, _] => (st, some "*")
  | ["mp", hx] => (st, some (match unhex hx.toList with | some bs => inst (decodeTs bs) | none => "bad-op"))
  | ["enc", s, n] => match s.toNat?, n.toNat? with
    | some s, some n => (st, some (toHex (encodeTs s n)))
    | _, _ => (st, some "bad-op")
  | _ => (st, some "bad-op")

def parseInst (o : String) : Option (Nat × Nat) :=
  match o.splitOn " " with
  | [s, n] => match s.toNat?, n.toNat? with | some s, some n => some (s, n) | _, _ => none
  | _ => none

/-- C22 monitor, on the implementation's answers only: the instant must be exactly the one the
client wrote. -/
def evMon (m : Unit) (op : List String) (_ : List (List String)) (obs : Option String) : Unit × List Fail :=
  let fail (sig what : String) : Unit × List Fail := (m, [{ prop := "C22", sig := sig, what := what }])
  match op, obs with
  | ["epoch", path, ds], some o =>
    match digitsOf ds with
    | some dl =>
      if 10 ≤ dl.length ∧ dl.length ≤ 19 then
        match parseInst o with
        | some (s, n) =>
          if s * 10 ^ 9 + n = numeral dl * 10 ^ (19 - dl.length) ∧ n < 10 ^ 9 then (m, [])
          else fail s!"C22:epoch-inexact:path={path}" s!"epoch {ds} forwarded as {s}s+{n}ns"
        | none => fail s!"C22:epoch-unparsed:path={path}" s!"epoch {ds} gave {o}"
      else (m, [])
    | none => (m, [])
  | ["rfc", path, s, n, str], some o =>
    if o = s!"{s} {n}" then (m, []) else fail s!"C22:rfc3339-inexact:path={path}" s!"{str} forwarded as {o}"
  | ["mp", hx], some o =>
    match unhex hx.toList with
    | some bs => match decodeTs bs with
      | some r => if o = inst (some r) then (m, []) else fail "C22:msgpack-time-in" s!"timestamp bytes {hx} read as {o}, denote {inst (some r)}"
      | none => (m, [])
    | none => (m, [])
  | ["enc", s, n], some o =>
    match unhex o.toList, s.toNat?, n.toNat? with
    | some bs, some s, some n =>
      if decodeTs bs = some (s, n) then (m, []) else fail "C22:msgpack-time-out" s!"instant {s} {n} sent as {o}"
    | _, _, _ => fail "C22:msgpack-time-out" s!"unreadable output {o}"
  | _, _ => (m, [])

def comp : Component Unit Unit where
  init := fun _ => ()
  step := evStep
  minit := fun _ => ()
  mon := evMon

def main : IO Unit := do runLoop comp (← IO.getStdin)
