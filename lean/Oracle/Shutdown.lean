import Oracle.Lib
import Refinery.Model.Shutdown
/-
Oracle for graceful shutdown (C36); harness: harness/cmd/shutdown.

case args: workers=<n> tt=<ns> sd=<ns> p=<ns> bto=<ns> mb=<n> nd=<n> keep=<bits>
ops:  span <dt> <t> <sid> <root> <peer> <dest>   (ext: owner = <w>)
      hold <w> | tick <ns> | fwd | ev <sid> <dest> | txtick <ns> | stop | tickstop <ns> | txstop | gor | agent
router cases (kind=router): rtev <sid> | inflight <sid> | stopall
      obs: rtev: ok st=200 pend=<n>; inflight: ok; stopall: err=<nil|deadline|…> coll=<0|1> up=<0|1> peer=<0|1> st=<status,…> u=<batch>
retry cases (kind=retry mb=<n> r=<Retry-After s> code=<429|503> lim=<one 0|1 per destination> nd=<n>): rev <sid> <dest> | radv <s> | rstop
      obs: <ok|panic|blocked> u=<batches delivered> sl=<batches asleep> early=<retries before the instant> rej=<batches refused twice>
agent cases (kind=agent script=<o|O|p|P|f joined by '.', or ->): agnew | agadd | agtick | agsent | agstop
obs:  see harness/cmd/shutdown/main.go; every obs of a model op ends with
      h=<sid[!p|!b],…|-> u=<d<dest>:<sid.sid…>,…|->
-/
open Refinery Refinery.Model.Shutdown Oracle

/-- collector / transmission: `false` = the code as it is (`InMemCollector.Stop` does not drain the
workers), `true` = the proposed repair.  Flip when the drain fix is applied to /repo. -/
def variant : Bool := false

/-- `Agent.healthCheck`: `true` = the code as it is since commit 4b2120c (returns on `ctx.Done()`),
`false` = the loop before that commit (spins). -/
def variantAgent : Bool := true

structure OSt where
  c : Cfg := {}
  keep : List Bool := []
  s : St := {}
  script : List SendOut := []     -- agent cases: the scripted OpAMP client
  u : Option USt := none          -- the usage loop of the agent under test
  rtPend : List Nat := []         -- router cases: events accepted and pending in the upstream transmission
  rtInfl : List Nat := []         -- … requests in flight (their event)
  rtStopped : Bool := false
  rtOpamp : Bool := false         -- … OpAMP.Enabled: App.Start starts the agent (two background loops)
  rc : RCfg := {}                 -- retry cases: batch size, Retry-After, limited destinations
  rs : RSt := {}

def keepFn (bits : List Bool) (t : Nat) : Bool := (bits[t]?).getD true

def listOr (sep : String) (l : List String) : String :=
  if l.isEmpty then "-" else sep.intercalate l

def insStr (x : String) : List String → List String
  | [] => [x]
  | y :: t => if x ≤ y then x :: y :: t else y :: insStr x t

def sortStr : List String → List String
  | [] => []
  | x :: t => insStr x (sortStr t)

def hStr (e : Nat × EnqOut) : String :=
  match e.2 with
  | .ok => toString e.1
  | .panic => s!"{e.1}!p"
  | .blocked => s!"{e.1}!b"

def batchStr (b : Nat × List Nat) : String := s!"d{b.1}:{".".intercalate (b.2.map toString)}"

/-- what the op handed to the transmission and what the transmission dispatched -/
def tailStr (s s' : St) : String :=
  let h := (s'.hlog.drop s.hlog.length).map hStr
  let u := sortStr ((s'.tx.sent.drop s.tx.sent.length).map batchStr)
  s!" h={listOr "," h} u={listOr "," u}"

def kindStr : Kind → String
  | .queued => "q" | .buffered => "buf" | .forwarded => "fw" | .dropped => "drop" | .panic => "panic"

def enqStr : EnqOut → String
  | .ok => "ok" | .panic => "panic" | .blocked => "blocked"

def pairLt (a b : Nat × Nat) : Bool := a.2 < b.2 || (a.2 == b.2 && a.1 ≤ b.1)   -- by tid, then worker

def insPair (x : Nat × Nat) : List (Nat × Nat) → List (Nat × Nat)
  | [] => [x]
  | y :: t => if pairLt x y then x :: y :: t else y :: insPair x t

def sortPairs : List (Nat × Nat) → List (Nat × Nat)
  | [] => []
  | x :: t => insPair x (sortPairs t)

def insNat (x : Nat) : List Nat → List Nat
  | [] => [x]
  | y :: t => if x ≤ y then x :: y :: t else y :: insNat x t

def sortNat : List Nat → List Nat
  | [] => []
  | x :: t => insNat x (sortNat t)

def ownerOf (exts : List (List String)) : Option Nat :=
  exts.findSome? fun e => match e with
    | ["owner", "=", w] => w.toNat?
    | _ => none

def b01 (s : String) : Option Bool := if s == "1" then some true else if s == "0" then some false else none

def ulocStr : ULoc → String
  | .idle => "idle" | .waitPending => "pending" | .waitSent => "sent" | .exited => "gone"

def hcAfterStop : String :=
  match hcRun variantAgent [.done] with
  | .exited => "gone"
  | .running => "spinning"

def b10 (b : Bool) : String := if b then "1" else "0"

/-- an environment event on the agent, then the usage loop runs until it blocks (not cancelled: at
most one case of each select is ready, the choice does not matter) -/
def agentOp (o : OSt) (f : USt → USt) : OSt × Option String :=
  match o.u with
  | none => (o, some "bad-op")
  | some u =>
    if u.cancelled then (o, some s!"loc={ulocStr u.loc}")
    else
      let u' := urun (List.replicate 8 true) (f u)
      ({ o with u := some u' },
       some s!"loc={ulocStr u'.loc} calls={u'.calls} tick={b10 u'.tick} data={b10 u'.cur}{b10 u'.last}")

/-- retry cases: one operation on the transmission in front of the rate-limited upstream -/
def retryOp (o : OSt) (op : ROp) : OSt × Option String :=
  let r := rstep o.rc o.rs op
  let u := sortStr ((r.1.delivered.drop o.rs.delivered.length).map batchStr)
  ({ o with rs := r.1 },
   some s!"{enqStr r.2} u={listOr "," u} sl={r.1.sleeping.length} early={r.1.early - o.rs.early} rej={r.1.dropped.length - o.rs.dropped.length}")

def parseScript (s : String) : List SendOut :=
  if s == "-" then [] else (s.splitOn ".").filterMap fun t =>
    if t == "o" then some (.ok false) else if t == "O" then some (.ok true)
    else if t == "p" then some (.pend false) else if t == "P" then some (.pend true)
    else if t == "f" then some .fail else none

def oStep (o : OSt) (op : List String) (exts : List (List String)) : OSt × Option String :=
  let keep := keepFn o.keep
  let run (m : Op) (pre : St → St → Out → String) : OSt × Option String :=
    let r := step o.c keep o.s m
    ({ o with s := r.1 }, some (pre o.s r.1 r.2 ++ tailStr o.s r.1))
  match op with
  | ["span", dt, t, sid, root, peer, dest] =>
    match dt.toNat?, t.toNat?, sid.toNat?, b01 root, b01 peer, dest.toNat?, ownerOf exts with
    | some dt, some t, some sid, some root, some peer, some dest, some w =>
      let r := step o.c keep o.s (.span dt w peer { sid := sid, tid := t, dest := dest, root := root })
      match r.2 with
      | .panic => ({ o with s := r.1 }, some "panic send%20on%20closed%20channel")
      | .kind k => ({ o with s := r.1 }, some (kindStr k ++ tailStr o.s r.1))
      | _ => (o, some "bad-op")
    | _, _, _, _, _, _, _ => (o, some "bad-op")
  | ["hold", w] =>
    match w.toNat? with
    | some w => run (.hold w) fun _ _ out => if out == .ok then "ok" else "refused"
    | none => (o, some "bad-op")
  | ["tick", ns] =>
    match ns.toNat? with
    | some ns => run (.tick ns) fun s s' _ =>
        let dec := sortPairs (s'.decided.drop s.decided.length)
        let ds := dec.map fun p => s!"{p.2}:{if keep p.2 then "k" else "d"}"
        let ks := (s'.toSend.drop s.toSend.length).map fun t => toString t.tid
        s!"dec={listOr "," ds} kept={listOr "," ks}"
    | none => (o, some "bad-op")
  | ["fwd"] => run .fwd fun _ _ out => match out with
      | .fwd t => s!"t={t}"
      | _ => "idle"
  | ["ev", sid, dest] =>
    match sid.toNat?, dest.toNat? with
    | some sid, some dest => run (.ev sid dest) fun _ _ out => match out with
        | .enq e => enqStr e
        | _ => "?"
    | _, _ => (o, some "bad-op")
  | ["txtick", ns] =>
    match ns.toNat? with
    | some ns => run (.txtick ns) fun _ _ _ => "ok"
    | none => (o, some "bad-op")
  | ["stop"] =>
    let r := step o.c keep o.s .stop
    match r.2 with
    | .panic => ({ o with s := r.1 }, some "panic close%20of%20closed%20channel")
    | _ =>
      let left := sortNat (r.1.buf.map (·.tid))
      let q := r.1.lost.length - o.s.lost.length
      ({ o with s := r.1 },
       some (s!"left={listOr "," (left.map toString)} q={q} early=0" ++ tailStr o.s r.1))
  | ["tickstop", ns] =>
    match ns.toNat? with
    | none => (o, some "bad-op")
    | some ns =>
      let r := step o.c keep o.s (.tickstop ns)
      match r.2 with
      | .refused => ({ o with s := r.1 }, some ("refused" ++ tailStr o.s r.1))
      | _ =>
        let dec := (sortPairs (r.1.decided.drop o.s.decided.length)).map fun p => toString p.2
        let left := sortNat (r.1.buf.map (·.tid))
        let q := r.1.lost.length - o.s.lost.length
        ({ o with s := r.1 },
         some (s!"dec={listOr "," dec} left={listOr "," (left.map toString)} q={q} early=0 panic=-" ++ tailStr o.s r.1))
  | ["txstop"] => run .txstop fun _ s' _ =>
      let pend : Int := if s'.tx.locked then -1 else ((s'.tx.pending.map (·.2.2.length)).foldl (· + ·) 0 : Nat)
      s!"pend={pend} fl=0"
  | ["gor"] => (o, some "*")
  | ["rtev", sid] =>
    match sid.toNat? with
    | none => (o, some "bad-op")
    | some sid =>
      if o.rtStopped then (o, some "refused")
      else ({ o with rtPend := o.rtPend ++ [sid] }, some s!"ok st=200 pend={o.rtPend.length + 1}")
  | ["inflight", sid] =>
    match sid.toNat? with
    | none => (o, some "bad-op")
    | some sid =>
      if o.rtStopped then (o, some "refused")
      else ({ o with rtInfl := o.rtInfl ++ [sid] }, some "ok")
  | ["stopall"] =>
    if o.rtStopped then (o, some "bad-op") else
    -- Router.Stop's grace period is a minute; the harness completes the uploads 50 ms after Stop was called
    let r := stopSeq 60000000000 (if o.rtInfl.isEmpty then none else some 50000000) stopOrder
    let ran (c : Comp) : String := if r.1.contains c then "1" else "0"
    let evs := o.rtPend ++ o.rtInfl
    let u := if evs.isEmpty || !r.1.contains .upstreamTx then "-" else batchStr (0, evs)
    ({ o with rtStopped := true, rtPend := [], rtInfl := [] },
     some s!"err={if r.2 then "deadline" else "nil"} coll={ran .collector} up={ran .upstreamTx} peer={ran .peerTx} ag={if r.1.contains .app then 0 else if o.rtOpamp then 2 else 0} st={listOr "," (o.rtInfl.map fun _ => "200")} u={u}")
  | ["rev", sid, dest] =>
    match sid.toNat?, dest.toNat? with
    | some sid, some dest => retryOp o (.ev sid dest)
    | _, _ => (o, some "bad-op")
  | ["radv", n] =>
    match n.toNat? with
    | some n => retryOp o (.adv n)
    | none => (o, some "bad-op")
  | ["rstop"] => retryOp o .stop
  | ["agnew"] => ({ o with u := some { script := o.script } }, some "ok")
  | ["agadd"] => agentOp o fun u => u.added
  | ["agtick"] => agentOp o fun u => u.ticked
  | ["agsent"] => agentOp o fun u => u.sent
  | ["agstop"] =>
    match o.u with
    | none => (o, some "bad-op")
    | some u =>
      let u' := urun (List.replicate 6 true) u.stop
      ({ o with u := some u' }, some s!"hc={hcAfterStop} usage={ulocStr u'.loc}")
  | ["agent"] => (o, some s!"hc={hcAfterStop} usage=gone")
  | _ => (o, some "bad-op")

/-! ## Monitor: the property's conclusion on the implementation's own observations -/

structure Mon where
  keep : List Bool := []
  tidOf : List (Nat × Nat) := []   -- sid ↦ trace of every span AddSpan accepted
  bufd : List Nat := []            -- sids the collector buffered
  decK : List Nat := []            -- traces decided keep
  decD : List Nat := []            -- traces decided drop
  handed : List Nat := []          -- sids handed to the transmission
  txacc : List Nat := []           -- ids the transmission accepted
  ups : List Nat := []             -- ids the fake Honeycomb received
  cstopped : Bool := false
  tstopped : Bool := false
  infl : List Nat := []            -- router cases: events of the requests in flight

def mkFail (sig what : String) : Fail := { prop := "C36", sig := "C36:" ++ sig, what := what }

def parseList (s : String) : List String := if s == "-" then [] else s.splitOn ","

def stripBang (s : String) : String × Bool :=
  match s.splitOn "!" with
  | [a] => (a, true)
  | a :: _ => (a, false)
  | [] => (s, true)

/-- the common tail: `h=` and `u=` -/
def monTail (m : Mon) (toks : List String) : Mon × List Fail :=
  let hs := parseList ((kv toks "h").getD "-")
  let us := parseList ((kv toks "u").getD "-")
  let (m, f1) := hs.foldl (fun (acc : Mon × List Fail) h =>
    let (m, fs) := acc
    let (sidS, ok) := stripBang h
    match sidS.toNat? with
    | none => (m, fs)
    | some sid =>
      let fs := match AList.get m.tidOf sid with
        | some t => if m.decD.contains t then
            fs ++ [mkFail "dropped-trace-forwarded" s!"span {sid} of trace {t} (decided drop) was handed to the transmission"]
            else fs
        | none => fs
      ({ m with handed := sid :: m.handed, txacc := if ok then sid :: m.txacc else m.txacc }, fs)) (m, [])
  let (m, f2) := us.foldl (fun (acc : Mon × List Fail) b =>
    let (m, fs) := acc
    match b.splitOn ":" with
    | [_, ids] =>
      (ids.splitOn ".").foldl (fun (acc : Mon × List Fail) i =>
        let (m, fs) := acc
        match i.toNat? with
        | none => (m, fs ++ [mkFail "undecodable-batch" s!"upstream batch {b}"])
        | some id =>
          if m.ups.contains id then (m, fs ++ [mkFail "event-delivered-twice" s!"event {id} reached upstream twice"])
          else ({ m with ups := id :: m.ups }, fs)) (m, fs)
    | _ => (m, fs)) (m, [])
  (m, f1 ++ f2)

/-- after `Agent.Stop` (bounded wait) every background loop of the agent must be gone -/
def agentFails (toks : List String) : List Fail :=
  let hc := (kv toks "hc").getD "gone"
  let us := (kv toks "usage").getD "gone"
  let f1 := if hc == "spinning" then [mkFail "agent-healthcheck-spins-after-cancel" "after Agent.Stop the healthCheck goroutine keeps running: its select takes the closed ctx.Done() case and loops"]
    else if hc != "gone" then [mkFail "agent-goroutine-left-after-stop:healthcheck" s!"after Agent.Stop the healthCheck goroutine is still there ({hc})"] else []
  let f2 := if us != "gone" then [mkFail "agent-goroutine-left-after-stop:usage" s!"after Agent.Stop reportUsagePeriodically is still there, blocked in state '{us}' (idle = its own select, pending = waiting for a pending custom message, sent = waiting for the send to complete)"] else []
  f1 ++ f2

/-- a retry must not reach the upstream before the Retry-After interval is over (fake clock) -/
def retryFails (toks : List String) (when_ : String) : List Fail :=
  let early := (kv toks "early").getD "0"
  if early != "0" then [mkFail s!"retry-before-interval:{when_}" s!"{early} retry attempt(s) reached the upstream before the announced Retry-After instant"] else []

def shMon (m : Mon) (op : List String) (_ : List (List String)) (obs : Option String) : Mon × List Fail :=
  match obs with
  | none => (m, [])
  | some o =>
    let toks := o.splitOn " "
    let first := toks.headD ""
    if first == "panic" && op.head? != some "ev" then (m, []) else
    -- a tick with Stop landing inside it: what the pass decided (kept or dropped: the sampler's
    -- answer from the case header), then everything that is checked at a Stop
    let (m, op) := match op with
      | ["tickstop", _] =>
        if first == "refused" then (m, ["noop"]) else
        let ds := (parseList ((kv toks "dec").getD "-")).filterMap String.toNat?
        (ds.foldl (fun (m : Mon) t =>
          if keepFn m.keep t then { m with decK := t :: m.decK } else { m with decD := t :: m.decD }) m, ["stop"])
      | _ => (m, op)
    let (m, ft) := monTail m toks
    match op with
    | ["span", _, t, sid, _, _, _] =>
      match t.toNat?, sid.toNat? with
      | some t, some sid =>
        let m := { m with tidOf := (sid, t) :: m.tidOf }
        let fa := if m.cstopped then [mkFail "span-accepted-after-stop" s!"span {sid} was accepted ({first}) after Stop"] else []
        if first == "buf" then ({ m with bufd := sid :: m.bufd }, ft ++ fa)
        else if first == "fw" then
          (m, ft ++ fa ++ (if m.decK.contains t then [] else [mkFail "undecided-span-forwarded" s!"span {sid}: trace {t} has no keep decision"]))
        else if first == "drop" then
          (m, ft ++ fa ++ (if m.decD.contains t then [] else [mkFail "undecided-span-dropped" s!"span {sid}: trace {t} has no drop decision"]))
        else (m, ft ++ fa)
      | _, _ => (m, ft)
    | ["tick", _] =>
      let ds := parseList ((kv toks "dec").getD "-")
      let m := ds.foldl (fun (m : Mon) d => match d.splitOn ":" with
        | [t, "k"] => match t.toNat? with | some t => { m with decK := t :: m.decK } | none => m
        | [t, "d"] => match t.toNat? with | some t => { m with decD := t :: m.decD } | none => m
        | _ => m) m
      (m, ft)
    | ["stop"] =>
      let left := (parseList ((kv toks "left").getD "-")).filterMap String.toNat?
      let q := ((kv toks "q").getD "0").toNat?.getD 0
      let early := (kv toks "early").getD "0"
      let keptLeft := left.filter (keepFn m.keep)
      let f1 :=
        if !keptLeft.isEmpty then
          [mkFail "stop-drops-buffered-traces" s!"after Stop traces {natList left} are still buffered and undecided; the sampler keeps {natList keptLeft}, their spans are never forwarded"]
        else if !left.isEmpty then
          [mkFail "stop-leaves-traces-undecided" s!"after Stop traces {natList left} are still buffered and undecided (the sampler would drop them)"]
        else []
      let f2 := if q != 0 then [mkFail "stop-drops-queued-spans" s!"{q} accepted span(s) were still in a worker's incoming queue when Stop closed it and were never processed"] else []
      let f3 := if early != "0" then [mkFail "stop-returns-before-drain" "Stop returned while decided traces were still waiting in tracesToSend"] else []
      let lostDecided := m.bufd.filter fun sid => match AList.get m.tidOf sid with
        | some t => m.decK.contains t && !m.handed.contains sid
        | none => false
      let f4 := if !lostDecided.isEmpty then [mkFail "stop-loses-decided-trace" s!"spans {natList lostDecided} belong to traces decided keep before Stop and were not handed to the transmission"] else []
      let pn := (kv toks "panic").getD "-"
      let f5 := if pn == "chansend" then [mkFail "stop-panics:send-on-closed-channel" "a worker that was handing a kept trace over when Stop was requested panicked: send on closed channel (tracesToSend was closed while a producer was still running)"]
        else if pn != "-" then [mkFail s!"stop-panics:{pn}" s!"a worker goroutine panicked during Stop ({pn})"] else []
      ({ m with cstopped := true }, ft ++ f1 ++ f2 ++ f3 ++ f5 ++ f4)
    | ["txstop"] =>
      let pend := (kv toks "pend").getD "0"
      let fl := (kv toks "fl").getD "0"
      let f0 := if fl != "0" then [mkFail "txstop-returns-before-flush" s!"DirectTransmission.Stop returned while {fl} accepted event(s) had not reached upstream yet"] else []
      let f1 := f0 ++ (if pend != "0" && pend != "-1" then [mkFail "txstop-leaves-pending" s!"{pend} events still pending after DirectTransmission.Stop"] else [])
      let missing := m.txacc.filter fun id => !m.ups.contains id
      let f2 := if !missing.isEmpty then [mkFail "txstop-loses-pending-events" s!"events {natList missing} were accepted by the transmission before Stop and never reached upstream"] else []
      ({ m with tstopped := true }, ft ++ f1 ++ f2)
    | ["ev", sid, _] =>
      match sid.toNat? with
      | some sid => if first == "ok" then ({ m with txacc := sid :: m.txacc }, ft) else (m, ft)
      | none => (m, ft)
    | ["gor"] =>
      let left := (kv toks "left").getD "-"
      if m.cstopped && m.tstopped && left != "-" then
        (m, [mkFail "goroutines-left-after-stop" s!"goroutines created by {left} are still there after both Stops"])
      else (m, [])
    | ["rtev", sid] =>
      match sid.toNat? with
      | some sid => (if first == "ok" then { m with txacc := sid :: m.txacc } else m, ft)
      | none => (m, ft)
    | ["inflight", sid] =>
      match sid.toNat? with
      | some sid => (if first == "ok" then { m with infl := m.infl ++ [sid] } else m, ft)
      | none => (m, ft)
    | ["stopall"] =>
      let err := (kv toks "err").getD "nil"
      let sts := parseList ((kv toks "st").getD "-")
      -- requests in flight that were answered 200 are accepted events too
      let okInfl := (m.infl.zip sts).filterMap fun p => if p.2 == "200" then some p.1 else none
      let acc := okInfl ++ m.txacc
      let agl := (kv toks "ag").getD "0"
      let f0 := if agl != "0" then [mkFail "agent-goroutine-left-after-stop:app" s!"{agl} of the OpAMP agent's background loops are still running after startstop.Stop"] else []
      let f1 := f0 ++ if err.startsWith "panic:" then [mkFail "stop-aborted:panic" s!"startstop.Stop panicked ({err}); the components after the panicking one were never stopped"] else if err == "deadline" then [mkFail "stop-aborted:router-error" "startstop.Stop returned 'context deadline exceeded' from Router.Stop although the request in flight completed well within the grace period; the components after the router were never stopped"]
        else if err != "nil" then [mkFail "stop-aborted:error" s!"startstop.Stop returned an error ({err})"] else []
      let notStopped := (["coll", "up", "peer"].filter fun k => (kv toks k).getD "1" != "1")
      let f2 := if !notStopped.isEmpty then [mkFail "stop-aborted:component-not-stopped" s!"after startstop.Stop these components are still running: {",".intercalate notStopped}"] else []
      let f3 := if sts.any (· != "200") then [mkFail "inflight-request-not-answered" s!"requests in flight at shutdown were answered {",".intercalate sts}"] else []
      let missing := acc.filter fun id => !m.ups.contains id
      let f4 := if !missing.isEmpty then [mkFail "txstop-loses-pending-events" s!"events {natList missing} were accepted by the router before the shutdown finished and never reached upstream"] else []
      ({ m with tstopped := true, cstopped := true }, ft ++ f1 ++ f2 ++ f3 ++ f4)
    | ["rev", sid, _] =>
      match sid.toNat? with
      | some sid => (if first == "ok" then { m with txacc := sid :: m.txacc } else m, ft ++ retryFails toks "steady")
      | none => (m, ft)
    | ["radv", _] => (m, ft ++ retryFails toks "steady")
    | ["rstop"] =>
      let missing := m.txacc.filter fun id => !m.ups.contains id
      let f := if !missing.isEmpty then [mkFail "pending-batch-lost:retry-after" s!"events {natList missing} were accepted before Stop (pending, or in a batch sleeping on its Retry-After); the upstream accepts once the Retry-After interval is over, but when Stop returned they had not been delivered"] else []
      ({ m with tstopped := true }, ft ++ retryFails toks "during-stop" ++ f)
    | ["agent"] => (m, agentFails toks)
    | ["agstop"] => (m, agentFails toks)
    | _ => (m, ft)

def comp : Component OSt Mon where
  init := fun args =>
    let nat (k : String) : Nat := ((kv args k).getD "0").toNat?.getD 0
    let bits := ((kv args "keep").getD "").toList.map (· != '0')
    { c := { nw := nat "workers", tt := nat "tt", sd := nat "sd", bto := nat "bto", mb := nat "mb", fixed := variant },
      keep := bits, script := parseScript ((kv args "script").getD "-"),
      rtOpamp := (kv args "opamp").getD "0" == "1",
      rc := { mb := nat "mb", r := nat "r",
              lim := (((kv args "lim").getD "").toList.zipIdx.filter (·.1 == '1')).map (·.2),
              stopWakes := false } }
  step := oStep
  minit := fun args => { keep := ((kv args "keep").getD "").toList.map (· != '0') }
  mon := shMon

def main : IO Unit := do runLoop comp (← IO.getStdin)
