import Oracle.Lib
import Refinery.Model.SamplerRegistry
/-
Oracle for the shared dynsampler registry (C12, C13).

case args: workers=<N> peers0=<n|f> ncfg=<m> c0=<cfg> … c<m-1>=<cfg>
  cfg  = entry;entry;…          entry = <enc env>|L<def>   or   <enc env>|R<def>^<def>^…
  def  = <kind>!<rate>!<useClusterSize 0/1>!<tuning>!<fields>     kind = dyn ema tot emt win det
  fields = *  (none)  or  <enc f>~<enc f>~…
ops: get <w> <enc env> | peers <n> | peersfail | setcfg <j> | clear | wreload <w> | cget <enc env> <k>
     cget = k fresh workers at once; the model takes one linearisation: for i < k: wreload (100+i); get (100+i) env
     obs of cget: r=<slot ids>/<slot ids>/… (one list per worker) p=… c=… g=…
     feed <w> <enc env> <n> : get, then every dynsampler behind the worker's sampler counts n more events;
       every obs ends with f=<id:events counted,…> for the registered instances
     peerset <n> | peersetfail | peercb : membership change and its callback as separate steps
     peercb2 <n2> : two overlapping callbacks around a change to n2 peers; the list is read under the factory
       mutex, so the commit order is the read order: model = peercb; peerset n2; peercb
     reload <w> <enc env> : real reloadConfigs; `ext order = a,b,c` is the observed order of clear / stress /
       signal; the model replays exactly that order: clear = .clear, stress = [wreload w if signalled] get w env,
       signal = every worker has a pending signal; afterwards every signalled worker does wreload, then all get env.
       obs: m=<w's slot ids mid-reload> r=<worker 0>/<worker 1>/… p=… c=… g=…
obs: [s=<ids> k=<keys>] p=<peerCount> c=<id/cfg,…> g=<id:goal,…>       (see harness/cmd/samplerreg/main.go)
-/
open Refinery Refinery.Model.SamplerRegistry Oracle

namespace Samplerreg

/-! ## percent-encoding of the harness kit -/

def hexVal (c : Char) : Nat :=
  if '0' ≤ c ∧ c ≤ '9' then c.toNat - '0'.toNat
  else if 'A' ≤ c ∧ c ≤ 'F' then c.toNat - 'A'.toNat + 10
  else if 'a' ≤ c ∧ c ≤ 'f' then c.toNat - 'a'.toNat + 10 else 0

def decBytes : List Char → List UInt8
  | '%' :: a :: b :: t => UInt8.ofNat (hexVal a * 16 + hexVal b) :: decBytes t
  | c :: t => (String.singleton c).toUTF8.toList ++ decBytes t
  | [] => []

def dec (s : String) : Str :=
  if s == "%" then [] else
  match String.fromUTF8? (ByteArray.mk (decBytes s.toList).toArray) with
  | some r => r.toList
  | none => []

def hexDigit (n : Nat) : Char := "0123456789ABCDEF".toList.getD n '?'

def safe (c : UInt8) : Bool :=
  let n := c.toNat
  (97 ≤ n && n ≤ 122) || (65 ≤ n && n ≤ 90) || (48 ≤ n && n ≤ 57) ||
    n == 46 || n == 95 || n == 58 || n == 47 || n == 43 || n == 45

def enc (s : Str) : String :=
  if s.isEmpty then "%" else
  String.ofList ((String.ofList s).toUTF8.toList.flatMap fun b =>
    if safe b then [Char.ofNat b.toNat] else ['%', hexDigit (b.toNat / 16), hexDigit (b.toNat % 16)])

/-! ## parsing the case header -/

def parseKind : String → Option Kind
  | "dyn" => some .dynamic | "ema" => some .emadynamic | "tot" => some .total
  | "emt" => some .emathroughput | "win" => some .windowed | "det" => some .determ
  | _ => none

def parseDef (s : String) : Option Def :=
  match s.splitOn "!" with
  | [k, r, u, t, f] => do
    let kind ← parseKind k
    let rate ← r.toInt?
    let tuning ← t.toNat?
    let fields := if f == "*" then [] else (f.splitOn "~").map dec
    pure { kind, rate, fields, useCluster := u == "1", tuning }
  | _ => none

def parseEnvCfg (body : String) : Option EnvCfg :=
  match body.toList with
  | 'L' :: rest => (parseDef (String.ofList rest)).map EnvCfg.leaf
  | 'R' :: rest =>
    if rest.isEmpty then some (.rules []) else
    (((String.ofList rest).splitOn "^").mapM parseDef).map EnvCfg.rules
  | _ => none

/-- later entries of the same name replace earlier ones (a Go map) -/
def parseCfg (s : String) : Config :=
  if s.isEmpty then [] else
  (s.splitOn ";").foldl (fun c part =>
    match part.splitOn "|" with
    | [e, body] => match parseEnvCfg body with
      | some ec => AList.put c (dec e) ec
      | none => c
    | _ => c) []

def parseCfgs (args : List String) : List Config :=
  let n := ((kv args "ncfg").getD "0").toNat?.getD 0
  (List.range n).map fun j => parseCfg ((kv args s!"c{j}").getD "")

def parseActual (args : List String) : Option Nat :=
  match kv args "peers0" with
  | some "f" => none
  | some s => some (s.toNat?.getD 0)
  | none => some 1

/-! ## the model's predicted observation -/

def insertBy (x : Nat × String) : List (Nat × String) → List (Nat × String)
  | [] => [x]
  | y :: t => if x.1 < y.1 || (x.1 == y.1 && x.2 ≤ y.2) then x :: y :: t else y :: insertBy x t

def sortRows (l : List (Nat × String)) : List (Nat × String) := l.foldr insertBy []

def joinC (l : List String) : String := if l.isEmpty then "-" else ",".intercalate l

def tailStr (st : St) : String :=
  let g := sortRows (st.reg.map fun (_, id) =>
    match st.insts[id]? with
    | some i => (id, if i.kind.isThroughput then s!"{id}:{i.goal}" else s!"{id}:-")
    | none => (id, s!"{id}:?"))
  let c := sortRows (st.goalCfg.map fun (k, c) =>
    match AList.get st.reg k with
    | some id => (id, s!"{id}/{c}")
    | none => (1 <<< 30, s!"?/{c}"))
  let f := sortRows (st.reg.map fun (_, id) => (id, s!"{id}:{(AList.get st.fed id).getD 0}"))
  s!"p={st.peerCount} c={joinC (c.map (·.2))} g={joinC (g.map (·.2))} f={joinC (f.map (·.2))}"

def slotStr (st : St) (slots : List Slot) : String :=
  let s := slots.map fun sl => match sl.id with | some id => toString id | none => "-"
  let k := slots.map fun sl => match sl.id with
    | none => "-"
    | some id => match st.reg.find? (fun p => p.2 == id) with
      | some (key, _) => enc key
      | none => "x"
  s!"s={joinC s} k={joinC k}"

/-- `ext order = clear,stress,signal` -/
def reloadOrder (exts : List (List String)) : Option (List String) :=
  exts.findSome? fun e => match e with
    | ["order", "=", x] => some (x.splitOn ",")
    | _ => none

def idList (st : St) (w : Nat) (env : Str) : String :=
  match AList.get st.caches (w, env) with
  | some ent => joinC (ent.slots.map fun sl => match sl.id with | some id => toString id | none => "-")
  | none => "nil"

structure OSt where
  cfgs : List Config
  workers : Nat
  st : St

def oInit (args : List String) : OSt :=
  let cfgs := parseCfgs args
  { cfgs, workers := ((kv args "workers").getD "0").toNat?.getD 0,
    st := init (cfgs.headD []) (parseActual args) }

def oStep (o : OSt) (op : List String) (exts : List (List String)) : OSt × Option String :=
  let go (x : Op) : OSt × Option String :=
    let st' := step o.cfgs o.st x
    ({ o with st := st' }, some (tailStr st'))
  match op with
  | ["get", w, e] =>
    match w.toNat? with
    | some w =>
      if w ≥ o.workers then (o, some "bad-op") else
      let env := dec e
      match AList.get o.st.caches (w, env), lookupCfg o.st.cfg env with
      | none, none => (o, some "exit")
      | _, _ =>
        let st' := step o.cfgs o.st (.get w env)
        match AList.get st'.caches (w, env) with
        | some ent => ({ o with st := st' }, some (slotStr st' ent.slots ++ " " ++ tailStr st'))
        | none => (o, some "bad-op")
    | none => (o, some "bad-op")
  | ["cget", e, k] =>
    match k.toNat? with
    | some k =>
      if k < 1 || k > 16 then (o, some "bad-op") else
      let env := dec e
      match lookupCfg o.st.cfg env with
      | none => (o, some "exit")
      | some _ =>
        let st' := (List.range k).foldl (fun st i =>
          step o.cfgs (step o.cfgs st (.wreload (100 + i))) (.get (100 + i) env)) o.st
        let lists := (List.range k).map fun i =>
          match AList.get st'.caches (100 + i, env) with
          | some ent => joinC (ent.slots.map fun sl => match sl.id with | some id => toString id | none => "-")
          | none => "nil"
        ({ o with st := st' }, some ("r=" ++ "/".intercalate lists ++ " " ++ tailStr st'))
    | none => (o, some "bad-op")
  | ["feed", w, e, n] =>
    match w.toNat?, n.toNat? with
    | some w, some n =>
      if w ≥ o.workers then (o, some "bad-op") else
      let env := dec e
      match AList.get o.st.caches (w, env), lookupCfg o.st.cfg env with
      | none, none => (o, some "exit")
      | _, _ =>
        let st' := step o.cfgs o.st (.feed w env n)
        match AList.get st'.caches (w, env) with
        | some ent => ({ o with st := st' }, some (slotStr st' ent.slots ++ " " ++ tailStr st'))
        | none => (o, some "bad-op")
    | _, _ => (o, some "bad-op")
  | ["peerset", n] => match n.toNat? with | some n => go (.peerset n) | none => (o, some "bad-op")
  | ["peersetfail"] => go .peersetFail
  | ["peercb"] => go .peercb
  | ["peercb2", n] => match n.toNat? with
    | some n =>
      let st' := step o.cfgs (step o.cfgs (step o.cfgs o.st .peercb) (.peerset n)) .peercb
      ({ o with st := st' }, some (tailStr st'))
    | none => (o, some "bad-op")
  | ["reload", w, e] =>
    match w.toNat?, reloadOrder exts with
    | some w, some order =>
      if w ≥ o.workers then (o, some "bad-op") else
      let env := dec e
      match lookupCfg o.st.cfg env with
      | none => (o, some "exit")
      | some _ =>
        let (st1, sig, consumed, mid) := order.foldl (fun (acc : St × Bool × Bool × String) stage =>
          let (st, sig, consumed, mid) := acc
          if stage == "clear" then (step o.cfgs st .clear, sig, consumed, mid)
          else if stage == "signal" then (st, true, consumed, mid)
          else if stage == "stress" then
            let st := if sig then step o.cfgs st (.wreload w) else st
            let st := step o.cfgs st (.get w env)
            (st, sig, sig, idList st w env)
          else (st, sig, consumed, mid)) (o.st, false, false, "nil")
        let st2 := (List.range o.workers).foldl (fun st i =>
          if sig && !(i == w && consumed) then step o.cfgs st (.wreload i) else st) st1
        let st3 := (List.range o.workers).foldl (fun st i => step o.cfgs st (.get i env)) st2
        let lists := (List.range o.workers).map fun i => idList st3 i env
        ({ o with st := st3 }, some (s!"m={mid} r=" ++ "/".intercalate lists ++ " " ++ tailStr st3))
    | _, _ => (o, some "bad-op")
  | ["peers", n] => match n.toNat? with | some n => go (.peers n) | none => (o, some "bad-op")
  | ["peersfail"] => go .peersFail
  | ["setcfg", j] => match j.toNat? with
    | some j => if j < o.cfgs.length then go (.setcfg j) else (o, some "bad-op")
    | none => (o, some "bad-op")
  | ["clear"] => go .clear
  | ["wreload", w] => match w.toNat? with
    | some w => if w < o.workers then go (.wreload w) else (o, some "bad-op")
    | none => (o, some "bad-op")
  | _ => (o, some "bad-op")

/-! ## monitors (on the implementation's observations and the case inputs only) -/

structure MSlot where
  pfx : Str
  d : Def
  id : Nat
  env : Str
  down : Bool        -- downstream sampler of a rules-based sampler (prefix rules:<env>:) or top level (prefix <env>)
  worker : Nat

structure MSt where
  cfgs : List Config
  cfg : Config
  workers : Nat
  peers : Option Nat                   -- the property's "current number of peers"; none = cannot be told from the ops
  src : Option Nat                     -- what the peer source answers now
  dirty : Bool := false                -- the source changed and the callback has not run yet
  fedExp : List (Nat × Nat) := []      -- instance ↦ events fed into it so far (from the feed ops and their observed slots)
  cached : List (Nat × Str) := []      -- which (worker, key) pairs hold a cached sampler (from the ops alone)
  seen : List MSlot := []              -- sampler slots built since the last ClearDynsamplers, with the observed instance
  oldIds : List Nat := []              -- instances observed before the last ClearDynsamplers

def mInit (args : List String) : MSt :=
  let cfgs := parseCfgs args
  { cfgs, cfg := cfgs.headD [], workers := ((kv args "workers").getD "0").toNat?.getD 0,
    peers := some (refreshCount (parseActual args) 1), src := parseActual args }

def parseIds (s : String) (nslots : Nat) : List (Option Nat) :=
  if s == "-" && nslots == 0 then [] else (s.splitOn ",").map String.toNat?

/-- g=<id:goal,…> ↦ (id, goal) for throughput instances -/
def parseGoals (s : String) : List (Nat × Int) :=
  if s == "-" then [] else (s.splitOn ",").filterMap fun t =>
    match t.splitOn ":" with
    | [i, g] => match i.toNat?, g.toInt? with | some i, some g => some (i, g) | _, _ => none
    | _ => none

def defStr (d : Def) : String :=
  let k := match d.kind with
    | .dynamic => "dyn" | .emadynamic => "ema" | .total => "tot" | .emathroughput => "emt"
    | .windowed => "win" | .determ => "det"
  s!"{k}/rate={d.rate}/fields={joinC (d.fields.map enc)}/useClusterSize={d.useCluster}/tuning={d.tuning}"

def stripRoot (f : Str) : Str := if "root.".toList.isPrefixOf f then f.drop 5 else f
def droppedName (f : Str) : Bool := f.isEmpty || "?.".toList.isPrefixOf f

/-- how two different field lists are related: the same text once printed with %v (the known key
ambiguity), the same up to `root.` prefixes, the same up to names that are no span fields (empty,
computed `?.`), or simply different -/
def fieldsClass (a b : List Str) : String :=
  if joinSp (sortStr a) == joinSp (sortStr b) then "fieldlist-join"
  else if sortStr (a.map stripRoot) == sortStr (b.map stripRoot) then "fields-differ:root-prefix"
  else if sortStr (a.filter (!droppedName ·)) == sortStr (b.filter (!droppedName ·)) then "fields-differ:dropped-names"
  else if sortStr ((a.filter (!droppedName ·)).map stripRoot) == sortStr ((b.filter (!droppedName ·)).map stripRoot) then "fields-differ:root-prefix"
  else "fields-differ"

/-- why two different (prefix, definition) pairs must not share an instance, most basic difference first -/
def isoClass (a b : MSlot) : String :=
  if a.env != b.env || a.down != b.down then "env-collision"
  else if a.d.kind != b.d.kind then "kind-collision"
  else if a.d.rate != b.d.rate then "rate-collision"
  else if sortStr a.d.fields != sortStr b.d.fields then fieldsClass a.d.fields b.d.fields
  else if a.d.useCluster != b.d.useCluster then "useclustersize-ignored"
  else "tuning-ignored"

def sameCfg (a b : MSlot) : Bool :=
  a.env == b.env && a.down == b.down && a.d.kind == b.d.kind && a.d.rate == b.d.rate &&
    sortStr a.d.fields == sortStr b.d.fields && a.d.useCluster == b.d.useCluster && a.d.tuning == b.d.tuning

def mk (prop sig what : String) : Fail := { prop := prop, sig := sig, what := what }

def addFail (fs : List Fail) (f : Fail) : List Fail :=
  if fs.any (·.sig == f.sig) then fs else fs ++ [f]

/-- C12 checks when a worker has just built a sampler (cache miss): slots `new` against everything
built since the last clear, and against instances seen before it -/
def c12Check (m : MSt) (new : List MSlot) : List Fail := Id.run do
  let mut fs : List Fail := []
  let mut prior := m.seen
  for a in new do
    if m.oldIds.contains a.id then
      fs := addFail fs (mk "C12" "C12:reload-did-not-clear"
          s!"instance {a.id} behind worker {a.worker}'s new sampler for {enc a.env} was already in use before the last ClearDynsamplers")
    for b in prior do
      if sameCfg a b && a.id != b.id then
        let clash := (prior ++ new).any fun c => makeKey c.pfx c.d == makeKey a.pfx a.d && c.d.kind != a.d.kind
        let sig := if clash then "C12:workers-not-sharing:kind-collision" else "C12:workers-not-sharing"
        fs := addFail fs (mk "C12" sig
          s!"definition {defStr a.d} (prefix {enc a.pfx}) has instance {b.id} on worker {b.worker} but {a.id} on worker {a.worker}")
      if !sameCfg a b && a.id == b.id then
        fs := addFail fs (mk "C12" s!"C12:isolation:{isoClass a b}"
          s!"instance {a.id} is shared by {defStr b.d} (env {enc b.env}, prefix {enc b.pfx}) and {defStr a.d} (env {enc a.env}, prefix {enc a.pfx})")
    prior := prior ++ [a]
  return fs

/-- C13 check of every throughput slot built since the last clear against the goals in force -/
def c13Check (m : MSt) (goals : List (Nat × Int)) : List Fail := Id.run do
  let mut fs : List Fail := []
  -- between a membership change and its callback, and after a callback that could not tell, nothing is required
  let some peers := (if m.dirty then none else m.peers) | return []
  for a in m.seen do
    if a.d.kind.isThroughput then
      match goals.find? (·.1 == a.id) with
      | none => pure ()
      | some (_, g) =>
        let want := if a.d.useCluster then newGoal a.d.rate peers else creationGoal a.d.rate
        if g != want then
          let partners := m.seen.filter fun b => b.id == a.id && !sameCfg a b
          let sig :=
            if partners.any (fun b => b.d.rate != a.d.rate || b.d.kind != a.d.kind) then "C13:goal-of-colliding-definition"
            else if !a.d.useCluster && partners.any (·.d.useCluster) then "C13:fixed-goal-scaled:shares-with-useclustersize"
            else s!"C13:goal-wrong:useclustersize={a.d.useCluster}"
          fs := addFail fs (mk "C13" sig
            s!"{defStr a.d} (prefix {enc a.pfx}, instance {a.id}) has goal {g} with {peers} peers, expected {want}")
  return fs

/-- a worker asks for its sampler (cache protocol from the ops alone); `s` = observed slot ids.
C12 checks only: the caller runs the C13 check once the operation is over. -/
def monGet (m : MSt) (w : Nat) (env : Str) (e : String) (s : String) : MSt × List Fail :=
  if m.cached.contains (w, env) then (m, [])
  else
    let defs := slotsOf m.cfg env
    let down := match lookupCfg m.cfg env with | some (.rules _) => true | _ => false
    let ids := parseIds s defs.length
    if defs.length != ids.length then
      (m, [mk "C12" "C12:slot-count" s!"sampler for {e} has {ids.length} slots, its configuration {defs.length}"])
    else
      let new : List MSlot := (defs.zip ids).filterMap fun ((p, d), i) =>
        i.map fun id => { pfx := p, d, id, env, down, worker := w }
      ({ m with cached := (w, env) :: m.cached, seen := m.seen ++ new }, c12Check m new)

def monClear (m : MSt) : MSt := { m with seen := [], oldIds := m.oldIds ++ m.seen.map (·.id) }
def monWreload (m : MSt) (w : Nat) : MSt := { m with cached := m.cached.filter (·.1 != w) }

/-- the callback runs: a good answer is the current number of peers; a bad one leaves the count as
it was, which the ops alone determine only if nothing changed since the last callback -/
def monCallback (m : MSt) : MSt :=
  match m.src with
  | some n => if n > 0 then { m with peers := some n, dirty := false }
              else { m with peers := if m.dirty then none else m.peers, dirty := false }
  | none => { m with peers := if m.dirty then none else m.peers, dirty := false }

def mStep0 (m : MSt) (op : List String) (exts : List (List String)) (obs : Option String) : MSt × List Fail :=
  let o := obs.getD ""
  if o.startsWith "panic" then
    (m, [{ prop := "C12", sig := "C12:panic", what := o }, { prop := "C13", sig := "C13:panic", what := o }])
  else
  let toks := o.splitOn " "
  let goals := parseGoals ((kv toks "g").getD "-")
  match op with
  | ["get", w, e] =>
    match w.toNat?, kv toks "s" with
    | some w, some s =>
      let (m', f) := monGet m w (dec e) e s
      (m', f ++ c13Check m' goals)
    | _, _ => (m, [])
  | ["cget", e, _] =>
    match kv toks "r" with
    | some r =>
      let env := dec e
      let lists := r.splitOn "/"
      let first := lists.headD ""
      let f1 := if lists.all (· == first) then [] else
        [mk "C12" "C12:workers-not-sharing:concurrent-creation"
          s!"workers that built the sampler for {e} at the same moment hold different instances: {r}"]
      -- the first worker's sampler takes part in the other checks like a sequential build
      let defs := slotsOf m.cfg env
      let down := match lookupCfg m.cfg env with | some (.rules _) => true | _ => false
      let ids := parseIds first defs.length
      if defs.length != ids.length then (m, f1) else
        let new : List MSlot := (defs.zip ids).filterMap fun ((p, d), i) =>
          i.map fun id => { pfx := p, d, id, env, down, worker := 100 }
        let f12 := c12Check m new
        let m' := { m with seen := m.seen ++ new }
        (m', f1 ++ f12 ++ c13Check m' goals)
    | none => (m, [])
  | ["reload", w, e] =>
    match w.toNat?, kv toks "m", kv toks "r", reloadOrder exts with
    | some w, some mid, some r, some order =>
      let env := dec e
      let lists := r.splitOn "/"
      let (m1, sig, consumed, f1) := order.foldl (fun (acc : MSt × Bool × Bool × List Fail) stage =>
        let (m, sig, consumed, fs) := acc
        if stage == "clear" then (monClear m, sig, consumed, fs)
        else if stage == "signal" then (m, true, consumed, fs)
        else if stage == "stress" then
          let m := if sig then monWreload m w else m
          let (m, f) := monGet m w env e mid
          (m, sig, sig, fs ++ f)
        else (m, sig, consumed, fs)) (m, false, false, [])
      let m2 := (List.range m.workers).foldl (fun m i =>
        if sig && !(i == w && consumed) then monWreload m i else m) m1
      -- the property after a completed reload: every worker is back on the same instances
      let first := lists.headD ""
      if lists.all (· == first) then
        let (m3, f3) := ((List.range m.workers).zip lists).foldl (fun (acc : MSt × List Fail) (il : Nat × String) =>
          let (m', f) := monGet acc.1 il.1 env e il.2
          (m', acc.2 ++ f)) (m2, f1)
        (m3, f3 ++ c13Check m3 goals)
      else
        let m3 := { m2 with cached := ((List.range m.workers).map fun i => (i, env)) ++ m2.cached }
        (m3, f1 ++ [mk "C12" "C12:workers-not-sharing:after-reload"
          s!"after reloadConfigs (observed order {",".intercalate order}) and every worker having handled its reload signal, the workers' samplers for {e} are backed by different instances: {r}"])
    | _, _, _, _ => (m, [])
  | ["peers", n] =>
    let m' := monCallback { m with src := some (n.toNat?.getD 0) }
    (m', c13Check m' goals)
  | ["peersfail"] =>
    let m' := monCallback { m with src := none }
    (m', c13Check m' goals)
  | ["feed", w, e, _] =>
    match w.toNat?, kv toks "s" with
    | some w, some s =>
      let (m', f) := monGet m w (dec e) e s
      (m', f ++ c13Check m' goals)
    | _, _ => (m, [])
  | ["peerset", n] => ({ m with src := some (n.toNat?.getD 0), dirty := true }, [])
  | ["peersetfail"] => ({ m with src := none, dirty := true }, [])
  | ["peercb"] =>
    let m' := monCallback m
    (m', c13Check m' goals)
  | ["peercb2", n] =>
    let m1 := monCallback m
    let m' := monCallback { m1 with src := some (n.toNat?.getD 0), dirty := true }
    (m', c13Check m' goals)
  | ["setcfg", j] =>
    let m' := match m.cfgs[j.toNat?.getD 0]? with | some c => { m with cfg := c } | none => m
    (m', c13Check m' goals)
  | ["clear"] => (monClear m, [])
  | ["wreload", w] =>
    let m' := monWreload m (w.toNat?.getD 0)
    (m', c13Check m' goals)
  | _ => (m, [])

def kindStr (k : Kind) : String := match k with
  | .dynamic => "dynamic" | .emadynamic => "emadynamic" | .total => "totalthroughput"
  | .emathroughput => "emathroughput" | .windowed => "windowedthroughput" | .determ => "deterministic"

/-- f=<id:n,…> -/
def parseCounts (s : String) : List (Nat × Nat) :=
  if s == "-" then [] else (s.splitOn ",").filterMap fun t =>
    match t.splitOn ":" with
    | [i, n] => match i.toNat?, n.toNat? with | some i, some n => some (i, n) | _, _ => none
    | _ => none

/-- state continuity: what has been fed into an instance is still counted by it, whatever other
workers did in the meantime (the cases are far shorter than any clearing interval) -/
def mStep (m : MSt) (op : List String) (exts : List (List String)) (obs : Option String) : MSt × List Fail :=
  let (m1, fs) := mStep0 m op exts obs
  let toks := (obs.getD "").splitOn " "
  -- a feed adds to the expectation of every instance behind the worker's sampler
  let m2 := match op with
    | ["feed", _, _, n] =>
      match kv toks "s" with
      | some s =>
        let n := n.toNat?.getD 0
        let ids := (s.splitOn ",").filterMap String.toNat?
        { m1 with fedExp := ids.foldl (fun l id =>
            match l.find? (·.1 == id) with
            | some (_, c) => (id, c + n) :: l.filter (·.1 != id)
            | none => (id, n) :: l) m1.fedExp }
      | none => m1
    | _ => m1
  let counts := parseCounts ((kv toks "f").getD "-")
  let bad := counts.filterMap fun (id, c) =>
    match m2.fedExp.find? (·.1 == id) with
    | some (_, want) => if c < want then some (id, c, want) else none
    | none => none
  match bad with
  | [] => (m2, fs)
  | (id, c, want) :: _ =>
    let kind := match m2.seen.find? (·.id == id) with | some sl => kindStr sl.d.kind | none => "unknown"
    let byWorker := match op with
      | "get" :: _ => true | "cget" :: _ => true | "feed" :: _ => true | "reload" :: _ => true | _ => false
    let sig := if byWorker then s!"C12:shared-state-reset-by-another-worker:{kind}" else s!"C12:shared-state-lost:{kind}"
    -- report once: afterwards the expectation follows what the instance holds
    let m3 := { m2 with fedExp := m2.fedExp.map fun (i, w) =>
      match counts.find? (·.1 == i) with | some (_, c') => (i, min w c') | none => (i, w) }
    (m3, fs ++ [mk "C12" sig s!"instance {id} had counted {want} events fed by its workers, after `{" ".intercalate op}` it holds {c}"])

def comp : Component OSt MSt where
  init := oInit
  step := oStep
  minit := mInit
  mon := mStep

end Samplerreg

def main : IO Unit := do runLoop Samplerreg.comp (← IO.getStdin)
