import Oracle.Lib
import Refinery.Model.Decorate
/-
Oracle for the content of forwarded spans (C04, C06).  Transcript format: see
harness/cmd/decorate/main.go.  The model side replays `Refinery.Model.Decorate.step`; the monitors
(`C04`, `C06`) read only the operations, the `ext` lines (the sampler's / stress reliever's own
answers) and the implementation's observations.
-/
open Refinery Refinery.Model.Decorate Refinery.Model.Rates Oracle

namespace Dec

def hexVal (c : Char) : Nat :=
  if '0' ≤ c ∧ c ≤ '9' then c.toNat - '0'.toNat
  else if 'A' ≤ c ∧ c ≤ 'F' then c.toNat - 'A'.toNat + 10
  else if 'a' ≤ c ∧ c ≤ 'f' then c.toNat - 'a'.toNat + 10
  else 0

/-- kit.Dec -/
def dec (s : String) : String :=
  if s == "%" then "" else
  let rec go (cs : List Char) (acc : ByteArray) : ByteArray :=
    match cs with
    | '%' :: a :: b :: rest => go rest (acc.push (UInt8.ofNat (hexVal a * 16 + hexVal b)))
    | c :: rest => go rest (acc ++ (String.singleton c).toUTF8)
    | [] => acc
  (String.fromUTF8? (go s.toList ByteArray.empty)).getD "?"

def hexDigit (n : Nat) : Char := "0123456789ABCDEF".toList.getD n '0'

/-- kit.Enc -/
def enc (s : String) : String :=
  if s.isEmpty then "%" else
  String.ofList <| s.toUTF8.toList.flatMap fun b =>
    let c := Char.ofNat b.toNat
    if c.isAlphanum || c == '.' || c == '_' || c == ':' || c == '/' || c == '+' || c == '-' then [c]
    else ['%', hexDigit (b.toNat / 16), hexDigit (b.toNat % 16)]

def valStr : Val → String
  | .str s => "s" ++ enc s
  | .int i => "i" ++ toString i
  | .nat n => "u" ++ toString n
  | .bool b => if b then "btrue" else "bfalse"

def spanStr (sp : Span) : String :=
  let kvs := sp.fields.map fun kv => enc kv.1 ++ "=" ++ valStr kv.2
  let kvs := (kvs.toArray.qsort (fun a b => a < b)).toList
  let f := if kvs.isEmpty then "-" else ",".intercalate kvs
  s!"{sp.sid}|{sp.rate}|{f}"

def flag (s : String) : Bool := s == "1"

def parseAttrs (s : String) : List (String × String) :=
  if s == "-" || s == "" then [] else
  (s.splitOn ";").filterMap fun p =>
    match p.splitOn ":" with
    | k :: v :: rest => some (dec k, dec (":".intercalate (v :: rest)))
    | _ => none

def parseKind : String → Option Kind
  | "s" => some .span | "e" => some .event | "l" => some .link | _ => none

/-- span arguments `<tid> <sid> <kind> <root> <client> <cls>` -/
def parseSpan (args : List String) : Option (String × Span) :=
  match args with
  | tid :: sid :: kind :: root :: client :: cls :: rest =>
    -- optional 7th argument: the `meta.refinery.original_sample_rate` the payload already carries
    -- (the payload's dedicated int64 field: 0 is "absent")
    let carried : Option Int := match rest with
      | [] => some 0
      | [v] => v.toInt?
      | _ => none
    match sid.toNat?, parseKind kind, client.toNat?, carried with
    | some sid, some k, some c, some v =>
      let f : Fields := [("cls", .str cls)]
      let f := if v = 0 then f else f ++ [(kOriginal, .int v)]
      some (tid, { sid := sid, kind := k, root := flag root, rate := c, fields := f })
    | _, _, _, _ => none
  | _ => none

def findExt (exts : List (List String)) (name : String) : Option (List String) :=
  exts.findSome? fun e => match e with
    | n :: rest => if n == name then some rest else none
    | [] => none

def parseDec (exts : List (List String)) : Option Decision :=
  match findExt exts "dec" with
  | some [rate, keep, reason, key] =>
    rate.toNat?.map fun r => { rate := r, keep := flag keep, reason := dec reason, key := dec key }
  | _ => none

def parseSr (exts : List (List String)) : Option (Nat × Bool × String) :=
  match findExt exts "sr" with
  | some [rate, keep, reason] => rate.toNat?.map fun r => (r, flag keep, dec reason)
  | _ => none

def outStr : Out → Option String
  | .none => none
  | .buf => some "buf"
  | .late sp => some ("late " ++ spanStr sp)
  | .lateDrop => some "latedrop"
  | .noTrace => some "none"
  | .dropped => some "dropped"
  | .queued => some "queued"
  | .empty => some "empty"
  | .sent tid spans => some (" ".intercalate ("sent" :: tid :: spans.map spanStr))
  | .stressDrop => some "drop"
  | .fwd sp => some ("fwd " ++ spanStr sp)
  | .bad => some "model-rejects-op"

def parseCfg (host reason sc cnt dry attrs : String) : Cfg :=
  { attrs := parseAttrs attrs, host := flag host, reason := flag reason, spanCount := flag sc,
    counts := flag cnt, dry := flag dry }

def modelStep (s : St) (op : List String) (exts : List (List String)) : St × Option String :=
  let r (p : St × Out) : St × Option String := (p.1, outStr p.2)
  match op with
  | "span" :: args => match parseSpan args with
    | some (tid, sp) => r (step s (.span tid sp))
    | none => (s, some "bad-op")
  | ["decide", tid] => r (step s (.decide tid (parseDec exts)))
  | ["decidex", tid, _, _, _, _] => r (step s (.decide tid (parseDec exts)))
  | ["drain"] => r (step s .drain)
  | "stress" :: args => match parseSpan args with
    | some (tid, sp) => r (step s (.stress tid sp (parseSr exts)))
    | none => (s, some "bad-op")
  | ["reload", host, reason, sc, cnt, dry, attrs, _] =>
    r (step s (.reload (parseCfg host reason sc cnt dry attrs)))
  | ["floor", "det", n] => match n.toInt? with
    | some n => (s, some (toString (deterministicRate n)))
    | none => (s, some "bad-op")
  | ["floor", "dyn", n] => match n.toInt? with
    | some n => (s, some (toString (dynRate n)))
    | none => (s, some "bad-op")
  | ["floor", "rule", n, _] => match n.toInt? with
    | some n => (s, some (toString (rulesRate n)))
    | none => (s, some "bad-op")
  | ["conv", "batch", i] => match i.toInt? with
    | some i => (s, some (toString (batchRate i)))
    | none => (s, some "bad-op")
  | _ => (s, some "bad-op")

def initSt (args : List String) : St :=
  let g (k : String) := (kv args k).getD "0"
  -- attrs values may contain '=' only percent-encoded, so `kv` (split on '=') is safe
  init (parseCfg (g "host") (g "reason") (g "sc") (g "cnt") (g "dry") ((kv args "attrs").getD "-")) "HOST"

/-! ## Monitors (implementation observations only) -/

/-- an observed span: sid, SampleRate, fields as (encoded key, tagged encoded value) -/
structure OSpan where
  sid : Nat
  rate : Nat
  fields : List (String × String)

def parseOSpan (s : String) : Option OSpan :=
  match s.splitOn "|" with
  | [sid, rate, f] =>
    match sid.toNat?, rate.toNat? with
    | some sid, some rate =>
      let fs := if f == "-" then [] else (f.splitOn ",").filterMap fun kvs =>
        match kvs.splitOn "=" with
        | [k, v] => some (k, v)
        | _ => none
      some { sid := sid, rate := rate, fields := fs }
    | _, _ => none
  | _ => none

def OSpan.get (o : OSpan) (k : String) : Option String := (o.fields.find? (·.1 == k)).map (·.2)

structure Arr where
  sid : Nat
  kind : String
  root : Bool

/-- the decision record as the property describes it: rate and reason of the decision, number of
spans received when decided plus late spans since -/
structure MRec where
  rate : Nat
  reason : String
  desc : Nat
  events : Nat
  links : Nat
  spans : Nat

def MRec.count (r : MRec) (kind : String) : MRec :=
  let r := { r with desc := r.desc + 1 }
  if kind == "e" then { r with events := r.events + 1 }
  else if kind == "l" then { r with links := r.links + 1 }
  else { r with spans := r.spans + 1 }

structure MDec where
  tid : String
  d : Decision
  arr : List Arr
  cfgAt : Cfg

structure MSt where
  host0 : Bool := false
  cfg : Cfg := {}
  client : List (Nat × Nat) := []                 -- sid ↦ client rate
  carried : List (Nat × Nat) := []                -- sid ↦ original_sample_rate the payload carried
  arrivals : List (String × List Arr) := []       -- buffered spans per trace (obs `buf`)
  kept : List (String × MRec) := []
  queue : List MDec := []

def lookup {α : Type} (l : List (String × α)) (k : String) : Option α := (l.find? (·.1 == k)).map (·.2)
def update {α : Type} (l : List (String × α)) (k : String) (v : α) : List (String × α) :=
  (k, v) :: l.filter (·.1 != k)

def cntKind (l : List Arr) (k : String) : Nat := (l.filter (·.kind == k)).length

def mkFail (prop sig what : String) : Fail := { prop := prop, sig := sig, what := what }

def absent (o : OSpan) (ks : List String) : Bool := ks.all fun k => (o.get k).isNone

def countKeys : List String := [kSpanEventCount, kSpanLinkCount, kSpanCount, kEventCount]

/-- `meta` int field as observed: absent when 0 -/
def intField (n : Nat) : Option String := if n = 0 then none else some s!"i{n}"
def strField (s : String) : Option String := if s == "" then none else some ("s" ++ enc s)

/-- C06 checks common to every forwarded span: additional attributes and hostname -/
def monCommon (m : MSt) (path : String) (o : OSpan) : List Fail :=
  let a := m.cfg.attrs.filterMap fun kv =>
    if o.get (enc kv.1) == some ("s" ++ enc kv.2) then none
    else some (mkFail "C06" s!"C06:attribute-missing:path={path}" s!"span {o.sid}: attribute {enc kv.1} configured as {enc kv.2}, forwarded {o.get (enc kv.1)}")
  let h := o.get kHost
  let hf :=
    if m.cfg.host && h != some "sHOST" then
      [mkFail "C06" (if !m.host0 then "C06:hostname-not-applied-after-reload:enabled"
                     else s!"C06:hostname-missing:path={path}")
        s!"span {o.sid}: AddHostMetadataToTrace is on, {kHost} = {h}"]
    else if !m.cfg.host && h.isSome then
      [mkFail "C06" (if m.host0 then "C06:hostname-not-applied-after-reload:disabled"
                     else s!"C06:hostname-unexpected:path={path}")
        s!"span {o.sid}: AddHostMetadataToTrace is off, {kHost} = {h}"]
    else []
  a ++ hf

/-- C04 check of one forwarded span outside dry run: `traceRate` is the rate of the decision that
applies; `viaRecord`: the rate reached the span through the stored decision record -/
def monRate (path : String) (viaRecord : Bool) (client carried traceRate : Nat) (o : OSpan) : List Fail :=
  let t := if client < 1 then 1 else client
  let want := t * traceRate
  let inRange := client < two31 && want < two63
  if !inRange then [] else
  if o.rate != want then
    if viaRecord && traceRate ≥ two32 && o.rate == (t * (traceRate % two32)) % two64 then
      [mkFail "C04" s!"C04:late-rate-truncated-uint32:path={path}"
        s!"span {o.sid}: decision rate {traceRate}, client rate {client}: forwarded SampleRate {o.rate} (record keeps uint32(rate) = {traceRate % two32})"]
    else
      [mkFail "C04" s!"C04:sample-rate:path={path}" s!"span {o.sid}: client {client} x trace {traceRate} forwarded as SampleRate {o.rate}"]
  else
    (if o.get kFinal != intField want then
      [mkFail "C04" s!"C04:final-sample-rate-field:path={path}" s!"span {o.sid}: SampleRate {o.rate} but {kFinal} = {o.get kFinal}"] else []) ++
    -- a nonzero client rate is recorded whatever the payload carried; with client rate 0 the code
    -- leaves the field alone, so a carried value stays
    (if o.get kOriginal != intField (if client != 0 then client else carried) then
      [mkFail "C04" (s!"C04:original-sample-rate-field:path={path}" ++ (if carried != 0 then ":carried-value" else ""))
        s!"span {o.sid}: client rate {client}, payload carried {carried}, forwarded {kOriginal} = {o.get kOriginal}"] else []) ++
    (if traceRate ≥ 1 && o.rate < 1 then
      [mkFail "C04" s!"C04:rate-below-one:path={path}" s!"span {o.sid}: SampleRate {o.rate}"] else [])

def monReason (m : MSt) (path : String) (o : OSpan) (reason sendReason key : Option String) : List Fail :=
  if m.cfg.reason then
    (if o.get kReason != reason then
      [mkFail "C06" (s!"C06:reason:path={path}" ++ (if m.kept.length > 255 then ":many-reasons" else ""))
        s!"span {o.sid}: {kReason} = {o.get kReason}, decision reason {reason} ({m.kept.length} kept decisions so far)"] else []) ++
    (if o.get kSendReason != sendReason then
      [mkFail "C06" s!"C06:send-reason:path={path}" s!"span {o.sid}: {kSendReason} = {o.get kSendReason}, expected {sendReason}"] else []) ++
    (if o.get kSampleKey != key then
      [mkFail "C06" s!"C06:sample-key:path={path}" s!"span {o.sid}: {kSampleKey} = {o.get kSampleKey}, expected {key}"] else [])
  else if !absent o [kReason, kSendReason, kSampleKey] then
    [mkFail "C06" s!"C06:reason-when-disabled:path={path}" s!"span {o.sid}: AddRuleReasonToTrace is off but a reason field is present"]
  else []

/-- root counts; `stale`: the options that were on when `send()` saw the root (tolerated leftovers) -/
def monCounts (m : MSt) (path : String) (o : OSpan) (isRoot : Bool) (desc events links spans : Nat)
    (staleCounts staleSpanCount : Bool) : List Fail :=
  let f (sig what : String) := [mkFail "C06" s!"C06:{sig}:path={path}" s!"span {o.sid}: {what}"]
  if !isRoot then
    if absent o countKeys then [] else f "counts-on-non-root" "count fields on a span that is not a root"
  else if m.cfg.counts then
    if o.get kSpanCount == intField spans && o.get kSpanEventCount == intField events &&
       o.get kSpanLinkCount == intField links && o.get kEventCount == intField desc then []
    else f "root-counts" s!"expected spans={spans} events={events} links={links} total={desc}, got {o.get kSpanCount} {o.get kSpanEventCount} {o.get kSpanLinkCount} {o.get kEventCount}"
  else if m.cfg.spanCount then
    (if o.get kSpanCount == intField desc then [] else f "root-span-count" s!"expected {kSpanCount}={desc}, got {o.get kSpanCount}") ++
    (if absent o [kSpanEventCount, kSpanLinkCount, kEventCount] || staleCounts then []
     else f "counts-when-disabled" "AddCountsToRoot is off but its fields are present")
  else
    if absent o countKeys || staleCounts || (staleSpanCount && absent o [kSpanEventCount, kSpanLinkCount, kEventCount]) then []
    else f "counts-when-disabled" "root counts are off but count fields are present"

def obsSpans (toks : List String) : List OSpan := toks.filterMap parseOSpan

def monStep (m : MSt) (op : List String) (exts : List (List String)) (obs : Option String) : MSt × List Fail :=
  let toks := (obs.getD "").splitOn " "
  match op with
  | "span" :: tid :: sid :: kind :: root :: client :: _ :: rest =>
    let sidN := sid.toNat?.getD 0
    let cl := client.toNat?.getD 0
    let cv := ((rest.head?.bind String.toNat?)).getD 0
    let m := { m with client := (sidN, cl) :: m.client, carried := (sidN, cv) :: m.carried }
    match toks with
    | ["buf"] =>
      ({ m with arrivals := update m.arrivals tid ((lookup m.arrivals tid).getD [] ++ [{ sid := sidN, kind := kind, root := flag root }]) }, [])
    | ["late", s] =>
      match parseOSpan s with
      | none => (m, [mkFail "C04" "C04:unreadable-observation" s])
      | some o =>
        let keptHandling := match o.get kDryKept with | some v => v == "btrue" | none => true
        let common := monCommon m "late" o
        if !keptHandling then
          (m, common ++ monReason m "late" o (strField lateOnly) (strField sendLateSpan) none)
        else
          match lookup m.kept tid with
          | none => (m, common ++ [mkFail "C04" "C04:late-forward-without-kept-decision" s!"span {o.sid} of {tid} forwarded as late but no kept decision was seen"])
          | some r =>
            let r := r.count kind
            let m := { m with kept := update m.kept tid r }
            let rate := if m.cfg.dry then [] else monRate "late" true cl cv r.rate o
            let rs := monReason m "late" o (strField (if r.reason != "" then r.reason ++ lateSuffix else lateOnly)) (strField sendLateSpan) none
            let cs := monCounts m "late" o (flag root) r.desc r.events r.links r.spans false false
            (m, common ++ rate ++ rs ++ cs)
    | _ => (m, [])
  | "decide" :: tid :: _ | "decidex" :: tid :: _ =>
    match parseDec exts with
    | none => (m, [])
    | some d =>
      let arr := (lookup m.arrivals tid).getD []
      let floor := if op.head? == some "decide" && d.keep && d.rate < 1 then
          [mkFail "C04" "C04:sampler-rate-below-one" s!"sampler kept {tid} with rate {d.rate}"] else []
      let m := { m with arrivals := update m.arrivals tid [] }
      let rec0 : MRec := ⟨d.rate, d.reason, arr.length, cntKind arr "e", cntKind arr "l", cntKind arr "s"⟩
      let m := if d.keep then { m with kept := update m.kept tid rec0 } else m
      let md : MDec := ⟨tid, d, arr, m.cfg⟩
      let m := if toks == ["queued"] then { m with queue := m.queue ++ [md] } else m
      (m, floor)
  | ["drain"] =>
    match toks with
    | "sent" :: tid :: rest =>
      match m.queue.find? (·.tid == tid) with
      | none => (m, [mkFail "C06" "C06:forward-without-decision" s!"trace {tid} forwarded but no queued decision was seen"])
      | some e =>
        let rec dropFirst : List MDec → List MDec
          | [] => []
          | x :: xs => if x.tid == tid then xs else x :: dropFirst xs
        let m := { m with queue := dropFirst m.queue }
        let hasRoot := e.arr.any (·.root)
        let fails := (obsSpans rest).flatMap fun o =>
          let a := e.arr.find? (·.sid == o.sid)
          let isRoot := (a.map (·.root)).getD false
          let cl := ((m.client.find? (·.1 == o.sid)).map (·.2)).getD 0
          let cv := ((m.carried.find? (·.1 == o.sid)).map (·.2)).getD 0
          let rate := if m.cfg.dry || !e.d.keep then [] else monRate "ontime" false cl cv e.d.rate o
          let rs := monReason m "ontime" o (strField e.d.reason) (strField (if hasRoot then sendGotRoot else sendExpired)) (strField e.d.key)
          let cs := monCounts m "ontime" o isRoot e.arr.length (cntKind e.arr "e") (cntKind e.arr "l") (cntKind e.arr "s")
            e.cfgAt.counts (e.cfgAt.spanCount || e.cfgAt.counts)
          monCommon m "ontime" o ++ rate ++ rs ++ cs
        let missing := if (obsSpans rest).length != e.arr.length then
            [mkFail "C06" "C06:forwarded-span-set" s!"trace {tid}: {e.arr.length} spans buffered at decision, {(obsSpans rest).length} forwarded"] else []
        (m, fails ++ missing)
    | _ => (m, [])
  | "stress" :: tid :: sid :: kind :: _ :: client :: _ :: rest =>
    let sidN := sid.toNat?.getD 0
    let cl := client.toNat?.getD 0
    let cv := ((rest.head?.bind String.toNat?)).getD 0
    let m := { m with client := (sidN, cl) :: m.client, carried := (sidN, cv) :: m.carried }
    let sr := parseSr exts
    -- a first decision by the stress reliever makes a record from an empty trace
    let m := match sr with
      | some (rate, true, reason) => { m with kept := update m.kept tid ⟨rate, reason, 0, 0, 0, 0⟩ }
      | _ => m
    match toks with
    | ["fwd", s] =>
      match parseOSpan s with
      | none => (m, [mkFail "C04" "C04:unreadable-observation" s])
      | some o =>
        let common := monCommon m "stress" o ++
          (if o.get kStressed == some "btrue" then [] else [mkFail "C06" "C06:stressed-marker" s!"span {o.sid}: {kStressed} = {o.get kStressed}"])
        match sr with
        | some (rate, _, reason) =>
          let rf := if m.cfg.dry then [] else monRate "stress-first" false cl cv rate o
          let rf := rf.map fun f => if f.sig == "C04:sample-rate:path=stress-first" then { f with sig := "C04:stress-rate" } else f
          (m, common ++ rf ++ monReason m "stress" o (strField reason) none none)
        | none =>
          match lookup m.kept tid with
          | none => (m, common ++ [mkFail "C04" "C04:late-forward-without-kept-decision" s!"stress span {o.sid} of {tid} forwarded from a record but no kept decision was seen"])
          | some r =>
            let r := r.count kind
            let m := { m with kept := update m.kept tid r }
            let rf := if m.cfg.dry then [] else monRate "stress" true cl cv r.rate o
            (m, common ++ rf ++ monReason m "stress" o (strField r.reason) none none)
    | _ => (m, [])
  | ["reload", host, reason, sc, cnt, dry, attrs, _] =>
    ({ m with cfg := parseCfg host reason sc cnt dry attrs }, [])
  | "floor" :: kind :: _ =>
    -- sampler floor: a sampler that says "keep" gives a rate of at least 1
    let keep := match findExt exts "keep" with | some [k] => flag k | _ => false
    match (obs.getD "").toNat? with
    | some rate => if keep && rate < 1 then
        (m, [mkFail "C04" s!"C04:sampler-rate-below-one:sampler={kind}" s!"{" ".intercalate op}: kept with rate {rate}"]) else (m, [])
    | none => (m, [])
  | ["conv", "batch", i] =>
    match i.toInt?, (obs.getD "").toNat? with
    | some i, some got =>
      if 0 ≤ i && i < (two31 : Int) && got != (if i = 0 then 1 else i.toNat) then
        (m, [mkFail "C04" "C04:router-rate-conversion:path=batch" s!"client sample rate {i} converted to {got}"]) else (m, [])
    | _, _ => (m, [])
  | _ => (m, [])

def minit (args : List String) : MSt :=
  let s := initSt args
  { host0 := s.cfg.host, cfg := s.cfg }

def comp : Component St MSt where
  init := initSt
  step := modelStep
  minit := minit
  mon := monStep

end Dec

def main : IO Unit := do runLoop Dec.comp (← IO.getStdin)
