import Oracle.Lib
import Refinery.Model.Metrics
/-
Oracle for `metrics.MultiMetrics` (C33).
case args: children=<0|1|2>   (child backends only receive forwarded calls; ignored by the model)
           register=keep    optional: replay against the repaired model (`step true`)
ops (names are opaque tokens):
  register <name> <counter|gauge|histogram|updown>
  increment <name> | count <name> <n> | gauge <name> <v> | histogram <name> <v>
  up <name> | down <name> | store <name> <v>
  get <name>                      obs: none | some:<float token>   (<v> above is a float token too, see below)
  creg <kind> <g> <n> <r> <base>  concurrent first registration of r fresh names <base>.<j> by g
      goroutines, each Register then n updates; obs: the readings at quiescence, comma separated
      (gauge: `in` if one of the written values 1..g); monitor sig C33:updates-lost:concurrent-first-registration
  conc <g> <item>,<item>,…        item = <i|c|u|d>*<reps>*<n>*<name>; obs: done
      the model applies the multiset in the listed order: by `conc_order_independent` every
      linearisation of these atomic adds gives the same readings.

Model = `step false` (the code as it is: `Register` resets the entry).

Monitor = the property's conclusions evaluated on the implementation's `get` answers only.  Per
name it folds the *history* (never the model state) into what was recorded since start
(`csum`, `glast`, `udiff`, `slast`, `lastReg` of Refinery.Model.Metrics, kept incrementally) and
compares every `get` answer with it:
  C33:get-mismatch:route=<r>            the answer is not what was recorded
  C33:register-resets-value:type=<t>    … and it is exactly what was recorded since the most
                                        recent Register(name, t)  (the known defect's symptom)
  C33:counter-decreased[:after-register] two successive readings of a counter went down
                                        (`:after-register` when a Register(name, counter) lies between)
A counter leaves the property's domain (no checks on it any more) once a negative Count was
applied to it or its sum reached 2^64.
-/
open Refinery Refinery.Model.Metrics Oracle

def parseType : String → Option MType
  | "counter" => some .counter
  | "gauge" => some .gauge
  | "histogram" => some .histogram
  | "updown" => some .updown
  | _ => none

def typeStr : MType → String
  | .counter => "counter" | .gauge => "gauge" | .histogram => "histogram" | .updown => "updown"

/-- `<k>*<reps>*<n>*<name>` → the calls it stands for -/
def parseItem (it : String) : Option (List (Op String)) :=
  match it.splitOn "*" with
  | [kind, reps, n, name] =>
    match reps.toNat?, n.toInt? with
    | some reps, some n =>
      match kind with
      | "i" => some (List.replicate reps (.increment name))
      | "c" => some (List.replicate reps (.count name n))
      | "u" => some (List.replicate reps (.up name))
      | "d" => some (List.replicate reps (.down name))
      | _ => none
    | _, _ => none
  | _ => none

def parseItems (s : String) : Option (List (Op String)) :=
  (s.splitOn ",").foldl (fun acc it =>
    match acc, parseItem it with
    | some l, some l' => some (l ++ l')
    | _, _ => none) (some [])

/-! ## Float tokens

`Gauge`/`Histogram`/`Store` payloads and `get` answers are canonical *tokens* produced by the
harness (`fmtFloat`): `nan`, `+inf`, `-inf`, an exact decimal integer, or `x<16 hex digits>` (the
`math.Float64bits` of a value that is not a finite integer: fractions, subnormals, -0).  The code
stores and returns such a payload verbatim, so the model's payload type (`Int`) is used as an
opaque token: `parseTok` is an injection of tokens into `Int` — integers are themselves, the other
tokens lie above `tokBase = 2^1100`, beyond every finite float64 — and `tokStr` is its inverse.
No float arithmetic or float comparison happens here. -/

def tokBase : Int := 2 ^ 1100

def hexVal (c : Char) : Option Nat :=
  if '0' ≤ c ∧ c ≤ '9' then some (c.toNat - '0'.toNat)
  else if 'a' ≤ c ∧ c ≤ 'f' then some (c.toNat - 'a'.toNat + 10)
  else none

def parseHex (cs : List Char) : Option Nat :=
  if cs.length != 16 then none
  else cs.foldl (fun acc c => match acc, hexVal c with
    | some a, some d => some (a * 16 + d)
    | _, _ => none) (some 0)

def parseTok (s : String) : Option Int :=
  if s == "nan" then some tokBase
  else if s == "+inf" then some (tokBase + 1)
  else if s == "-inf" then some (tokBase + 2)
  else match s.toList with
    | 'x' :: cs => (parseHex cs).map (fun b => tokBase + 3 + (b : Int))
    | _ => s.toInt?

def hex16 (n : Nat) : String :=
  let ds := Nat.toDigits 16 n
  String.ofList (List.replicate (16 - ds.length) '0' ++ ds)

def tokStr (v : Int) : String :=
  if v < tokBase then toString v
  else if v == tokBase then "nan"
  else if v == tokBase + 1 then "+inf"
  else if v == tokBase + 2 then "-inf"
  else "x" ++ hex16 (v - tokBase - 3).toNat

inductive Parsed where
  | one (op : Op String)
  | burst (ops : List (Op String))
  | creg (ty : MType) (g n r : Nat) (base : String)
  | bad

def parseOp : List String → Parsed
  | ["register", n, ty] => match parseType ty with | some t => .one (.register n t) | none => .bad
  | ["increment", n] => .one (.increment n)
  | ["count", n, d] => match d.toInt? with | some d => .one (.count n d) | none => .bad
  | ["gauge", n, v] => match parseTok v with | some v => .one (.gauge n v) | none => .bad
  | ["histogram", n, v] => match parseTok v with | some v => .one (.histogram n v) | none => .bad
  | ["up", n] => .one (.up n)
  | ["down", n] => .one (.down n)
  | ["store", n, v] => match parseTok v with | some v => .one (.store n v) | none => .bad
  | ["get", n] => .one (.get n)
  | ["creg", ty, g, n, r, base] =>
    match parseType ty, g.toNat?, n.toNat?, r.toNat? with
    | some ty, some g, some n, some r => .creg ty g n r base
    | _, _, _, _ => .bad
  | ["conc", g, items] =>
    match g.toNat?, parseItems items with
    | some _, some l => .burst l
    | _, _ => .bad
  | _ => .bad

def optStr : Option Int → String
  | none => "none"
  | some v => "some:" ++ tokStr v

/-- the fresh names of a `creg` op -/
def cregNames (r : Nat) (base : String) : List String :=
  (List.range r).map fun j => base ++ "." ++ toString j

/-- one linearisation of `creg`: goroutine after goroutine, each `Register` then its `n` updates
(every other interleaving gives the same totals: `concurrent_first_registration_totals`) -/
def cregOps (ty : MType) (g n r : Nat) (base : String) : List (Op String) :=
  (cregNames r base).flatMap fun nm =>
    (List.range g).flatMap fun (w : Nat) =>
      Op.register nm ty :: List.replicate n (match ty with
        | .counter => Op.increment nm
        | .updown => Op.up nm
        | .gauge => Op.gauge nm (Int.ofNat w + 1)
        | .histogram => Op.histogram nm 0)

def cregRender (ty : MType) (g n : Nat) (v : Option Int) : String :=
  match v with
  | none => "none"
  | some x =>
    if ty == .gauge && n > 0 then
      (if 1 ≤ x ∧ x ≤ (g : Int) then "in" else "out:" ++ tokStr x)
    else "some:" ++ tokStr x

/-- what the property demands of a `creg` reading: g·n for counters and up-downs, one of the
written values for a gauge -/
def cregWant (ty : MType) (g n : Nat) : String :=
  match ty with
  | .counter | .updown => "some:" ++ toString (g * n)
  | .gauge => if n > 0 then "in" else "some:0"
  | .histogram => "none"

/-- state: (`keep` flag of the model, store).  `keep` is false (the code as it is) unless the case
header says `register=keep` (used to check the proposed repair against the repaired model). -/
def mStep (ks : Bool × St String) (op : List String) (_ : List (List String)) :
    (Bool × St String) × Option String :=
  let (keep, s) := ks
  match parseOp op with
  | .bad => (ks, some "bad-op")
  | .burst l => ((keep, runFrom keep s l), some "done")
  | .creg ty g n r base =>
    let s' := runFrom keep s (cregOps ty g n r base)
    ((keep, s'), some (",".intercalate ((cregNames r base).map fun nm => cregRender ty g n (get s' nm))))
  | .one (.get n) => (ks, some (optStr (get s n)))
  | .one o => ((keep, step keep s o), none)

/-! ## Monitor -/

structure Rec where
  ty : Option MType := none
  csum : Int := 0
  csince : Int := 0
  ctouched : Bool := false
  cdomain : Bool := true
  g : Int := 0
  gsince : Int := 0
  gtouched : Bool := false
  u : Int := 0
  usince : Int := 0
  utouched : Bool := false
  s : Option Int := none
  lastC : Option Int := none
  regSince : Bool := false

abbrev MSt := AList String Rec

def recOf (m : MSt) (n : String) : Rec := match AList.get m n with | some r => r | none => {}

def reading (t : Int) : Int := (f64OfNat (t % (u64 : Int)).toNat : Int)

/-- fold one call of the history into the record of its name -/
def note (m : MSt) (o : Op String) : MSt :=
  match o with
  | .register n ty =>
    let r := recOf m n
    let r := { r with ty := some ty }
    let r := match ty with
      | .counter => { r with ctouched := true, csince := 0, regSince := true }
      | .gauge => { r with gtouched := true, gsince := 0 }
      | .updown => { r with utouched := true, usince := 0 }
      | .histogram => r
    AList.put m n r
  | .increment n =>
    let r := recOf m n
    let t := r.csum + 1
    AList.put m n { r with csum := t, csince := r.csince + 1, ctouched := true,
                           cdomain := r.cdomain && decide (t < (u64 : Int)) }
  | .count n d =>
    let r := recOf m n
    let t := r.csum + d
    AList.put m n { r with csum := t, csince := r.csince + d, ctouched := true,
                           cdomain := r.cdomain && decide (0 ≤ d) && decide (t < (u64 : Int)) }
  | .gauge n v => let r := recOf m n; AList.put m n { r with g := v, gsince := v, gtouched := true }
  | .histogram _ _ => m
  | .up n => let r := recOf m n; AList.put m n { r with u := r.u + 1, usince := r.usince + 1, utouched := true }
  | .down n => let r := recOf m n; AList.put m n { r with u := r.u - 1, usince := r.usince - 1, utouched := true }
  | .store n v => let r := recOf m n; AList.put m n { r with s := some v }
  | .get _ => m

/-- (route, recorded since start, recorded since the most recent Register of that type, in domain) -/
def expected (r : Rec) : String × Option Int × Option Int × Bool :=
  let c := ("counter", some (reading r.csum), some (reading r.csince), r.cdomain)
  let g := ("gauge", some r.g, some r.gsince, true)
  let u := ("updown", some (f64OfInt r.u), some (f64OfInt r.usince), true)
  match r.s with
  | some v => ("store", some v, some v, true)
  | none =>
    match r.ty with
    | some .counter => c
    | some .gauge => g
    | some .updown => u
    | some .histogram => ("histogram", none, none, true)
    | none =>
      if r.ctouched then c else if r.gtouched then g else if r.utouched then u
      else ("unregistered", none, none, true)

def parseObs (o : String) : Option (Option Int) :=
  if o == "none" then some none
  else match o.splitOn ":" with
    | ["some", v] => (parseTok v).map some
    | _ => none

def mMon (m : MSt) (op : List String) (_ : List (List String)) (obs : Option String) : MSt × List Fail :=
  match parseOp op with
  | .bad => (m, [])
  | .burst l => (l.foldl note m, [])
  | .creg ty g n r base =>
    let m' := (cregOps ty g n r base).foldl note m
    let want := cregWant ty g n
    let outs := match obs with | some o => o.splitOn "," | none => []
    let names := cregNames r base
    let fails : List Fail :=
      if outs.length != names.length then
        [{ prop := "C33", sig := "C33:creg-unreadable", what := s!"creg answered {obs.getD "-"}" }]
      else
        (names.zip outs).filterMap fun (nm, o) =>
          if o == want then none
          else some { prop := "C33", sig := "C33:updates-lost:concurrent-first-registration",
                      what := s!"{g} goroutines registered {nm} ({typeStr ty}) and made {n} updates each: get answered {o}, recorded {want}" }
    (m', fails)
  | .one (.get n) =>
    let r := recOf m n
    let (route, full, since, dom) := expected r
    match obs with
    | none => (m, [{ prop := "C33", sig := "C33:get-no-answer", what := s!"get {n} gave no observation" }])
    | some o =>
      match parseObs o with
      | none => (m, [{ prop := "C33", sig := "C33:get-unreadable:route=" ++ route, what := s!"get {n} answered {o}" }])
      | some got =>
        if !dom then (m, []) else
        let f1 : List Fail :=
          if got == full then []
          else if got == since && route != "store" then
            [{ prop := "C33", sig := "C33:register-resets-value:type=" ++ route,
               what := s!"get {n} answered {optStr got}: recorded since start {optStr full}, since the last Register {optStr since}" }]
          else
            [{ prop := "C33", sig := "C33:get-mismatch:route=" ++ route,
               what := s!"get {n} answered {optStr got}, recorded {optStr full}" }]
        let f2 : List Fail :=
          if route == "counter" then
            match r.lastC, got with
            | some a, some b =>
              if b < a then
                [{ prop := "C33", sig := "C33:counter-decreased" ++ (if r.regSince then ":after-register" else ""),
                   what := s!"counter {n} read {a} and later {b}" }]
              else []
            | _, _ => []
          else []
        let r' := if route == "counter" then { r with lastC := got, regSince := false } else r
        (AList.put m n r', f1 ++ f2)
  | .one o => (note m o, [])

def comp : Component (Bool × St String) MSt where
  init := fun args => ((kv args "register") != some "reset", {})
  step := mStep
  minit := fun _ => []
  mon := mMon

def main : IO Unit := do runLoop comp (← IO.getStdin)
