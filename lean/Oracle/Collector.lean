import Oracle.Lib
import Refinery.Model.Collector
import Refinery.Basic.AList
import Refinery.Basic.Sort
/-
Oracle for the trace collector (C01, C02, C05).  See harness/cmd/collector/main.go for the ops.

case args: workers=<n> cap=<k> dry=<0|1> max=<m> u=<universe>
The model's parameters are built from the transcript: `owner` from the `ext owner` lines (checked to
be a function of the trace id), `decide` from the `ext dec` lines (checked to be a function of
(generation, trace id)), the dropped-filter answer `filt` from `ext filt` (checked to be exact: in
the harness' regime — a few dozen ids, no filter rotation — a false positive or a forgotten drop is
a defect, the model itself accepts either, see Model/Collector.lean).
-/
open Refinery Refinery.Model.Collector Oracle

structure OSt where
  s : St := {}
  cap : Nat := 1
  workers : Nat := 1
  owner : AList Nat Nat := []
  decs : AList (Nat × Nat) Decision := []
  sdecs : AList Nat Decision := []        -- graph of StressRelief.GetSampleRate (ext sdec)

def OSt.params (o : OSt) : Params :=
  { decide := fun g t => (AList.get o.decs (g, t)).getD default,
    owner := fun t => (AList.get o.owner t).getD 0,
    cap := o.cap,
    stressDecide := fun t => (AList.get o.sdecs t).getD default }

def markerStr : Option Bool → String
  | none => "-"
  | some true => "1"
  | some false => "0"

def fwdStr (f : Fwd) : String := s!"{f.sid}:{f.rate}:{markerStr f.marker}{if f.stress then ":s" else ""}"

def fwdList (l : List Fwd) : String := if l.isEmpty then "-" else ",".intercalate (l.map fwdStr)

/-- `ext <name> <k> = <v>` lookup -/
def extVal (exts : List (List String)) (name key : String) : Option String :=
  exts.findSome? fun e => match e with
    | [n, k, "=", v] => if n == name && k == key then some v else none
    | _ => none

def extDec (exts : List (List String)) (t : Nat) : Option Decision :=
  exts.findSome? fun e => match e with
    | ["dec", k, "=", keep, rate, reason] =>
      if k == toString t then
        match rate.toNat? with
        | some r => some { keep := keep == "1", rate := r, reason := reason }
        | none => none
      else none
    | _ => none

def extSdec (exts : List (List String)) (t : Nat) : Option Decision :=
  exts.findSome? fun e => match e with
    | ["sdec", k, "=", keep, rate] =>
      if k == toString t then rate.toNat?.map fun r => { keep := keep == "1", rate := r } else none
    | _ => none

def extTook (exts : List (List String)) : Option (List Nat) :=
  exts.findSome? fun e => match e with
    | ["took", "=", l] => some (parseNatList l)
    | _ => none

def extWorker (exts : List (List String)) : Option Nat :=
  exts.findSome? fun e => match e with
    | ["worker", "=", w] => w.toNat?
    | _ => none

def dedupSorted (l : List Nat) : List Nat := (isort l).eraseDups

/-- decide the traces the implementation took, in its order -/
def decideAll (o : OSt) (w : Nat) (exts : List (List String)) :
    List Nat → List String → OSt × List String
  | [], acc => (o, acc.reverse)
  | t :: rest, acc =>
    if (AList.get o.owner t) != some w then decideAll o w exts rest (s!"{t}:wrong-worker" :: acc)
    else if !(buffered o.s t) then decideAll o w exts rest (s!"{t}:unbuffered" :: acc)
    else match extDec exts t with
      | none => decideAll o w exts rest (s!"{t}:no-decision-ext" :: acc)
      | some d =>
        match AList.get o.decs (o.s.gen, t) with
        | some d' =>
          if d' != d then decideAll o w exts rest (s!"{t}:decide-not-a-function" :: acc)
          else
            let o' := { o with s := decideT o.params o.s t }
            let e := if d.keep || o.s.dryRun then s!"{t}:{if d.keep then "k" else "d"}:{d.rate}:{d.reason}" else s!"{t}:x"
            decideAll o' w exts rest (e :: acc)
        | none =>
          let o1 := { o with decs := AList.put o.decs (o.s.gen, t) d }
          let o' := { o1 with s := decideT o1.params o1.s t }
          let e := if d.keep || o.s.dryRun then s!"{t}:{if d.keep then "k" else "d"}:{d.rate}:{d.reason}" else s!"{t}:x"
          decideAll o' w exts rest (e :: acc)

def leftOf (o : OSt) (w : Nat) : List Nat :=
  dedupSorted ((o.s.buf.map (·.trace)).filter fun t => AList.get o.owner t == some w)

def decideObs (o : OSt) (w : Nat) (exts : List (List String)) : OSt × Option String :=
  match extTook exts with
  | none => (o, some "no-took-ext")
  | some took =>
    let (o', es) := decideAll o w exts took []
    let e := if es.isEmpty then "-" else ",".intercalate es
    (o', some s!"w={w} took={e} left={natList (leftOf o' w)}")

def collStep (o : OSt) (op : List String) (exts : List (List String)) : OSt × Option String :=
  match op with
  | ["span", t, root, client, _bytes] =>
    match t.toNat?, client.toNat? with
    | some t, some client =>
      match (extVal exts "owner" (toString t)).bind String.toNat?, extVal exts "filt" (toString t) with
      | some w, some f =>
        let filt := f == "1"
        match AList.get o.owner t with
        | some w' => if w' != w then (o, some s!"owner-not-a-function was={w'} now={w}") else go o exts t root client filt
        | none => go { o with owner := AList.put o.owner t w } exts t root client filt
      | _, _ => (o, none)      -- the implementation answered before routing (rejected / vanished): no prediction
    | _, _ => (o, some "bad-op")
  | ["tick", t] =>
    match t.toNat?, extWorker exts with
    | some t, some w =>
      match AList.get o.owner t with
      | some w' => if w' != w then (o, some s!"tick-on-wrong-worker owner={w'} ticked={w}") else decideObs o w exts
      | none => decideObs o w exts     -- an id the collector has never seen: the hash names the worker
    | _, _ => (o, some "bad-op")
  | ["tickw", w] =>
    match w.toNat?, extWorker exts with
    | some w, some w' => if w % o.workers != w' then (o, some "tick-on-wrong-worker") else decideObs o w' exts
    | _, _ => (o, some "bad-op")
  | ["eject", w, _] =>
    match w.toNat?, extWorker exts with
    | some w, some w' => if w % o.workers != w' then (o, some "eject-on-wrong-worker") else decideObs o w' exts
    | _, _ => (o, some "bad-op")
  | ["drain"] =>
    match o.s.toSend with
    | [] => (o, some "empty")
    | sd :: _ =>
      let s' := drainOne o.s
      ({ o with s := s' }, some s!"{sd.trace} {fwdList (s'.out.drop o.s.out.length)}")
  | ["flush"] =>
    if o.s.toSend.isEmpty then (o, some "empty")
    else
      let (s', parts) := o.s.toSend.foldl (fun (acc : St × List String) sd =>
        let s1 := drainOne acc.1
        (s1, acc.2 ++ [s!"{sd.trace} {fwdList (s1.out.drop acc.1.out.length)}"])) (o.s, [])
      ({ o with s := s' }, some (";".intercalate parts))
  | ["reload", g, d] =>
    match g.toNat? with
    | some g => ({ o with s := reloadCfg o.params o.s g (d == "1") }, none)
    | none => (o, some "bad-op")
  | ["resize", c] =>
    match c.toNat? with
    | some c => ({ o with s := resizeCfg o.params o.s c }, none)
    | none => (o, some "bad-op")
  | ["stress", b] => ({ o with s := setStress o.s (b == "1") }, none)
  | ["check"] =>
    (o, some s!"buf={natList (dedupSorted (o.s.buf.map (·.trace)))} pending={o.s.toSend.length}")
  | _ => (o, some "bad-op")
where
  go (o : OSt) (exts : List (List String)) (t : Nat) (root : String) (client : Nat) (filt : Bool) : OSt × Option String :=
    let exact := o.s.dropped.contains t
    if filt != exact then (o, some s!"dropped-record-inexact recorded={exact} answered={filt}")
    else if o.s.stressed then
      match extSdec exts t with
      | none => (o, some "no-sdec-ext")
      | some d =>
        match AList.get o.sdecs t with
        | some d' => if d' != d then (o, some "stress-decision-not-a-function") else stressGo o t root client filt
        | none => stressGo { o with sdecs := AList.put o.sdecs t d } t root client filt
    else
      let s' := arrive o.s t (root == "1") client filt
      let obs :=
        if s'.buf.length > o.s.buf.length then s!"buf n={(s'.buf.filter (·.trace == t)).length}"
        else if s'.out.length > o.s.out.length then
          match s'.out.getLast? with
          | some f => s!"late {fwdStr f}"
          | none => "dropped"
        else "dropped"
      ({ o with s := s' }, some obs)
  stressGo (o : OSt) (t : Nat) (root : String) (client : Nat) (filt : Bool) : OSt × Option String :=
    let s' := stressArrive o.params o.s t (root == "1") client filt
    let obs :=
      if s'.out.length > o.s.out.length then
        match s'.out.getLast? with
        | some f => s!"skept {fwdStr f}"
        | none => "sdrop"
      else "sdrop"
    ({ o with s := s' }, some obs)

/-! ## Monitors: the properties' conclusions evaluated on the implementation's observations only -/

structure MDec where
  trace : Nat
  keep : Bool
  dry : Bool
  rate : Nat := 0          -- the decision's sample rate as queued (0: not observed)

structure MSt where
  dry : Bool := false
  everDry : Bool := false
  everWet : Bool := false
  stressed : Bool := false
  nspans : Nat := 0
  acc : List (Nat × Nat × Nat) := []      -- sid, trace, client rate
  fwdIds : List Nat := []
  sdropped : List Nat := []               -- sids refused by the stress path (C05's exception)
  decs : List MDec := []
  bufd : List Nat := []                   -- traces with buffered spans, as observed
  missed : List Nat := []                 -- traces whose record was forgotten (re-buffered / decided anew)
  mixed : List Nat := []                  -- traces that took the stress path while buffered
  fpos : List Nat := []                   -- traces whose span was dropped without a drop decision
  cap : Nat := 1                          -- kept records per worker in force (case header, resize ops)
  owner : AList Nat Nat := []             -- routing as observed (ext owner)
  lru : List Nat := []                    -- kept records a correct cache still holds, most recent first
  survivors : List Nat := []              -- what a correct Resize left in the cache at the last resize

def fail (p sig what : String) : Fail := { prop := p, sig := sig, what := what }

structure FwdObs where
  sid : Nat
  rate : Nat
  marker : String
  stress : Bool

def parseFwd (s : String) : Option FwdObs :=
  match s.splitOn ":" with
  | [a, b, c] => match a.toNat?, b.toNat? with
    | some a, some b => some ⟨a, b, c, false⟩
    | _, _ => none
  | [a, b, c, "s"] => match a.toNat?, b.toNat? with
    | some a, some b => some ⟨a, b, c, true⟩
    | _, _ => none
  | _ => none

def MSt.sameOwner (m : MSt) (t x : Nat) : Bool := AList.get m.owner x == AList.get m.owner t

/-- hashicorp LRU `Add`/`Get` on the cache of `t`'s worker -/
def MSt.touch (m : MSt) (t : Nat) : MSt :=
  let l1 := t :: m.lru.filter (· != t)
  let mine := l1.filter (m.sameOwner t)
  if mine.length > m.cap then
    match mine.getLast? with
    | some v => { m with lru := l1.filter (· != v) }
    | none => { m with lru := l1 }
  else { m with lru := l1 }

/-- a correct `Resize` to `c` per worker: the newest `c` of every worker survive -/
def resizeList (m : MSt) (c : Nat) : List Nat → List Nat → List Nat
  | [], _ => []
  | x :: rest, seen =>
    if (seen.filter (m.sameOwner x)).length < c then x :: resizeList m c rest (x :: seen)
    else resizeList m c rest (x :: seen)

def norm1 (n : Nat) : Nat := if n == 0 then 1 else n

/-- one span seen at the transmission; `viaTrace` = the trace whose `tracesToSend` entry carried it -/
def onForward (m : MSt) (path : String) (viaTrace : Option Nat) (f : FwdObs) : MSt × List Fail :=
  let sid := f.sid
  let marker := f.marker
  match m.acc.find? (fun a => a.1 == sid) with
  | none => (m, [fail "C02" s!"C02:invented-span:{path}" s!"span {sid} reached the transmission but was never accepted"])
  | some (_, t, client) =>
    let ds := m.decs.filter (·.trace == t)
    let fails : List Fail :=
      (if viaTrace.isSome && viaTrace != some t then [fail "C02" s!"C02:invented-span:{path}" s!"span {sid} of trace {t} forwarded as part of trace {viaTrace.getD 0}"] else []) ++
      (if m.fwdIds.contains sid then [fail "C02" s!"C02:duplicate-forward:{path}" s!"span {sid} of trace {t} forwarded twice"] else []) ++
      (if ds.isEmpty then [fail "C02" s!"C02:undecided-forward:{path}" s!"span {sid} forwarded but trace {t} was never decided"] else []) ++
      (if f.stress != (path == "stress") then [fail "C05" s!"C05:stressed-flag-wrong:{path}" s!"span {sid}: meta.stressed={f.stress} on the {path} path"] else []) ++
      (if !m.dry then
        (if !ds.isEmpty && ds.all (fun d => !d.keep && !d.dry) then
          [fail "C02" s!"C02:dropped-trace-forwarded:{path}" s!"span {sid} of dropped trace {t} forwarded (dry run off)"] ++
          (if path != "drain" then [fail "C01" "C01:late-span-disobeys:drop-forwarded" s!"late span {sid} forwarded although trace {t} was dropped"] else [])
         else []) ++
        (if marker != "-" then [fail "C05" s!"C05:marker-without-dryrun:{path}" s!"span {sid} carries dryrun marker {marker} with dry run off"] else []) ++
        -- C04 on the on-time path (the real, long-lived sendTraces goroutine): outside dry run the
        -- forwarded rate is max(client,1) x the rate of the decision that queued the trace
        (match path == "drain", ds.getLast? with
         | true, some d =>
           if d.rate != 0 && f.rate != (norm1 client * d.rate) % 18446744073709551616 then
             [fail "C04" "C04:rate-not-composed:on-time" s!"span {sid} forwarded (dry run off) with rate {f.rate}, client sent {client}, trace rate {d.rate}"]
           else []
         | _, _ => [])
       else
        (if path == "stress" then
           (if marker != "-" then [fail "C05" "C05:marker-on-stress-path" s!"span {sid} kept by stress relief carries dryrun marker {marker}"] else [])
         else if marker == "-" then [fail "C05" s!"C05:marker-missing:{path}" s!"span {sid} of trace {t} forwarded in dry run without the kept marker"]
         else if !ds.isEmpty && !(ds.any fun d => d.keep == (marker == "1")) then
           [fail "C05" s!"C05:marker-wrong:{path}" s!"span {sid} of trace {t} marked kept={marker} but no such decision was made"]
         else []) ++
        (if norm1 f.rate != norm1 client then [fail "C05" s!"C05:rate-changed:{path}" s!"span {sid} forwarded in dry run with rate {f.rate}, client sent {client}"] else []))
    ({ m with fwdIds := sid :: m.fwdIds }, fails)

def onForwards (m : MSt) (path : String) (via : Option Nat) (l : String) : MSt × List Fail :=
  if l == "-" then (m, [])
  else (l.splitOn ",").foldl (fun (acc : MSt × List Fail) tok =>
    match parseFwd tok with
    | some f => let (m', fs) := onForward acc.1 path via f; (m', acc.2 ++ fs)
    | none => (acc.1, acc.2 ++ [fail "C02" s!"C02:invented-span:{path}" s!"unreadable forwarded span {tok}"])) (m, [])

def onTook (m : MSt) (entries : String) : MSt :=
  if entries == "-" then m
  else (entries.splitOn ",").foldl (fun m tok =>
    match tok.splitOn ":" with
    | t :: k :: _ => match t.toNat? with
      | some t =>
        let rate := match tok.splitOn ":" with
          | _ :: _ :: r :: _ => r.toNat?.getD 0
          | _ => 0
        let m := { m with decs := m.decs ++ [{ trace := t, keep := k == "k", dry := m.dry, rate := rate }],
                          bufd := m.bufd.filter (· != t) }
        if k == "k" then m.touch t else m
      | none => m
    | _ => m) m

def quiescenceChecks (m : MSt) (bufd : List Nat) : List Fail :=
  let traces := (m.acc.map (·.2.1)).eraseDups
  traces.foldl (fun fs t =>
    if bufd.contains t then fs else
    let sids := (m.acc.filter (·.2.1 == t)).map (·.1)
    let nf := (sids.filter m.fwdIds.contains).length
    let nsd := (sids.filter m.sdropped.contains).length
    let ds := m.decs.filter (·.trace == t)
    let remembered := !m.missed.contains t && !m.fpos.contains t && !m.mixed.contains t
    fs ++
    (if remembered && !ds.isEmpty && ds.all (·.keep) && nf != sids.length then
      [fail "C02" "C02:kept-span-lost" s!"trace {t} was kept but only {nf} of its {sids.length} accepted spans were forwarded"] else []) ++
    (if ds.isEmpty && remembered then
      [fail "C02" "C02:never-decided" s!"trace {t} left the collector without a decision"] else []) ++
    (if remembered && !m.everDry && nf != 0 && nf != sids.length then
      [fail "C01" "C01:split-decision" s!"trace {t}: {nf} of {sids.length} accepted spans forwarded (neither all nor none)"] else []) ++
    (if !m.everWet && nf + nsd != sids.length then
      [fail "C05" "C05:span-not-forwarded" s!"dry run: trace {t} had {sids.length} accepted spans, {nf} forwarded, {nsd} dropped by stress relief"] else [])) []

/-- the record of `t` was found missing (a span was buffered, or stress relief decided it anew) -/
def onMiss (m : MSt) (sid t : Nat) (d : MDec) (what : String) : MSt × List Fail :=
  let fails :=
    if m.missed.contains t then []
    else if !d.keep then
      [fail "C01" "C01:drop-decision-forgotten" s!"span {sid} of dropped trace {t} {what}"]
    else if m.lru.contains t then
      if m.survivors.contains t then
        [fail "C01" "C01:kept-decision-forgotten-after-resize" s!"span {sid} of kept trace {t} {what} although its record was among the newest {m.cap} of its worker at the last resize"]
      else
        [fail "C01" "C01:kept-decision-forgotten" s!"span {sid} of kept trace {t} {what} although its record cannot have been evicted (capacity {m.cap})"]
    else []
  ({ m with missed := t :: m.missed, lru := m.lru.filter (· != t) }, fails)

def collMon (m : MSt) (op : List String) (exts : List (List String)) (obs : Option String) : MSt × List Fail :=
  match op, obs with
  | ["span", t, _, client, _], some o =>
    match t.toNat?, client.toNat? with
    | some t, some client =>
      let toks := o.splitOn " "
      if toks.head? == some "rejected" then (m, []) else
      let sid := m.nspans
      let m := { m with nspans := sid + 1, acc := m.acc ++ [(sid, t, client)] }
      let m := match (extVal exts "owner" (toString t)).bind String.toNat? with
        | some w => if (AList.get m.owner t).isNone then { m with owner := AList.put m.owner t w } else m
        | none => m
      let ds := m.decs.filter (·.trace == t)
      let remembered := !m.missed.contains t && !m.fpos.contains t && !m.mixed.contains t
      match toks with
      | ["buf", _] =>
        -- a span of an already decided trace buffered as a new trace means the record was forgotten;
        -- with the harness' sizes that is only legitimate for a kept record pushed out of the LRU
        if m.bufd.contains t then (m, [])       -- the trace is live: the record is not consulted
        else
          let m := { m with bufd := t :: m.bufd }
          match ds.getLast? with
          | none => (m, [])
          | some d => onMiss m sid t d "was buffered as a new trace"
      | ["late", f] =>
        let (m', fs) := onForwards m "late" none f
        -- served from the kept record (which the lookup makes most recently used) unless marked kept=false
        (if (parseFwd f).map (·.marker) != some "0" then m'.touch t else m', fs)
      | ["dropped"] =>
        let fails :=
          (if m.dry then [fail "C05" "C05:late-span-dropped-in-dryrun" s!"span {sid} of trace {t} dropped although dry run is on"] else []) ++
          (if ds.isEmpty then [fail "C02" "C02:undecided-span-dropped" s!"span {sid} dropped as late span of trace {t}, which was never decided"]
           else if remembered && ds.all (·.keep) then
             [fail "C01" "C01:late-span-disobeys:keep-dropped" s!"late span {sid} dropped although trace {t} was kept"]
           else [])
        (if ds.any (fun d => !d.keep) then m else { m with fpos := t :: m.fpos }, fails)
      | "skept" :: _ | ["sdrop"] =>
        -- the stress path (ProcessSpanImmediately): obeys a record if there is one, else decides
        let kept := toks.head? == some "skept"
        let m := if m.bufd.contains t then { m with mixed := t :: m.mixed } else m
        let expectRecord : Bool := match ds.getLast? with
          | none => false
          | some d => if d.keep then m.lru.contains t else true
        let (m, fs0) : MSt × List Fail :=
          if expectRecord then
            -- must obey: kept record → forwarded, dropped record → refused
            let want := (ds.getLast?.map (·.keep)).getD true
            if remembered && want != kept then
              if want then
                -- kept record expected but the span was refused: either disobeyed or the record is gone
                match ds.getLast? with
                | some d => let (m', fs) := onMiss m sid t d "was decided anew by stress relief"
                            ({ m' with decs := m'.decs ++ [{ trace := t, keep := kept, dry := m.dry }] }, fs)
                | none => (m, [])
              else (m, [fail "C01" "C01:late-span-disobeys:drop-forwarded" s!"span {sid} kept by the stress path although trace {t} was dropped"])
            else (m, [])
          else
            -- no record a correct cache would still hold: this is a (new) decision
            let m := if ds.isEmpty then m else { m with missed := t :: m.missed }
            ({ m with decs := m.decs ++ [{ trace := t, keep := kept, dry := m.dry }] }, [])
        if kept then
          match toks with
          | [_, f] =>
            let (m', fs) := onForwards m "stress" none f
            (m'.touch t, fs0 ++ fs)
          | _ => (m, fs0 ++ [fail "C02" "C02:span-outcome-unreadable" s!"span {sid}: {o}"])
        else ({ m with sdropped := sid :: m.sdropped }, fs0)
      | _ => (m, [fail "C02" "C02:span-outcome-unreadable" s!"span {sid}: {o}"])
    | _, _ => (m, [])
  | "tick" :: _, some o | "tickw" :: _, some o | "eject" :: _, some o =>
    (onTook m ((kv (o.splitOn " ") "took").getD "-"), [])
  | ["drain"], some o =>
    match o.splitOn " " with
    | [t, l] => onForwards m "drain" t.toNat? l
    | _ => (m, [])
  | ["flush"], some o =>
    if o == "empty" then (m, []) else
    (o.splitOn ";").foldl (fun (acc : MSt × List Fail) part =>
      match part.splitOn " " with
      | [t, l] => let (m', fs) := onForwards acc.1 "drain" t.toNat? l; (m', acc.2 ++ fs)
      | _ => acc) (m, [])
  | ["reload", _, d], _ =>
    let dry := d == "1"
    ({ m with dry := dry, everDry := m.everDry || dry, everWet := m.everWet || !dry }, [])
  | ["resize", c], _ =>
    match c.toNat? with
    | some c =>
      if c == 0 then (m, []) else
      let l := resizeList m c m.lru []
      ({ m with cap := c, lru := l, survivors := l }, [])
    | none => (m, [])
  | ["stress", b], _ => ({ m with stressed := b == "1" }, [])
  | ["check"], some o =>
    let toks := o.splitOn " "
    if (kv toks "pending") == some "0" then
      (m, quiescenceChecks m (parseNatList ((kv toks "buf").getD "-")))
    else (m, [])
  | _, _ => (m, [])

def comp : Component OSt MSt where
  init := fun args =>
    let n := fun k d => ((kv args k).bind String.toNat?).getD d
    let dry := n "dry" 0 == 1
    { s := init dry (n "cap" 1), cap := n "cap" 1, workers := max (n "workers" 1) 1 }
  step := collStep
  minit := fun args =>
    let dry := (kv args "dry") == some "1"
    { dry := dry, everDry := dry, everWet := !dry, cap := ((kv args "cap").bind String.toNat?).getD 1 }
  mon := collMon

def main : IO Unit := do runLoop comp (← IO.getStdin)
