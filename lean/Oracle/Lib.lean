/-
Shared driver for the transcript oracles (core Lean only; DESIGN §2.2, Appendix B).

Transcript grammar (one record per line, tokens separated by single spaces):
  case <n> <arg> …     start of a case; model, monitor and impl state reset
  op <name> <arg> …    an operation exactly as generated
  ext <fn> <arg> … = <result>   graph of an external function (hash, formatting, rand draw …) or an
                       acceptor input, emitted by the harness after the `op` it belongs to
  obs <value> …        what the implementation answered for the preceding `op`
  end

Output, one line per case:
  OK <n> ops=<k>
  MISMATCH <n> line=<l> op=<op…> model=<…> impl=<…>        (first step where model ≠ impl)
and independently, as many as apply:
  MONITOR-FAIL <n> <property> line=<l> sig=<signature> <what>
The monitor only ever sees the implementation's own observations.
-/
namespace Oracle

structure Fail where
  prop : String
  sig : String
  what : String

/-- A component: executable model step + property monitor over implementation observations. -/
structure Component (σ μ : Type) where
  init : List String → σ                       -- from the `case` line's arguments
  /-- model step: new state and the observation the model predicts (`none`: op has no output,
  `some "bad-op"`: the model does not know this operation, `some "*"`: the model leaves this
  input unspecified — any implementation answer is accepted, the monitor still runs). -/
  step : σ → List String → List (List String) → σ × Option String   -- state, op tokens, ext lines
  minit : List String → μ
  /-- monitor step on (op, ext lines, implementation obs) -/
  mon : μ → List String → List (List String) → Option String → μ × List Fail

def splitLine (line : String) : List String :=
  (line.trimAscii.toString.splitOn " ").filter (· ≠ "")

structure Loop (σ μ : Type) where
  caseId : String := ""
  active : Bool := false
  st : σ
  ms : μ
  pendingOp : Option (List String × Nat) := none
  exts : Array (List String) := #[]
  obs : Option String := none
  mismatch : Option String := none
  fails : Array String := #[]
  nops : Nat := 0

partial def runLoop {σ μ : Type} (c : Component σ μ) (h : IO.FS.Stream) : IO Unit := do
  let out ← IO.getStdout
  let flushPending (L : Loop σ μ) : Loop σ μ := Id.run do
    match L.pendingOp with
    | none => return L
    | some (op, opLine) =>
      let mut L := L
      let exts := L.exts.toList
      let obs := L.obs
      let (st', exp) := c.step L.st op exts
      L := { L with st := st' }
      -- model comparison (only until the first mismatch of the case)
      if L.mismatch.isNone then
        if exp != obs && exp != some "*" then
          L := { L with mismatch := some s!"line={opLine} op={" ".intercalate op} model={exp.getD "-"} impl={obs.getD "-"}" }
      let (ms', fs) := c.mon L.ms op exts obs
      let mut arr := L.fails
      for f in fs do
        arr := arr.push s!"{f.prop} line={opLine} sig={f.sig} {f.what}"
      return { L with ms := ms', fails := arr, pendingOp := none, exts := #[], obs := none }
  let finish (L : Loop σ μ) : IO Unit := do
    if L.active then
      match L.mismatch with
      | none => out.putStrLn s!"OK {L.caseId} ops={L.nops}"
      | some m => out.putStrLn s!"MISMATCH {L.caseId} {m}"
      for f in L.fails do
        out.putStrLn s!"MONITOR-FAIL {L.caseId} {f}"
  let rec go (L : Loop σ μ) (lineNo : Nat) : IO Unit := do
    let line ← h.getLine
    if line.isEmpty then
      let L := flushPending L
      finish L
      return
    match splitLine line with
    | "case" :: n :: args =>
      let L := flushPending L
      finish L
      go { caseId := n, active := true, st := c.init args, ms := c.minit args } (lineNo + 1)
    | "op" :: rest =>
      let L := flushPending L
      go { L with pendingOp := some (rest, lineNo), nops := L.nops + 1 } (lineNo + 1)
    | "ext" :: rest =>
      go { L with exts := L.exts.push rest } (lineNo + 1)
    | "obs" :: rest =>
      go { L with obs := some (" ".intercalate rest) } (lineNo + 1)
    | "end" :: _ =>
      let L := flushPending L
      finish L
      go { L with active := false, fails := #[], mismatch := none } (lineNo + 1)
    | _ => go L (lineNo + 1)
  go { st := c.init [], ms := c.minit [] } 1
  out.flush

def natList (l : List Nat) : String :=
  if l.isEmpty then "-" else ",".intercalate (l.map toString)

def parseNatList (s : String) : List Nat :=
  if s == "-" then [] else (s.splitOn ",").filterMap String.toNat?

def kv (args : List String) (key : String) : Option String :=
  args.findSome? fun a =>
    match a.splitOn "=" with
    | [k, v] => if k == key then some v else none
    | _ => none

end Oracle
