import Oracle.Lib
import Refinery.Model.StressRoute
/-
Oracle for the stress-relief path of one node (C16); harness: harness/cmd/stressroute.

case args: mode=mock|http srate=<n>
op:   stress 0|1
      span via=i|p own=s|<peer code> tid=<n> host=<n> key=<n> ds=<n> rate=<n> probe=n|t|f enc=m|p f=<k:v,…|->
      work
      flush u|p
      srate <n>                       reload of StressRelief.SamplingRate (obs like stress)
      decide tid=<n> keep=0|1 rate=<n>  the normal sampler's decision enters the decision record
                                      (only for a trace without record that is not buffered; obs done=0|1)
ext:  hash <tid> = <n>
obs:  stress: rule=<rate>,<bound>
      span  : o=<id> err=0|1 enq=<u|p><obj>@<host>/<key>/<ds>/<probe>/<SampleRate>,…|- q=<in>,<peer> buf=<spans|-1>,<traces>
      work  : o=<id|-> from=i|p|- enq=… q=… buf=…
      flush : n=<events> q=<batch;…|-> reqs=<req;…|-|*>
              batch = <host>/<key>/<ds>|<obj>@<host>/<key>/<ds>/<ev>+…
              req   = <server>|<Host header>|<key>|<ds>|<ev>+…
              ev    = <sid>/<tid>/<rate>/<stressed 0|1>/<probe n|t|f>/<k:v,…|->
-/
open Refinery Refinery.Model.StressRoute Oracle

/-- `false`: the router as it is (the probe is the queued event itself); `true`: the repaired
router (the probe is a copy).  Flip when the fix is applied to /repo. -/
def variant : Bool := true

-- ---------------------------------------------------------------- printing

def optB : Option Bool → String
  | none => "n" | some true => "t" | some false => "f"

def fieldsStr (fs : List (Nat × Nat)) : String :=
  if fs.isEmpty then "-" else ",".intercalate (fs.map fun kv => s!"{kv.1}:{kv.2}")

def evStr (e : Ev) : String :=
  s!"{e.c.sid}/{e.c.tid}/{e.rate}/{if e.c.stressed then 1 else 0}/{optB e.c.probe}/{fieldsStr e.c.fields}"

def txStr : Tx → String
  | .up => "u" | .peer => "p"

def enqStr (q : Enq) : String :=
  s!"{txStr q.tx}{q.obj}@{q.key.host}/{q.key.key}/{q.key.ds}/{optB q.probe}/{q.rate}"

def listOr (sep : String) (l : List String) : String :=
  if l.isEmpty then "-" else sep.intercalate l

def tailStr (s : St) (tid : Nat) (enqs : List Enq) : String :=
  let spans := match AList.get s.live tid with
    | some l => toString l.length
    | none => "-1"
  s!"enq={listOr "," (enqs.map enqStr)} q={s.qIn.length},{s.qPeer.length} buf={spans},{s.live.length}"

def batchStr (b : BKey × List (Nat × Ev)) : String :=
  let es := b.2.map fun oe => s!"{oe.1}@{oe.2.c.host}/{oe.2.c.key}/{oe.2.c.ds}/{evStr oe.2}"
  s!"{b.1.host}/{b.1.key}/{b.1.ds}|{"+".intercalate es}"

def reqStr (r : Req) : String :=
  s!"{r.dest}|{r.dest}|{r.key}|{r.ds}|{"+".intercalate (r.evs.map evStr)}"

-- ---------------------------------------------------------------- parsing

def parseOB (s : String) : Option (Option Bool) :=
  match s with
  | "n" => some none | "t" => some (some true) | "f" => some (some false) | _ => none

def parseFields (s : String) : Option (List (Nat × Nat)) :=
  if s == "-" then some [] else
    (s.splitOn ",").mapM fun p =>
      match p.splitOn ":" with
      | [k, v] => do some ((← k.toNat?), (← v.toNat?))
      | _ => none

structure SpanOp where
  via : Via
  owner : Option Nat
  e : Ev

def parseSpan (op : List String) : Option SpanOp := do
  let via ← match (kv op "via").getD "" with
    | "i" => some Via.incoming | "p" => some Via.peer | _ => none
  let own := (kv op "own").getD ""
  let owner ← if own == "s" then some none else own.toNat?.map some
  let n := fun k => ((kv op k).getD "").toNat?
  let probe ← parseOB ((kv op "probe").getD "")
  let fs ← parseFields ((kv op "f").getD "")
  some { via := via, owner := owner,
         e := { c := { sid := 0, tid := (← n "tid"), host := (← n "host"), key := (← n "key"), ds := (← n "ds"),
                       stressed := false, probe := probe, fields := fs },
                rate := (← n "rate") } }

def extHash (exts : List (List String)) (tid : Nat) : Option Nat :=
  exts.findSome? fun e =>
    match e with
    | ["hash", t, "=", h] => if t.toNat? == some tid then h.toNat? else none
    | _ => none

-- ---------------------------------------------------------------- model step

structure OSt where
  s : St
  http : Bool

def oStep (o : OSt) (op : List String) (exts : List (List String)) : OSt × Option String :=
  match op with
  | ["stress", b] =>
    if b != "0" && b != "1" then (o, some "bad-op") else
    match step variant o.s (.stress (b == "1")) with
    | (s', .rule r bd) => ({ o with s := s' }, some s!"rule={r},{bd}")
    | _ => (o, some "bad-op")
  | "span" :: args =>
    match parseSpan args with
    | none => (o, some "bad-op")
    | some sp =>
      let h := if sp.e.c.tid == 0 then some 0 else extHash exts sp.e.c.tid
      match h with
      | none => (o, some "missing-ext-hash")
      | some h =>
        match step variant o.s (.span sp.via sp.owner sp.e h) with
        | (s', .span ob enqs) => ({ o with s := s' }, some s!"o={ob} err=0 {tailStr s' sp.e.c.tid enqs}")
        | _ => (o, some "bad-op")
  | ["work"] =>
    match step variant o.s .work with
    | (s', .work none enqs) => ({ o with s := s' }, some s!"o=- from=- {tailStr s' 0 enqs}")
    | (s', .work (some (ob, via)) enqs) =>
      let from_ := match via with | .incoming => "i" | .peer => "p"
      ({ o with s := s' }, some s!"o={ob} from={from_} {tailStr s' (s'.store ob).c.tid enqs}")
    | _ => (o, some "bad-op")
  | ["flush", t] =>
    if t != "u" && t != "p" then (o, some "bad-op") else
    match step variant o.s (.flush (if t == "u" then .up else .peer)) with
    | (s', .flush n q reqs) =>
      let rs := if o.http then listOr ";" (reqs.map reqStr) else "*"
      ({ o with s := s' }, some s!"n={n} q={listOr ";" (q.map batchStr)} reqs={rs}")
    | _ => (o, some "bad-op")
  | ["srate", n] =>
    match n.toNat? with
    | none => (o, some "bad-op")
    | some n =>
      match step variant o.s (.reload n) with
      | (s', .rule r bd) => ({ o with s := s' }, some s!"rule={r},{bd}")
      | _ => (o, some "bad-op")
  | "decide" :: args =>
    match ((kv args "tid").getD "").toNat?, (kv args "keep"), ((kv args "rate").getD "").toNat? with
    | some tid, some k, some rate =>
      if k != "0" && k != "1" then (o, some "bad-op") else
      match step variant o.s (.decide tid (k == "1") rate) with
      | (s', .decided d) => ({ o with s := s' }, some s!"done={if d then 1 else 0}")
      | _ => (o, some "bad-op")
    | _, _, _ => (o, some "bad-op")
  | _ => (o, some "bad-op")

-- ---------------------------------------------------------------- monitor (implementation's observations only)

/-- an event as the implementation showed it (pending view or wire) -/
structure WEv where
  sid : Nat
  tid : Nat
  rate : Nat
  stressed : Bool
  probe : Option Bool
  fields : List (Nat × Nat)

def parseWEv (parts : List String) : Option WEv :=
  match parts with
  | [sid, tid, rate, st, pr, fs] => do
    some { sid := (← sid.toNat?), tid := (← tid.toNat?), rate := (← rate.toNat?), stressed := st == "1",
           probe := (← parseOB pr), fields := (← parseFields fs) }
  | _ => none

structure MSt where
  http : Bool := false
  srate : Nat := 0
  stressed : Bool := false
  q : String := "0,0"                       -- last reported queue lengths
  traces : String := "0"                    -- last reported number of buffered traces
  decided : List (Nat × Bool) := []         -- trace id ↦ the decision first observed (stress rule / normal sampler)
  rates : List (Nat × Nat) := []            -- kept trace id ↦ the rate it was kept at
  pre : List Nat := []                      -- traces seen by the collector before their stress decision
  arrived : List (Nat × SpanOp) := []       -- object id ↦ the arriving event (inputs)
  await : List Nat := []                    -- stress-kept objects queued upstream, not yet dispatched
  keptEver : List Nat := []

def fail (sig what : String) : Fail := { prop := "C16", sig := "C16:" ++ sig, what := what }

def lookup {α : Type} (l : List (Nat × α)) (k : Nat) : Option α :=
  (l.find? fun p => p.1 == k).map (·.2)

/-- the deterministic rule of the property: keep iff sampling rate ≤ 1 or hash ≤ MaxUint64 / rate -/
def ruleKeep (srate h : Nat) : Bool :=
  let r := if srate == 0 then 1 else srate
  r ≤ 1 || h ≤ 18446744073709551615 / r

/-- `u12@0/1/0/n/4` -/
structure MEnq where
  tx : String
  obj : Nat
  host : String
  key : String
  ds : String
  probe : String
  rate : String

def parseEnq (s : String) : Option MEnq :=
  match s.splitOn "@" with
  | [a, b] =>
    match a.toList, b.splitOn "/" with
    | c :: ds, [h, k, d, p, r] =>
      (String.ofList ds).toNat?.map fun n => { tx := String.singleton c, obj := n, host := h, key := k, ds := d, probe := p, rate := r }
    | _, _ => none
  | _ => none

def parseEnqs (s : String) : List MEnq :=
  if s == "-" then [] else (s.splitOn ",").filterMap parseEnq

def bufTraces (buf : String) : String :=
  match buf.splitOn "," with
  | [_, t] => t
  | _ => "?"

def bufSpans (buf : String) : String :=
  match buf.splitOn "," with
  | [s, _] => s
  | _ => "?"

def effSrate (srate : Nat) : Nat := if srate == 0 then 1 else srate

def contentFails (where_ : String) (o : Nat) (inp : Ev) (w : WEv) : List Fail :=
  (if w.fields != inp.c.fields || w.tid != inp.c.tid then
    [fail s!"kept-span-content-changed:{where_}" s!"span {o}: fields {fieldsStr w.fields} trace {w.tid}, arrived with {fieldsStr inp.c.fields} trace {inp.c.tid}"] else []) ++
  (if !w.stressed then [fail s!"kept-span-not-marked-stressed:{where_}" s!"span {o} kept by stress relief without meta.stressed"] else [])

def monSpan (m : MSt) (args : List String) (exts : List (List String)) (toks : List String) : MSt × List Fail :=
  match parseSpan args, ((kv toks "o").getD "").toNat? with
  | some sp, some o =>
    let enqs := parseEnqs ((kv toks "enq").getD "-")
    let q := (kv toks "q").getD "?"
    let buf := (kv toks "buf").getD "?"
    let m1 := { m with arrived := (o, sp) :: m.arrived, q := q, traces := bufTraces buf }
    let unbuffered := q == m.q && bufTraces buf == m.traces
    if sp.e.c.probe == some true then
      (m1, if enqs.isEmpty && unbuffered then [] else
        [fail "probe-not-discarded" s!"probe received for trace {sp.e.c.tid}: enq={(kv toks "enq").getD "-"} q={q} buf={buf}"])
    else if sp.e.c.tid == 0 then (m1, [])
    else if m.stressed then
      let kept := enqs.any fun e => e.tx == "u" && e.obj == o
      let f1 := if unbuffered then [] else
        [fail "buffered-under-stress" s!"span {o} of trace {sp.e.c.tid} arrived under stress: queues {m.q}->{q}, buffered traces {m.traces}->{bufTraces buf}"]
      let (f2, dec') := match lookup m.decided sp.e.c.tid with
        | some d => (if d == kept then [] else
            [fail "decision-not-remembered:while-stressed" s!"trace {sp.e.c.tid} first decided keep={d}, span {o} got keep={kept}"], m.decided)
        | none =>
          match extHash exts sp.e.c.tid with
          | none => ([fail "no-hash" "harness gave no hash"], m.decided)
          | some h => (if ruleKeep m.srate h == kept then [] else
              [fail "decision-not-hash-rule" s!"trace {sp.e.c.tid} hash {h} rate {m.srate}: rule says keep={ruleKeep m.srate h}, node did keep={kept}"],
              (sp.e.c.tid, kept) :: m.decided)
      let f3 := if !kept then [] else
        (enqs.filter fun e => e.tx == "u" && e.obj == o).flatMap fun e =>
          if e.host == toString sp.e.c.host && e.key == toString sp.e.c.key && e.ds == toString sp.e.c.ds && e.probe == optB sp.e.c.probe then []
          else [fail "kept-span-changed-before-enqueue" s!"span {o} queued upstream as {e.host}/{e.key}/{e.ds}/{e.probe}"]
      let f4 := if (enqs.filter fun e => e.tx == "u" && e.obj == o).length > 1 then
        [fail "kept-span-queued-twice" s!"span {o} queued upstream more than once"] else []
      -- the sample rate the span is forwarded with: its own rate (0 counts as 1) times the rate the
      -- trace was kept at — the remembered one, or for a first decision the rule's rate in force now
      let own := if sp.e.rate < 1 then 1 else sp.e.rate
      let remembered := lookup m.rates sp.e.c.tid
      let traceRate := remembered.getD (effSrate m.srate)
      let f5 := if !kept then [] else
        (enqs.filter fun e => e.tx == "u" && e.obj == o).flatMap fun e =>
          if e.rate == toString (own * traceRate) then []
          else if remembered.isSome then
            [fail "remembered-rate-not-used:stress-path" s!"trace {sp.e.c.tid} was kept at 1-in-{traceRate}; span {o} (client rate {sp.e.rate}) forwarded under stress with SampleRate {e.rate} instead of {own * traceRate} (stress rate now {effSrate m.srate})"]
          else
            [fail "stress-rate-not-applied" s!"span {o} (client rate {sp.e.rate}) kept by the rule at 1-in-{traceRate} forwarded with SampleRate {e.rate}"]
      let rates' := if kept && remembered.isNone then (sp.e.c.tid, traceRate) :: m.rates else m.rates
      let m2 := if kept then { m1 with decided := dec', rates := rates', await := m1.await ++ [o], keptEver := o :: m1.keptEver }
                else { m1 with decided := dec' }
      (m2, f1 ++ f2 ++ f3 ++ f4 ++ f5)
    else
      -- not stressed: the collector sees the trace through its normal path (unless forwarded)
      let pre := if sp.owner.isNone && (lookup m.decided sp.e.c.tid).isNone && !m.pre.contains sp.e.c.tid
                 then sp.e.c.tid :: m.pre else m.pre
      ({ m1 with pre := pre }, [])
  | _, _ => (m, [])

def monWork (m : MSt) (toks : List String) : MSt × List Fail :=
  let q := (kv toks "q").getD "?"
  let buf := (kv toks "buf").getD "?"
  let m1 := { m with q := q, traces := bufTraces buf }
  match ((kv toks "o").getD "").toNat? with
  | none => (m1, [])
  | some o =>
    match lookup m.arrived o with
    | none => (m1, [])
    | some sp =>
      let tid := sp.e.c.tid
      match lookup m.decided tid with
      | none => (m1, [])
      | some d =>
        if m.pre.contains tid then (m1, []) else
        let enqs := parseEnqs ((kv toks "enq").getD "-")
        let sentUp := enqs.any fun e => e.tx == "u" && e.obj == o
        (m1,
          (if sentUp == d then [] else
            [fail "decision-not-remembered:late-span" s!"trace {tid} was decided keep={d} under stress; late span {o} sent={sentUp}"]) ++
          (if bufSpans buf == "-1" then [] else
            [fail "decided-trace-buffered" s!"late span {o} of trace {tid} (decided under stress) was buffered"]) ++
          (match lookup m.rates tid with
           | none => []
           | some tr =>
             let own := if sp.e.rate < 1 then 1 else sp.e.rate
             (enqs.filter fun e => e.tx == "u" && e.obj == o).flatMap fun e =>
               if e.rate == toString (own * tr) then [] else
                 [fail "remembered-rate-not-used:late-span" s!"trace {tid} was kept at 1-in-{tr}; late span {o} (client rate {sp.e.rate}) forwarded with SampleRate {e.rate}"]))

structure PendEv where
  obj : Nat
  host : String
  key : String
  ds : String
  ev : WEv

def parsePend (s : String) : Option PendEv :=
  match s.splitOn "@" with
  | [o, rest] =>
    match rest.splitOn "/" with
    | h :: k :: d :: evp => do
      some { obj := (← o.toNat?), host := h, key := k, ds := d, ev := (← parseWEv evp) }
    | _ => none
  | _ => none

/-- batches of the pending view: (at-enqueue host, key, ds, entries) -/
def parseQ (s : String) : List (String × String × String × List PendEv) :=
  if s == "-" then [] else
    (s.splitOn ";").filterMap fun b =>
      match b.splitOn "|" with
      | [k, es] =>
        match k.splitOn "/" with
        | [h, ky, d] => some (h, ky, d, (es.splitOn "+").filterMap parsePend)
        | _ => none
      | _ => none

structure WReq where
  srv : String
  host : String
  key : String
  ds : String
  evs : List WEv

def parseReqs (s : String) : List WReq :=
  if s == "-" || s == "*" then [] else
    (s.splitOn ";").filterMap fun r =>
      match r.splitOn "|" with
      | [srv, h, k, d, es] =>
        some { srv := srv, host := h, key := k, ds := d,
               evs := (es.splitOn "+").filterMap fun e => parseWEv (e.splitOn "/") }
      | _ => none

def isHoneyCode (s : String) : Bool :=
  match s.toNat? with
  | some n => n < 10
  | none => false

def monFlushUp (m : MSt) (toks : List String) : MSt × List Fail :=
  let qv := parseQ ((kv toks "q").getD "-")
  let reqsRaw := (kv toks "reqs").getD "-"
  let reqs := parseReqs reqsRaw
  let entries := qv.flatMap fun b => b.2.2.2.map fun p => (b.1, b.2.1, b.2.2.1, p)
  -- what a transmission holding the pointers reads now
  let f1 := m.await.flatMap fun o =>
    match lookup m.arrived o with
    | none => []
    | some sp =>
      let mine := entries.filter fun e => e.2.2.2.obj == o
      (if mine.length == 1 then [] else
        [fail "kept-span-not-queued-once" s!"span {o} kept by stress relief is in {mine.length} upstream batch slots"]) ++
      mine.flatMap fun e =>
        let p := e.2.2.2
        (if p.host != e.1 then
          [fail "probe-aliases-upstream-event:host-overwritten" s!"span {o} queued for {e.1} now reads APIHost {p.host} (the queued event was re-addressed as probe)"] else []) ++
        (if p.ev.probe == some true && sp.e.c.probe != some true then
          [fail "probe-aliases-upstream-event:probe-flag" s!"span {o} queued upstream now carries meta.refinery.probe=true"] else []) ++
        (if p.key != e.2.1 || p.ds != e.2.2.1 then
          [fail "kept-span-content-changed:key-dataset" s!"span {o} queued as {e.2.1}/{e.2.2.1} now reads {p.key}/{p.ds}"] else []) ++
        contentFails "pending" o sp.e p.ev
  -- what the endpoints received
  let f2 := if !m.http then [] else
    (reqs.flatMap fun r =>
      (if isHoneyCode r.srv then [] else
        [fail "upstream-batch-sent-to-peer" s!"upstream transmission posted {r.evs.length} event(s) to peer {r.srv}"]) ++
      (if isHoneyCode r.srv then
        r.evs.flatMap fun w => if w.probe == some true then
          [fail "probe-flag-reaches-honeycomb" s!"Honeycomb endpoint {r.srv} received span {w.sid} with meta.refinery.probe=true"] else []
       else [])) ++
    (m.await.flatMap fun o =>
      match lookup m.arrived o with
      | none => []
      | some sp =>
        let hits := reqs.flatMap fun r => (r.evs.filter fun w => w.sid == o).map fun w => (r, w)
        let honey := hits.filter fun h => isHoneyCode h.1.srv
        let peer := hits.filter fun h => !isHoneyCode h.1.srv
        (if honey.length == 0 && peer.length == 0 then
          [fail "kept-span-lost" s!"span {o} kept by stress relief reached no endpoint"] else []) ++
        (if honey.length == 0 && peer.length > 0 then
          [fail "kept-span-delivered-to-peer-not-honeycomb" s!"span {o} kept by stress relief was posted by the upstream transmission to peer {(peer.map (·.1.srv)).headD "?"} and never to Honeycomb"] else []) ++
        (if honey.length > 1 then
          [fail "kept-span-duplicated" s!"span {o} reached Honeycomb {honey.length} times"] else []) ++
        honey.flatMap fun h =>
          (if h.1.srv == toString sp.e.c.host && h.1.host == toString sp.e.c.host then [] else
            [fail "kept-span-wrong-endpoint" s!"span {o} for endpoint {sp.e.c.host} received by {h.1.srv} (Host {h.1.host})"]) ++
          (if h.1.key == toString sp.e.c.key && h.1.ds == toString sp.e.c.ds then [] else
            [fail "kept-span-content-changed:key-dataset-on-wire" s!"span {o} posted with key {h.1.key} dataset {h.1.ds}"]) ++
          contentFails "on-wire" o sp.e h.2)
  ({ m with await := [] }, f1 ++ f2)

def monFlushPeer (m : MSt) (toks : List String) : MSt × List Fail :=
  let reqs := parseReqs ((kv toks "reqs").getD "-")
  (m, reqs.flatMap fun r =>
    (if isHoneyCode r.srv then
      [fail "peer-batch-sent-to-honeycomb" s!"peer transmission posted to Honeycomb endpoint {r.srv}"] else []) ++
    r.evs.flatMap fun w =>
      if m.keptEver.contains w.sid && w.probe != some true then
        [fail "probe-not-marked" s!"span {w.sid} kept and sent upstream was also forwarded to peer {r.srv} without the probe marker"]
      else [])

def mon (m : MSt) (op : List String) (exts : List (List String)) (obs : Option String) : MSt × List Fail :=
  match op, obs with
  | ["stress", b], _ => ({ m with stressed := b == "1" }, [])
  | "span" :: args, some o => monSpan m args exts (o.splitOn " ")
  | ["work"], some o => monWork m (o.splitOn " ")
  | ["flush", "u"], some o => monFlushUp m (o.splitOn " ")
  | ["flush", "p"], some o => monFlushPeer m (o.splitOn " ")
  | ["srate", n], _ => ({ m with srate := n.toNat?.getD m.srate }, [])
  | "decide" :: args, some "done=1" =>
    match ((kv args "tid").getD "").toNat?, (kv args "keep"), ((kv args "rate").getD "").toNat? with
    | some tid, some k, some rate =>
      ({ m with decided := (tid, k == "1") :: m.decided,
                rates := if k == "1" then (tid, rate) :: m.rates else m.rates }, [])
    | _, _, _ => (m, [])
  | _, _ => (m, [])

def comp : Component OSt MSt where
  init := fun args =>
    { s := init { srate := ((kv args "srate").getD "0").toNat?.getD 0 },
      http := (kv args "mode") == some "http" }
  step := oStep
  minit := fun args =>
    { http := (kv args "mode") == some "http", srate := ((kv args "srate").getD "0").toNat?.getD 0 }
  mon := mon

def main : IO Unit := do runLoop comp (← IO.getStdin)
