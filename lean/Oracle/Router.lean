import Oracle.Lib
import Refinery.Model.Router
/-
Oracle for `route.Router.processEvent` (C19).

case args: sh=mock|det self=<addr> other=<addr|-> remote=<ids|-> peers=<addrs> tn=<names|-> pn=<names|->
           (only self, tn, pn are used here: the sharder is a parameter, its answers arrive as ext lines)
op:   ev rt=in|peer st=off|skip|drop|keep fin=0|1 fpeer=0|1 enc=map|msgp|bad
         host=<s> key=<s> ds=<s> env=<s> rate=<n> ts=<sec.nsec> f=<field,…|->
      field = <key>;<s|i|b|n>;<value>     (strings percent-encoded by the harness, "%" = empty)
      dsdecode <segment>    real getDatasetFromRequest on a request whose mux variable is <segment>;  obs ok <ds> | err
      dsescape <dataset>    Go's url.PathEscape (pins the model of the external function);           obs <segment>
      dshop <dataset>       real buildRequestURL -> request line -> mux with the router's route template
                            -> real getDatasetFromRequest;   ext seg <dataset> = <segment|!nomatch>;  obs ok <ds> | err | nomatch
ext:  which <trace id> = <address>        every Sharder.WhichShard call the router made
obs:  err=<none|wouldblock|invalid|other> imm=<n> n=<k> <call>… final=<obj|->
      call = <up|upcoll|peer|cin|cpeer>~<accepted 0|1>~<span trace id|->~<span IsRoot|->~<obj>
      obj  = host|key|ds|env|rate|ts|meta.trace_id|probe|root|stressed|<client fields>
             (what MarshalMsg of the event's payload decodes to at that moment)
-/
open Refinery.Model.Router Oracle

def decTok (s : String) : String := if s == "%" then "" else s
def encTok (s : String) : String := if s == "" then "%" else s

def parseNames (s : String) : List String :=
  if s == "-" then [] else (s.splitOn ",").map decTok

def parseVal (t v : String) : Option Val :=
  match t with
  | "s" => some (.str (decTok v))
  | "i" => v.toInt?.map .int
  | "b" => if v == "1" then some (.bool true) else if v == "0" then some (.bool false) else none
  | "n" => some .nil
  | _ => none

def parseFields (s : String) : Option Fields :=
  if s == "-" then some [] else
    (s.splitOn ",").mapM fun f =>
      match f.splitOn ";" with
      | [k, t, v] => (parseVal t v).map fun x => (decTok k, x)
      | _ => none

def showVal : Val → String
  | .str s => "s;" ++ encTok s
  | .int i => "i;" ++ toString i
  | .bool b => if b then "b;1" else "b;0"
  | .nil => "n;-"

def showFields (fs : Fields) : String :=
  if fs.isEmpty then "-" else ",".intercalate (fs.map fun kv => encTok kv.1 ++ ";" ++ showVal kv.2)

def showOB : Option Bool → String
  | none => "-"
  | some true => "1"
  | some false => "0"

def showObj (o : Obj) : String :=
  "|".intercalate [encTok o.host, encTok o.key, encTok o.ds, encTok o.env, toString o.rate, o.ts,
    encTok o.md.tid, showOB o.md.probe, showOB o.md.root, showOB o.md.stressed, showFields o.fields]

def showSink : Sink → String
  | .up => "up" | .upColl => "upcoll" | .peer => "peer" | .collIn => "cin" | .collPeer => "cpeer"

def showCall (k : Call) : String :=
  let span := match k.sink with
    | .up | .peer => "-~-"
    | _ => encTok k.obj.md.tid ++ "~" ++ (if k.obj.md.root == some true then "1" else "0")
  showSink k.sink ++ "~" ++ (if k.accepted then "1" else "0") ++ "~" ++ span ++ "~" ++ showObj k.obj

def showErr : Err → String
  | .none => "none" | .invalid => "invalid" | .wouldBlock => "wouldblock"

structure Cfg where
  nm : Names := {}
  self : String := ""

def parseCfg (args : List String) : Cfg :=
  { nm := { trace := parseNames ((kv args "tn").getD "-"), parent := parseNames ((kv args "pn").getD "-") },
    self := decTok ((kv args "self").getD "%") }

def parseEvent (op : List String) : Option Event := do
  let enc ← match (kv op "enc").getD "" with
    | "map" => some Enc.map | "msgp" => some Enc.msgp | "bad" => some Enc.bad | _ => none
  let fs ← parseFields ((kv op "f").getD "?")
  let rate ← ((kv op "rate").getD "?").toNat?
  let host ← kv op "host"
  let key ← kv op "key"
  let ds ← kv op "ds"
  let env ← kv op "env"
  let ts ← kv op "ts"
  pure { host := decTok host, key := decTok key, ds := decTok ds, env := decTok env, rate := rate,
         ts := ts, enc := enc, fields := fs }

def ownerFrom (exts : List (List String)) (tid : String) : String :=
  (exts.findSome? fun e =>
    match e with
    | ["which", t, "=", a] => if decTok t == tid then some (decTok a) else none
    | _ => none).getD "!no-which-ext"

def parseCtx (cfg : Cfg) (op : List String) (exts : List (List String)) : Option Ctx := do
  let kind ← match (kv op "rt").getD "" with
    | "in" => some Kind.incoming | "peer" => some Kind.peer | _ => none
  let st ← match (kv op "st").getD "" with
    | "off" => some Stress.off | "skip" => some Stress.skip | "drop" => some Stress.drop
    | "keep" => some Stress.keep | _ => none
  let fin ← match (kv op "fin").getD "" with | "0" => some false | "1" => some true | _ => none
  let fpeer ← match (kv op "fpeer").getD "" with | "0" => some false | "1" => some true | _ => none
  pure { kind := kind, nm := cfg.nm, self := cfg.self, owner := ownerFrom exts, stress := st,
         inFull := fin, peerFull := fpeer }

def showResult (r : Result) (imm : Nat) : String :=
  let head := s!"err={showErr r.err} imm={imm} n={r.calls.length}"
  let calls := r.calls.map showCall
  let fin := if r.err == .invalid then "final=-" else "final=" ++ showObj r.final
  " ".intercalate ([head] ++ calls ++ [fin])

/-! ## dataset hop: tokens are kit.Enc-encoded byte strings -/

def hexVal (c : Char) : Nat :=
  let n := c.toNat
  if 48 ≤ n && n ≤ 57 then n - 48 else if 97 ≤ n && n ≤ 102 then n - 87 else n - 55

/-- inverse of the harness' `kit.Enc` down to bytes ("%" alone = empty) -/
def decBytes (s : String) : List Nat :=
  if s == "%" then [] else
    let rec go : List Char → List Nat
      | '%' :: a :: b :: t => (16 * hexVal a + hexVal b) :: go t
      | c :: t => c.toNat :: go t
      | [] => []
    go s.toList

def kitSafe (c : Nat) : Bool :=
  (97 ≤ c && c ≤ 122) || (65 ≤ c && c ≤ 90) || (48 ≤ c && c ≤ 57) ||
    c == 46 || c == 95 || c == 58 || c == 47 || c == 43 || c == 45

def hexChar (n : Nat) : Char := Char.ofNat (hexDigit n)

/-- `kit.Enc` on bytes -/
def encBytes (bs : List Nat) : String :=
  if bs.isEmpty then "%" else
    String.ofList (bs.flatMap fun b =>
      if kitSafe b then [Char.ofNat b] else ['%', hexChar (b / 16), hexChar (b % 16)])

def showDs : Option (List Nat) → String
  | some d => "ok " ++ encBytes d
  | none => "err"

def segFrom (exts : List (List String)) (ds : String) : Option String :=
  exts.findSome? fun e =>
    match e with
    | ["seg", d, "=", sg] => if d == ds then some sg else none
    | _ => none

def routerStep (cfg : Cfg) (op : List String) (exts : List (List String)) : Cfg × Option String :=
  match op with
  | "ev" :: rest =>
    match parseEvent rest, parseCtx cfg rest exts with
    | some ev, some c => (cfg, some (showResult (process ev c) (immCalls ev c)))
    | _, _ => (cfg, some "bad-op")
  | ["dsdecode", sg] => (cfg, some (showDs (datasetOf (decBytes sg))))
  | ["dsescape", ds] => (cfg, some (encBytes (pathEscape (decBytes ds))))
  | ["dshop", ds] =>
    let bs := decBytes ds
    match segFrom exts ds with
    | none => (cfg, some "missing-ext-seg")
    | some sg =>
      if unclean bs || bs.isEmpty then (cfg, some "nomatch")          -- `hop = none`: no handler is called
      else if sg != encBytes (pathEscape bs) then (cfg, some s!"unexpected-segment:{sg}")
      else (cfg, some (showDs (hop bs)))
  | _ => (cfg, some "bad-op")

/-! ## Monitor: C19's conclusion evaluated on the implementation's observations -/

structure OCall where
  sink : String
  acc : String
  stid : String
  obj : List String     -- the 11 parts of an obj description

def parseOCall (tok : String) : Option OCall :=
  match tok.splitOn "~" with
  | [s, a, t, _, o] =>
    let parts := o.splitOn "|"
    if parts.length == 11 then some { sink := s, acc := a, stid := t, obj := parts } else none
  | _ => none

def attrNames : List String :=
  ["host", "key", "dataset", "environment", "samplerate", "timestamp", "traceid"]

def mkFail (sig what : String) : Fail := { prop := "C19", sig := sig, what := what }

/-- compare the object a sink received with the received event; `expHost` = the host it must carry -/
def chkSame (pre : String) (op : List String) (ev : Event) (tid : String) (expHost : String)
    (o : List String) : List Fail :=
  let want : List String :=
    [expHost, (kv op "key").getD "?", (kv op "ds").getD "?", (kv op "env").getD "?",
     (kv op "rate").getD "?", (kv op "ts").getD "?", encTok tid]
  let got := o.take 7
  let diffs := (attrNames.zip (want.zip got)).filterMap fun (n, (w, g)) =>
    if w == g then none else
      some (mkFail s!"C19:{pre}-changed:{n}" s!"{pre}: {n} received {w} but the sink got {g}")
  let wantF := showFields (clientFields ev)
  let gotF := o.getD 10 "?"
  diffs ++ (if wantF == gotF then [] else
    [mkFail s!"C19:{pre}-changed:fields" s!"{pre}: client fields received {wantF} but the sink got {gotF}"])

def routerMon (cfg : Cfg) (op : List String) (exts : List (List String)) (obs : Option String) :
    Cfg × List Fail :=
  match op, obs with
  | "ev" :: rest, some o =>
    match parseEvent rest with
    | none => (cfg, [])
    | some ev =>
      if ev.enc == .bad then (cfg, []) else       -- not well formed: outside the property
      let toks := o.splitOn " "
      if toks.head? == some "panic" then
        (cfg, [mkFail "C19:panic" s!"processEvent panicked: {o}"]) else
      let err := (kv toks "err").getD "?"
      let callToks := toks.filter fun t => t.contains '~'
      let calls := callToks.filterMap parseOCall
      if calls.length != callToks.length then
        (cfg, [mkFail "C19:unreadable-observation" o]) else
      let sinks := calls.map (·.sink)
      let sinkStr := if sinks.isEmpty then "none" else "+".intercalate sinks
      let m := metaOf ev cfg.nm
      let st := (kv rest "st").getD "?"
      let rt := (kv rest "rt").getD "?"
      let host := (kv rest "host").getD "?"
      let whichIds := exts.filterMap fun e =>
        match e with | ["which", t, "=", _] => some (decTok t) | _ => none
      let owner := ownerFrom exts m.tid
      let fails : List Fail :=
        if m.probe == some true then
          if sinks.isEmpty && err == "none" then []
          else [mkFail s!"C19:probe-not-discarded:{sinkStr}:err={err}" s!"a probe event reached {sinkStr} (err={err})"]
        else if m.tid == "" then
          match calls with
          | [c] =>
            if c.sink == "up" && c.acc == "1" && err == "none" then chkSame "nonspan" rest ev "" host c.obj
            else [mkFail s!"C19:nonspan-route:{sinkStr}:err={err}" s!"an event without trace id went to {sinkStr} (err={err})"]
          | _ => [mkFail s!"C19:nonspan-route:{sinkStr}:err={err}" s!"an event without trace id went to {sinkStr} (err={err})"]
        else
          let lookup :=
            if whichIds.any (· != m.tid) then
              [mkFail "C19:shard-lookup-wrong-id" s!"sharder asked about {whichIds} for a span of trace {m.tid}"]
            else []
          if !lookup.isEmpty then lookup else
          (if st == "drop" then
            if sinks.isEmpty && err == "none" then []
            else [mkFail s!"C19:stress-drop-route:{sinkStr}:err={err}" s!"a span dropped by stress relief reached {sinkStr} (err={err})"]
          else if st == "keep" then
            if sinks.isEmpty && err == "none" then
              [mkFail "C19:span-vanished:st=keep" "a span kept by stress relief reached no sink and no error was returned"]
            else if whichIds.isEmpty then [mkFail s!"C19:shard-not-consulted:{sinkStr}" "kept span: owner never looked up"]
            else if owner == cfg.self then
              if sinks == ["upcoll"] && err == "none" then []
              else [mkFail s!"C19:stress-keep-local-route:{sinkStr}:err={err}" s!"locally owned span kept by stress relief: {sinkStr} (err={err})"]
            else
              match calls with
              | [c1, c2] =>
                if c1.sink == "upcoll" && c2.sink == "peer" && c2.acc == "1" && err == "none" then
                  chkSame "probe" rest ev m.tid (encTok owner) c2.obj
                else [mkFail s!"C19:stress-keep-remote-route:{sinkStr}:err={err}" s!"remote span kept by stress relief: {sinkStr} (err={err})"]
              | _ => [mkFail s!"C19:stress-keep-remote-route:{sinkStr}:err={err}" s!"remote span kept by stress relief: {sinkStr} (err={err})"]
          else
            if sinks.isEmpty && err == "none" then
              [mkFail s!"C19:span-vanished:st={st}" "a span on the normal path reached no sink and no error was returned"]
            else if whichIds.isEmpty then [mkFail s!"C19:shard-not-consulted:{sinkStr}" s!"span routed to {sinkStr} without looking up its owner"]
            else if owner != cfg.self then
              match calls with
              | [c] =>
                if c.sink == "peer" && c.acc == "1" && err == "none" then
                  chkSame "forward" rest ev m.tid (encTok owner) c.obj
                else [mkFail s!"C19:span-remote-route:{sinkStr}:err={err}" s!"span owned by {owner} went to {sinkStr} (err={err})"]
              | _ => [mkFail s!"C19:span-remote-route:{sinkStr}:err={err}" s!"span owned by {owner} went to {sinkStr} (err={err})"]
            else
              let wantSink := if rt == "in" then "cin" else "cpeer"
              let full := if rt == "in" then (kv rest "fin").getD "?" == "1" else (kv rest "fpeer").getD "?" == "1"
              match calls with
              | [c] =>
                if c.sink != wantSink then
                  if c.sink == "cin" || c.sink == "cpeer" then
                    [mkFail s!"C19:wrong-collector-queue:rt={rt}:got={c.sink}" s!"span received on the {rt} listener went to {c.sink}"]
                  else [mkFail s!"C19:span-local-route:{sinkStr}:err={err}" s!"locally owned span went to {sinkStr} (err={err})"]
                else
                  (if full then
                    (if c.acc == "0" && err == "wouldblock" then []
                     else [mkFail s!"C19:full-queue-silent:err={err}" s!"collector queue full but processEvent returned err={err}"])
                   else
                    (if c.acc == "1" && err == "none" then []
                     else [mkFail s!"C19:spurious-error:err={err}" s!"span accepted by the collector but processEvent returned err={err}"])) ++
                  (if c.stid == encTok m.tid then [] else
                    [mkFail "C19:collector-trace-id" s!"span of trace {m.tid} handed to the collector as trace {c.stid}"]) ++
                  chkSame "collector" rest ev m.tid host c.obj
              | _ => [mkFail s!"C19:span-local-route:{sinkStr}:err={err}" s!"locally owned span went to {sinkStr} (err={err})"])
      (cfg, fails)
  | ["dshop", ds], some o =>
    -- the dataset an event is stored under must not change because the event crossed a listener
    if o == "ok " ++ ds then (cfg, []) else
    match o.splitOn " " with
    | ["ok", got] =>
      let a := decBytes ds
      let b := decBytes got
      let firstDiff := ((a.zip b).find? fun p => p.1 != p.2).map (·.1)
      let cls := match firstDiff with
        | some x => s!"byte={x}"
        | none => if a.length < b.length then "longer" else "shorter"
      (cfg, [mkFail s!"C19:dataset-changed-across-hop:{cls}" s!"dataset {ds} arrives as {got} after one hop"])
    | _ =>
      let cls := if unclean (decBytes ds) then "unclean-path" else (o.splitOn " ").headD "?"
      (cfg, [mkFail s!"C19:dataset-lost-across-hop:{cls}" s!"dataset {ds} does not arrive after one hop: {o}"])
  | ["dsdecode", sg], some o =>
    -- a path segment without '%' is the dataset name itself ('+' is a plus sign, not a space)
    let bs := decBytes sg
    if bs.isEmpty || bs.contains 37 then (cfg, []) else
    if o == "ok " ++ sg then (cfg, []) else
      (cfg, [mkFail "C19:dataset-segment-not-literal" s!"path segment {sg} (no escapes) read as dataset: {o}"])
  | _, _ => (cfg, [])

def comp : Component Cfg Cfg where
  init := parseCfg
  step := routerStep
  minit := parseCfg
  mon := routerMon

def main : IO Unit := do runLoop comp (← IO.getStdin)
