import Oracle.Lib
import Refinery.Model.SentCache
import Refinery.Gen.Sentcache
/-
Oracle for `collect/cache.cuckooSentCache` (C31).
case args: kcap=<KeptSize> dcap=<DroppedSize> w=<WorkerCount> dslots=<slots of first filter> u=<universe> salt=…
ops (see harness/cmd/sentcache/main.go):
  rk id rate reason ev se sl sp | rd id | flood start n | cs id kind | ct id | drain | maint |
  resize kept dropped workers | adv ns
ext lines used:
  rhash <reason> = <h>          wyhash of the reason under the cache's seed          (rk)
  chk = 0|1                     the library's answer for the full id on the cache's current filter
                                object, asked by the harness (not through the cache)  (cs, ct)
  fp <id> = 0|1                 could the library, keyed on the full id, contain it given the ids
                                recorded as dropped (single-element reference filters) (cs, ct; monitor)
  drained = k                   how many queued ids the call took                    (drain, maint)
  slots <cap> = <n>             library sizing of NewFilter(cap)                     (maint)
  cur <count> <ids> / fut <count> <ids> | fut nil
                                insert count and universe ids answered by the filter objects that
                                were current / future when the call started           (drain, maint)
The adversarial inputs of the model (false positive, failed inserts, lost ids) are computed here
as the difference between what an exact set would hold and what the library reports.
-/
open Refinery.Model.SentCache Oracle
open Refinery

namespace SC

def baseCfg : Cfg :=
  { slots := fun _ => 0, hash := fun _ => 0,
    depth := Refinery.Gen.Sentcache.addQueueDepth.toNat,
    futPm := Refinery.Gen.Sentcache.futurePermille.toNat,
    rotPm := Refinery.Gen.Sentcache.rotatePermille.toNat,
    minFull := 4,
    ttl := Refinery.Gen.Sentcache.recentTTLns }

structure OSt where
  s : St
  u : Nat
  bad : Bool := false     -- `NewCuckooSentCache` refused the configuration (kept size 0)

def num (args : List String) (k : String) : Nat := ((kv args k).getD "0").toNat?.getD 0

def findExt (exts : List (List String)) (name : String) : Option (List String) :=
  (exts.find? fun e => e.head? == some name).map List.tail

def statStr (p : Nat × Nat) : String := s!"{p.1}/{p.2}"

def optStatStr : Option (Nat × Nat) → String
  | none => "nil"
  | some p => statStr p

def ansStr : Ans → String
  | .notFound => "nf"
  | .dropped => "dropped"
  | .kept r why ev se sl sp => s!"kept r={r} why={why} c={ev},{se},{sl},{sp}"

def outStr : Out → Option String
  | .none => none
  | .ans a => some (ansStr a)
  | .drained c f q => some s!"cur={statStr c} fut={optStatStr f} q={q}"
  | .maint c f rot old q recent =>
    some s!"cur={statStr c} fut={optStatStr f} rot={if rot then 1 else 0} old={statStr old} q={q} recent={recent}"
  | .resizeOk => some "ok"
  | .resizeErr => some "err"
  | .badExt => some "bad-ext"
  | .nilCurrent => some "nil-current"

/-- truth of one filter object: (count, universe ids answered) -/
def parseTruth (exts : List (List String)) (name : String) : Option (Option (Nat × List Nat)) :=
  match findExt exts name with
  | some ["nil"] => some none
  | some [c, ids] => c.toNat?.map fun c => some (c, parseNatList ids)
  | _ => none

/-- failed inserts and lost universe ids of one filter, from its truth after the drain -/
def bitsFor (u : Nat) (f : Filter) (q : List Nat) (truth : Nat × List Nat) : Option (Nat × List Nat) :=
  let ideal := f.ids ++ q
  if truth.1 > f.count + q.length then none
  else
    let lost := (List.range u).filter fun i => ideal.contains i && !truth.2.contains i
    some (f.count + q.length - truth.1, lost)

def advOf (o : OSt) (exts : List (List String)) : Option Adv :=
  match findExt exts "drained", parseTruth exts "cur", parseTruth exts "fut" with
  | some ["=", k], some (some tc), some tf =>
    match k.toNat? with
    | none => none
    | some k =>
      let q := o.s.queue.take k
      match bitsFor o.u o.s.cur q tc with
      | none => none
      | some (failC, lostC) =>
        match o.s.fut, tf with
        | none, none => some { k := k, failC := failC, lostC := lostC }
        | some f, some tf =>
          match bitsFor o.u f q tf with
          | none => none
          | some (failF, lostF) => some { k := k, failC := failC, lostC := lostC, failF := failF, lostF := lostF }
        | _, _ => none
  | _, _, _ => none

def fpOf (o : OSt) (exts : List (List String)) (id : Nat) : Option Bool :=
  match findExt exts "chk" with
  | some ["=", b] =>
    let truth := b == "1"
    let inCur := o.s.cur.ids.contains id
    if !truth && inCur then none      -- an id vanished without a failed insert having been reported
    else some (truth && !inCur)
  | _ => none

def scStep (o : OSt) (op : List String) (exts : List (List String)) : OSt × Option String :=
  if o.bad then (o, some "init-error") else
  let r (cfg : Cfg) (mop : Op) : OSt × Option String :=
    let p := step cfg o.s mop
    ({ o with s := p.1 }, outStr p.2)
  let bad : OSt × Option String := (o, some "bad-ext")
  match op.map String.toNat? with
  | [_, some id, some rate, some reason, some ev, some se, some sl, some sp] =>
    if op.head? == some "rk" then
      match findExt exts "rhash" with
      | some [rs, "=", h] =>
        match rs.toNat?, h.toNat? with
        | some rs, some h =>
          if rs == reason then
            r { baseCfg with hash := fun x => if x == reason then h else 0 } (.recKept id rate reason ev se sl sp)
          else bad
        | _, _ => bad
      | _ => bad
    else (o, some "bad-op")
  | [_, some id] =>
    match op.head? with
    | some "rd" => r baseCfg (.recDrop id)
    | some "ct" => match fpOf o exts id with
      | some fp => r baseCfg (.checkTrace id fp)
      | none => bad
    | some "adv" => r baseCfg (.adv id)
    | _ => (o, some "bad-op")
  | [_, some a, some b] =>
    match op.head? with
    | some "cs" => match fpOf o exts a with
      | some fp => r baseCfg (.checkSpan a b fp)
      | none => bad
    | some "flood" =>
      let s' := (List.range b).foldl (fun s i => (step baseCfg s (.recDrop (a + i))).1) o.s
      ({ o with s := s' }, none)
    | _ => (o, some "bad-op")
  | [_, some k, some d, some w] =>
    if op.head? == some "resize" then r baseCfg (.resize (perWorker k w) (perWorker d w))
    else (o, some "bad-op")
  | [_] =>
    match op.head? with
    | some "drain" =>
      match advOf o exts with
      | some a => if a.k == o.s.queue.length then r baseCfg (.drain a) else bad
      | none => bad
    | some "maint" =>
      match advOf o exts, findExt exts "slots" with
      | some a, some [c, "=", n] =>
        match c.toNat?, n.toNat? with
        | some c, some n =>
          if c == o.s.nextCap then r { baseCfg with slots := fun x => if x == c then n else 0 } (.maintain a)
          else bad
        | _, _ => bad
      | _, _ => bad
    | _ => (o, some "bad-op")
  | _ => (o, some "bad-op")

/-! ## Monitor: the property's conclusion on the implementation's own answers -/

structure MSt where
  u : Nat := 0
  now : Int := 0
  keptCap : Nat := 0
  recency : List Nat := []                       -- spec: kept decisions, most recently touched first
  lastKept : AList Nat (Nat × Nat) := []         -- id ↦ (rate, reason) of its latest kept record
  queue : List Nat := []                         -- recorded as dropped, not yet taken by a drain
  expCur : List Nat := []                        -- drained into the current filter, not rotated out / lost
  cntCur : Nat := 0
  expFut : Option (List Nat) := none
  cntFut : Nat := 0
  maybeDropped : List Nat := []                  -- ever recorded dropped, or the filter said so
  recorded : List Nat := []                      -- ever recorded dropped (nothing else)
  refreshed : AList Nat Int := []                -- id ↦ instant of its last drop record / dropped CheckSpan

def fail (sig what : String) : Fail := { prop := "C31", sig := s!"C31:{sig}", what := what }

def touch (m : MSt) (id : Nat) : MSt :=
  { m with recency := (id :: m.recency.filter (· != id)).take m.keptCap }

def recDropM (m : MSt) (id : Nat) : MSt :=
  { m with maybeDropped := if m.maybeDropped.contains id then m.maybeDropped else id :: m.maybeDropped,
           recorded := if m.recorded.contains id then m.recorded else id :: m.recorded,
           refreshed := AList.put m.refreshed id m.now,
           queue := if m.queue.length < baseCfg.depth then m.queue ++ [id] else m.queue }

/-- expected contents and count of one filter after a drain of `q`; lost ids are excused only
when the count shows that inserts failed and the filter is big enough for a failure -/
def settle (u : Nat) (exp : List Nat) (cnt : Nat) (q : List Nat) (truth : Nat × List Nat) : List Nat × Nat :=
  let all := exp ++ q.filter (fun i => !exp.contains i)
  let lost := (List.range u).filter fun i => all.contains i && !truth.2.contains i
  let deficit := cnt + q.length - truth.1
  if lost.length ≤ deficit && (lost.isEmpty || truth.1 ≥ baseCfg.minFull) then
    (all.filter (fun i => !lost.contains i), truth.1)
  else (all, truth.1)

def parseStat (s : String) : Option (Nat × Nat) :=
  match s.splitOn "/" with
  | [a, b] => match a.toNat?, b.toNat? with | some a, some b => some (a, b) | _, _ => none
  | _ => none

def scMon (m : MSt) (op : List String) (exts : List (List String)) (obs : Option String) : MSt × List Fail :=
  let nums := op.map String.toNat?
  match op.head?, nums with
  | some "adv", [_, some d] => ({ m with now := m.now + d }, [])
  | some "rk", [_, some id, some rate, some reason, _, _, _, _] =>
    (touch { m with lastKept := AList.put m.lastKept id (rate, reason) } id, [])
  | some "rd", [_, some id] => (recDropM m id, [])
  | some "flood", [_, some a, some n] => ((List.range n).foldl (fun m i => recDropM m (a + i)) m, [])
  | some "resize", [_, some k, _, some w] =>
    if obs == some "ok" then
      let c := perWorker k w
      ({ m with keptCap := c, recency := m.recency.take c }, [])
    else (m, [])
  | some "drain", _ | some "maint", _ =>
    match findExt exts "drained", parseTruth exts "cur", parseTruth exts "fut" with
    | some ["=", ks], some (some tc), some tf =>
      let k := ks.toNat?.getD 0
      let q := m.queue.take k
      let (ec, cc) := settle m.u m.expCur m.cntCur q tc
      let m := { m with queue := m.queue.drop k, expCur := ec, cntCur := cc }
      let m := match m.expFut, tf with
        | some ef, some tf => let (e, c) := settle m.u ef m.cntFut q tf; { m with expFut := some e, cntFut := c }
        | _, _ => m
      if op.head? == some "maint" then
        let toks := (obs.getD "").splitOn " "
        let rot := kv toks "rot" == some "1"
        let futNil := kv toks "fut" == some "nil"
        let old := ((kv toks "old").bind parseStat).getD (0, 1)
        if rot then
          let fs := if 100 * old.1 < 99 * old.2 then
            [fail "rotation-before-full" s!"filters rotated at load {old.1}/{old.2}, below 99 %"] else []
          ({ m with expCur := m.expFut.getD [], cntCur := m.cntFut, expFut := some [], cntFut := 0 }, fs)
        else if !futNil && m.expFut.isNone then ({ m with expFut := some [], cntFut := 0 }, [])
        else (m, [])
      else (m, [])
    | _, _, _ => (m, [])
  | some which, _ :: some id :: _ =>
    if which != "cs" && which != "ct" then (m, []) else
    let o := obs.getD ""
    let toks := o.splitOn " "
    let isDropped := o == "dropped"
    let isNf := o == "nf"
    let isKept := toks.head? == some "kept"
    let chk := findExt exts "chk" == some ["=", "1"]
    let m := if chk && !m.maybeDropped.contains id then { m with maybeDropped := id :: m.maybeDropped } else m
    let inWindow := match AList.get m.refreshed id with
      | some t => decide (m.now ≤ t + baseCfg.ttl)
      | none => false
    let fsD :=
      if m.expCur.contains id then
        (if isDropped then [] else
          [fail "dropped-forgotten-before-rotation" s!"trace {id} was recorded dropped, drained into the filter, not rotated out, yet {which} answered {o}"])
      else if which == "cs" && inWindow then
        (if isDropped then [] else
          [fail "recent-drop-gap-not-covered" s!"trace {id} was recorded/answered dropped within the recent-drop TTL, yet cs answered {o}"])
      else if which == "ct" && inWindow then
        (if isDropped then [] else
          [fail "checktrace-ignores-recent-drops" s!"trace {id} was recorded/answered dropped within the recent-drop TTL; CheckTrace answered {o}"])
      else []
    let fsK :=
      if m.recency.contains id then
        (if isNf then [fail "kept-forgotten-within-capacity" s!"trace {id} is among the {m.keptCap} most recent kept decisions, yet {which} answered nf"]
         else if isDropped && !m.maybeDropped.contains id then
           [fail "kept-answered-dropped-without-drop-record" s!"trace {id} was only ever recorded kept, yet {which} answered dropped"]
         else [])
      else []
    let fsR :=
      if isKept then
        match AList.get m.lastKept id with
        | none => [fail "kept-never-recorded" s!"trace {id} answered kept but was never recorded kept"]
        | some (rate, reason) =>
          if kv toks "r" == some (toString rate) && kv toks "why" == some (toString reason) then []
          else [fail "kept-wrong-rate-or-reason" s!"trace {id} recorded kept with rate {rate} reason {reason}, answered {o}"]
      else []
    -- a "dropped" answer for an id never recorded as dropped is legitimate only as a false positive
    -- of the filter library keyed on the full id; `ext fp` is the library's own verdict on that
    let explicable := match findExt exts "fp" with
      | some [_, "=", b] => b != "0"
      | _ => true
    let fsF :=
      if isDropped && !m.recorded.contains id && !explicable then
        [fail "false-dropped-answer:not-a-filter-false-positive" s!"trace {id} was never recorded dropped and the filter library, keyed on the full id, cannot contain it, yet {which} answered dropped"]
      else []
    let m := if isKept then touch m id else m
    let m := if which == "cs" && isDropped then { m with refreshed := AList.put m.refreshed id m.now } else m
    (m, fsD ++ fsK ++ fsR ++ fsF)
  | _, _ => (m, [])

def comp : Component OSt MSt where
  init := fun args =>
    let w := num args "w"
    let cfg := { baseCfg with slots := fun _ => num args "dslots" }
    { s := init cfg (perWorker (num args "kcap") w) (perWorker (num args "dcap") w), u := num args "u",
      bad := perWorker (num args "kcap") w == 0 }
  step := scStep
  minit := fun args => { u := num args "u", keptCap := perWorker (num args "kcap") (num args "w") }
  mon := scMon

end SC

def main : IO Unit := do runLoop SC.comp (← IO.getStdin)
