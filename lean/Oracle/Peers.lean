import Oracle.Lib
import Refinery.Model.Peers
/-
Oracle for `internal/peer.RedisPubsubPeers` (C18).  Transcript format: see harness/cmd/peers/main.go.

Model side: every node's state is `Refinery.Model.Peers.stepEv` folded over the events the node
experienced (`recv` for a delivered / injected message, `query` for a `GetPeers` observation) — the
very function the theorems of `Props/C18.lean` are about — kept incrementally.

Monitor side (implementation observations only; it never looks at the model's state): the
conclusions of `codec_roundtrip`, `stale_expires`, `live_persists`/`self_persists`, `converges`,
`callback_view_converges`,
evaluated on each observed peer list whenever the *operations so far* satisfy the theorem's
hypotheses (delays ≤ d, nothing lost, every running node refreshing at least every
refresh + jitter, no forged message).
-/
open Refinery.Model.Peers Oracle

/-! ## percent-encoding of the kit (`Enc` / `Dec`), on bytes -/

def hexDigit (n : Nat) : Char := "0123456789ABCDEF".toList.getD n '0'

def safeByte (b : UInt8) : Bool :=
  let n := b.toNat
  (97 ≤ n && n ≤ 122) || (65 ≤ n && n ≤ 90) || (48 ≤ n && n ≤ 57) ||
    n == 46 || n == 95 || n == 58 || n == 47 || n == 43 || n == 45

def enc (bs : Bytes) : String :=
  if bs.isEmpty then "%" else
  String.ofList (bs.flatMap fun b =>
    if safeByte b then [Char.ofNat b.toNat] else ['%', hexDigit (b.toNat / 16), hexDigit (b.toNat % 16)])

def unhex (c : Char) : Nat :=
  if c.isDigit then c.toNat - '0'.toNat
  else if 'A' ≤ c && c ≤ 'F' then c.toNat - 'A'.toNat + 10
  else if 'a' ≤ c && c ≤ 'f' then c.toNat - 'a'.toNat + 10
  else 0

def decChars : List Char → Bytes
  | '%' :: a :: b :: t => UInt8.ofNat (unhex a * 16 + unhex b) :: decChars t
  | c :: t => UInt8.ofNat c.toNat :: decChars t
  | [] => []

def dec (s : String) : Bytes := if s == "%" then [] else decChars s.toList

def encList (l : List Bytes) : String := ",".intercalate (l.map enc)

/-! ## model side -/

structure ONode where
  idx : Nat
  self : Node
  started : Bool := false
  running : Bool := false
  n : NSt := { st := {} }
  iv : Int := 0            -- the generator's heartbeat schedule for the node (0: none)
  period : Int := 0        -- the period the code's refresh ticker was created with (constant: `Beat.step`)
  lastFire : Int := 0      -- creation / last firing of the refresh ticker
  failNext : Nat := 0      -- injected publish failures still to come

structure OSt where
  kind : String := ""
  ttl : Int := 0
  now : Int := 0
  nodes : List ONode := []
  msgs : List (String × Bytes) := []

def OSt.node? (o : OSt) (tok : String) : Option ONode :=
  match tok.toNat? with
  | none => none
  | some i => o.nodes.find? (·.idx == i)

def OSt.setNode (o : OSt) (n : ONode) : OSt :=
  { o with nodes := o.nodes.map fun m => if m.idx == n.idx then n else m }

def viewStr (n : ONode) : String :=
  match n.n.view with
  | none => s!"{n.idx}@-"
  | some v => s!"{n.idx}@{encList v}"

/-- every running node answers `GetPeers` (a `query` event) -/
def OSt.observeAll (o : OSt) : OSt × String :=
  let nodes := o.nodes.map fun n =>
    if n.running then { n with n := stepEvN o.ttl n.self n.n (.query o.now) } else n
  let run := nodes.filter (·.running)
  let outs := run.map fun n => s!"{n.idx}@{encList (getPeers n.self n.n.st)}"
  let cbs := run.map viewStr
  ({ o with nodes := nodes },
   if outs.isEmpty then "p=- cb=-" else "p=" ++ ";".intercalate outs ++ " cb=" ++ ";".intercalate cbs)

def OSt.handle (o : OSt) (n : ONode) (msg : Bytes) : OSt × String :=
  let st := stepEvN o.ttl n.self n.n (.recv o.now o.now msg)
  let st := stepEvN o.ttl n.self st (.query o.now)
  let n' := { n with n := st }
  (o.setNode n', s!"p={n.idx}@{encList (getPeers n.self st.st)} cb={viewStr n'}")

def decodedStr (m : Bytes) : String :=
  match unmarshal m with
  | none => "ok=0"
  | some c =>
    let a := match c.action with | .register => "R" | .unregister => "U"
    s!"ok=1 act={a} addr={enc c.address} id={enc c.id}"

def oStep (o : OSt) (op : List String) (exts : List (List String)) : OSt × Option String :=
  match op with
  | ["enc", act, addr, id] =>
    let a? := if act == "R" then some Action.register else if act == "U" then some Action.unregister else none
    match a? with
    | none => (o, some "bad-op")
    | some a =>
      let m := marshal ⟨a, dec id, dec addr⟩
      (o, some s!"m={enc m} {decodedStr m}")
  | ["dec", m] => (o, some (decodedStr (dec m)))
  | ["adv", d] =>
    match d.toNat? with
    | none => (o, some "bad-op")
    | some d => let (o', s) := ({ o with now := o.now + d }).observeAll; (o', some s)
  | ["start", i] =>
    match o.node? i with
    | none => (o, some "noop")
    | some n =>
      if n.started then (o, some "noop") else
      -- the public address is computed by `publicAddr` (outside the model): taken from the ext line
      match exts.find? (fun e => e.take 3 == ["node", i, "="]) with
      | some [_, _, _, addr, ival] =>
        let self : Node := { n.self with addr := dec addr }
        let n' : ONode := { n with self := self, started := true, running := true, n := startN o.ttl self o.now,
                                   period := ival.toInt?.getD 0, lastFire := o.now }
        let (o', s) := (o.setNode n').observeAll
        (o', some s)
      | _ => (o, some "no-ext")
  | ["tick", i, lab] =>
    match o.node? i with
    | none => (o, some "noop")
    | some n =>
      if !n.running then (o, some "noop") else
      -- the ticker fires when its (unchanging) period has elapsed
      if decide (0 < n.iv) && decide (o.now - n.lastFire < n.iv) then (o, some "pub=notdue") else
      -- a failed publish delivers nothing and leaves the period alone (`publish_failure_does_not_change_period`)
      if n.failNext > 0 then
        (o.setNode { n with lastFire := o.now, failNext := n.failNext - 1 }, some s!"pub=failed per={n.period}")
      else
      let m := regMsg n.self
      ({ (o.setNode { n with lastFire := o.now }) with msgs := (lab, m) :: o.msgs }, some s!"pub={enc m} per={n.period}")
  | "pubfail" :: i :: rest =>
    match o.node? i with
    | none => (o, some "noop")
    | some n =>
      if !n.running then (o, some "noop") else
      let k := match rest with | [] => 1 | k :: _ => k.toNat?.getD 0
      (o.setNode { n with failNext := k }, some "ok")
  | ["stop", i, lab] =>
    match o.node? i with
    | none => (o, some "noop")
    | some n =>
      if !n.running then (o, some "noop") else
      if n.failNext > 0 then (o.setNode { n with running := false, failNext := n.failNext - 1 }, some "pub=failed") else
      let m := unregMsg n.self
      ({ (o.setNode { n with running := false }) with msgs := (lab, m) :: o.msgs }, some s!"pub={enc m}")
  | ["crash", i] =>
    match o.node? i with
    | none => (o, some "noop")
    | some n =>
      if !n.running then (o, some "noop") else
      let (o', s) := (o.setNode { n with running := false }).observeAll
      (o', some s)
  | ["deliver", lab, i] =>
    match o.node? i, o.msgs.find? (·.1 == lab) with
    | some n, some (_, m) =>
      if !n.running then (o, some "noop") else
      let (o', s) := o.handle n m; (o', some s)
    | _, _ => (o, some "noop")
  | ["inject", i, bytes] =>
    match o.node? i with
    | none => (o, some "noop")
    | some n =>
      if !n.running then (o, some "noop") else
      let (o', s) := o.handle n (dec bytes); (o', some s)
  | _ => (o, some "bad-op")

def headerNodes (args : List String) : List (Nat × Bytes) :=
  let n := ((kv args "n").getD "0").toNat?.getD 0
  (List.range n).map fun i => (i, dec ((kv args s!"id{i}").getD "%"))

def oInit (args : List String) : OSt :=
  { kind := (kv args "kind").getD "",
    ttl := ((kv args "ttl").getD "0").toInt?.getD 0,
    nodes := (headerNodes args).map fun (i, id) =>
      { idx := i, self := ⟨id, []⟩, iv := ((kv args s!"iv{i}").getD "0").toInt?.getD 0 } }

/-! ## monitor side -/

structure MNode where
  idx : Nat
  id : Bytes
  addr : Bytes := []
  started : Bool := false
  running : Bool := false
  startT : Int := 0
  stopT : Int := 0
  pubs : List Int := []        -- publish instants, most recent first
  handledT : Option Int := none   -- instant of the most recent message handed to this node's listen
  iv : Int := 0                -- the heartbeat schedule the ticks of this node follow (header)
  period : Int := 0            -- the period the code gave its refresh ticker at the start (ext)
  lastFire : Int := 0          -- start, or the last tick the schedule called for
  base : Int := 0              -- start, or the node's last failed publish: it must publish every <= gap from here on
  hadFail : Bool := false

structure MMsg where
  label : String
  sent : Int
  delivered : List Nat := []

structure MSt where
  ttl : Int := 0
  gap : Int := 0               -- refresh + jitter bound
  refresh : Int := 0
  jit : Int := 0
  d : Int := 0
  now : Int := 0
  nodes : List MNode := []
  msgs : List MMsg := []
  voided : Bool := false       -- a delivery later than d, or a forged message: the theorems' hypotheses do not hold
  lastChange : Int := 0
  idsUnique : Bool := true      -- ids pairwise different and comma-free (the theorems' hypotheses on ids)
  seen : List String := []     -- signatures already reported in this case (each is reported once)

def hasComma (b : Bytes) : Bool := b.contains comma

/-- from `base` (its start, or its last failed publish) up to `t` the node was due to re-register at
least every `gap`: `pubs` are the instants at which its heartbeat called for a publish that was not
made to fail -/
def MNode.gapOK (n : MNode) (gap t : Int) : Bool :=
  let rec go : Int → List Int → Bool
    | _, [] => true
    | later, p :: ps => decide (later - p ≤ gap) && go p ps
  match n.pubs.filter (fun p => decide (n.base < p)) with
  | [] => decide (t - n.base ≤ gap)
  | p :: ps => decide (t - p ≤ gap) && go p ps && decide ((ps.getLast?.getD p) - n.base ≤ gap)

/-- nothing published since `r` subscribed, and more than `d` ago, is missing at `r` -/
def MSt.fairOK (m : MSt) (r : MNode) : Bool :=
  m.msgs.all fun x => !(decide (r.startT ≤ x.sent) && decide (x.sent + m.d < m.now)) || x.delivered.contains r.idx

def cutAtComma (b : Bytes) : Bytes := b.takeWhile (· != comma)

def count (a : String) (l : List String) : Nat := (l.filter (· == a)).length

/-- the checks on one observed list `obs` (encoded addresses) of running node `r` -/
def MSt.checkList (m : MSt) (r : MNode) (obs : List String) : List Fail :=
  if m.voided || !m.idsUnique then [] else
  let t := m.now
  let started := m.nodes.filter (·.started)
  let running := m.nodes.filter (·.running)
  -- stale_expires: an address is listed at most as often as there are nodes with that address that
  -- are running or stopped publishing no longer than d + ttl ago
  let staleFails := obs.eraseDups.filterMap fun a =>
    let allowed := (started.filter fun k => enc k.addr == a && (k.running || decide (t ≤ k.stopT + m.d + m.ttl))).length
    if count a obs ≤ allowed then none else
      let misread := started.any fun k => hasComma k.addr && enc (cutAtComma k.addr) == a
      some { prop := "C18", sig := if misread then "C18:membership:comma-in-address" else "C18:stale-listed",
             what := s!"node {r.idx} lists {a} {count a obs}x at t={t}, but only {allowed} node(s) with that address registered within d+ttl" : Fail }
  let fair := m.fairOK r
  -- live_persists / self_persists
  let liveFails := running.filterMap fun k =>
    if fair && k.gapOK m.gap t && ((k.idx == r.idx && !k.hadFail) || (decide (k.base + m.gap + m.d < t) && decide (r.startT + m.gap + m.d < t))) then
      if obs.contains (enc k.addr) then none else
        some { prop := "C18", sig := if k.hadFail then "C18:live-missing:after-publish-failures" else "C18:live-missing",
               what := s!"node {r.idx} does not list live node {k.idx} ({enc k.addr}) at t={t}: its heartbeat has been due every <= refresh+jitter since {k.base} (start / last failed publish) and every message arrived within d" : Fail }
    else none
  -- converges
  let convFails :=
    if fair && running.all (·.gapOK m.gap t) && decide (m.lastChange + m.d + m.ttl < t) then
      let want := (ksort (running.map (·.id))).filterMap fun id => (running.find? (·.id == id)).map fun k => enc k.addr
      if want == obs then [] else
        [{ prop := "C18", sig := if running.any (hasComma ·.addr) then "C18:membership:comma-in-address" else "C18:not-converged",
           what := s!"node {r.idx} lists {",".intercalate obs} at t={t} > lastChange+d+ttl, live set is {",".intercalate want}" : Fail }]
    else []
  staleFails ++ liveFails ++ convFails

def parseLists (v : String) : List (Nat × List String) :=
  if v == "-" then [] else
  (v.splitOn ";").filterMap fun item =>
    match item.splitOn "@" with
    | [i, l] => i.toNat?.map fun i => (i, l.splitOn ",")
    | _ => none

/-- callback_view_converges: membership has not changed for more than d + ttl, everything arrived,
everybody refreshes, and this node has handled a message since the bound: what its change
callback saw last must be the live set -/
def MSt.checkView (m : MSt) (r : MNode) (view : List String) : List Fail :=
  if m.voided || !m.idsUnique then [] else
  let t := m.now
  let running := m.nodes.filter (·.running)
  let bound := m.lastChange + m.d + m.ttl
  let handledAfter := match r.handledT with | some h => decide (bound < h) | none => false
  if m.fairOK r && running.all (·.gapOK m.gap t) && handledAfter then
    let want := (ksort (running.map (·.id))).filterMap fun id => (running.find? (·.id == id)).map fun k => enc k.addr
    if want == view then [] else
      [{ prop := "C18", sig := "C18:callback-view-stale",
         what := s!"node {r.idx}: the change callback last saw {",".intercalate view} but at t={t} (> lastChange+d+ttl, a message handled since) the live set is {",".intercalate want}" : Fail }]
  else []

def MSt.checkObs (m : MSt) (obs : Option String) : List Fail :=
  match obs with
  | none => []
  | some o =>
    let toks := o.splitOn " "
    let ps := parseLists ((kv toks "p").getD "-")
    let cbs := parseLists ((kv toks "cb").getD "-")
    let pf := ps.flatMap fun (i, l) =>
      match m.nodes.find? (fun n => n.idx == i && n.running) with
      | some r => m.checkList r l
      | none => []
    let cf := cbs.flatMap fun (i, l) =>
      match m.nodes.find? (fun n => n.idx == i && n.running) with
      | some r => m.checkView r l
      | none => []
    pf ++ cf

def MSt.updNode (m : MSt) (i : Nat) (f : MNode → MNode) : MSt :=
  { m with nodes := m.nodes.map fun n => if n.idx == i then f n else n }

def obsIsPub (obs : Option String) : Bool :=
  match obs with
  | some o => o.startsWith "pub=" && o != "pub=none" && o != "pub=stuck" && o != "pub=notdue" && !o.startsWith "pub=failed"
  | none => false

def mStep (m : MSt) (op : List String) (exts : List (List String)) (obs : Option String) : MSt × List Fail :=
  match op with
  | ["enc", act, addr, id] =>
    -- codec_roundtrip: what was marshalled must decode to the same action, address and id
    let toks := (obs.getD "").splitOn " "
    -- compares the action, the full address and the **full id**, byte for byte
    let ok := kv toks "ok" == some "1"
    let sameAct := kv toks "act" == some act
    let sameAddr := kv toks "addr" == some addr
    let sameId := kv toks "id" == some id
    -- the theorem's hypothesis: the id has no comma
    if (ok && sameAct && sameAddr && sameId) || hasComma (dec id) then (m, []) else
      let which := if !ok then "rejected" else if !sameId then "id-changed" else if !sameAddr then "address-changed" else "action-changed"
      (m, [{ prop := "C18", sig := s!"C18:codec-roundtrip:{which}",
             what := s!"{act} address={addr} id={id} ({(dec id).length} bytes) decodes as {obs.getD "-"}" }])
  | ["adv", d] =>
    let m := { m with now := m.now + (d.toNat?.getD 0 : Nat) }
    (m, m.checkObs obs)
  | ["start", i] =>
    match exts.find? (fun e => e.take 3 == ["node", i, "="]), i.toNat? with
    | some [_, _, _, addr, ival], some idx =>
      let already := (m.nodes.find? (·.idx == idx)).map (·.started) == some true
      if already then (m, []) else
      let iv := ival.toInt?.getD 0
      let m := m.updNode idx fun n => { n with addr := dec addr, started := true, running := true, startT := m.now,
                                                period := iv, lastFire := m.now, base := m.now }
      let m := { m with lastChange := m.now }
      let f : List Fail :=
        if decide (m.refresh ≤ iv) && decide (iv < m.refresh + m.jit) then [] else
          [{ prop := "C18", sig := "C18:refresh-interval-out-of-range",
             what := s!"node {idx} refreshes every {iv} ns, outside [{m.refresh}, {m.refresh + m.jit})" }]
      (m, f ++ m.checkObs obs)
    | _, _ => (m, [])
  | ["tick", i, lab] =>
    match i.toNat? with
    | some idx =>
      match m.nodes.find? (fun n => n.idx == idx && n.running) with
      | none => (m, [])
      | some k =>
        let toks := (obs.getD "").splitOn " "
        let pub := (kv toks "pub").getD ""
        -- the period the code's ticker has now must be the one it started with
        let perFail : List Fail := match (kv toks "per").bind String.toInt? with
          | some p => if p == k.period then [] else
              [{ prop := "C18", sig := "C18:heartbeat-period-changed",
                 what := s!"node {idx}: refresh ticker period is {p} ns after the publish at t={m.now} ({pub.take 6}), it was {k.period} ns" }]
          | none => []
        let onSchedule := decide (k.iv ≤ 0) || decide (k.iv ≤ m.now - k.lastFire)
        if obsIsPub obs then
          let m := m.updNode idx fun n => { n with pubs := m.now :: n.pubs, lastFire := m.now }
          ({ m with msgs := { label := lab, sent := m.now } :: m.msgs }, perFail)
        else if pub == "failed" then
          -- an injected failure: the node's obligation to publish every <= gap restarts here
          let m := m.updNode idx fun n => { n with lastFire := m.now, base := m.now, hadFail := true }
          ({ m with lastChange := m.now }, perFail)
        else if pub == "notdue" && onSchedule then
          -- a full configured period has elapsed since the last tick and the node's ticker is not due:
          -- the gap between its publishes exceeds refresh + jitter
          let m := m.updNode idx fun n => { n with pubs := m.now :: n.pubs, lastFire := m.now }
          (m, [{ prop := "C18", sig := "C18:heartbeat-period-changed",
                 what := s!"node {idx}: no publish at t={m.now} although {m.now - k.lastFire} ns (>= its heartbeat period {k.iv}) have passed since the previous tick" }])
        else (m, [])
    | none => (m, [])
  | ["stop", i, lab] =>
    match i.toNat? with
    | some idx =>
      if (m.nodes.find? (·.idx == idx)).map (·.running) == some true then
        let m := m.updNode idx fun n => { n with running := false, stopT := m.now }
        let m := { m with lastChange := m.now }
        if obsIsPub obs then ({ m with msgs := { label := lab, sent := m.now } :: m.msgs }, []) else (m, [])
      else (m, [])
    | none => (m, [])
  | ["crash", i] =>
    match i.toNat? with
    | some idx =>
      if (m.nodes.find? (·.idx == idx)).map (·.running) == some true then
        let m := m.updNode idx fun n => { n with running := false, stopT := m.now }
        let m := { m with lastChange := m.now }
        (m, m.checkObs obs)
      else (m, [])
    | none => (m, [])
  | ["deliver", lab, i] =>
    match i.toNat?, m.msgs.find? (·.label == lab) with
    | some idx, some x =>
      if obs == some "noop" then (m, []) else
      let late := decide (m.now - x.sent > m.d)
      let m := { m with voided := m.voided || late,
                        msgs := m.msgs.map fun (y : MMsg) => if y.label == lab then { y with delivered := idx :: y.delivered } else y }
      let m := m.updNode idx fun n => { n with handledT := some m.now }
      (m, m.checkObs obs)
    | _, _ => (m, [])
  | ["inject", _, bytes] =>
    if obs == some "noop" then (m, []) else
    let b := dec bytes
    -- something that could pass for a command voids the hypotheses; anything else must be ignored
    let forged := hasComma b && (b.head? == some Action.register.byte || b.head? == some Action.unregister.byte)
    let m := { m with voided := m.voided || forged }
    (m, m.checkObs obs)
  | _ => (m, [])

def mInit (args : List String) : MSt :=
  let num (k : String) : Int := ((kv args k).getD "0").toInt?.getD 0
  let ids := headerNodes args
  { ttl := num "ttl", refresh := num "refresh", jit := num "jit", gap := num "refresh" + num "jit", d := num "d",
    nodes := ids.map fun (i, id) => { idx := i, id := id, iv := num s!"iv{i}" },
    idsUnique := (ids.map (·.2)).eraseDups.length == ids.length && ids.all fun p => !hasComma p.2 }

/-- report each signature once per case (the first observation that shows it) -/
def mStepOnce (m : MSt) (op : List String) (exts : List (List String)) (obs : Option String) : MSt × List Fail :=
  let (m', fs) := mStep m op exts obs
  let fresh := fs.foldl (fun (acc : List Fail) f => if m'.seen.contains f.sig || acc.any (·.sig == f.sig) then acc else acc ++ [f]) []
  ({ m' with seen := m'.seen ++ fresh.map (·.sig) }, fresh)

def comp : Component OSt MSt where
  init := oInit
  step := oStep
  minit := mInit
  mon := mStepOnce

def main : IO Unit := do runLoop comp (← IO.getStdin)
