import Std.Data.HashMap
import Oracle.Lib
import Refinery.Model.Sharder
import Refinery.Gen.Sharder
/-
Oracle for `sharder.DeterministicSharder` + the router's local-vs-forward decision (C17).

case args: selfs=<enc addr>,…              node i has instance id selfs[i]
ops (see harness/cmd/sharder/main.go):
  update <i> <list|->     obs p=<peer list of the sharder>
  start <i> [slow]        obs ok|err my=@<addr> p=<list>   |  skipped-slow-start
  which <tid>             obs @<addr>|!panic per node, comma separated
  route <i> <tid>         obs keep | fwd:@<addr> | !panic
  send <i> <tid>          obs fwd:@a>collect:@a | collect:@a | …>lost:@a | …>more | !panic
  table <i>               obs n=<k> asc=true t=<uhash>@<addr>,…
  reloadbusy <i> <list>   the list changes while a WhichShard is in flight; obs p=<peer list>
  reloadbusy2 <i> <l1> <l2>  two changes, the second right behind the first; obs p=<peer list>
ext lines `h <enc bytes> <seed> = <value>`: the graph of the hash function (wyhash), accumulated
over the case.  A point the model needs but the harness did not supply makes the model answer
`missing-ext` (never a default).

Tokens are percent-encoded byte strings; the model works on the decoded strings (one `Char` per
byte, so `String` order = Go's byte order).  The monitor only compares tokens.
-/
open Refinery.Model.Sharder Oracle

/-! ## token coding (mirror of `kit.Enc` / `kit.Dec`) -/

def hexVal (c : Char) : Nat :=
  if '0' ≤ c ∧ c ≤ '9' then c.toNat - 48
  else if 'A' ≤ c ∧ c ≤ 'F' then c.toNat - 55
  else if 'a' ≤ c ∧ c ≤ 'f' then c.toNat - 87 else 0

def decChars : List Char → List Char
  | '%' :: a :: b :: t => Char.ofNat (hexVal a * 16 + hexVal b) :: decChars t
  | c :: t => c :: decChars t
  | [] => []

def dec (s : String) : String := if s == "%" then "" else String.ofList (decChars s.toList)

def hexDigit (n : Nat) : Char := if n < 10 then Char.ofNat (48 + n) else Char.ofNat (55 + n)

def safeChar (c : Char) : Bool :=
  ('a' ≤ c ∧ c ≤ 'z') || ('A' ≤ c ∧ c ≤ 'Z') || ('0' ≤ c ∧ c ≤ '9') ||
  c == '.' || c == '_' || c == ':' || c == '/' || c == '+' || c == '-'

def enc (s : String) : String :=
  if s.isEmpty then "%" else
  String.ofList (s.toList.flatMap fun c =>
    if safeChar c then [c] else ['%', hexDigit (c.toNat / 16 % 16), hexDigit (c.toNat % 16)])

def decList (s : String) : List String :=
  if s == "-" || s == "" then [] else (s.splitOn ",").map dec

def encList (l : List String) : String :=
  if l.isEmpty then "-" else ",".intercalate (l.map enc)

def tokList (s : String) : List String :=
  if s == "-" || s == "" then [] else s.splitOn ","

/-! ## model side -/

def consts : Consts :=
  { partitionCount := Refinery.Gen.Sharder.partitionCount.toNat,
    peerSeed := Refinery.Gen.Sharder.peerSeed.toNat }

/-- value no `uint64` hash can take: marks a point of the hash graph that was not supplied -/
def missing : Nat := 2 ^ 64

structure OSt where
  nodes : List Node := []
  htab : Std.HashMap (String × Nat) Nat := {}

def hOf (t : Std.HashMap (String × Nat) Nat) : HashFn := fun s seed => (t.get? (s, seed)).getD missing

def absorb (t : Std.HashMap (String × Nat) Nat) (exts : List (List String)) : Std.HashMap (String × Nat) Nat :=
  exts.foldl (fun t e =>
    match e with
    | ["h", b, seed, "=", v] =>
      match seed.toNat?, v.toNat? with
      | some seed, some v => t.insert (dec b, seed) v
      | _, _ => t
    | _ => t) t

def tableBad (n : Node) : Bool := n.hashes.any fun e => e.uhash ≥ missing

def whichStr (h : HashFn) (n : Node) (id : String) : String :=
  if tableBad n || (scan h id n.hashes).2 ≥ missing then "missing-ext"
  else match whichShard h n.peers n.hashes id with
    | none => "!panic"
    | some a => "@" ++ enc a

def evStr : Ev → String
  | .collect a => "collect:@" ++ enc a
  | .fwd a => "fwd:@" ++ enc a
  | .lost a => "lost:@" ++ enc a
  | .crash => "!panic"
  | .more => "more"

def shStep (st : OSt) (op : List String) (exts : List (List String)) : OSt × Option String :=
  let htab := absorb st.htab exts
  let st := { st with htab := htab }
  let h := hOf htab
  let nodeOf (i : String) : Option (Nat × Node) := do
    let i ← i.toNat?
    let n ← st.nodes[i]?
    pure (i, n)
  match op with
  | ["update", i, l] =>
    match nodeOf i with
    | none => (st, some "bad-op")
    | some (i, n) =>
      let n' := update consts h n (decList l)
      ({ st with nodes := st.nodes.set i n' }, some ("p=" ++ encList n'.peers))
  | ["reloadbusy", i, l] =>
    -- a reload that finds the sharder busy waits for the write lock and then installs the list it
    -- read: the same as an undisturbed update
    match nodeOf i with
    | none => (st, some "bad-op")
    | some (i, n) =>
      let n' := update consts h n (decList l)
      ({ st with nodes := st.nodes.set i n' }, some ("p=" ++ encList n'.peers))
  | ["reloadbusy2", i, l1, l2] =>
    match nodeOf i with
    | none => (st, some "bad-op")
    | some (i, n) =>
      let n' := update consts h (update consts h n (decList l1)) (decList l2)
      ({ st with nodes := st.nodes.set i n' }, some ("p=" ++ encList n'.peers))
  | "start" :: i :: rest =>
    match nodeOf i with
    | none => (st, some "bad-op")
    | some (i, n) =>
      if rest != ["slow"] && rest != [] then (st, some "bad-op")
      else if rest == [] && !(n.src.contains n.self) then (st, some "skipped-slow-start")
      else
        let (n', ok) := start consts h n
        ({ st with nodes := st.nodes.set i n' },
          some s!"{if ok then "ok" else "err"} my=@{enc n'.my} p={encList n'.peers}")
  | ["which", tid] =>
    let id := dec tid
    let rs := st.nodes.map fun n => whichStr h n id
    if rs.contains "missing-ext" then (st, some "missing-ext")
    else (st, some (",".intercalate rs))
  | ["route", i, tid] =>
    match nodeOf i with
    | none => (st, some "bad-op")
    | some (_, n) =>
      let id := dec tid
      if whichStr h n id == "missing-ext" then (st, some "missing-ext")
      else (st, some (match route h n id with
        | .keep => "keep"
        | .forward a => "fwd:@" ++ enc a
        | .crash => "!panic"))
  | ["send", i, tid] =>
    match nodeOf i with
    | none => (st, some "bad-op")
    | some (_, n) =>
      let id := dec tid
      let path := deliver h st.nodes id 3 n
      -- the harness supplies the trace hashes of the nodes on the path
      let onPath := n :: path.filterMap fun e =>
        match e with
        | .fwd a => nodeAt st.nodes a
        | _ => none
      if onPath.any (fun m => whichStr h m id == "missing-ext") then (st, some "missing-ext")
      else (st, some (">".intercalate (path.map evStr)))
  | ["table", i] =>
    match nodeOf i with
    | none => (st, some "bad-op")
    | some (_, n) =>
      if tableBad n then (st, some "missing-ext") else
      let es := n.hashes.map fun e => s!"{e.uhash}@{enc ((n.peers[e.ix]?).getD "?")}"
      let t := if es.isEmpty then "-" else ",".intercalate es
      (st, some s!"n={es.length} asc=true t={t}")
  | _ => (st, some "bad-op")

/-! ## monitor: the property's conclusions on the implementation's own observations -/

structure MNode where
  self : String                 -- token
  peers : List String := []     -- tokens, as the sharder reported them (sorted)
  my : String := "%"            -- token of MyShard
  started : Bool := false       -- Start was called (the reload callback is registered)
  src : List String := []       -- tokens of the list the peer source currently returns (from the ops)
  fed : List String := []       -- tokens of the last non-empty list a reload of this sharder read
  busy : Bool := false          -- that list arrived while the sharder was busy (`reloadbusy`)

structure MSt where
  nodes : List MNode := []
  owner : List (String × String) := []      -- tid ↦ owner token (`which`, uniform cluster)
  collector : List (String × String) := []  -- tid ↦ collector token (`send`, stable cluster)

def fail (sig what : String) : Fail := { prop := "C17", sig := "C17:" ++ sig, what := what }

def MSt.reset (m : MSt) : MSt := { m with owner := [], collector := [] }

/-- all nodes report the same non-empty list (in any order) -/
def MSt.uniform (m : MSt) : Option (List String) :=
  match m.nodes with
  | [] => none
  | n :: t => if !n.peers.isEmpty && t.all (fun x => x.peers.isPerm n.peers) then some n.peers else none

/-- stably configured: uniform list, every node found itself, every listed address is a node -/
def MSt.stable (m : MSt) : Bool :=
  match m.uniform with
  | none => false
  | some p => m.nodes.all (fun n => n.my == n.self) && p.all (fun a => m.nodes.any (fun n => n.self == a))

def afterPrefix (pre s : String) : Option String :=
  if s.startsWith pre then some (s.drop pre.length).toString else none

def shMon (m : MSt) (op : List String) (_ : List (List String)) (obs : Option String) : MSt × List Fail :=
  let o := obs.getD ""
  let toks := o.splitOn " "
  let setNode (i : Nat) (f : MNode → MNode) : MSt :=
    match m.nodes[i]? with
    | some n => { m with nodes := m.nodes.set i (f n) }.reset
    | none => m
  -- the peer source of node i changes to each of `ls` in turn; a started sharder must end up
  -- holding the last non-empty one (any order)
  let feed (i : String) (ls : List String) (busy : Bool) : MSt × List Fail :=
    match i.toNat?, afterPrefix "p=" o with
    | some i, some p =>
      match m.nodes[i]? with
      | none => (m, [])
      | some n =>
        let last := (ls.reverse.find? (· != "-")).map tokList
        let fed := if n.started then last.getD n.fed else n.fed
        let isBusy := if n.started && last.isSome then busy else n.busy
        let suffix := if busy then ":after-busy-reload" else ""
        let f :=
          if n.started && last.isSome && !((tokList p).isPerm fed) then
            [fail ("stale-peer-list" ++ suffix) s!"node {n.self} was fed {" then ".intercalate ls} but holds {p}"]
          else []
        (setNode i (fun n => { n with peers := tokList p, src := tokList (ls.getLast?.getD "-"),
                                      fed := fed, busy := isBusy }), f)
    | _, _ => (m, [])
  match op with
  | ["update", i, l] => feed i [l] false
  | ["reloadbusy", i, l] => feed i [l] true
  | ["reloadbusy2", i, l1, l2] => feed i [l1, l2] true
  | "start" :: i :: _ =>
    match i.toNat?, kv toks "my", kv toks "p" with
    | some i, some my, some p =>
      let my := (my.drop 1).toString
      -- a successful Start means the node found itself: its shard is its own instance id, and
      -- that id is in the list it holds
      let f := match m.nodes[i]? with
        | some n =>
          if toks.head? == some "ok" && my != n.self then
            [fail "myshard-not-self" s!"node {n.self} started ok with shard {my}"]
          else if toks.head? == some "ok" && !((tokList p).contains my) then
            [fail "myshard-not-a-peer" s!"node {n.self} started ok with shard {my}, not in {p}"]
          else []
        | none => []
      (setNode i (fun n => { n with peers := tokList p, my := my, started := true,
                                    fed := if n.src.isEmpty then n.fed else n.src,
                                    busy := if n.src.isEmpty then n.busy else false }), f)
    | _, _, _ => (m, [])
  | ["which", tid] =>
    let rs := o.splitOn ","
    if rs.length != m.nodes.length then (m, []) else
    let prs := m.nodes.zip rs
    let f1 := prs.flatMap fun (n, r) =>
      if n.peers.isEmpty then []
      else if r == "!panic" then [fail "panic-with-list" s!"WhichShard({tid}) panicked on node {n.self} holding {n.peers.length} peers"]
      else if !(n.peers.contains (r.drop 1).toString) then
        [fail "owner-not-a-peer" s!"node {n.self}: owner {r} of {tid} is not in its list"]
      else []
    let f2 := match prs.filter (fun (n, _) => !n.peers.isEmpty) with
      | [] => []
      | (n0, r0) :: t =>
        -- compare every node with the first one holding the same list (in any order)
        let rec go (seen : List (MNode × String)) (rest : List (MNode × String)) : List Fail :=
          match rest with
          | [] => []
          | (n, r) :: rest' =>
            match seen.find? (fun (s, _) => s.peers.isPerm n.peers) with
            | some (s, rs) =>
              if rs != r then [fail "nodes-disagree" s!"same list, trace {tid}: node {s.self} says {rs}, node {n.self} says {r}"]
              else go seen rest'
            | none => go (seen ++ [(n, r)]) rest'
        go [(n0, r0)] t
    -- the same two conclusions against the lists the nodes were *fed* (what their peer source
    -- returns), so that a sharder sitting on an outdated membership is seen
    let f3 := prs.flatMap fun (n, r) =>
      if n.fed.isEmpty || r == "!panic" then []
      else if !(n.fed.contains (r.drop 1).toString) then
        [fail ("owner-not-in-peer-list" ++ (if n.busy then ":after-busy-reload" else ""))
          s!"node {n.self}: owner {r} of {tid} is not in the peer list it was given"]
      else []
    let f4 :=
      let fedNodes := prs.filter (fun (n, _) => !n.fed.isEmpty)
      let rec go2 (seen : List (MNode × String)) (rest : List (MNode × String)) : List Fail :=
        match rest with
        | [] => []
        | (n, r) :: rest' =>
          match seen.find? (fun (s, _) => s.fed.isPerm n.fed) with
          | some (s, rs) =>
            if rs != r then
              [fail ("disagree-same-given-list" ++ (if n.busy || s.busy then ":after-busy-reload" else ""))
                s!"same given list, trace {tid}: node {s.self} says {rs}, node {n.self} says {r}"]
            else go2 seen rest'
          | none => go2 (seen ++ [(n, r)]) rest'
      go2 [] fedNodes
    let m' := match m.uniform, rs with
      | some _, r :: _ => if rs.all (· == r) && r != "!panic" then { m with owner := (tid, (r.drop 1).toString) :: m.owner } else m
      | _, _ => m
    (m', f1 ++ f2 ++ f3 ++ f4)
  | ["route", i, tid] =>
    match i.toNat? >>= (m.nodes[·]?) with
    | none => (m, [])
    | some n =>
      let known := if m.uniform.isSome then (m.owner.find? (·.1 == tid)).map (·.2) else none
      match afterPrefix "fwd:@" o with
      | some t =>
        let f :=
          (if t == n.my then [fail "forward-to-self" s!"node {n.self} forwards {tid} to its own shard {t}"] else []) ++
          (if !n.peers.isEmpty && !(n.peers.contains t) then [fail "forward-to-non-peer" s!"node {n.self} forwards {tid} to {t}, not in its list"] else []) ++
          (match known with
            | some ow => if ow != t then [fail "forwarded-to-non-owner" s!"node {n.self} forwards {tid} to {t}, owner is {ow}"] else []
            | none => [])
        (m, f)
      | none =>
        if o == "keep" then
          match known with
          | some ow => if ow != n.my then (m, [fail "kept-by-non-owner" s!"node {n.self} (shard {n.my}) keeps {tid}, owner is {ow}"]) else (m, [])
          | none => (m, [])
        else if o == "!panic" && !n.peers.isEmpty then
          (m, [fail "panic-with-list" s!"routing {tid} panicked on node {n.self} holding {n.peers.length} peers"])
        else (m, [])
  | ["send", i, tid] =>
    match i.toNat? >>= (m.nodes[·]?) with
    | none => (m, [])
    | some n =>
      let path := o.splitOn ">"
      -- nobody forwards to itself: follow the path node by node
      let rec selfFwd (cur : Option MNode) (p : List String) : List Fail :=
        match p with
        | [] => []
        | e :: rest =>
          match afterPrefix "fwd:@" e with
          | some t =>
            (match cur with
              | some c => if t == c.my then [fail "forward-to-self" s!"node {c.self} forwards {tid} to its own shard {t}"] else []
              | none => []) ++ selfFwd (m.nodes.find? (fun x => x.self == t)) rest
          | none => selfFwd cur rest
      let f0 := selfFwd (some n) path
      if !m.stable then (m, f0) else
      let nf := (path.filter (·.startsWith "fwd:@")).length
      let last := path.getLast?.getD ""
      let shape : List Fail :=
        if nf > 1 then [fail "more-than-one-hop" s!"{tid} entering at {n.self} travels {o}"]
        else if last.startsWith "lost:@" then [fail "forwarded-to-nowhere" s!"{tid} entering at {n.self}: {o}"]
        else if last == "!panic" then [fail "panic-with-list" s!"{tid} entering at {n.self}: {o}"]
        else match path, afterPrefix "collect:@" last with
          | [_], some _ => []
          | [f, _], some c => if f == "fwd:@" ++ c then [] else [fail "not-delivered" s!"{tid} entering at {n.self}: {o}"]
          | _, _ => [fail "not-delivered" s!"{tid} entering at {n.self}: {o}"]
      match afterPrefix "collect:@" last with
      | none => (m, f0 ++ shape)
      | some c =>
        let f1 := match (m.owner.find? (·.1 == tid)).map (·.2) with
          | some ow => if ow != c then [fail "collected-by-non-owner" s!"{tid} entering at {n.self} collected by {c}, owner is {ow}"] else []
          | none => []
        let f2 := match (m.collector.find? (·.1 == tid)).map (·.2) with
          | some c0 => if c0 != c then [fail "two-collectors" s!"{tid} collected by {c0} and, entering at {n.self}, by {c}"] else []
          | none => []
        ({ m with collector := (tid, c) :: m.collector }, f0 ++ shape ++ f1 ++ f2)
  | _ => (m, [])

def comp : Component OSt MSt where
  init := fun args =>
    { nodes := initNodes (decList ((kv args "selfs").getD "-")) }
  step := shStep
  minit := fun args => { nodes := (tokList ((kv args "selfs").getD "-")).map fun s => { self := s } }
  mon := shMon

def main : IO Unit := do runLoop comp (← IO.getStdin)
