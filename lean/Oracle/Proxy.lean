import Oracle.Lib
import Refinery.Model.Proxy
import Refinery.Gen.Proxy
/-
Oracle for the pass-through proxy (C37): route/proxy.go behind the mux that LnS builds.

case args: base=<enc path prefix of the configured API address, % = none>
op:  req m=<method> t=<enc request-target> h=<hlist> b=<body> fr=<cl|ch>
         s=<status> rh=<hlist> rb=<body> rfr=<cl|ch>
     hlist = - | Name~<enc v>|<enc v>;Name~…      body = opaque token (lit:… / gen:…)
ext: unescape <enc path> = <enc decoded path>
obs: n=<upstream requests> um= uu= uh= ub=   cs= ch= cb=     (see harness/cmd/proxy/main.go)

The scripted upstream answers the request with (s, rh, rb) — no body for HEAD / 204 / 304 — and
answers a request for `/__verif_followed` (where scripted redirects point) with a fixed 200.
Facts read off the real router: whether its http.Client follows redirects, and the headers the
setResponseHeaders middleware presets.
-/
open Refinery Refinery.Model.Proxy Oracle

def hexVal (c : Char) : Nat :=
  if '0' ≤ c ∧ c ≤ '9' then c.toNat - '0'.toNat
  else if 'A' ≤ c ∧ c ≤ 'F' then c.toNat - 'A'.toNat + 10
  else if 'a' ≤ c ∧ c ≤ 'f' then c.toNat - 'a'.toNat + 10
  else 0

def decChars : List Char → List Char
  | '%' :: a :: b :: t => Char.ofNat (hexVal a * 16 + hexVal b) :: decChars t
  | c :: t => c :: decChars t
  | [] => []

/-- inverse of the kit's `Enc` (a byte ≥ 0x80 becomes the character with that code) -/
def dec (s : String) : String := if s == "%" then "" else String.ofList (decChars s.toList)

def hexDigit (n : Nat) : Char := "0123456789ABCDEF".toList.getD n '0'

def safeChar (c : Char) : Bool :=
  c.isAlphanum || c == '.' || c == '_' || c == ':' || c == '/' || c == '+' || c == '-'

def enc (s : String) : String :=
  if s.isEmpty then "%" else
  String.ofList (s.toList.flatMap fun c =>
    if safeChar c then [c] else ['%', hexDigit (c.toNat / 16 % 16), hexDigit (c.toNat % 16)])

def parseHList (s : String) : Headers :=
  if s == "-" || s == "" then [] else
  (s.splitOn ";").filterMap fun p =>
    match p.splitOn "~" with
    | [n, vs] => some (n, (vs.splitOn "|").map dec)
    | _ => none

def showHList (h : Headers) : String :=
  if h.isEmpty then "-" else
  let sorted := h.mergeSort (fun a b => !(b.1 < a.1))
  ";".intercalate (sorted.map fun (n, vs) => n ++ "~" ++ "|".intercalate (vs.map enc))

def followPath : String := "/__verif_followed"
def emptyBody : String := "lit:%"

def bodyAllowed (method : String) (status : Nat) : Bool :=
  method != "HEAD" && status != 204 && status != 304

/-- net/http's *server* deletes Content-Length from every 204/304 and Content-Type from every 304 it
writes (`suppressedHeaders`), whatever the handler put into the header map: the server in front of
the proxy never lets them through to the client. -/
def wireHeaders (status : Nat) (h : Headers) : Headers :=
  if status == 304 then AList.del (AList.del h "Content-Type") "Content-Length"
  else if status == 204 then AList.del h "Content-Length" else h

def upstreamDate : String := "Tue, 15 Nov 1994 08:12:31 GMT"

/-- byte length of the body a token stands for -/
def bodyLen (tok : String) : Nat :=
  if tok.startsWith "lit:" then (dec (String.ofList (tok.toList.drop 4))).length
  else match tok.splitOn ":" with
    | ["gen", _, n] => n.toNat?.getD 0
    | _ => 0

/-- what the fake upstream sends besides the scripted headers: a fixed Date, and Content-Length when
the reply is framed by length (rfr=cl) -/
def framing (cl : Bool) (len : Nat) : Headers :=
  ("Date", [upstreamDate]) :: (if cl then [("Content-Length", [toString len])] else [])

def followsRedirects : Bool := Refinery.Gen.Proxy.proxyFollowsRedirects != 0
def mountDefaults : Headers := Refinery.Gen.Proxy.mountDefaults

structure ParsedOp where
  req : Req
  status : Nat
  rh : Headers
  rb : String
  cl : Bool        -- upstream reply carries Content-Length (rfr=cl)

def parseOp (op : List String) (exts : List (List String)) : Option ParsedOp :=
  match op with
  | "req" :: a =>
    match kv a "m", kv a "t", kv a "h", kv a "b", kv a "s", kv a "rh", kv a "rb", kv a "rfr" with
    | some m, some t, some h, some b, some s, some rh, some rb, some rfr =>
      let target := dec t
      let (path, q) := splitTarget target
      let dpath := exts.findSome? fun e =>
        match e with
        | ["unescape", p, "=", d] => if dec p == path then some (dec d) else none
        | _ => none
      match dpath, s.toNat? with
      | some dp, some st =>
        some { req := { method := m, path := path, dpath := dp, rawQuery := q.getD "",
                        forceQuery := q == some "", headers := parseHList h, body := b,
                        remoteAddr := "@R" },
               status := st, rh := parseHList rh, rb := rb, cl := rfr == "cl" }
      | _, _ => none
    | _, _, _, _, _, _, _, _ => none
  | _ => none

/-- the scripted upstream of the harness -/
def upstreamOf (p : ParsedOp) (q : UpReq) : Resp :=
  if q.url == followPath then
    { status := 200, headers := [("Content-Type", ["text/plain"]), ("X-Followed", ["1"])] ++ framing p.cl 8,
      body := if q.method == "HEAD" then emptyBody else "lit:followed" }
  else
    { status := p.status, headers := p.rh ++ framing p.cl (bodyLen p.rb),
      body := if bodyAllowed q.method p.status then p.rb else emptyBody }

/-- net/http's rewrite of a request for the next hop (method per `redirectBehavior`; the
harness only ever redirects to an absolute path on the same upstream) -/
def redirOf (q : UpReq) (rs : Resp) : UpReq :=
  { q with url := headerGet rs.headers "Location",
           method := if (rs.status == 301 || rs.status == 302 || rs.status == 303)
                        && q.method != "GET" && q.method != "HEAD" then "GET" else q.method }

def proxyStep (base : String) (op : List String) (exts : List (List String)) : String × Option String :=
  match parseOp op exts with
  | none => (base, some "bad-op")
  | some p =>
    match serve followsRedirects mountDefaults base redirOf (upstreamOf p) p.req with
    | .muxRedirect => (base, some "*")       -- the 301 Location is gorilla mux's text, not modelled
    | .unavailable => (base, some "*")
    | .relayed q hops c =>
      (base, some s!"n={hops} um={enc q.method} uu={enc q.url} uh={showHList q.headers} ub={q.body} cs={c.status} ch={showHList (wireHeaders c.status c.headers)} cb={c.body}")

/-! ## Monitor: C37 on the implementation's own observations -/

def listElems (vals : List String) : List String :=
  (vals.flatMap fun v => (v.splitOn ",").map fun e => e.trimAscii.toString).filter (· ≠ "")

def fail (sig what : String) : Fail := { prop := "C37", sig := "C37:" ++ sig, what := what }

def proxyMon (m : String) (op : List String) (exts : List (List String)) (obs : Option String) : String × List Fail :=
  match parseOp op exts, obs with
  | some p, some o =>
    let toks := o.splitOn " "
    match (kv toks "n").bind String.toNat?, (kv toks "cs").bind String.toNat? with
    | some n, some cs =>
      let r := p.req
      let target := urlString r
      if n == 0 then
        if !isCleanPath r.dpath && cs == 301 then
          (m, [fail "unclean-path-redirected-by-mux" s!"{r.method} {enc target}: answered 301 by the mux, nothing relayed"])
        else (m, [fail "refused-instead-of-relayed" s!"{r.method} {enc target}: upstream saw no request, client got {cs}"])
      else
        let um := dec ((kv toks "um").getD "-")
        let uu := dec ((kv toks "uu").getD "-")
        let uh := parseHList ((kv toks "uh").getD "-")
        let ub := (kv toks "ub").getD "-"
        let ch := parseHList ((kv toks "ch").getD "-")
        let cb := (kv toks "cb").getD "-"
        -- request side
        let (upath, uq) := splitTarget uu
        let wantQ : Option String := if r.forceQuery || r.rawQuery != "" then some r.rawQuery else none
        let reqFails : List Fail :=
          (if um != r.method then [fail "method-changed" s!"{r.method} arrived as {um}"] else []) ++
          (if upath != m ++ r.path then
             [fail "path-changed" s!"{enc r.path} arrived as {enc upath}"] else []) ++
          (if uq != wantQ then [fail "query-changed" s!"query {enc (wantQ.getD "<none>")} arrived as {enc (uq.getD "<none>")}"] else []) ++
          (if ub == r.body then []
           else if ub.startsWith "trunc:" || ub == emptyBody then
             [fail "request-body-truncated" s!"{r.body} arrived cut short as {ub}"]
           else match AList.get r.headers "Content-Encoding" with
             | some ces => [fail s!"request-body-altered:content-encoding={enc (joinVals ces)}" s!"{r.body} arrived as {ub}"]
             | none => [fail "request-body-changed" s!"{r.body} arrived as {ub}"]) ++
          (r.headers.flatMap fun (name, vals) =>
            if name == xffName then [] else
            match AList.get uh name with
            | none => [fail "request-header-dropped" s!"{name} did not arrive"]
            | some uv => if joinVals uv != joinVals vals then
                [fail "request-header-changed" s!"{name}: {enc (joinVals vals)} arrived as {enc (joinVals uv)}"] else []) ++
          (uh.flatMap fun (name, _) =>
            if name == xffName || (AList.get r.headers name).isSome then [] else
              [fail "request-header-added" s!"{name} was not sent by the client"]) ++
          (let want := listElems ((AList.get r.headers xffName).getD []) ++ [r.remoteAddr]
           let got := listElems ((AList.get uh xffName).getD [])
           if got == want then [] else
           if ((AList.get r.headers xffName).getD []).length ≥ 2 then
             [fail "xff-repeated-lines-dropped" s!"X-Forwarded-For sent on several lines: upstream got {enc (", ".intercalate got)}, expected {enc (", ".intercalate want)}"]
           else [fail "xff-wrong" s!"X-Forwarded-For: upstream got {enc (", ".intercalate got)}, expected {enc (", ".intercalate want)}"])
        -- response side
        let redirected := n ≥ 2 && isRedirect p.status && headerGet p.rh "Location" != ""
        let respFails : List Fail :=
          if redirected then
            [fail "upstream-redirect-followed" s!"upstream answered {p.status} with a Location; the proxy followed it ({n} upstream requests) and the client got {cs}"]
          else
            (if n ≥ 2 then [fail "relayed-more-than-once" s!"{n} upstream requests"] else []) ++
            (if cs != p.status then [fail "status-changed" s!"upstream {p.status}, client {cs}"] else []) ++
            (let want := if bodyAllowed r.method p.status then p.rb else emptyBody
             if cb != want then [fail "response-body-changed" s!"upstream {want}, client {cb}"] else []) ++
            ((wireHeaders p.status (p.rh ++ framing p.cl (bodyLen p.rb))).flatMap fun (name, vals) =>
              match AList.get ch name with
              | none => [fail s!"response-header-lost:{name}" s!"upstream sent {name}: {enc (joinVals vals)}; it did not reach the client"]
              | some cv =>
                if name == "Set-Cookie" && vals.length ≥ 2 then
                  if cv == vals then []
                  else if cv == [joinVals vals] then
                    [fail "set-cookie-lines-joined" s!"{vals.length} Set-Cookie lines reached the client as one comma-joined line"]
                  else [fail "response-header-altered:Set-Cookie" s!"Set-Cookie: {enc (joinVals vals)} reached the client as {enc (joinVals cv)}"]
                else if joinVals cv != joinVals vals then
                  [fail s!"response-header-altered:{name}" s!"{name}: {enc (joinVals vals)} reached the client as {enc (joinVals cv)}"]
                else []) ++
            (ch.flatMap fun (name, vals) =>
              if (AList.get (p.rh ++ framing p.cl (bodyLen p.rb)) name).isSome || AList.get mountDefaults name == some vals then [] else
                [fail "response-header-added" s!"{name}: {enc (joinVals vals)} was not sent by the upstream"])
        (m, reqFails ++ respFails)
    | _, _ => (m, [])
  | _, _ => (m, [])

def comp : Component String String where
  init := fun args => dec ((kv args "base").getD "%")
  step := proxyStep
  minit := fun args => dec ((kv args "base").getD "%")   -- the monitor only keeps the configured prefix
  mon := proxyMon

def main : IO Unit := do runLoop comp (← IO.getStdin)
