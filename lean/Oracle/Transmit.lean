import Oracle.Lib
import Refinery.Model.Transmit
/-
Oracle for `transmit.DirectTransmission` (C26).

case args: mb=<MaxBatchSize> bt=<BatchTimeout ms> z= ah= sto= nd=<n> d<i>=<host>|<key>|<dataset>|<ok|bad>
ops:  start | enq <dest> <target> s=<script> | adv <ns> s=<script> | stop s=<script>
      advh <ns> <k> <dest.dest…> s=<script>  advance; k events are enqueued at the clock `ext held <first id>`
                                         (while a request answered `hd` was held, i.e. during an in-flight
                                         send), then the advance continues.  Batches are values in the model:
                                         = adv to that instant; k enqueues; adv the rest.
      cenq <k> <dest.dest…> s=<script>   k concurrent enqueues (event i goes to the i-th destination,
                                         cyclically); the model runs them one after the other in the order
                                         of `ext order <first id> = <id.id…>` (ids the implementation lost
                                         track of are appended: any linearisation keeps every event)
ext:  size <id> = <bytes|err>        serialized size of the event (the real MarshalMsg)
      ra <raw> = d<ns> | t<ns> | x   how time.ParseDuration / http.ParseTime read a Retry-After value
obs:  p=<ticker periods>                                        (start)
      g=<ups-downs> c=<ups,downs,20x,resp errors,send errors,retries,batches,messages,decode errors>
      sl=<sorted Retry-After sleeps> a=<d<i>@<body len>|<ids>|<clock>|<behaviour>,…;…> w=<0|1>
Strings stay percent-encoded: only their identity matters to the model.
-/
open Refinery.Model.Transmit Oracle

structure OSt where
  cfg : Cfg := ⟨1, 4, fun _ => false, id⟩
  dests : List Dest := []
  st : Option St := none
  nextId : Nat := 0
  rates : List Nat := []     -- sample rate of event i (given with the operation, `r=`)

def tail1 (s : String) : String := String.ofList (s.toList.drop 1)

/-- destination and its class: `ok`, `bad` (URL cannot be built), `dot` (dataset `""`, `.` or `..`) -/
def parseDest (tok : String) : Dest × String :=
  match tok.splitOn "|" with
  | [h, k, d, c] => (⟨h, k, d⟩, c)
  | _ => (⟨tok, "", ""⟩, "ok")

/-- the header carries strings percent-encoded (`%` is the empty string); only the three dataset
names `url.JoinPath` cleans away matter to the model, every other token stands for itself -/
def escOfTok (tok : String) : String := if tok == "%" then "" else tok

def rateOfOp (op : List String) : Nat :=
  ((op.findSome? fun a => match a.splitOn "=" with | ["r", v] => some v | _ => none).bind String.toNat?).getD 1

def scriptOf (op : List String) : List String :=
  match op.findSome? (fun a => match a.splitOn "=" with | ["s", v] => some v | _ => none) with
  | none => []
  | some "-" => []
  | some v => v.splitOn ","

def extVal (exts : List (List String)) (fn arg : String) : Option String :=
  exts.findSome? fun e => match e with
    | [f, a, "=", v] => if f == fn && a == arg then some v else none
    | _ => none

def retryAfterOf (exts : List (List String)) (raw : String) : RetryAfter :=
  if raw == "-" || raw == "%" then .absent
  else match extVal exts "ra" raw with
    | none => .garbage
    | some v =>
      match v.toList with
      | 'd' :: r => match (String.ofList r).toInt? with | some n => .dur n | none => .garbage
      | 't' :: r => match (String.ofList r).toInt? with | some n => .date n | none => .garbage
      | _ => .garbage

/-- the scripted behaviours as the model's `Srv` -/
def srvOf (exts : List (List String)) (tok : String) : Option Srv :=
  let nat (s : String) := s.toNat?.getD 0
  match tok.splitOn "~" with
  | ["ok"] => some Srv.ok
  | ["okm"] => some Srv.ok
  | ["sh", k] => some fun n => .http 200 .absent false (List.replicate (n - nat k) 202)
  | ["lg", k] => some fun n => .http 200 .absent false (List.replicate (n + nat k) 202)
  | ["pe", m] => some fun n => .http 200 .absent false
      ((List.range n).map fun i => if i % (max 1 (nat m)) == 0 then 400 else 202)
  | ["ps", s] => some fun n => .http 200 .absent false (List.replicate n (nat s))
  -- a JSON body that cannot be decoded is logged but not counted (the `err` of the JSON branch is a
  -- shadowed variable), an undecodable msgpack body is counted
  | ["ud"] => some fun _ => .http 200 .absent false []
  | ["udm"] => some fun _ => .http 200 .absent true []
  | ["em"] => some fun _ => .http 200 .absent false []
  | ["st", c] => some fun _ => .http (nat c) .absent false []
  | ["sm", c] => some fun _ => .http (nat c) .absent false []
  | ["sx", c] => some fun _ => .http (nat c) .absent true []
  | ["ra", c, raw] => some fun _ => .http (nat c) (retryAfterOf exts raw) false []
  | ["hd"] => some Srv.ok
  | ["to"] => some fun _ => .timeout
  | ["hg"] => some fun _ => .timeout
  | ["er"] => some fun _ => .netErr
  | ["cl"] => some fun _ => .netErr
  | ["cx"] => some fun _ => .netErr
  | _ => none

def insInt (x : Int) : List Int → List Int
  | [] => [x]
  | y :: t => if x ≤ y then x :: y :: t else y :: insInt x t

def sortInt (l : List Int) : List Int := l.foldr insInt []

def idxOf (ds : List Dest) (d : Dest) : Nat := (ds.findIdx? (· == d)).getD 999

/-- group key: `(0, raw)` for a request that does not go to any event's own endpoint (these sort
first, by `raw`), `(i + 1, "")` for destination `i` -/
abbrev GKey := Nat × String

def gLt (a b : GKey) : Bool := a.1 < b.1 || (a.1 == b.1 && a.2 < b.2)

def insGroup (g : GKey × List String) : List (GKey × List String) → List (GKey × List String)
  | [] => [g]
  | h :: t => if gLt g.1 h.1 then g :: h :: t else if g.1 == h.1 then (h.1, h.2 ++ g.2) :: t else h :: insGroup g t

def gLabel (k : GKey) : String := if k.1 == 0 then s!"d?{k.2}" else s!"d{k.1 - 1}"

def obsOf (o : OSt) (s : St) (newDisps : List Disp) (toks : List String) : String :=
  let c := s.ctr
  let g : Int := (c.ups : Int) - c.downs
  let cs := s!"{c.ups},{c.downs},{c.r20x},{c.rerr},{c.sendErr},{c.retries},{c.batchesSent},{c.msgsSent},{c.decodeErr}"
  let outs := newDisps.map fun d => (d, d.out o.cfg)
  let sl := sortInt (outs.flatMap fun p => p.2.sleeps)
  let sls := if sl.isEmpty then "-" else ",".intercalate (sl.map toString)
  let groups := outs.foldl (fun acc p =>
    if p.2.log.isEmpty then acc
    else
      let recs := p.2.log.map fun a =>
        let ids := ".".intercalate (a.events.map fun e => toString e.id)
        let rts := ".".intercalate (a.events.map fun e => toString (wireRate (o.rates.getD e.id 1)))
        s!"{a.bodyLen}|{ids}|{a.time}|{toks.getD a.sidx "ok"}|{rts}"
      let key : GKey := match p.2.log.head? with
        | some a =>
          if a.path == ownPath (o.cfg.esc a.dest.dataset) then (idxOf o.dests p.1.dest + 1, "")
          else (0, s!"{a.dest.host}~/{"/".intercalate a.path}~{a.dest.key}")
        | none => (idxOf o.dests p.1.dest + 1, "")
      insGroup (key, recs) acc) []
  let as := if groups.isEmpty then "-"
    else ";".intercalate (groups.map fun g => s!"{gLabel g.1}@{",".intercalate g.2}")
  s!"g={g} c={cs} sl={sls} a={as} w=0"

def oStep (o : OSt) (op : List String) (exts : List (List String)) : OSt × Option String :=
  -- the events this operation creates get ids nextId, nextId+1, …: note their sample rate
  let created := match op with
    | "enq" :: _ => 1
    | "cenq" :: k :: _ => k.toNat?.getD 0
    | "advh" :: _ :: k :: _ => k.toNat?.getD 0
    | _ => 0
  let o := { o with rates := o.rates ++ List.replicate (o.nextId + created - o.rates.length) (rateOfOp op) }
  let toks := scriptOf op
  match toks.mapM (srvOf exts) with
  | none => (o, some "bad-op")
  | some script =>
  match op, o.st with
  | ["start"], none =>
    match start o.cfg with
    | none => (o, some "start-panics")
    | some s => ({ o with st := some s }, some s!"p={period o.cfg},100000000")
  | "enq" :: di :: _ :: _, some s =>
    match di.toNat?.bind (o.dests[·]?) with
    | none => (o, some "bad-op")
    | some d =>
      let id := o.nextId
      let size := (extVal exts "size" (toString id)).bind String.toNat?
      let s' := enq o.cfg s ⟨id, d, size, 0⟩ script
      ({ o with st := some s', nextId := id + 1 }, some (obsOf o s' (s'.disps.drop s.disps.length) toks))
  | "advh" :: d :: k :: dl :: _, some s =>
    let dls := (dl.splitOn ".").filterMap fun x => x.toNat?.bind (o.dests[·]?)
    match d.toNat?, k.toNat? with
    | some d, some k =>
      if dls.isEmpty || dls.length != (dl.splitOn ".").length then (o, some "bad-op") else
      let base := o.nextId
      let target := s.now + d
      let th := ((extVal exts "held" (toString base)).bind String.toNat?).getD target
      let th := min (max th s.now) target
      let s1 := adv o.cfg s (th - s.now) script
      let s2 := (List.range k).foldl (fun st i =>
        let id := base + i
        let size := (extVal exts "size" (toString id)).bind String.toNat?
        enq o.cfg st ⟨id, dls.getD (i % dls.length) ⟨"", "", ""⟩, size, 0⟩ script) s1
      let s3 := adv o.cfg s2 (target - th) script
      ({ o with st := some s3, nextId := base + k }, some (obsOf o s3 (s3.disps.drop s.disps.length) toks))
    | _, _ => (o, some "bad-op")
  | "cenq" :: k :: dl :: _, some s =>
    let dls := (dl.splitOn ".").filterMap fun x => x.toNat?.bind (o.dests[·]?)
    match k.toNat? with
    | none => (o, some "bad-op")
    | some k =>
      if dls.isEmpty || dls.length != (dl.splitOn ".").length then (o, some "bad-op") else
      let base := o.nextId
      let given := match extVal exts "order" (toString base) with
        | some "-" => []
        | some v => (v.splitOn ".").filterMap String.toNat?
        | none => []
      let all := (List.range k).map (· + base)
      let order := (given.filter all.contains).eraseDups ++ all.filter (fun i => !given.contains i)
      let s' := order.foldl (fun st id =>
        let d := dls.getD ((id - base) % dls.length) ⟨"", "", ""⟩
        let size := (extVal exts "size" (toString id)).bind String.toNat?
        enq o.cfg st ⟨id, d, size, 0⟩ script) s
      ({ o with st := some s', nextId := base + k }, some (obsOf o s' (s'.disps.drop s.disps.length) toks))
  | "adv" :: d :: _, some s =>
    match d.toNat? with
    | none => (o, some "bad-op")
    | some d =>
      let s' := adv o.cfg s d script
      ({ o with st := some s' }, some (obsOf o s' (s'.disps.drop s.disps.length) toks))
  | "stop" :: _, some s =>
    let s' := stop o.cfg s script
    ({ o with st := some s' }, some (obsOf o s' (s'.disps.drop s.disps.length) toks))
  | _, _ => (o, some "bad-op")

def oInit (args : List String) : OSt :=
  let nat (k : String) := ((kv args k).getD "0").toNat?.getD 0
  let ds := (List.range (nat "nd")).map fun i => parseDest ((kv args s!"d{i}").getD "?")
  let bad := (ds.filter (·.2 == "bad")).map (·.1)
  { cfg := ⟨nat "mb", nat "bt" * 1000000, fun d => bad.contains d, escOfTok⟩, dests := ds.map (·.1) }

/-! ## Monitor: C26 on the implementation's own observations -/

structure MEv where
  id : Nat
  dest : Nat
  t0 : Nat
  fit : Bool
  rate : Nat := 1          -- the event's SampleRate
  size : Nat := 0          -- serialized size (0 when the event does not marshal)
  rank : Nat := 0          -- number of the enqueue operation (concurrent enqueues share one)
  seen : Bool := false

structure MSt where
  mb : Nat := 0
  bt : Nat := 0
  bad : List Nat := []          -- destinations whose requests cannot be attributed: URL cannot be
                                -- built, or the dataset is one `url.JoinPath` cleans away
  now : Nat := 0
  evs : List MEv := []
  nops : Nat := 0
  dests : List Dest := []
  hangSeen : Bool := false
  terr : Bool := false          -- some request failed in the transport (dropped, refused, timed out)
  during : Bool := false        -- some events were enqueued while a send was in flight (`advh`)
  stopped : Bool := false

def mInit (args : List String) : MSt :=
  let nat (k : String) := ((kv args k).getD "0").toNat?.getD 0
  let bad := (List.range (nat "nd")).filter fun i => (parseDest ((kv args s!"d{i}").getD "?")).2 != "ok"
  let ds := (List.range (nat "nd")).map fun i => (parseDest ((kv args s!"d{i}").getD "?")).1
  { mb := nat "mb", bt := nat "bt" * 1000000, bad := bad, dests := ds }

/-- exactly-once failures in a case where events were enqueued during an in-flight send -/
def duringSfx (m : MSt) : String := if m.during then ":enqueue-during-send" else ""

def fail (sig what : String) : Fail := { prop := "C26", sig := sig, what := what }

def maxBodyBytes : Nat := Refinery.Gen.Transmit.apiMaxBatchSize.toNat
def maxEventBytes : Nat := Refinery.Gen.Transmit.apiMaxEventSize.toNat

def strictlyIncreasing : List Nat → Bool
  | a :: b :: t => a < b && strictlyIncreasing (b :: t)
  | _ => true

/-- enqueue order: ids ascending, except that events enqueued concurrently (same rank) may come in
any order -/
def inEnqueueOrder (evs : List MEv) : List Nat → Bool
  | a :: b :: t =>
    let rk (i : Nat) := ((evs.find? (·.id == i)).map (·.rank)).getD 0
    (a < b || (a != b && rk a == rk b)) && inEnqueueOrder evs (b :: t)
  | _ => true

/-- runs of equal consecutive id lists: the attempts of one sub-batch -/
def runs : List (List Nat) → List (List Nat × Nat)
  | [] => []
  | x :: t =>
    match runs t with
    | (y, n) :: r => if x == y then (y, n + 1) :: r else (x, 1) :: (y, n) :: r
    | [] => [(x, 1)]

def monGroup (m : MSt) (grp : String) : MSt × List Fail :=
  match grp.splitOn "@" with
  | [lbl, recsS] =>
    match (tail1 lbl).toNat? with
    | none =>
      let path := match lbl.splitOn "~" with | [_, p, _] => p | _ => "?"
      (m, [fail s!"C26:request-not-to-own-dataset:path={path}" s!"a request went to {lbl}, which is no event's (host, /1/batch/<dataset>, key)"])
    | some di =>
      let recs := (recsS.splitOn ",").map fun r => r.splitOn "|"
      let perRec : List Fail := recs.flatMap fun r =>
        match r with
        | [len, idsS, t, _, rtsS] =>
          let len := len.toNat?.getD 0
          let t := t.toNat?.getD 0
          let ids := if idsS == "" then [] else (idsS.splitOn ".").filterMap String.toNat?
          let wire := if rtsS == "" then [] else (rtsS.splitOn ".").filterMap String.toInt?
          (if wire.length != ids.length then [fail "C26:samplerate-altered-on-wire" s!"request with {ids.length} events carries {wire.length} sample rates"]
           else (ids.zip wire).flatMap fun (id, w) =>
             match m.evs.find? (·.id == id) with
             | some e =>
               -- rates an int64 cannot hold (>= 2^63) are outside the claim: the conversion wraps
               if e.rate < 2 ^ 63 && w != (e.rate : Int) then
                 [fail "C26:samplerate-altered-on-wire" s!"event {id} has sample rate {e.rate} but is forwarded with samplerate {w}"]
               else []
             | none => []) ++
          (if len > maxBodyBytes then [fail "C26:body-over-5MB" s!"request body of {len} bytes to d{di}"] else []) ++
          (if ids.length > m.mb then [fail "C26:batch-over-MaxBatchSize" s!"request with {ids.length} events, MaxBatchSize {m.mb}"] else []) ++
          (if ids.isEmpty then [fail "C26:empty-request" s!"request without events to d{di}"] else []) ++
          (if !inEnqueueOrder m.evs ids then [fail "C26:order-not-preserved" s!"events {idsS} of one request are not in enqueue order"] else []) ++
          ids.flatMap fun id =>
            match m.evs.find? (·.id == id) with
            | none => [fail "C26:unknown-event-sent" s!"event {id} in a request was never enqueued"]
            | some e =>
              (if e.dest != di then
                let sameButKey := match m.dests[e.dest]?, m.dests[di]? with
                  | some a, some b => a.host == b.host && a.dataset == b.dataset
                  | _, _ => false
                if sameButKey then [fail "C26:event-sent-with-other-api-key" s!"event {id} of d{e.dest} was sent under the API key of d{di}"]
                else [fail "C26:event-sent-to-other-destination" s!"event {id} of d{e.dest} was sent to d{di}"] else []) ++
              (if !e.fit then [fail "C26:oversize-event-sent" s!"event {id} (over 1 MB or unmarshalable) was sent"] else []) ++
              (if t * 4 ≥ e.t0 * 4 + 5 * m.bt then [fail "C26:dispatched-later-than-1.25-BatchTimeout" s!"event {id} enqueued at {e.t0} sent at {t}, BatchTimeout {m.bt}"] else [])
        | _ => [fail "C26:unreadable-observation" "attempt record"]
      let m := if recs.any (fun r => match r with
          | [_, _, _, b, _] => ["cl", "cx", "er", "to", "hg"].contains b
          | _ => false) then { m with terr := true } else m
      let idLists := recs.filterMap fun r => match r with
        | [_, idsS, _, _, _] => some ((idsS.splitOn ".").filterMap String.toNat?)
        | _ => none
      let rs := runs idLists
      let attemptFails := rs.flatMap fun (ids, n) =>
        if n > 2 then [fail "C26:more-than-two-attempts" s!"sub-batch {natList ids} to d{di} was attempted {n} times"] else []
      -- each run is one sub-batch: its events must not have been in an earlier sub-batch
      let (m', dupFails) := rs.foldl (fun (acc : MSt × List Fail) (run : List Nat × Nat) =>
        let dup := run.1.filter fun id => (acc.1.evs.find? (·.id == id)).any (·.seen)
        let evs := acc.1.evs.map fun e => if run.1.contains e.id then { e with seen := true } else e
        ({ acc.1 with evs := evs },
         acc.2 ++ (if dup.isEmpty then [] else [fail ("C26:event-in-two-batches" ++ duringSfx acc.1) s!"events {natList dup} were placed in more than one sub-batch"]))) (m, [])
      let orderFails := if inEnqueueOrder m.evs (rs.flatMap (·.1)) then []
        else [fail "C26:order-not-preserved" s!"sub-batches to d{di} are not in enqueue order"]
      (m', perRec ++ attemptFails ++ dupFails ++ orderFails)
  | _ => (m, [fail "C26:unreadable-observation" grp])

def tMon (m : MSt) (op : List String) (exts : List (List String)) (obs : Option String) : MSt × List Fail :=
  -- the operation itself
  let m := { m with nops := m.nops + 1 }
  let m := match op with
    | "advh" :: d :: k :: dl :: _ =>
      let d := d.toNat?.getD 0
      let k := k.toNat?.getD 0
      let target := m.now + d
      if m.stopped then { m with now := target } else
      let base := m.evs.length
      let th := min (max (((extVal exts "held" (toString base)).bind String.toNat?).getD target) m.now) target
      let dls := (dl.splitOn ".").map fun x => x.toNat?.getD 999
      let m := (List.range k).foldl (fun m i =>
        let id := m.evs.length
        let sz := ((extVal exts "size" (toString id)).bind String.toNat?).getD 0
        let fit := match (extVal exts "size" (toString id)).bind String.toNat? with
          | some n => decide (n ≤ maxEventBytes)
          | none => false
        { m with evs := m.evs ++ [{ id := id, dest := dls.getD (i % dls.length) 999, t0 := th, fit := fit, rate := rateOfOp op, size := sz, rank := m.nops * 1000 + i }] }) m
      { m with now := target, during := m.during || (k > 0) }
    | "cenq" :: k :: dl :: _ =>
      if m.stopped then m else
      let dls := (dl.splitOn ".").map fun x => x.toNat?.getD 999
      (List.range (k.toNat?.getD 0)).foldl (fun m i =>
        let id := m.evs.length
        let sz := ((extVal exts "size" (toString id)).bind String.toNat?).getD 0
        let fit := match (extVal exts "size" (toString id)).bind String.toNat? with
          | some n => decide (n ≤ maxEventBytes)
          | none => false
        { m with evs := m.evs ++ [{ id := id, dest := dls.getD (i % dls.length) 999, t0 := m.now, fit := fit, rate := rateOfOp op, size := sz, rank := m.nops * 1000 }] }) m
    | "enq" :: di :: _ =>
      if m.stopped then m else
      let id := m.evs.length
      let sz := ((extVal exts "size" (toString id)).bind String.toNat?).getD 0
      let fit := match (extVal exts "size" (toString id)).bind String.toNat? with
        | some n => decide (n ≤ maxEventBytes)
        | none => false
      { m with evs := m.evs ++ [{ id := id, dest := di.toNat?.getD 999, t0 := m.now, fit := fit, rate := rateOfOp op, size := sz, rank := m.nops * 1000 }] }
    | "adv" :: d :: _ => { m with now := m.now + d.toNat?.getD 0 }
    | _ => m
  match op, obs with
  | "start" :: _, _ => (m, [])
  | _, none => (m, [])
  | _, some "hang" =>
    -- the harness' watchdog: a dispatch or Stop did not finish although nothing was happening any more
    let huge := m.evs.filter fun e => e.size + 5 > maxBodyBytes   -- does not fit into a request even alone
    if m.hangSeen then (m, [])
    else if huge.isEmpty then
      ({ m with hangSeen := true }, [fail "C26:transmission-hangs" "a dispatched send or Stop never finished"])
    else
      let behind := m.evs.filter fun e => e.fit && !e.seen && !m.bad.contains e.dest
      ({ m with hangSeen := true },
       [fail "C26:oversize-event-blocks-destination" s!"events {natList (huge.map (·.id))} are larger than a whole request; the send never finished, events {natList (behind.map (·.id))} behind them were not delivered"])
  | _, some o =>
    let toks := o.splitOn " "
    match kv toks "g", kv toks "c", kv toks "a" with
    | some g, some c, some a =>
      let g := g.toInt?.getD 0
      let cs := (c.splitOn ",").map fun x => x.toNat?.getD 0
      let (m, fs) := if a == "-" then (m, []) else
        (a.splitOn ";").foldl (fun (acc : MSt × List Fail) grp =>
          let (m', f) := monGroup acc.1 grp
          (m', acc.2 ++ f)) (m, [])
      let waiting := m.evs.filter fun e => e.fit && !e.seen && !m.bad.contains e.dest
      let late := waiting.filter fun e => m.now * 4 ≥ e.t0 * 4 + 5 * m.bt
      let isStop := op.head? == some "stop"
      let m := if isStop then { m with stopped := true } else m
      let fs := fs ++
        (if !m.stopped && !late.isEmpty then
          [fail "C26:pending-longer-than-1.25-BatchTimeout" s!"events {natList (late.map (·.id))} still not sent at {m.now}, BatchTimeout {m.bt}"] else []) ++
        (if g < 0 then [fail "C26:gauge-negative" s!"queued-items gauge is {g}"] else []) ++
        (if m.stopped && !waiting.isEmpty then
          [fail (if m.terr then "C26:event-without-outcome:after-transport-error" else "C26:not-flushed-on-stop" ++ duringSfx m) s!"events {natList (waiting.map (·.id))} were never sent although the transmission stopped"] else []) ++
        (if m.stopped && g > 0 then [fail "C26:gauge-leak-after-stop" s!"queued-items gauge is {g} after every event had an outcome"] else []) ++
        (if m.stopped && cs.getD 3 0 < (m.evs.filter (!·.fit)).length then
          [fail "C26:oversize-not-counted-as-error" s!"{(m.evs.filter (!·.fit)).length} oversize events but only {cs.getD 3 0} response errors"] else [])
      (m, fs)
    | _, _, _ => (m, [])

def comp : Component OSt MSt where
  init := oInit
  step := oStep
  minit := mInit
  mon := tMon

def main : IO Unit := do runLoop comp (← IO.getStdin)
