import Oracle.Lib
import Refinery.Model.Deadline
/-
Oracle for the collector's decision timing and memory ejection (C03, C07).
case args: tt=<ns> sd=<ns> limit=<n> max=<n> workers=<n>
ops (see harness/cmd/deadline/main.go):
  adv <ns>
  span <tid> <root> <bytes> <age> [<kind 0 span|1 span event|2 link>]   ext: w = <worker>, size = <GetDataSize>
        obs: buf sb=<SendBy> n=<count> sz=<DataSize> root=<0|1>   |   late reason=<send reason>
  tick <w>                            ext: taken = <ids in the order they reached the transmission>
        obs: at=<now> sent=<id:reason:spans,…> left=<buffered ids>
  looptick <w> <ns>                   the real collect() loop takes a send tick after idling <ns>; ext/obs as tick
  eject <w> <bytes>                   ext: imp <id> = <CacheImpact>…, age <id> <k> = <size> <lo> <hi>…, order = <ids>
        obs: sent=… left=…
  alloc <delta>                       ext: heap, maxalloc, workers, share <w>, imp <w> <id>, order <w>
        obs: none | evict shares=<b,…> w=<k> sent=… left=… …
The model is one `St` per worker; the routing below (clock to all, span to the owning worker the
implementation reported) is the only multi-worker glue.
-/
open Refinery Refinery.Model.Deadline Oracle

def intList (l : List Int) : String :=
  if l.isEmpty then "-" else ",".intercalate (l.map toString)

def parseCfg (args : List String) : Cfg :=
  let g (k : String) : Nat := ((kv args k).getD "0").toNat?.getD 0
  { traceTimeout := g "tt", sendDelay := g "sd", spanLimit := g "limit", maxExpired := g "max" }

def nWorkers (args : List String) : Nat :=
  let n := ((kv args "workers").getD "1").toNat?.getD 1
  if n = 0 then 1 else n

/-- ext lines `name a… = v` → value tokens after "=" for the first line starting with `pre` -/
def extVal (exts : List (List String)) (pre : List String) : Option (List String) :=
  exts.findSome? fun l =>
    if l.take pre.length == pre ∧ (l.drop pre.length).head? == some "=" then some (l.drop (pre.length + 1))
    else none

def extNat (exts : List (List String)) (pre : List String) : Option Nat :=
  match extVal exts pre with
  | some [v] => v.toNat?
  | _ => none

def extIds (exts : List (List String)) (pre : List String) : Option (List Nat) :=
  match extVal exts pre with
  | some [v] => some (parseNatList v)
  | _ => none

/-- all `imp <pre…> <id> = <v>` lines -/
def extImps (exts : List (List String)) (pre : List String) : AList Nat Nat :=
  exts.filterMap fun l =>
    if l.take (pre.length + 1) == "imp" :: pre then
      match l.drop (pre.length + 1) with
      | [id, "=", v] => match id.toNat?, v.toNat? with
        | some id, some v => some (id, v)
        | _, _ => none
      | _ => none
    else none

/-- all `age <pre…> <id> <k> = <size> <lo> <hi>` lines, grouped per trace in span order -/
def extAges (exts : List (List String)) (pre : List String) : AList Nat (List (Nat × Nat × Nat)) :=
  let rows : List (Nat × Nat × Nat × Nat) := exts.filterMap fun l =>
    if l.take (pre.length + 1) == "age" :: pre then
      match l.drop (pre.length + 1) with
      | [id, _k, "=", sz, lo, hi] => match id.toNat?, sz.toNat?, lo.toNat?, hi.toNat? with
        | some id, some sz, some lo, some hi => some (id, sz, lo, hi)
        | _, _, _, _ => none
      | _ => none
    else none
  rows.foldl (fun (acc : AList Nat (List (Nat × Nat × Nat))) r =>
    let (id, e) := r
    match AList.get acc id with
    | some sp => AList.put acc id (sp ++ [e])
    | none => AList.put acc id [e]) []

def sentStr (l : List Sent) : String :=
  if l.isEmpty then "-" else ",".intercalate (l.map fun (id, r, n) => s!"{id}:{r.name}:{n}")

def setAt {α : Type} (l : List α) (i : Nat) (x : α) : List α :=
  (l.zipIdx).map fun (y, j) => if j = i then x else y

/-- optional last token of a `span` op: 0 plain span (default), 1 span event, 2 span link -/
def parseKind : List String → Option Kind
  | [] => some .plain
  | ["0"] => some .plain
  | ["1"] => some .spanEvent
  | ["2"] => some .link
  | _ => none

structure OSt where
  ws : List St

def fmtSent (pfx : String) : Out → String
  | .sent l left => s!"{pfx}sent={sentStr l} left={natList left}"
  | .reject => "reject"
  | _ => "unexpected"

def oStep (o : OSt) (op : List String) (exts : List (List String)) : OSt × Option String :=
  match op with
  | ["adv", d] =>
    match d.toNat? with
    | some d => ({ ws := o.ws.map fun s => (step s (.adv d)).1 }, none)
    | none => (o, some "bad-op")
  | "span" :: id :: root :: _bytes :: _age :: kindTok =>
    match id.toNat?, extNat exts ["w"], extNat exts ["size"], parseKind kindTok with
    | some id, some w, some size, some kind =>
      match o.ws[w]? with
      | some s =>
        let (s', out) := step s (.span id (root == "1") size kind)
        let str := match out with
          | .buffered sbv n sz r => s!"buf sb={sbv} n={n} sz={sz} root={if r then 1 else 0}"
          | .late => s!"late reason={Gen.Deadline.reasonLateSpan}"
          | _ => "unexpected"
        ({ ws := setAt o.ws w s' }, some str)
      | none => (o, some "bad-worker")
    | _, _, _, _ => (o, some "bad-op")
  | ["tick", w] =>
    match w.toNat?, extIds exts ["taken"] with
    | some w, some taken =>
      match o.ws[w]? with
      | some s =>
        let (s', out) := step s (.tick taken)
        ({ ws := setAt o.ws w s' }, some (fmtSent s!"at={s.now} " out))
      | none => (o, some "bad-worker")
    | _, _ => (o, some "bad-op")
  | ["looptick", w, d] =>
    -- the real collect() loop handles a send tick after an idle period d: `adv d` then `tick w`
    match w.toNat?, d.toNat?, extIds exts ["taken"] with
    | some w, some d, some taken =>
      let ws := o.ws.map fun s => (step s (.adv d)).1
      match ws[w]? with
      | some s =>
        let (s', out) := step s (.tick taken)
        ({ ws := setAt ws w s' }, some (fmtSent s!"at={s.now} " out))
      | none => (o, some "bad-worker")
    | _, _, _ => (o, some "bad-op")
  | ["eject", w, bytes] =>
    match w.toNat?, bytes.toNat?, extIds exts ["order"] with
    | some w, some bytes, some order =>
      match o.ws[w]? with
      | some s =>
        let (s', out) := step s (.eject bytes (extImps exts []) order (extAges exts []))
        ({ ws := setAt o.ws w s' }, some (fmtSent "" out))
      | none => (o, some "bad-worker")
    | _, _, _ => (o, some "bad-op")
  | ["alloc", _delta] =>
    match extNat exts ["heap"], extNat exts ["maxalloc"], extNat exts ["workers"] with
    | some heap, some mx, some n =>
      if n ≠ o.ws.length then (o, some "bad-worker-count") else
      match evictionShare heap mx n with
      | none => (o, some "none")
      | some share =>
        let (ws', parts) := (o.ws.zipIdx).foldl (fun (acc : List St × List String) (sw : St × Nat) =>
          let (s, w) := sw
          let order := (extIds exts ["order", toString w]).getD []
          let (s', out) := step s (.eject share (extImps exts [toString w]) order (extAges exts [toString w]))
          (acc.1 ++ [s'], acc.2 ++ [s!"w={w} " ++ fmtSent "" out])) ([], [])
        let shares := natList (o.ws.map fun _ => share)
        ({ ws := ws' }, some (s!"evict shares={shares} " ++ " ".intercalate parts))
    | _, _, _ => (o, some "bad-op")
  | _ => (o, some "bad-op")

/-! ## Monitors: the properties' conclusions evaluated on the implementation's own observations.
The monitor keeps only what the operations and the implementation's answers say: the arrival
history of each trace the implementation reported as buffered (`Arr`), its owning worker and data
size as reported, and the clock.  It never looks at the model state. -/

structure MTr where
  w : Nat
  arr : Arr
  size : Nat
  /-- the estimate (bounds) the trace carries since an ejection last computed it; a new span resets it -/
  est : Option (Nat × Nat) := none

structure MSt where
  cfg : Cfg
  now : Int := 0
  buf : AList Nat MTr := []

def parseSent (s : String) : List (Nat × String × Nat) :=
  if s == "-" then [] else (s.splitOn ",").filterMap fun e =>
    match e.splitOn ":" with
    | [id, r, n] => match id.toNat?, n.toNat? with
      | some id, some n => some (id, r, n)
      | _, _ => none
    | _ => none

def mfail (p sig what : String) : Fail := { prop := p, sig := sig, what := what }

def workerIds (m : MSt) (w : Nat) : List Nat := (m.buf.filter fun p => p.2.w == w).map (·.1)

def dl (m : MSt) (id : Nat) : Int :=
  match AList.get m.buf id with
  | some t => documented m.cfg t.arr
  | none => 0

def removeSent (m : MSt) (ids : List Nat) : MSt :=
  { m with buf := m.buf.filter fun p => !(ids.contains p.1) }

def nonDecreasing : List Int → Bool
  | a :: b :: t => a ≤ b && nonDecreasing (b :: t)
  | _ => true

def maxOf : List Int → Option Int
  | [] => none
  | a :: t => some (t.foldl max a)

def monTick (m : MSt) (w : Nat) (obs : String) : MSt × List Fail :=
  let toks := obs.splitOn " "
  let sent := parseSent ((kv toks "sent").getD "-")
  let left := parseNatList ((kv toks "left").getD "-")
  let atv := ((kv toks "at").getD "0").toInt?.getD 0
  let mine := workerIds m w
  let ids := sent.map (·.1)
  let known := ids.filter (mine.contains ·)
  let f1 := if atv != m.now then [mfail "C03" "C03:tick-time" s!"tick ran at {atv}, clock is {m.now}"] else []
  let f2 := (ids.filter (!mine.contains ·)).map fun id =>
    mfail "C03" "C03:decided-unbuffered-trace" s!"trace {id} decided by a tick of worker {w} but not buffered there"
  let f3 := (known.filter fun id => m.now < dl m id).map fun id =>
    mfail "C03" "C03:decided-before-deadline" s!"trace {id} decided at {m.now}, documented deadline {dl m id}"
  let f4 := sent.filterMap fun (id, r, _) =>
    match AList.get m.buf id with
    | some t =>
      let want := documentedReason m.cfg t.arr
      if r == want.name then none
      else some (mfail "C03" s!"C03:wrong-send-reason:want={want.name}:got={r}"
          s!"trace {id}: root={t.arr.rootAt.isSome} spans={t.arr.count} SpanLimit={m.cfg.spanLimit}")
    | none => none
  let dls := known.map (dl m)
  let f5 := if nonDecreasing dls then [] else
    [mfail "C03" "C03:not-earliest-deadline-first:order" s!"deadlines of decided traces in order: {intList dls}"]
  let rest := (mine.filter (!ids.contains ·)).filter fun id => dl m id ≤ m.now
  let f6 := match m.cfg.effMax with
    | none => if rest.isEmpty then [] else
        [mfail "C03" "C03:expired-trace-not-decided-at-tick" s!"traces {natList rest} past their deadline at {m.now} left undecided (no MaxExpiredTraces)"]
    | some mx =>
      (if sent.length > mx then [mfail "C03" "C03:more-than-MaxExpiredTraces" s!"{sent.length} decided, MaxExpiredTraces {mx}"] else []) ++
      (if !rest.isEmpty ∧ sent.length < mx then
        [mfail "C03" "C03:expired-trace-not-decided-at-tick" s!"traces {natList rest} past their deadline at {m.now} left undecided although only {sent.length} of {mx} were taken"] else [])
  let f7 := match maxOf dls with
    | some hi => (rest.filter fun id => dl m id < hi).map fun id =>
        mfail "C03" "C03:not-earliest-deadline-first:skipped" s!"trace {id} (deadline {dl m id}) left behind while a trace with deadline {hi} was decided"
    | none => []
  let expectLeft := isort (mine.filter (!ids.contains ·))
  let f8 := if left != expectLeft then
    [mfail "C03" "C03:buffer-after-tick" s!"buffer holds {natList left}, expected {natList expectLeft}"] else []
  (removeSent m ids, f1 ++ f2 ++ f3 ++ f4 ++ f5 ++ f6 ++ f7 ++ f8)

def nonIncreasing : List Nat → Bool
  | a :: b :: t => b ≤ a && nonIncreasing (b :: t)
  | _ => true

def monEject (m : MSt) (w bytes : Nat) (imp : AList Nat Nat) (ages : AList Nat (List (Nat × Nat × Nat)))
    (sentS leftS : String) : MSt × List Fail :=
  let sent := parseSent sentS
  let left := parseNatList leftS
  let mine := workerIds m w
  let ids := sent.map (·.1)
  let known := ids.filter (mine.contains ·)
  let sz (id : Nat) : Nat := match AList.get m.buf id with | some t => t.size | none => 0
  let f1 := (ids.filter (!mine.contains ·)).map fun id =>
    mfail "C07" "C07:ejected-unbuffered-trace" s!"trace {id} ejected by worker {w} but not buffered there"
  let f2 := sent.filterMap fun (id, r, n) =>
    match AList.get m.buf id with
    | some t =>
      if r != Reason.ejectedMemsize.name then
        some (mfail "C07" s!"C07:wrong-send-reason:got={r}" s!"ejected trace {id} reported {r}")
      else if n != t.arr.count then
        some (mfail "C07" "C07:ejected-trace-spans-missing" s!"trace {id}: {n} spans forwarded, {t.arr.count} accepted")
      else none
    | none => none
  let imps := known.map (impOf imp)
  let f3 := if nonIncreasing imps then [] else
    [mfail "C07" "C07:not-heaviest-first:order" s!"impacts of ejected traces in order: {natList imps}"]
  let rest := mine.filter (!ids.contains ·)
  let f4 := match imps.foldl (fun (a : Option Nat) b => match a with | none => some b | some x => some (min x b)) none with
    | some lo => (rest.filter fun id => lo < impOf imp id).map fun id =>
        mfail "C07" "C07:not-heaviest-first:skipped" s!"trace {id} (impact {impOf imp id}) kept while a trace with impact {lo} was ejected"
    | none => []
  let sums := (List.range (known.length + 1)).map fun k => ((known.take k).map sz).sum
  let f5 := if (List.range known.length).any (fun k => 0 < k ∧ bytes < sums.getD k 0) then
    [mfail "C07" "C07:ejected-past-stop" s!"released sizes after each ejection {natList (sums.drop 1)}, share {bytes}"] else []
  let total := sums.getD known.length 0
  let f6 := if ¬ (bytes < total) ∧ !rest.isEmpty then
    [mfail "C07" "C07:stopped-early" s!"released {total} ≤ share {bytes} but traces {natList rest} still buffered"] else []
  let expectLeft := isort rest
  let f7 := if left != expectLeft then
    [mfail "C07" "C07:buffer-after-eject" s!"buffer holds {natList left}, expected {natList expectLeft}"] else []
  -- the estimate as types/event.go defines it, from the observed span sizes and ages:
  -- Σ size · (cacheImpactFactor · age / traceTimeout + 1), bounds for the age at the instant of the call
  let tt := m.cfg.impactTimeout
  let fresh (id : Nat) : Option (Nat × Nat) := (AList.get ages id).map fun sp =>
    (traceImpact tt (lows sp), traceImpact tt (highs sp))
  let estOf (id : Nat) : Option (Nat × Nat) :=
    match AList.get m.buf id with
    | some t => (match t.est with | some e => some e | none => fresh id)
    | none => none
  let sorted := 2 ≤ mine.length          -- sort.Slice compares (and memoises) only then
  let f8 := if !sorted then [] else (mine.filterMap fun id =>
    match estOf id with
    | some (lo, hi) =>
      let v := impOf imp id
      if v < lo ∨ hi < v then
        some (mfail "C07" "C07:impact-estimate-differs-from-definition"
          s!"trace {id}: the code's impact {v}, size x (factor*age/timeout + 1) summed over its spans gives {lo}..{hi}")
      else none
    | none => none)
  let before (xs : List Nat) (y : Nat) : List Fail := xs.filterMap fun x =>
    match estOf x, estOf y with
    | some (_, hx), some (ly, _) =>
      if hx < ly then some (mfail "C07" "C07:eject-order-not-by-age-weighted-impact"
        s!"trace {x} (age-weighted impact at most {hx}) ejected ahead of trace {y} (at least {ly})") else none
    | _, _ => none
  let f9 := if !sorted then [] else
    ((List.range known.length).flatMap fun j => before (known.take j) (known.getD j 0)) ++
    (rest.flatMap fun y => before known y)
  let m1 := removeSent m ids
  let m2 := if !sorted then m1 else { m1 with buf := m1.buf.map fun p =>
    if p.2.w == w then
      let v := impOf imp p.1
      (p.1, { p.2 with est := if v = 0 then none else some (v, v) })
    else p }
  (m2, f1 ++ f2 ++ f3 ++ f4 ++ f5 ++ f6 ++ f7 ++ f8 ++ (f9.take 1))

/-- splits the tokens of an `evict` observation into per-worker (w, sent, left) -/
def parseEvict : List String → List (Nat × String × String)
  | a :: b :: c :: t =>
    match (kv [a] "w").bind String.toNat?, kv [b] "sent", kv [c] "left" with
    | some w, some s, some l => (w, s, l) :: parseEvict t
    | _, _, _ => parseEvict (b :: c :: t)
  | _ => []

def dMon (m : MSt) (op : List String) (exts : List (List String)) (obs : Option String) : MSt × List Fail :=
  match op, obs with
  | ["adv", d], _ => ({ m with now := m.now + (d.toNat?.getD 0 : Nat) }, [])
  | "span" :: id :: root :: _ :: _ :: _, some o =>
    match id.toNat?, extNat exts ["w"], extNat exts ["size"] with
    | some id, some w, some size =>
      let toks := o.splitOn " "
      if toks.head? == some "buf" then
        let old := AList.get m.buf id
        let a : Arr := match old with
          | some t => t.arr
          | none => { first := m.now, rootAt := none, limitAt := none, count := 0 }
        let cnt := a.count + 1
        let isRoot := root == "1"
        let ra : Option Int := if isRoot ∧ a.rootAt = none then some m.now else a.rootAt
        let la : Option Int :=
          if 0 < m.cfg.spanLimit ∧ m.cfg.spanLimit < cnt ∧ a.limitAt = none then some m.now else a.limitAt
        let a' : Arr := { first := a.first, count := cnt, rootAt := ra, limitAt := la }
        let osz := match old with | some t => t.size | none => 0
        let m' := { m with buf := AList.put m.buf id { w := w, arr := a', size := osz + size } }
        let sbv := ((kv toks "sb").getD "0").toInt?.getD 0
        let want := documented m.cfg a'
        let fs :=
          if sbv < want then [mfail "C03" "C03:sendby-earlier-than-documented" s!"trace {id}: SendBy {sbv}, documented deadline {want}"]
          else if want < sbv then [mfail "C03" "C03:sendby-later-than-documented" s!"trace {id}: SendBy {sbv}, documented deadline {want}"]
          else []
        (m', fs)
      else (m, [])
    | _, _, _ => (m, [])
  | ["tick", w], some o =>
    match w.toNat? with
    | some w => monTick m w o
    | none => (m, [])
  | ["looptick", w, d], some o =>
    match w.toNat? with
    | some w => monTick { m with now := m.now + (d.toNat?.getD 0 : Nat) } w o
    | none => (m, [])
  | ["eject", w, bytes], some o =>
    match w.toNat?, bytes.toNat? with
    | some w, some bytes =>
      let toks := o.splitOn " "
      monEject m w bytes (extImps exts []) (extAges exts []) ((kv toks "sent").getD "-") ((kv toks "left").getD "-")
    | _, _ => (m, [])
  | ["alloc", _], some o =>
    match extNat exts ["heap"], extNat exts ["maxalloc"], extNat exts ["workers"] with
    | some heap, some mx, some n =>
      let toks := o.splitOn " "
      let within := mx = 0 ∨ heap < mx
      if toks.head? == some "none" then
        (m, if within then [] else [mfail "C07" "C07:no-eviction-over-budget" s!"heap {heap} not below limit {mx} but no worker was asked to eject"])
      else
        let shares := parseNatList ((kv toks "shares").getD "-")
        let want := (heap - mx) / n
        let f0 := if within then [mfail "C07" "C07:eviction-within-budget" s!"heap {heap} limit {mx} but ejection was requested"] else []
        let f1 := if shares.length != n ∨ shares.any (· != want) then
          [mfail "C07" "C07:share-formula" s!"shares {natList shares}, overage {heap - mx} over {n} workers should give {want} each"] else []
        let (m', fs) := (parseEvict (toks.drop 2)).foldl (fun (acc : MSt × List Fail) (e : Nat × String × String) =>
          let (w, s, l) := e
          let bytes := (extNat exts ["share", toString w]).getD want
          let (m2, f) := monEject acc.1 w bytes (extImps exts [toString w]) (extAges exts [toString w]) s l
          (m2, acc.2 ++ f)) (m, [])
        (m', f0 ++ f1 ++ fs)
    | _, _, _ => (m, [])
  | _, _ => (m, [])

def comp : Component OSt MSt where
  init := fun args => { ws := List.replicate (nWorkers args) (init (parseCfg args)) }
  step := oStep
  minit := fun args => { cfg := parseCfg args }
  mon := dMon

def main : IO Unit := do runLoop comp (← IO.getStdin)
