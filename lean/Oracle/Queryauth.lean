import Oracle.Lib
import Refinery.Model.QueryAuth
/-
Oracle for the /query/ token check (C25).
case args: cfgtok=<enc> secrets=<enc,..>
op:        q tmpl=<enc> path=<enc> hdr=<none|one|two> tok=<enc> tok2=<enc>
ext:       secrets <status> = <n>     ni = <0|1>
obs:       class=error st=<n> body=<enc> | class=data | class=other st=<n> body=<enc>

Tokens are percent-encoded by the harness kit (`Enc`); the harness only produces ASCII.
-/
open Refinery.Model.QueryAuth Oracle

def hexDigit (n : Nat) : Char := "0123456789ABCDEF".toList.getD n '0'

def unhex (c : Char) : Nat :=
  if '0' ≤ c ∧ c ≤ '9' then c.toNat - '0'.toNat
  else if 'A' ≤ c ∧ c ≤ 'F' then c.toNat - 'A'.toNat + 10
  else if 'a' ≤ c ∧ c ≤ 'f' then c.toNat - 'a'.toNat + 10
  else 0

def encOK (c : Char) : Bool :=
  c.isAlphanum || c == '.' || c == '_' || c == ':' || c == '/' || c == '+' || c == '-'

/-- kit.Enc (ASCII) -/
def enc (s : String) : String :=
  if s == "" then "%" else
    String.ofList (s.toList.flatMap fun c =>
      if encOK c then [c] else ['%', hexDigit (c.toNat / 16), hexDigit (c.toNat % 16)])

def decChars : List Char → List Char
  | '%' :: a :: b :: rest => Char.ofNat (unhex a * 16 + unhex b) :: decChars rest
  | c :: rest => c :: decChars rest
  | [] => []

/-- kit.Dec (ASCII) -/
def dec (s : String) : String := if s == "%" then "" else String.ofList (decChars s.toList)

structure QSt where
  cfgTok : String                 -- the token in force (changed by `reload` ops)
  secrets : List String
  old : List String := []         -- tokens that were configured earlier in the case (monitor only)
  reloads : Nat := 0              -- number of reloads so far (monitor only)

def qInit (args : List String) : QSt :=
  { cfgTok := dec ((kv args "cfgtok").getD "%")
    secrets := (((kv args "secrets").getD "").splitOn ",").filter (· ≠ "") |>.map dec }

def parseReload (op : List String) : Option String :=
  match op with
  | "reload" :: rest => (kv rest "tok").map dec
  | _ => none

structure QReq where
  mid : Option (Nat × String) := none   -- `qr`: a reload to this token lands after the k-th read inside the request
  tmpl : String
  via : String
  method : String
  dm : Bool          -- the walked route accepts this method
  present : Bool
  vals : List String

def parseQ1 (rest : List String) : Option QReq :=
  match ("q" :: rest) with
  | "q" :: rest =>
    let via := (kv rest "via").getD "router"
    let meth := (kv rest "m").getD "GET"
    let dm := (kv rest "dm").getD "1" == "1"
    if via != "router" && via != "mw" then none else
    match kv rest "tmpl", kv rest "hdr", kv rest "tok", kv rest "tok2" with
    | some t, some h, some a, some b =>
      match h with
      | "none" => some { tmpl := t, via := via, method := meth, dm := dm, present := false, vals := [] }
      | "one" => some { tmpl := t, via := via, method := meth, dm := dm, present := true, vals := [dec a] }
      | "two" => some { tmpl := t, via := via, method := meth, dm := dm, present := true, vals := [dec a, dec b] }
      | _ => none
    | _, _, _, _ => none
  | _ => none

def parseQ (op : List String) : Option QReq :=
  match op with
  | "q" :: rest => parseQ1 rest
  | "qr" :: rest =>
    match parseQ1 rest, (kv rest "k").bind String.toNat?, kv rest "to" with
    | some r, some k, some to => if k ≥ 1 then some { r with mid := some (k, dec to) } else none
    | _, _, _ => none
  | _ => none

def respStr : Resp → String
  | .data => "class=data"
  | .error st body => s!"class=error st={st} body={enc body}"

/-- model step (`Refinery.Model.QueryAuth.step`): a reload changes the token in force, a request is
answered against the token in force — through the router and through a kept middleware instance alike -/
def qStep (s : QSt) (op : List String) (_ : List (List String)) : QSt × Option String :=
  match parseReload op with
  | some tok => ({ s with cfgTok := (step s.cfgTok (.reload tok)).1 }, none)
  | none =>
    match parseQ op with
    | none => (s, some "bad-op")
    | some r =>
      match r.mid with
      | some (k, to) =>
        -- the request's single read of the token is its first one; the reload is armed after k ≥ 1
        -- reads, so it lands after that read: answered against the old token, then the new one is in force
        let resp := respondUnderReload k s.cfgTok to r.vals
        let out := if r.via == "router" && !(Refinery.Gen.QueryAuth.queryMethods.contains r.method) then "class=proxied st=200" else respStr resp
        ({ s with cfgTok := to }, some out)
      | none =>
      -- the kept middleware instance does not look at the method; the router does
      if r.via == "router" then
        match routerRespond r.method s.cfgTok r.vals with
        | .proxied => (s, some "class=proxied st=200")
        | .handled resp => (s, some (respStr resp))
      else (s, (step s.cfgTok (.request r.vals)).2.map respStr)

def containsSub (hay needle : String) : Bool :=
  needle != "" && (hay.splitOn needle).length > 1

/-- the class of the request token relative to the configured one, for the signature -/
def tokClass (cfg : String) (r : QReq) : String :=
  if !r.present then "none" else
  match r.vals with
  | [] => "none"
  | t :: rest =>
    if cfg == "" then (if t == "" then "empty" else "any")
    else if t == cfg then "exact"
    else if rest.contains cfg && cfg != "" then "second-value"
    else if t == "" then "empty"
    else if t.all Char.isWhitespace then "whitespace-only"
    else if t.isPrefixOf cfg then "prefix"
    else if cfg.isPrefixOf t then "extension"
    else if t.toLower == cfg.toLower then "case-variant"
    else "other"

/-- C25 monitor, on the implementation's observation only: data iff a non-empty token is configured
and the request's first header value is exactly it; a refusal is the token checker's error, contains
none of the case's secrets (shard addresses, rule and config markers), not the configured token
(beyond an echo of the request's own token; checked for tokens of 8+ characters), and is identical
under a different configured token (`ni`). -/
def qMon (s : QSt) (op : List String) (exts : List (List String)) (obs : Option String) : QSt × List Fail :=
  match parseReload op with
  | some tok => ({ s with cfgTok := tok, reloads := s.reloads + 1, old := if s.cfgTok == "" then s.old else s.cfgTok :: s.old }, [])
  | none =>
  match parseQ op, obs with
  | some r, some o =>
    -- the property is observed at the /query/* responses of the real router; requests served by the
    -- kept middleware instance (`via=mw`) are compared with the model only (a divergence there is a
    -- broken correspondence obligation, not a failing input of the property)
    let s' : QSt := match r.mid with
      | some (_, to) => { s with cfgTok := to, reloads := s.reloads + 1, old := if s.cfgTok == "" then s.old else s.cfgTok :: s.old }
      | none => s
    if r.via != "router" then (s', []) else
    match r.mid with
    | some (_, to) =>
      -- a request concurrent with a reload old ↦ new: data only for a non-empty token equal to old or new
      let cls := (kv (o.splitOn " ") "class").getD "?"
      let t := r.vals.headD ""
      let allowed := t != "" && (t == s.cfgTok || t == to)
      let tcl := if !r.present then "none" else if t == "" then "empty" else "other"
      let fails := if cls == "data" && !allowed then
          [{ prop := "C25", sig := s!"C25:data-without-valid-token:reload-mid-request:tmpl={r.tmpl}:tok={tcl}",
             what := s!"a reload landed during the request; it was answered with data although its token ({tcl}) is neither the old nor the new configured token" : Fail }]
        else []
      (s', fails)
    | none =>
    let toks := o.splitOn " "
    let cls := (kv toks "class").getD "?"
    let body := dec ((kv toks "body").getD "%")
    let tokenOK := s.cfgTok != "" && r.vals.headD "" == s.cfgTok
    -- data must be answered to the exact token on a method the data routes accept; for any other
    -- method nothing is required except: no data
    let authorised := tokenOK && r.dm
    let tc := tokClass s.cfgTok r
    let reloaded := s.reloads > 0
    let mk (sig what : String) : Fail := { prop := "C25", sig := sig, what := what }
    let fails :=
      if authorised then
        if cls != "data" then
          if reloaded then
            [mk s!"C25:valid-token-refused:after-reload:via={r.via}:tmpl={r.tmpl}" s!"after a reload, a request with exactly the token now configured is answered {o.take 60}"]
          else
            [mk s!"C25:valid-token-refused:tmpl={r.tmpl}" s!"request with exactly the configured token answered {o.take 60}"]
        else []
      else if cls == "data" && tokenOK then
        [mk s!"C25:data-on-unrouted-method:method={r.method}:tmpl={r.tmpl}" s!"{r.method} is not a method of the data route, yet it was answered with data"]
      else if cls == "data" then
        let n := exts.findSome? fun e => match e with
          | ["secrets", _, "=", v] => some v
          | _ => none
        if reloaded && s.old.contains (r.vals.headD "") then
          [mk s!"C25:data-with-stale-token:method={r.method}:tmpl={r.tmpl}:now={if s.cfgTok == "" then "unconfigured" else "other-token"}"
            s!"a token that was configured before the reload still unlocks the endpoint ({n.getD "?"} of the case's secrets in the body)"]
        else
        [mk s!"C25:data-without-valid-token:method={r.method}:tmpl={r.tmpl}:tok={if s.cfgTok == "" then "unconfigured" else tc}"
          s!"route answered with data ({n.getD "?"} of the case's secrets in the body) although the request does not carry the configured token"]
      else if !r.dm then []     -- a method the data routes do not accept: anything but data is fine (today: proxied upstream)
      else if cls != "error" then
        [mk s!"C25:unexpected-response:tmpl={r.tmpl}:{(kv toks "st").getD "?"}" s!"neither data nor the token checker's refusal: {o.take 80}"]
      else
        let leaked := s.secrets.filter (containsSub body ·)
        let reqTok := r.vals.headD ""
        let stripped := if reqTok == "" then body else body.replace reqTok ""
        let ni := exts.findSome? fun e => match e with
          | ["ni", "=", v] => some v
          | _ => none
        (if !leaked.isEmpty then
          [mk s!"C25:error-reveals-secret:tmpl={r.tmpl}" s!"refusal body contains {leaked.length} of the case's secrets (shard address / rule / config marker)"]
         else []) ++
        (if s.cfgTok.length ≥ 8 && containsSub stripped s.cfgTok then
          [mk s!"C25:error-reveals-token:tmpl={r.tmpl}" "refusal body contains the configured token"]
         else []) ++
        (if ni == some "0" then
          [mk s!"C25:error-depends-on-configured-token:tmpl={r.tmpl}" "the same request is answered differently under a different (also non-matching) configured token"]
         else [])
    (s, fails)
  | _, _ => (s, [])

def comp : Component QSt QSt where
  init := qInit
  step := qStep
  minit := qInit
  mon := qMon

def main : IO Unit := do runLoop comp (← IO.getStdin)
