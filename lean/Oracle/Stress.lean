import Oracle.Lib
import Refinery.Model.StressRelief
import Refinery.Gen.Stress
/-
Oracle for `collect.StressRelief` (C15).
case args: incap=… peercap=… memmax=…           (metric denominators; not used by the model)
ops:  adv <ns>
      caps <peercap> <incap> <memmax>            denominators only (no output)
      local <peerq> <inq> <heap>                 gauges only; the resulting own level arrives with `recalc`
      peer <id> <level>                          obs: reports=<id:level:ts,…>
      junk <k>                                   obs: reports=…
      reload <mode> <act> <deact> <minNs>        ext: validate … = ok|err
                                                 obs: mode=… act=… deact=… min=… on=0|1
      recalc                                     ext: local = <own level computed by the code>
                                                 obs: local=… cluster=… level=… on=… g=… until=<ns|zero> reports=…
-/
open Refinery Refinery.Model.StressRelief Oracle

def timeoutNs : Int := Refinery.Gen.Stress.peerEntryTimeoutNs

/-- `false`: the code as it is.  `true`: the repaired `UpdateFromConfig` (a deactivation level above the
activation level is clamped to it, `clampCfg`): the model clamps at `reload`, the monitor takes the
clamped thresholds as the ones in force and reports any "level ≥ activation and relief off" as a plain
`C15:on-when-reaches` violation (theorem `Props.C15.on_when_reaches`).  Flip together with the repair. -/
def variant : Bool := true

def dump (r : Reports) : String :=
  let ks := isort (AList.keys r)
  if ks.isEmpty then "-" else
    ",".intercalate (ks.filterMap fun k => (AList.get r k).map fun e => s!"{k}:{e.1}:{e.2}")

def modeStr : Mode → String
  | .never => "never" | .monitor => "monitor" | .always => "always"

def parseModeOp : String → Option Mode
  | "never" => some .never | "empty" => some .never | "bogus" => some .never
  | "monitor" => some .monitor | "always" => some .always | _ => none

def b01 (b : Bool) : String := if b then "1" else "0"

def extLocal (exts : List (List String)) : Option Nat :=
  exts.findSome? fun e => match e with
    | ["local", "=", v] => v.toNat?
    | _ => none

def sStep (s : St) (op : List String) (exts : List (List String)) : St × Option String :=
  match op with
  | ["adv", d] => match d.toNat? with
    | some d => ((step s (.adv d)).1, none) | none => (s, some "bad-op")
  | ["local", a, b, c] => match a.toInt?, b.toInt?, c.toInt? with
    | some _, some _, some _ => (s, none) | _, _, _ => (s, some "bad-op")
  | ["caps", a, b, c] => match a.toInt?, b.toInt?, c.toInt? with
    | some _, some _, some _ => (s, none) | _, _, _ => (s, some "bad-op")
  | ["peer", id, l] => match id.toNat?, l.toNat? with
    | some id, some l => let s' := (step s (.peer id l)).1; (s', some s!"reports={dump s'.reports}")
    | _, _ => (s, some "bad-op")
  | ["junk", _] => let s' := (step s .junk).1; (s', some s!"reports={dump s'.reports}")
  | ["reload", m, a, d, mn] => match parseModeOp m, a.toNat?, d.toNat?, mn.toInt? with
    | some m, some a, some d, some mn =>
      let s' := (step s (.reload { mode := m, act := a, deact := d, minDur := mn })).1
      (s', some s!"mode={modeStr s'.cfg.mode} act={s'.cfg.act} deact={s'.cfg.deact} min={s'.cfg.minDur} on={b01 s'.stressed}")
    | _, _, _, _ => (s, some "bad-op")
  | ["recalc"] => match extLocal exts with
    | none => (s, some "bad-ext")
    | some loc =>
      let r := recalc s loc
      let hold := match r.1.stayOnUntil with | none => "zero" | some u => toString u
      (r.1, some s!"local={loc} cluster={r.2.cluster} level={r.2.level} on={b01 r.2.after} g={b01 r.2.after} until={hold} reports={dump r.1.reports}")
  | _ => (s, some "bad-op")

/-! Monitor: the conclusions of the C15 theorems, evaluated on what the implementation reported
(its levels, its relief state) and on the inputs of the history (clock, peer reports, the
configuration that was loaded).  It keeps no model state. -/
structure MSt where
  now : Int := 0
  cfg : Cfg := {}
  valid : Bool := true          -- configuration validation accepted the thresholds in force
  sp : Spec := {}               -- inputs: most recent report per id
  evs : List Ev := []           -- the implementation's recalculations, most recent first
  on : Bool := false
  bounded : Bool := true        -- every report / own level so far ≤ 100

def fail (sig what : String) : Fail := { prop := "C15", sig := sig, what := what }

def ordered (e : Ev) : Bool :=
  decide (e.cfg.mode ≠ .always) && (decide (e.cfg.mode ≠ .monitor) || decide (e.cfg.deact ≤ e.cfg.act))

def sMon (m : MSt) (op : List String) (exts : List (List String)) (obs : Option String) : MSt × List Fail :=
  let toks := (obs.getD "").splitOn " "
  let nat (k : String) : Option Nat := (kv toks k).bind String.toNat?
  match op with
  | ["adv", d] => match d.toNat? with
    | some d => ({ m with now := m.now + d, sp := m.sp.step (.adv d) }, [])
    | none => (m, [])
  | ["peer", id, l] => match id.toNat?, l.toNat? with
    | some id, some l => ({ m with sp := m.sp.step (.peer id l), bounded := m.bounded && decide (l ≤ 100) }, [])
    | _, _ => (m, [])
  | ["reload", md, a, d, mn] =>
    -- the configuration in force is the one that was loaded (the op's arguments), not what the
    -- implementation says it stored
    let valid := exts.any fun e => e.getLast? == some "ok"
    match parseModeOp md, a.toNat?, d.toNat?, mn.toInt?, nat "on" with
    | some md, some a, some d, some mn, some on =>
      let fs := if (on == 1) != m.on then
        [fail "C15:relief-changed-outside-recalc" s!"Stressed() went {b01 m.on} -> {on} at a reload"] else []
      let c : Cfg := { mode := md, act := a, deact := d, minDur := mn }
      ({ m with cfg := if variant then clampCfg c else c, valid := valid, on := (on == 1) }, fs)
    | _, _, _, _, _ => (m, [fail "C15:unparsable-observation" s!"reload answered {obs.getD "-"}"])
  | ["recalc"] =>
    match nat "local", nat "cluster", nat "level", nat "on" with
    | some loc, some cluster, some level, some onN =>
      let on := onN == 1
      let e : Ev := { cfg := m.cfg, now := m.now, loc := loc, cluster := cluster, level := level,
                      before := m.on, after := on }
      let c := m.cfg
      let bounded := m.bounded      -- peer reports only; the own level must be in range by itself
      let f0 := if decide (100 < loc) then
        [fail "C15:level-out-of-range" s!"own (published) level {loc} > 100 (cluster {cluster}, level {level})"] else []
      let want := rms (m.sp.recent timeoutNs loc)
      let f1 := if cluster != want then
        [fail "C15:level-formula:cluster-not-rms-of-recent-reports"
          s!"cluster level {cluster}, RMS of the recent non-zero reports is {want}"] else []
      let f2 := if level != max cluster loc then
        [fail "C15:level-formula:level-not-max" s!"level {level}, own {loc}, cluster {cluster}"] else []
      let f3 := if bounded && decide (loc ≤ 100) && (decide (100 < level) || decide (100 < cluster)) then
        [fail "C15:level-bounded" s!"level {level}, cluster {cluster} with every report and own level ≤ 100"] else []
      let f4 := match c.mode with
        | .never => if on then [fail "C15:never-mode-on" "relief on after a recalculation in never mode"] else []
        | .always => if !on then [fail "C15:always-mode-off" "relief off after a recalculation in always mode"] else []
        | .monitor =>
          let fOn :=
            if decide (c.act ≤ level) && !on then
              if decide (c.deact ≤ c.act) then
                [fail "C15:on-when-reaches" s!"level {level} ≥ activation {c.act} (deactivation {c.deact}) and relief is off"]
              else if m.valid then
                [fail "C15:on-when-reaches:activation-below-deactivation"
                  s!"validated config activation {c.act} < deactivation {c.deact}: level {level} ≥ activation and relief is off"]
              else []
            else []
          let fOff :=
            if m.on && !on then
              let g := if (e :: m.evs).all ordered then lastWhere aboveAny m.evs else lastWhere aboveOn m.evs
              (if decide (c.deact ≤ level) then
                [fail "C15:off-at-or-above-deactivation" s!"relief went off at level {level} ≥ deactivation {c.deact}"] else []) ++
              (match g with
               | some (t, d) => if decide (m.now < t + d) then
                   [fail "C15:off-before-min-duration"
                     s!"relief went off at {m.now}, level was last at or above deactivation at {t} with minimum duration {d}"] else []
               | none => [])
            else []
          fOn ++ fOff
      ({ m with sp := m.sp.step (.recalc loc), evs := e :: m.evs, on := on, bounded := bounded }, f0 ++ f1 ++ f2 ++ f3 ++ f4)
    | _, _, _, _ => (m, [fail "C15:unparsable-observation" s!"recalc answered {obs.getD "-"}"])
  | _ => (m, [])

def comp : Component St MSt where
  init := fun _ => init timeoutNs variant
  step := sStep
  minit := fun _ => {}
  mon := sMon

def main : IO Unit := do runLoop comp (← IO.getStdin)
