import Oracle.Lib
import Refinery.Model.Reload
/-
Oracle for config reloads (C27).
case args: dep=<prefix|cachecap> ver=<none|vX> ls=<listeners registered after start> [model=fixed]
ops (see harness/cmd/reload/main.go):
  wc <tok> | wr <tok> | start | reg | reload t|p|x | stress <G> <R> <mode> | await | hold  (kind=watcher) | nested <A> <B>
tokens: ok:<v>:<n> | warn:<v>:<n> | bad:<k>:<v> | gone
obs:  su=<ok|warn|fail|-> err=<none|warn|fail|logged|-> ap=<c>/<r>|- send=<v>|- rate=<v>|- n=<c0,c1,…>|-
`stress` is judged by the monitor only; the model continues from the state the implementation
reports (`ext final <applied cfg> <applied rules> <counts> <cfg on disk> = ok`).
-/
open Refinery.Model.Reload Oracle

def parseTok (s : String) : Option Content :=
  match s.splitOn ":" with
  | ["ok", v, n] => match v.toNat?, n.toNat? with | some v, some n => some (.ok v n) | _, _ => none
  | ["warn", v, n] => match v.toNat?, n.toNat? with | some v, some n => some (.warn v n) | _, _ => none
  | ["bad", k, v] => match k.toNat?, v.toNat? with | some k, some v => some (.bad k v) | _, _ => none
  | ["gone"] => some .gone
  | _ => none

def tokStr : Content → String
  | .ok v n => s!"ok:{v}:{n}"
  | .warn v n => s!"warn:{v}:{n}"
  | .bad k v => s!"bad:{k}:{v}"
  | .gone => "gone"

def buildStr : Build → String
  | .fail => "fail" | .okc => "ok" | .warnc => "warn"

def errStr : Seq.Err → String
  | .none => "none" | .warn => "warn" | .fail => "fail"

def stateStr (s : Seq.St) (su err : String) : String :=
  if s.started then
    s!"su={su} err={err} ap={tokStr s.applied.1}/{tokStr s.applied.2} send={s.applied.1.val} rate={s.applied.2.val} n={natList s.counts} g=ok"
  else s!"su={su} err={err} ap=- send=- rate=- n=- g=ok"

structure OSt where
  s : Seq.St := {}
  ls : Nat := 0

def oStep (o : OSt) (op : List String) (exts : List (List String)) : OSt × Option String :=
  let s := o.s
  match op with
  | ["wc", t] => match parseTok t with
    | some c => ({ o with s := (Seq.step s (.wc c)).1 }, none)
    | none => (o, some "bad-op")
  | ["wr", t] => match parseTok t with
    | some c => ({ o with s := (Seq.step s (.wr c)).1 }, none)
    | none => (o, some "bad-op")
  | ["start"] =>
    if s.started then (o, some "bad-op") else
    match Seq.step s (.start o.ls) with
    | (s', some out) => ({ o with s := s' }, some (stateStr s' (buildStr out.su) (errStr out.err)))
    | (_, none) => (o, some "bad-op")
  | ["reg"] =>
    if !s.started then (o, some "nostart") else
    let s' := (Seq.step s .reg).1
    ({ o with s := s' }, some (stateStr s' "-" "-"))
  | ["reload", src] =>
    if !s.started then (o, some "nostart") else
    if src == "x" then
      let s' := (Seq.step s .nop).1
      ({ o with s := s' }, some (stateStr s' (buildStr (build s.cfile s.rfile)) "none"))
    else if src == "t" || src == "p" then
      match Seq.step s .reload with
      | (s', some out) =>
        let e := if src == "t" then errStr out.err else (if out.err == .none then "none" else "logged")
        ({ o with s := s' }, some (stateStr s' (buildStr out.su) e))
      | (_, none) => (o, some "bad-op")
    else (o, some "bad-op")
  -- kind=watcher: the real ConfigWatcher calls Reload at every tick of its timer, whatever the
  -- previous call returned; by the time the harness answers at least one tick saw the present files
  -- (`watcher_applies_after_rejected`: one tick is enough, further ticks change nothing)
  -- a trigger that arrives inside a notification of reload #1 is a reload after it
  -- (`reload_during_notification_not_lost`): wc A; reload; if that one notified: wc B; reload
  | ["nested", a, b] =>
    if !s.started then (o, some "nostart") else
    if s.counts.isEmpty then (o, some "nolistener") else
    match parseTok a, parseTok b with
    | some ca, some cb =>
      let s1 := (Seq.step s (.wc ca)).1
      let s2 := (Seq.step s1 .reload).1
      let fired := s2.napplied != s1.napplied
      let s3 := if fired then (Seq.step (Seq.step s2 (.wc cb)).1 .reload).1 else s2
      ({ o with s := s3 }, some (stateStr s3 (buildStr (build s3.cfile s3.rfile)) "-" ++ s!" fired={if fired then 1 else 0}"))
    | _, _ => (o, some "bad-op")
  | ["await"] =>
    if !s.started then (o, some "nostart") else
    match Seq.step s .reload with
    | (s', some out) => ({ o with s := s' }, some (stateStr s' (buildStr out.su) "-"))
    | (_, none) => (o, some "bad-op")
  | ["hold"] =>
    if !s.started then (o, some "nostart") else
    match Seq.step s .reload with
    | (s', some out) => ({ o with s := s' }, some (stateStr s' (buildStr out.su) "-" ++ " ticks=ok"))
    | (_, none) => (o, some "bad-op")
  | ["stress", _, _, _] =>
    if !s.started then (o, some "nostart") else
    -- acceptor: continue from the implementation's final state, which must be a config the
    -- model could have applied (a reloadable content) — otherwise flag it
    match exts.find? (fun e => e.head? == some "final") with
    | some ["final", ac, ar, cs, disk, "=", _] =>
      match parseTok ac, parseTok ar, parseTok disk with
      | some ac, some ar, some disk =>
        if startupAccepts (ac, ar) then
          ({ o with s := { s with applied := (ac, ar), cfile := disk, counts := parseNatList cs } }, some "*")
        else (o, some "stress-ended-in-unacceptable-config")
      | _, _, _ => (o, some "stress-ended-in-unknown-content")
    | _ => (o, some "bad-ext")
  | _ => (o, some "bad-op")

/-! Monitor: the property's conclusion evaluated on the implementation's own observations.
It knows what was written to the files (inputs), what a real startup says about them (`su`, reported
by the implementation) and what the implementation reports as running config / callback counts. -/
structure MSt where
  cfile : String := "gone"
  rfile : String := "gone"
  started : Bool := false
  ap : String := "-"
  counts : List Nat := []
  /-- kind=watcher: a content that startup rejects was on disk since the last applied change -/
  rejected : Bool := false

def tokVal (t : String) : String :=
  match parseTok t with
  | some c => toString c.val
  | none => "?"

def mkFail (sig what : String) : Fail := { prop := "C27", sig := sig, what := what }

/-- `g=` of an observation: the getters of the running config that differ from a fresh load -/
def genericGetterFails (toks : List String) : List Fail :=
  match kv toks "g" with
  | some "ok" => []
  | some names => (names.splitOn ",").map fun n =>
      mkFail s!"C27:getter-not-applied-content:{n}" s!"the running config has the hashes of the files on disk but {n}() does not return what a fresh load of those files returns"
  | none => []

def getterFails (ap send rate : String) : List Fail :=
  match ap.splitOn "/" with
  | [c, r] =>
    (if tokVal c != send then [mkFail "C27:getter-not-applied-content" s!"running config is {c} but GetSendDelay shows {send}s"] else []) ++
    (if tokVal r != rate then [mkFail "C27:getter-not-applied-content" s!"running rules are {r} but SampleRate shows {rate}"] else [])
  | _ => [mkFail "C27:applied-unknown-content" s!"cannot read applied pair {ap}"]

def mon (m : MSt) (op : List String) (exts : List (List String)) (obs : Option String) : MSt × List Fail :=
  match op, obs with
  | ["wc", t], _ => ({ m with cfile := t }, [])
  | ["wr", t], _ => ({ m with rfile := t }, [])
  | ["start"], some o =>
    let toks := o.splitOn " "
    let su := (kv toks "su").getD "?"
    let ap := (kv toks "ap").getD "?"
    if su == "fail" then
      (m, if ap != "-" then [mkFail "C27:rejected-content-applied" s!"startup failed but a config is running: {ap}"] else [])
    else
      let disk := s!"{m.cfile}/{m.rfile}"
      let cs := parseNatList ((kv toks "n").getD "-")
      ({ m with started := true, ap := ap, counts := cs },
        (if ap != disk then [mkFail "C27:startup-content" s!"started on {disk} but running {ap}"] else []) ++
        getterFails ap ((kv toks "send").getD "?") ((kv toks "rate").getD "?") ++ genericGetterFails toks)
  | ["reg"], some o =>
    if !m.started then (m, []) else
    let toks := o.splitOn " "
    let cs := parseNatList ((kv toks "n").getD "-")
    ({ m with counts := cs },
      if cs != m.counts ++ [0] then [mkFail "C27:register-changed-counts" s!"counts {natList m.counts} -> {natList cs} on registration"] else [])
  | ["reload", src], some o =>
    if !m.started then (m, []) else
    let toks := o.splitOn " "
    let su := (kv toks "su").getD "?"
    let ap := (kv toks "ap").getD "?"
    let cs := parseNatList ((kv toks "n").getD "-")
    let disk := s!"{m.cfile}/{m.rfile}"
    let changed := disk != m.ap
    let accepted := su == "ok" || su == "warn"
    let appliedNow := ap != m.ap
    let bumped := m.counts.map (· + 1)
    let fails : List Fail :=
      if src == "x" then
        (if appliedNow || cs != m.counts then [mkFail "C27:unparseable-message-reloaded" s!"{m.ap} -> {ap}, counts {natList m.counts} -> {natList cs}"] else [])
      else
        (if accepted && changed && ap != disk then
          [mkFail (if su == "warn" then "C27:warning-only-not-reloaded" else "C27:acceptable-change-not-applied")
            s!"files hold {disk} (startup says {su}), running config stays {ap}"]
         else []) ++
        (if !accepted && appliedNow then [mkFail "C27:rejected-content-applied" s!"startup rejects {disk} but running config went {m.ap} -> {ap}"] else []) ++
        (if appliedNow && ap != disk then [mkFail "C27:applied-unknown-content" s!"running config became {ap}, files hold {disk}"] else []) ++
        (if !changed && cs != m.counts then [mkFail "C27:unchanged-renotified" s!"content unchanged ({disk}) but counts {natList m.counts} -> {natList cs}"] else []) ++
        (if appliedNow && cs != bumped then [mkFail "C27:notify-count" s!"change applied, counts {natList m.counts} -> {natList cs} (want +1 each)"] else []) ++
        (if changed && !appliedNow && cs != m.counts then [mkFail "C27:notify-without-apply" s!"nothing applied but counts {natList m.counts} -> {natList cs}"] else [])
    ({ m with ap := ap, counts := cs },
      fails ++ getterFails ap ((kv toks "send").getD "?") ((kv toks "rate").getD "?") ++ genericGetterFails toks)
  | ["nested", a, b], some o =>
    if !m.started || o == "nolistener" then (m, []) else
    let toks := o.splitOn " "
    let su := (kv toks "su").getD "?"
    let ap := (kv toks "ap").getD "?"
    let cs := parseNatList ((kv toks "n").getD "-")
    let fired := (kv toks "fired") == some "1"
    let diskA := s!"{a}/{m.rfile}"
    let diskB := s!"{b}/{m.rfile}"
    let disk := if fired then diskB else diskA
    let accepted := su == "ok" || su == "warn"
    -- callbacks of reload #1 happened iff listener 0 fired; then A was applied (+1 each), and the
    -- second trigger must bring B (if startup accepts it and it differs from A: +1 each more)
    let want := if fired then (if su == "ok" && b != a then m.counts.map (· + 2) else m.counts.map (· + 1)) else m.counts
    let fails : List Fail :=
      (if fired && su == "ok" && ap != diskB then
        [mkFail "C27:trigger-during-notification-lost" s!"a Reload triggered while listener 0 was being notified of {diskA} found {diskB} on disk (startup says ok); after both returned the running config is {ap}"]
       else []) ++
      (if fired && su == "fail" && ap != diskA then [mkFail "C27:rejected-content-applied" s!"startup rejects {diskB} but running config is {ap} (expected {diskA})"] else []) ++
      (if !fired && accepted && diskA != m.ap && ap != diskA then
        [mkFail (if su == "warn" then "C27:warning-only-not-reloaded" else "C27:acceptable-change-not-applied") s!"files hold {diskA} (startup says {su}), running config stays {ap}"] else []) ++
      (if (su == "ok" || su == "fail") && cs != want && (fired || ap == m.ap) then
        [mkFail "C27:trigger-during-notification:notify-count" s!"fired={fired} counts {natList m.counts} -> {natList cs}, want {natList want}"] else [])
    ({ m with cfile := if fired then b else a, ap := ap, counts := cs },
      fails ++ (if ap == disk then getterFails ap ((kv toks "send").getD "?") ((kv toks "rate").getD "?") else []) ++ genericGetterFails toks)
  | ["await"], some o =>
    if !m.started then (m, []) else
    let toks := o.splitOn " "
    let su := (kv toks "su").getD "?"
    let ap := (kv toks "ap").getD "?"
    let cs := parseNatList ((kv toks "n").getD "-")
    let disk := s!"{m.cfile}/{m.rfile}"
    let changed := disk != m.ap
    let bumped := m.counts.map (· + 1)
    let fails : List Fail :=
      (if su == "ok" && ap != disk then
        [mkFail (if m.rejected then "C27:watcher:acceptable-change-not-applied:after-rejected" else "C27:watcher:acceptable-change-not-applied")
          s!"files hold {disk} (startup says ok), the watcher's timer never applied it: running config stays {ap}"]
       else []) ++
      (if su == "warn" && ap != disk then [mkFail "C27:warning-only-not-reloaded" s!"files hold {disk} (startup says warn), running config stays {ap}"] else []) ++
      (if su == "fail" && ap != m.ap then [mkFail "C27:watcher:rejected-content-applied" s!"startup rejects {disk} but running config went {m.ap} -> {ap}"] else []) ++
      (if changed && ap == disk && cs != bumped then [mkFail "C27:watcher:notified-n-times" s!"change {m.ap} -> {ap} applied by the watcher, counts {natList m.counts} -> {natList cs} (want +1 each)"] else []) ++
      (if !changed && cs != m.counts then [mkFail "C27:watcher:unchanged-renotified" s!"content unchanged ({disk}) but counts {natList m.counts} -> {natList cs}"] else []) ++
      (if changed && ap == m.ap && cs != m.counts then [mkFail "C27:watcher:notify-without-apply" s!"nothing applied but counts {natList m.counts} -> {natList cs}"] else [])
    ({ m with ap := ap, counts := cs, rejected := if ap == disk then false else m.rejected },
      fails ++ getterFails ap ((kv toks "send").getD "?") ((kv toks "rate").getD "?") ++ genericGetterFails toks)
  | ["hold"], some o =>
    if !m.started then (m, []) else
    let toks := o.splitOn " "
    let su := (kv toks "su").getD "?"
    let ap := (kv toks "ap").getD "?"
    let cs := parseNatList ((kv toks "n").getD "-")
    let disk := s!"{m.cfile}/{m.rfile}"
    let fails : List Fail :=
      (if su == "fail" && ap != m.ap then [mkFail "C27:watcher:rejected-content-applied" s!"startup rejects {disk} but running config went {m.ap} -> {ap}"] else []) ++
      (if su == "fail" && cs != m.counts then [mkFail "C27:watcher:notify-without-apply" s!"rejected content on disk, counts {natList m.counts} -> {natList cs}"] else []) ++
      (if (kv toks "ticks") != some "ok" then [mkFail "C27:watcher:no-tick-after-rejected" s!"with {disk} on disk the watcher stopped calling Reload ({o})"] else [])
    ({ m with ap := ap, counts := cs, rejected := m.rejected || su == "fail" }, fails)
  | ["stress", _, _, _], some o =>
    if !m.started then (m, []) else
    let toks := o.splitOn " "
    let num (k : String) := ((kv toks k).getD "0").toNat?.getD 0
    let fails :=
      -- mode 0: all triggers read the same content (no rewrite between their reads).  The current code
      -- (compare-and-assign in one critical section) excludes a second apply there: not a listed finding.
      -- mode 1: a rewrite happens between the triggers' reads (stale-snapshot overlap).
      (if num "dbl" > 0 then [mkFail (if num "mode" == 0 then "C27:concurrent-same-snapshot-applied-twice" else "C27:concurrent-double-apply")
        s!"{num "dbl"} contents written once were notified more than once to a listener ({o})"] else []) ++
      (if num "lost" > 0 then [mkFail (if num "mode" == 0 then "C27:concurrent-same-snapshot-not-applied" else "C27:concurrent-lost-update")
        s!"{num "lost"} rounds ended (all triggers returned, the last one fired after the last write) with a running config that is not the content on disk ({o})"] else []) ++
      (if num "rej" > 0 then [mkFail "C27:rejected-content-applied" s!"{num "rej"} rounds changed the running config although startup rejects the files ({o})"] else []) ++
      (if num "miss" > 0 then [mkFail "C27:concurrent-missed-notification" s!"{num "miss"} applied contents were not notified to some listener ({o})"] else [])
    match exts.find? (fun e => e.head? == some "final") with
    | some ["final", ac, ar, cs, disk, "=", _] =>
      ({ m with ap := s!"{ac}/{ar}", counts := parseNatList cs, cfile := disk }, fails)
    | _ => (m, fails)
  | _, _ => (m, [])

def comp : Component OSt MSt where
  init := fun args =>
    let ls := ((kv args "ls").getD "0").toNat?.getD 0
    { s := { aw := (kv args "model") == some "fixed" }, ls := ls }
  step := oStep
  minit := fun _ => {}
  mon := mon

def main : IO Unit := do runLoop comp (← IO.getStdin)
