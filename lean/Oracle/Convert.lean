import Oracle.Lib
import Refinery.Model.Convert
/-
Oracle for the v1 → v2 converter (C38).
case args: kind=config|rules fmt=T|Y
values: s:<enc> i:<n> b:true|false l:<enc>,<enc>|l:- f:<enc decimal> t:<k>=<v>,… d:<ns> m:<bytes> nil
config ops: set <v1key> <val> | convert | load | get <Group.Field>
rules ops : rset <ds|-> <key> <val> | rrule <ds> <i> <key> <val> | rcond <ds> <i> <j> <key> <val>
            | rdown <ds> <i> <samplertype> <key> <val> | convert | load
            | rget <ds> <Field|@type|@present|@rules> | rgetrule <ds> <i> <Field|@conds>
            | rgetcond <ds> <i> <j> <Field> | rgetdown <ds> <i> <Field|@type>
ext lines (after the op that introduces a string): dur <enc> = <ns>|err ; yaml <enc> = <tag> ;
after convert: abort <class> ; after load: loaderr <class> <field>
-/
open Refinery Refinery.Model.Convert Oracle

/-! percent coding of `kit.Enc` / `kit.Dec` -/
def hexVal (c : Char) : Nat :=
  if '0' ≤ c ∧ c ≤ '9' then c.toNat - 48
  else if 'A' ≤ c ∧ c ≤ 'F' then c.toNat - 55
  else if 'a' ≤ c ∧ c ≤ 'f' then c.toNat - 87 else 0

partial def decBytes : List Char → ByteArray → ByteArray
  | '%' :: a :: b :: t, acc => decBytes t (acc.push (UInt8.ofNat (hexVal a * 16 + hexVal b)))
  | c :: t, acc => decBytes t (c.toString.toUTF8.foldl (fun a b => a.push b) acc)
  | [], acc => acc

def dec (s : String) : String :=
  if s == "%" then "" else
  match String.fromUTF8? (decBytes s.toList ByteArray.empty) with
  | some r => r
  | none => s

def hexDigit (n : Nat) : Char := if n < 10 then Char.ofNat (48 + n) else Char.ofNat (55 + n)

def encByte (b : UInt8) : String :=
  let c := Char.ofNat b.toNat
  if c.isAlphanum || c == '.' || c == '_' || c == ':' || c == '/' || c == '+' || c == '-' then c.toString
  else "%" ++ (hexDigit (b.toNat / 16)).toString ++ (hexDigit (b.toNat % 16)).toString

def enc (s : String) : String :=
  if s.isEmpty then "%" else s.toUTF8.foldl (fun acc b => acc ++ encByte b) ""

def parseV1 (tok : String) : Option V1 :=
  match tok.splitOn ":" with
  | tag :: rest =>
    let body := ":".intercalate rest
    if tag == "s" then some (.str (dec body))
    else if tag == "f" then some (.flt (dec body))
    else if tag == "i" then body.toNat?.map .int
    else if tag == "b" then some (.bool (body == "true"))
    else if tag == "l" then some (.strs (if body == "-" then [] else (body.splitOn ",").map dec))
    else if tag == "t" then
      some (.tbl (if body == "-" then [] else (body.splitOn ",").filterMap fun p =>
        match p.splitOn "=" with
        | [k, v] => some (dec k, dec v)
        | _ => none))
    else none
  | [] => none

def renderEff : Eff → String
  | .str s => "s:" ++ enc s
  | .int n => s!"i:{n}"
  | .bool b => if b then "b:true" else "b:false"
  | .dur n => s!"d:{n}"
  | .mem n => s!"m:{n}"
  | .strs l => if l.isEmpty then "l:-" else "l:" ++ ",".intercalate (l.map enc)
  | .tbl kv =>
    if kv.isEmpty then "t:-" else
    "t:" ++ ",".intercalate ((kv.map fun p => enc p.1 ++ "=" ++ enc p.2).toArray.qsort (· < ·)).toList
  | .invalid => "invalid"
  | .unknown => "?"

def renderRV : RV → String
  | .int n => s!"i:{n}"
  | .str s => "s:" ++ enc s
  | .bool b => if b then "b:true" else "b:false"
  | .strs l => if l.isEmpty then "l:-" else "l:" ++ ",".intercalate (l.map enc)
  | .dur n => s!"d:{n}"
  | .flt s => "f:" ++ enc s
  | .null => "nil"

/-- Everything a case feeds in (the v1 file and the graphs of the external functions). -/
structure In where
  kind : String := "config"
  data : Data := []
  durs : List (String × Option Nat) := []
  yamls : List (String × YTag) := []
  rsets : List (String × String × V1) := []                    -- ds key val
  rrules : List (String × Nat × String × V1) := []             -- ds i key val
  rconds : List (String × Nat × Nat × String × V1) := []       -- ds i j key val
  rdowns : List (String × Nat × String × String × V1) := []    -- ds i stype key val

def tagOf (s : String) : YTag :=
  if s == "str" then .str else if s == "int" then .int else if s == "bool" then .bool
  else if s == "null" then .null else if s == "float" then .float else if s == "err" then .err else .other

def In.ext (i : In) : Ext where
  yaml := fun s => (AList.get i.yamls s).getD .other
  dur := fun s => (AList.get i.durs s).getD none
  fmtNat := toString
  lower := String.toLower

def In.addExts (i : In) (exts : List (List String)) : In :=
  exts.foldl (fun i e =>
    match e with
    | ["dur", s, "=", r] => { i with durs := (dec s, r.toNat?) :: i.durs }
    | ["yaml", s, "=", t] => { i with yamls := (dec s, tagOf t) :: i.yamls }
    | ["yaml", s, "=", "strx", t] => { i with yamls := (dec s, .diff (dec t)) :: i.yamls }
    | _ => i) i

def putData (d : Data) (key : String) (v : V1) : Data :=
  match key.splitOn "." with
  | g :: r :: rest =>
    let name := ".".intercalate (r :: rest)
    let sub := match AList.get d g with | some (.grp kv) => kv | _ => []
    AList.put d g (.grp (AList.put sub name v))
  | _ => AList.put d key (.val v)

/-- record an input op; `none` = not an input op -/
def In.record (i : In) (op : List String) (exts : List (List String)) : Option In :=
  let i' := i.addExts exts
  match op with
  | ["set", key, val] => (parseV1 val).map fun v => { i' with data := putData i'.data key v }
  | ["rset", ds, key, val] => (parseV1 val).map fun v => { i' with rsets := i'.rsets ++ [(dec ds, dec key, v)] }
  | ["rrule", ds, n, key, val] =>
    match n.toNat?, parseV1 val with
    | some n, some v => some { i' with rrules := i'.rrules ++ [(dec ds, n, dec key, v)] }
    | _, _ => none
  | ["rcond", ds, n, m, key, val] =>
    match n.toNat?, m.toNat?, parseV1 val with
    | some n, some m, some v => some { i' with rconds := i'.rconds ++ [(dec ds, n, m, dec key, v)] }
    | _, _, _ => none
  | ["rdown", ds, n, st, key, val] =>
    match n.toNat?, parseV1 val with
    | some n, some v => some { i' with rdowns := i'.rdowns ++ [(dec ds, n, dec st, dec key, v)] }
    | _, _ => none
  | _ => none

/-- Which of the proposed repairs (`Model.Convert.Fixes`) the code under test contains.  All `false`
= /repo as it is.  Flip a flag here when the corresponding patch lands; for a trial run against a
patched worktree set `VERIF_C38_FIXED=yamlf,items,deprecated,renderMap,condValue` (any subset). -/
def fixesDefault : Fixes := { yamlf := true, items := true, deprecated := true, renderMap := true, condValue := true }

def fixesFromEnv (v : Option String) : Fixes :=
  match v with
  | none => fixesDefault
  | some s =>
    let l := s.splitOn ","
    { yamlf := fixesDefault.yamlf || l.contains "yamlf", items := fixesDefault.items || l.contains "items",
      deprecated := fixesDefault.deprecated || l.contains "deprecated",
      renderMap := fixesDefault.renderMap || l.contains "renderMap",
      condValue := fixesDefault.condValue || l.contains "condValue" }

def units : List (Nat × String × Nat) := Gen.Convert.memUnits
def depKeys : List Key := Gen.Convert.depKeys.map parseKey

def findRow (gf : String) : Option Row :=
  match gf.splitOn "." with
  | [g, f] => table.find? (fun r => r.group == g && r.field == f)
  | _ => none

/-! ## rules: the model's reading of a case -/

def dsFields (i : In) (ds : String) : List (String × V1) :=
  (i.rsets.filter (·.1 == ds)).map (·.2)

def samplerKeyOf (x : Ext) (kvs : List (String × V1)) : Option String :=
  kvs.findSome? fun kv => match kv.2 with
    | .str s => if x.lower kv.1 == "sampler" then some s else none
    | _ => none

def dsNames (i : In) : List String :=
  ((i.rsets.map (·.1)) ++ (i.rrules.map (·.1)) ++ (i.rconds.map (·.1)) ++ (i.rdowns.map (·.1))).eraseDups

def dsPresent (i : In) (ds : String) : Bool :=
  ds == "-" || (samplerKeyOf i.ext (dsFields i ds)).isSome

def dsType (i : In) (ds : String) : String :=
  (samplerKeyOf i.ext (dsFields i ds)).getD "DeterministicSampler"

def ruleIdx (i : In) (ds : String) : List Nat :=
  (((i.rrules.filter (·.1 == ds)).map (·.2.1)) ++ ((i.rconds.filter (·.1 == ds)).map (·.2.1)) ++
    ((i.rdowns.filter (·.1 == ds)).map (·.2.1))).eraseDups

def ruleFields (i : In) (ds : String) (n : Nat) : List (String × V1) :=
  (i.rrules.filter (fun r => r.1 == ds && r.2.1 == n)).map (·.2.2)

def condIdx (i : In) (ds : String) (n : Nat) : List Nat :=
  ((i.rconds.filter (fun r => r.1 == ds && r.2.1 == n)).map (·.2.2.1)).eraseDups

def condFields (i : In) (ds : String) (n m : Nat) : List (String × V1) :=
  (i.rconds.filter (fun r => r.1 == ds && r.2.1 == n && r.2.2.1 == m)).map (·.2.2.2)

def downOf (i : In) (ds : String) (n : Nat) : Option (String × List (String × V1)) :=
  match i.rdowns.find? (fun r => r.1 == ds && r.2.1 == n) with
  | none => none
  | some r =>
    let st := r.2.2.1
    some (st, (i.rdowns.filter (fun q => q.1 == ds && q.2.1 == n && q.2.2.1 == st)).map (·.2.2.2))

/-- the v2 name of a downstream sampler written `st` in v1 (json tag = lower case) -/
def downYaml (x : Ext) (st : String) : Option String :=
  (lookupField sfields "@down" (x.lower st)).map (·.yaml)

def anyError (x : Ext) (struct : String) (kvs : List (String × V1)) : Bool :=
  kvs.any fun kv => convField x sfields struct kv.1 kv.2 == .error

/-- does `convertRulesToNewConfig` get through (no unknown sampler type, no JSON type error)? -/
def rulesConvertOK (i : In) : Bool :=
  let x := i.ext
  let all := ("-" :: dsNames i).eraseDups
  all.all fun ds =>
    if !dsPresent i ds then true else
    let st := dsType i ds
    let extra : List (String × V1) :=
      if ds == "-" then ((dsNames i).filter (· != "-")).map (fun n => (n, V1.tbl [])) else []
    v1SamplerTypes.contains st && !anyError x st (dsFields i ds ++ extra) &&
    (if st == "RulesBasedSampler" then
      (ruleIdx i ds).all fun n =>
        !anyError x "@rule" (ruleFields i ds n) &&
        (condIdx i ds n).all (fun m => !anyError x "@cond" (condFields i ds n m)) &&
        (match downOf i ds n with
         | none => true
         | some (st2, kvs) => match downYaml x st2 with
           | some y => !anyError x y kvs
           | none => true)
     else true)

/-- a condition without a `value` key is written as `Value: null`, which the rules validator refuses -/
def hasValuelessCond (i : In) : Bool :=
  (dsNames i).any fun ds =>
    dsPresent i ds && dsType i ds == "RulesBasedSampler" &&
    (ruleIdx i ds).any fun n => (condIdx i ds n).any fun m =>
      !(condFields i ds n m).any (fun kv => i.ext.lower kv.1 == "value")

def optRV : Option RV → String
  | some v => renderRV v
  | none => "no-such-field"

/-- Reading of a rules case.  `fv struct kvs yaml` gives the value of a v2 field from the v1
(key, value) pairs of its table, `dn` the v2 name of a nested sampler written `st` in v1; the
*model* instantiates them with the converter's mechanism (`fieldValue`: lower-cased key = JSON tag),
the *monitor* with the documented v1 → v2 correspondence (`specValue`: same name up to case, plus
`ClearFrequencySec` → `ClearFrequency`), which does not look at the JSON tags at all. -/
def rgetWith (fv : String → List (String × V1) → String → Option RV) (dn : String → Option String)
    (i : In) (op : List String) : String :=
  match op with
  | ["rget", ds, what] =>
    let ds := dec ds
    if what == "@present" then (if dsPresent i ds then "b:true" else "b:false")
    else if !dsPresent i ds then "absent"
    else if what == "@type" then "s:" ++ enc (dsType i ds)
    else if what == "@rules" then
      (if dsType i ds == "RulesBasedSampler" then s!"i:{(ruleIdx i ds).length}" else "i:0")
    else optRV (fv (dsType i ds) (dsFields i ds) what)
  | ["rgetrule", ds, n, what] =>
    let ds := dec ds
    match n.toNat? with
    | none => "bad-op"
    | some n =>
      if !dsPresent i ds || dsType i ds != "RulesBasedSampler" || !(ruleIdx i ds).contains n then "absent"
      else if what == "@conds" then s!"i:{(condIdx i ds n).length}"
      else optRV (fv "@rule" (ruleFields i ds n) what)
  | ["rgetcond", ds, n, m, what] =>
    let ds := dec ds
    match n.toNat?, m.toNat? with
    | some n, some m =>
      if !dsPresent i ds || dsType i ds != "RulesBasedSampler" || !(condIdx i ds n).contains m then "absent"
      else optRV (fv "@cond" (condFields i ds n m) what)
    | _, _ => "bad-op"
  | ["rgetdown", ds, n, what] =>
    let ds := dec ds
    match n.toNat? with
    | none => "bad-op"
    | some n =>
      if !dsPresent i ds || dsType i ds != "RulesBasedSampler" then "absent" else
      match downOf i ds n with
      | none => "absent"
      | some (st, kvs) =>
        match dn st with
        | none => "absent"
        | some y => if what == "@type" then "s:" ++ enc y else optRV (fv y kvs what)
  | _ => "bad-op"

def rgetModel (i : In) (op : List String) : String :=
  rgetWith (fun st kvs y => fieldValue i.ext sfields st kvs y) (downYaml i.ext) i op

/-! the property's own reading of a v1 rules table (used by the monitor only) -/

/-- the documented v1 spelling(s) of the v2 field `yaml`: the same name in any case; a
`ClearFrequency` could also be given as integer seconds under `ClearFrequencySec` -/
def specKeyMatches (x : Ext) (key yaml : String) : Bool :=
  x.lower key == x.lower yaml || (x.lower key == "clearfrequencysec" && yaml == "ClearFrequency")

/-- the v1 value as the v2 value of a field of the given kind (durations: integer seconds under
`ClearFrequencySec` / `AdjustmentInterval`, or a duration text) -/
def specConv (x : Ext) (kind lkey : String) (v : V1) : Option RV :=
  if kind == "dur" then
    match v with
    | .int n => if lkey == "clearfrequencysec" || lkey == "adjustmentinterval" then some (.dur (n * 1000000000)) else none
    | .str s => (x.dur s).map .dur
    | _ => none
  else convKind x kind (.raw v)

/-- (value the v2 field must have, was it given in v1) -/
def specValue' (x : Ext) (struct : String) (kvs : List (String × V1)) (yaml : String) : Option (RV × Bool) :=
  match sfields.find? (fun f => f.struct == struct && f.yaml == yaml) with
  | none => none
  | some f =>
    let hit := kvs.findSome? fun kv =>
      if specKeyMatches x kv.1 yaml then specConv x f.kind (x.lower kv.1) kv.2 else none
    some (applyRDefault f (hit.getD (zeroOfKind f.kind)), hit.isSome)

def specValue (x : Ext) (struct : String) (kvs : List (String × V1)) (yaml : String) : Option RV :=
  (specValue' x struct kvs yaml).map (·.1)

def specDown (x : Ext) (st : String) : Option String :=
  (sfields.find? (fun f => f.struct == "@down" && x.lower f.yaml == x.lower st)).map (·.yaml)

def rgetSpec (i : In) (op : List String) : String :=
  rgetWith (specValue i.ext) (specDown i.ext) i op

/-- was the field read by `op` given a value in the v1 file; and the name `<Sampler>.<Field>` for signatures -/
def rgetGiven (i : In) (op : List String) : Bool × String × String :=
  let x := i.ext
  let g (st : String) (kvs : List (String × V1)) (y : String) : Bool × String × String :=
    (((specValue' x st kvs y).map (·.2)).getD false,
      (if st == "@rule" then "Rule" else if st == "@cond" then "Condition" else st) ++ "." ++ y,
      optRV (specValue x st [] y))
  match op with
  | ["rget", ds, what] => g (dsType i (dec ds)) (dsFields i (dec ds)) what
  | ["rgetrule", ds, n, what] => g "@rule" (ruleFields i (dec ds) (n.toNat?.getD 0)) what
  | ["rgetcond", ds, n, m, what] => g "@cond" (condFields i (dec ds) (n.toNat?.getD 0) (m.toNat?.getD 0)) what
  | ["rgetdown", ds, n, what] =>
    match downOf i (dec ds) (n.toNat?.getD 0) with
    | some (st, kvs) => match specDown x st with
      | some y => g y kvs what
      | none => (false, "-." ++ what, "-")
    | none => (false, "-." ++ what, "-")
  | _ => (false, "-", "-")

/-! ## model step -/

structure St where
  inp : In := {}
  converted : Option FileOut := none      -- config
  rconv : Option Bool := none             -- rules: conversion got through
  loaded : Bool := false

def cfgStep (fx : Fixes) (s : St) (op : List String) (exts : List (List String)) : St × Option String :=
  match s.inp.record op exts with
  | some i => ({ s with inp := i }, none)
  | none =>
  let x := s.inp.ext
  match op with
  | ["convert"] =>
    if s.inp.kind == "rules" then
      let ok := rulesConvertOK s.inp
      ({ s with rconv := some ok }, some (if ok then "exit=0 kind=converted" else "exit=1 kind=aborted"))
    else
      let fo := convertFile fx x units table depKeys Gen.Convert.depGroups s.inp.data
      ({ s with converted := some fo }, some (match fo with
        | .aborted => "exit=1 kind=aborted"
        | .dump => "exit=0 kind=dump"
        | .rows _ => "exit=0 kind=converted"))
  | ["load"] =>
    if s.inp.kind == "rules" then
      match s.rconv with
      | none => (s, some "not-converted")
      | some ok =>
        let l := ok && (fx.condValue || !hasValuelessCond s.inp)
        ({ s with loaded := l }, some (if l then "ok" else "fail"))
    else
      match s.converted with
      | none => (s, some "not-converted")
      | some fo =>
        let l := loads x table fo
        ({ s with loaded := l }, some (if l then "ok" else "fail"))
  | ["get", gf] =>
    if !s.loaded then (s, some "unloaded") else
    match findRow gf with
    | none => (s, some "*")       -- a field the template has no action for: not the model's business
    | some r => (s, some (renderEff (effective x r (convertRow fx x units s.inp.data r))))
  | "rget" :: _ | "rgetrule" :: _ | "rgetcond" :: _ | "rgetdown" :: _ =>
    if !s.loaded then (s, some "unloaded") else (s, some (rgetModel s.inp op))
  | _ => (s, some "bad-op")

/-! ## monitor: the property's conclusion on the implementation's own observations -/

structure MSt where
  inp : In := {}
  conv : String := ""            -- observation of `convert`
  loadObs : String := ""

def fail (sig what : String) : Fail := { prop := "C38", sig := sig, what := what }

def valueHelper : Helper → Bool
  | .nonDefaultOnly | .nonEmptyString | .nonZero | .secondsToDuration | .memorysize | .choice
  | .renderStringarray | .renderMap => true
  | _ => false

def kindName : FType → String
  | .duration => "duration" | .int => "int" | .percentage => "int" | .memorysize => "memorysize"
  | .string | .hostport | .url => "string" | .stringarray => "list" | _ => "other"

/-- does the condition of a `conditional` row hold for the v1 file (the documented meaning)? -/
def condHolds (x : Ext) (d : Data) : Cond → Bool
  | .eq k v => match fetch d k with | some a => fmtV x a == v | none => false
  | .nostar k => match fetch d k with
    | some (.strs l) => !l.isEmpty && !l.contains "*"
    | _ => false
  | .nonempty k => match fetch d k with | some (.str s) => s != "" | some _ => true | none => false
  | .bad => false

def allV1Strings (d : Data) : List String :=
  d.foldl (fun acc e => match e.2 with
    | .val (.str s) => s :: acc
    | .grp kv => kv.foldl (fun a p => match p.2 with | .str s => s :: a | _ => a) acc
    | _ => acc) []

def allV1Items (d : Data) : List String :=
  d.foldl (fun acc e => match e.2 with
    | .val (.strs l) => l ++ acc
    | .grp kv => kv.foldl (fun a p => match p.2 with | .strs l => l ++ a | _ => a) acc
    | _ => acc) []

def loadErrs (exts : List (List String)) : List String :=
  exts.filterMap fun e => match e with
    | ["loaderr", c, f] => some (c ++ ":" ++ f)
    | _ => none

def loadErrPairs (exts : List (List String)) : List (String × String) :=
  exts.filterMap fun e => match e with
    | ["loaderr", c, f] => some (c, dec f)
    | _ => none

def cfgMon (m : MSt) (op : List String) (exts : List (List String)) (obs : Option String) : MSt × List Fail :=
  match m.inp.record op exts with
  | some i =>
    -- the assumption the repaired `yamlf` rests on (`coreSchema`), checked on every string of the case
    let bad := exts.filterMap fun e => match e with
      | ["yaml", s, "=", t] => if isPlainFixed (dec s) && t != "str" then some (dec s) else none
      | ["yaml", s, "=", "strx", _] => if isPlainFixed (dec s) then some (dec s) else none
      | _ => none
    ({ m with inp := i }, bad.map fun s =>
      fail "C38:assumption:yaml-core-schema" s!"yaml.v3 reads the bare word {s} as a non-string although it is letters+digits and not a reserved word")
  | none =>
  let x := m.inp.ext
  let o := obs.getD "-"
  let rules := m.inp.kind == "rules"
  match op with
  | ["convert"] =>
    let m' := { m with conv := o }
    if o.startsWith "exit=0" then (m', []) else
    if rules then (m', [fail "C38:rules:converter-aborted" s!"the rules converter did not produce a file ({o})"]) else
    let mapKey := table.any fun r => r.helper == .renderMap &&
      (match AList.get m.inp.data r.field with | some _ => true | none => false)
    (m', [fail (if mapKey then "C38:converter-aborted:map-setting-present" else "C38:converter-aborted:other")
      s!"the converter exited without a v2 file ({o}) on a valid v1 config"])
  | ["load"] =>
    let m' := { m with loadObs := o }
    if o == "ok" || !(m.conv.startsWith "exit=0") then (m', []) else
    let errs := ",".intercalate (loadErrs exts)
    if rules then
      if hasValuelessCond m.inp && (loadErrs exts).any (·.startsWith "nil-value") then
        (m', [fail "C38:rules:valueless-condition-null" s!"converted rules refused by the v2 loader ({errs}): a condition without a value (exists / not-exists) is written as `Value: null`"])
      else (m', [fail ("C38:rules:output-invalid:" ++ ((loadErrs exts).headD "-")) s!"converted rules refused by the v2 loader ({errs})"])
    else if m.conv == "exit=0 kind=dump" then
      (m', [fail "C38:deprecated-key-skips-conversion" s!"a v1 key of a since-deprecated field is present: the converter wrote the v1 data back unconverted; the v2 loader refuses it ({errs})"])
    else
      let items := allV1Items m.inp.data
      let strs := allV1Strings m.inp.data
      let sigs : List (String × String) := (loadErrPairs exts).map fun (c, f) =>
        let v1 := (findRow f).bind fun r => fetch m.inp.data r.key
        if c == "not-a-string" || c == "nil-value" then
          match v1 with
          | some (.str s) => if x.yaml s != .str then
              ("C38:string-unquoted:retyped", s!"{f}: the v1 string is written without quotes and read back as a non-string")
            else ("C38:output-invalid:" ++ c ++ ":" ++ f, s!"{f}: refused by the v2 validator")
          | _ => ("C38:output-invalid:" ++ c ++ ":" ++ f, s!"{f}: refused by the v2 validator")
        else if c == "non-string-item" then
          ("C38:list-item-unquoted:retyped", s!"{f}: a list item is written without quotes and read back as a non-string")
        else if c == "yaml-syntax" then
          if items.any (fun s => x.yaml s == .err) then
            ("C38:list-item-unquoted:unparseable", "a list item (e.g. \"*\") is written without quotes and the output is not YAML")
          else if strs.any (fun s => x.yaml s == .err) then
            ("C38:string-unquoted:unparseable", "a string is written without quotes and the output is not YAML")
          else ("C38:output-invalid:yaml-syntax", "the output is not YAML")
        else ("C38:output-invalid:" ++ c ++ ":" ++ f, s!"{f}: refused by the v2 validator ({c})")
      let sigs := if sigs.isEmpty then [("C38:output-invalid:unknown", "refused by the v2 loader")] else sigs
      let uniq := sigs.foldl (fun acc p => if acc.any (·.1 == p.1) then acc else acc ++ [p]) []
      (m', uniq.map fun p => fail p.1 s!"converted config refused by the v2 loader ({errs}): {p.2}")
  | ["get", gf] =>
    if o == "unloaded" then (m, []) else
    match findRow gf with
    | none => (m, [])
    | some r =>
      if valueHelper r.helper then
        match fetch m.inp.data r.key with
        | some v =>
          let e := expected x r v
          if e == .invalid || renderEff e == o then (m, []) else
          if isZeroEff r.ftype e && o == renderEff r.ldef then
            (m, [fail ("C38:explicit-zero-reverts-to-default:" ++ kindName r.ftype)
              s!"{gf}: v1 value {renderEff e} is explicit, the loaded v2 config has the default {o}"])
          else (m, [fail ("C38:value-changed:" ++ gf) s!"{gf}: v1 value {renderEff e}, loaded v2 value {o}"])
        | none =>
          if o == renderEff r.ldef then (m, []) else
          (m, [fail ("C38:default-changed:" ++ gf) s!"{gf}: not set in v1, loaded v2 value {o}, loader default {renderEff r.ldef}"])
      else if r.helper == .conditional then
        let e := if condHolds x m.inp.data r.cond then Eff.bool true else r.ldef
        if renderEff e == o then (m, []) else
        (m, [fail ("C38:conditional-wrong:" ++ gf) s!"{gf}: expected {renderEff e}, loaded {o}"])
      else (m, [])
  | "rget" :: _ | "rgetrule" :: _ | "rgetcond" :: _ | "rgetdown" :: _ =>
    if o == "unloaded" then (m, []) else
    let e := rgetSpec m.inp op
    if e == o then (m, []) else
    let (given, name, dflt) := rgetGiven m.inp op
    -- a v1 setting whose v2 field came back at its zero/default = lost; anything else = changed
    let lost := given && o == dflt
    let what := op.getLast?.getD "-"
    if what.startsWith "@" then
      (m, [fail ("C38:rules:structure-changed:" ++ what) s!"{" ".intercalate op}: the v1 rules say {e}, the loaded v2 rules have {o}"])
    else if lost then
      (m, [fail ("C38:rules:value-lost:" ++ name) s!"{" ".intercalate op}: the v1 rules say {e}, the loaded v2 rules have only the default {o}"])
    else
      (m, [fail ("C38:rules:value-changed:" ++ name) s!"{" ".intercalate op}: the v1 rules say {e}, the loaded v2 rules have {o}"])
  | _ => (m, [])

def comp (fx : Fixes) : Component St MSt where
  init := fun args => { inp := { kind := (kv args "kind").getD "config" } }
  step := cfgStep fx
  minit := fun args => { inp := { kind := (kv args "kind").getD "config" } }
  mon := cfgMon

def main : IO Unit := do
  let fx := fixesFromEnv (← IO.getEnv "VERIF_C38_FIXED")
  runLoop (comp fx) (← IO.getStdin)
