import Oracle.Lib
import Refinery.Model.SamplerSelect
/-
Oracle for sampler selection (C14).

case header:  prefix=<s> tid=<s,s> pid=<s,s> validate=<0|1> samplers=<name~kind~rate~f,f;…>
ops  (every string percent-encoded by the kit, `%` = empty):
  classify <key>                                   obs: 0 | 1
  selkey <key> <env> <dataset>                     obs: <selector>
  lookup <name>                                    obs: <kind>:<rate> kf=<fields>
  span <msgp|json|otlp> <key> <env|!> <dataset> <k~s~v,k~i~n,…>
        obs: span tid= root= key= env= ds= memo= missing= late= | event | nothing | nosampler
  reload <name~kind~rate~f,f;…>                    obs: reloaded 0 | reloaded 1     (rules file rewritten, Reload())
  decide <tid>                                     obs: sel= rate= reason= kf=<all>|<nonroot> get=<f~T~v,…;…> | notrace
        ext samplekey = <key>      (the sampler's key string, not modelled)
-/
open Refinery Refinery.Model.SamplerSelect Oracle

/-! ### tokens -/

def hexv (c : Char) : Nat :=
  if '0' ≤ c ∧ c ≤ '9' then c.toNat - 48
  else if 'A' ≤ c ∧ c ≤ 'F' then c.toNat - 55
  else if 'a' ≤ c ∧ c ≤ 'f' then c.toNat - 87 else 0

def decChars : List Char → Str
  | '%' :: a :: b :: t => (hexv a * 16 + hexv b) :: decChars t
  | c :: t => c.toNat :: decChars t
  | [] => []

/-- kit.Dec -/
def dec (s : String) : Str := if s == "%" then [] else decChars s.toList

def hexd (n : Nat) : Char := "0123456789ABCDEF".toList.getD n '?'

def safeByte (c : Nat) : Bool :=
  (97 ≤ c && c ≤ 122) || (65 ≤ c && c ≤ 90) || (48 ≤ c && c ≤ 57) || c == 46 || c == 95 || c == 58 || c == 47 || c == 43 || c == 45

/-- kit.Enc -/
def enc (s : Str) : String :=
  if s.isEmpty then "%" else
  String.ofList (s.flatMap fun c => if safeByte c then [Char.ofNat c] else ['%', hexd (c / 16), hexd (c % 16)])

def strLe : Str → Str → Bool
  | [], _ => true
  | _ :: _, [] => false
  | a :: s, b :: t => if a < b then true else if b < a then false else strLe s t

def sortU (l : List Str) : List Str := (l.mergeSort strLe).eraseDups

def encList (l : List Str) : String := if l.isEmpty then "-" else ",".intercalate (l.map enc)

def decList (s : String) : List Str := if s == "-" || s == "" then [] else (s.splitOn ",").map dec

def parseSampler (s : String) : Option (Str × Sampler) :=
  match s.splitOn "~" with
  | [n, k, r, fs] =>
    let kind? : Option Kind := if k == "det" then some .det else if k == "dyn" then some .dyn else if k == "rules" then some .rules else none
    match kind?, r.toNat? with
    | some kind, some rate => some (dec n, { kind := kind, rate := rate, fields := decList fs })
    | _, _ => none
  | _ => none

def parseRules (ss : String) : Rules := if ss == "-" then [] else (ss.splitOn ";").filterMap parseSampler

def parseCfg (args : List String) : Cfg :=
  { pfx := dec ((kv args "prefix").getD "%"), tids := decList ((kv args "tid").getD "-"), pids := decList ((kv args "pid").getD "-"),
    rules := parseRules ((kv args "samplers").getD "-"), validate := (kv args "validate") == some "1" }

def parseEntry (s : String) : Option (Str × Val) :=
  match s.splitOn "~" with
  | [k, "s", v] => some (dec k, .str (dec v))
  | [k, "i", v] => v.toNat?.map fun n => (dec k, .int n)
  | _ => none

def parsePayload (s : String) : Option (List (Str × Val)) :=
  if s == "-" then some [] else (s.splitOn ",").mapM parseEntry

def parsePath (s : String) : Option Path :=
  if s == "msgp" then some .msgp else if s == "json" then some .json else if s == "otlp" then some .otlp else none

def parseOp : List String → Option Op
  | ["classify", k] => some (.classify (dec k))
  | ["selkey", k, e, d] => some (.selkey (dec k) (dec e) (dec d))
  | ["lookup", n] => some (.lookup (dec n))
  | "span" :: p :: k :: e :: d :: pl :: _slug => do    -- the slug the auth API also reports is not an input of the selection
    let path ← parsePath p
    let data ← parsePayload pl
    pure (.span path (dec k) (if e == "!" then none else some (dec e)) (dec d) data)
  | ["decide", t] => some (.decide (dec t))
  | ["reload", ss] => some (.reload (parseRules ss))
  | _ => none

/-! ### printing the model's answers exactly as the harness prints the implementation's -/

def b01 (b : Bool) : String := if b then "1" else "0"

def kindStr : Kind → String
  | .det => "det" | .dyn => "dyn" | .rules => "rules"

def fmtVal : Option Val → String
  | none => "n~"
  | some (.str s) => "s~" ++ enc s
  | some (.int n) => "i~" ++ toString n

def reasonOf (s : Sampler) (hit : Bool) : String × Nat :=
  match s.kind with
  | .det => (if s.rate = 1 then "deterministic/always" else "deterministic/chance", s.rate)
  | .dyn => ("dynamic", s.rate)
  | .rules => if hit then (s!"rules/trace/s{s.rate}-has", s.rate) else (s!"rules/trace/s{s.rate}-else", s.rate + 100)

def fmtGets (g : List (Str × Option Val)) : String :=
  let names := sortU (g.map (·.1))
  if names.isEmpty then "-" else
  ",".intercalate (names.map fun f => enc f ++ "~" ++ fmtVal ((g.find? (·.1 == f)).bind (·.2)))

def fmtOut : Out → String
  | .bool b => b01 b
  | .name s => enc s
  | .looked s fields =>
    (match s with
     | some s => s!"{kindStr s.kind}:{s.rate}"
     | none => "none:0") ++ " kf=" ++ encList (sortU fields)
  | .nosampler => "nosampler"
  | .nothing => "nothing"
  | .event => "event"
  | .panic => "panic"
  | .span tid root key env ds memo missing late =>
    s!"span tid={enc tid} root={b01 root} key={enc key} env={enc env} ds={enc ds} memo={encList (sortU memo)} missing={encList (sortU missing)} late={b01 late}"
  | .notrace => "notrace"
  | .reloaded b => "reloaded " ++ b01 b
  | .decision d =>
    let (reason, rate) := reasonOf d.sampler d.hit
    s!"sel={enc d.sel} rate={rate} reason={reason} kf={encList (sortU d.all)}|{encList (sortU d.nonRoot)} get={";".intercalate (d.gets.map fmtGets)}"

def mStep (st : Cfg × St) (op : List String) (_ : List (List String)) : (Cfg × St) × Option String :=
  match parseOp op with
  | none => (st, some "bad-op")
  | some o =>
    let (s', out) := step st.1 st.2 o
    ((st.1, s'), some (fmtOut out))

/-! ### monitor: the property's conclusion, evaluated on the implementation's answers only -/

/-- what the implementation reported when it ingested a span -/
structure SeenSpan where
  path : String
  key : Str
  env : Str
  ds : Str
  root : Bool
  data : List (Str × Val)       -- what the client sent (op input)
  ingest : List Str             -- memo ∪ missing as reported: the fields ingestion selected
  epoch : Nat                   -- number of reloads the implementation had accepted when the span came in

structure Mon where
  cfg : Cfg                     -- `rules` = the rules of the last reload the implementation reported as accepted
  reloads : Nat := 0
  traces : List (Str × List SeenSpan) := []

def specName (c : Cfg) (key env ds : Str) : Str :=
  if specLegacyB key then (if c.pfx.isEmpty then ds else c.pfx ++ [46] ++ ds) else env

def specSampler (c : Cfg) (name : Str) : Option Sampler :=
  match c.rules.find? (·.1 == name) with
  | some e => some e.2
  | none => (c.rules.find? (·.1 == defaultName)).map (·.2)

def keyClass (k : Str) : String := if k.length = 32 then "len32" else if k.length = 64 then "len64" else "other-length"

def obsKV (obs : String) (k : String) : Option String := kv (splitLine obs) k

def sameSet (a b : List Str) : Bool := sortU a == sortU b

def uniqueKeys (d : List (Str × Val)) : Bool := (d.map (·.1)).eraseDups.length == d.length

def parseGot (s : String) : Option (Str × Option Val) :=
  match s.splitOn "~" with
  | [k, "n", _] => some (dec k, none)
  | [k, "s", v] => some (dec k, some (.str (dec v)))
  | [k, "i", v] => v.toNat?.map fun n => (dec k, some (.int n))
  | _ => none

def samplerMatches (s : Sampler) (rate : Nat) (reason : String) : Bool :=
  match s.kind with
  | .det => rate == s.rate && reason.startsWith "deterministic/"
  | .dyn => rate == s.rate && reason == "dynamic"
  | .rules => (rate == s.rate && reason == s!"rules/trace/s{s.rate}-has") || (rate == s.rate + 100 && reason == s!"rules/trace/s{s.rate}-else")

def mon (m : Mon) (op : List String) (_ : List (List String)) (obs : Option String) : Mon × List Fail :=
  let fail (sig what : String) : Fail := { prop := "C14", sig := sig, what := what }
  let c := m.cfg
  match parseOp op, obs with
  | some (.classify k), some o =>
    let want := specLegacyB k
    if o == b01 want then (m, [])
    else (m, [fail s!"C14:key-class:{if want then "classic-rejected" else "nonclassic-accepted"}:{keyClass k}" s!"key {enc k} classified {o}"])
  | some (.selkey k e d), some o =>
    if o == enc (specName c k e d) then (m, [])
    else (m, [fail s!"C14:selector:{if specLegacyB k then "classic-key" else "env-key"}" s!"selector for ({enc k},{enc e},{enc d}) is {o}, expected {enc (specName c k e d)}"])
  | some (.lookup n), some o =>
    let named := (c.rules.find? (·.1 == n)).isSome
    let want := match specSampler c n with
      | some s => s!"{kindStr s.kind}:{s.rate} kf={encList (sortU (samplingFields s))}"
      | none => "none:0 kf=-"
    if o == want then (m, [])
    else if m.reloads > 0 then
      (m, [fail "C14:wrong-sampler-for-destination:after-reload"
             s!"after {m.reloads} reload(s): destination {enc n} ({if named then "own entry" else "no entry, __default__"}) gets {o}, the rules in force give {want}"])
    else (m, [fail s!"C14:lookup:{if named then "named" else "default"}" s!"lookup {enc n} gave {o}, expected {want}"])
  | some (.reload r), some o =>
    if o == "reloaded 1" then ({ m with cfg := { m.cfg with rules := r }, reloads := m.reloads + 1 }, []) else (m, [])
  | some (.span path key env ds data), some o =>
    if !o.startsWith "span " then (m, []) else
    let g (k : String) : Str := dec ((obsKV o k).getD "%")
    let memo := decList ((obsKV o "memo").getD "-")
    let missing := decList ((obsKV o "missing").getD "-")
    let pathS := match path with | .msgp => "msgp" | .json => "json" | .otlp => "otlp"
    -- the triple the request must be handled with
    let wantEnv : Str := if key.isEmpty || specLegacyB key then [] else env.getD []
    let f1 := if g "key" == key && g "env" == wantEnv && g "ds" == ds then []
      else if g "env" != wantEnv then
        [fail "C14:wrong-sampler-for-destination:environment-from-auth"
           s!"key {enc key}: the auth API names the environment {enc wantEnv}, the span is handed to the collector (and its sampler and key fields selected) with environment {enc (g "env")}"]
      else [fail "C14:ingest-triple" s!"span handed to the collector with ({o}) for request ({enc key},{enc wantEnv},{enc ds})"]
    -- the fields ingestion must select: those of the sampler configured for the destination
    let f2 := if path == .otlp then [] else
      match specSampler c (specName c key wantEnv ds) with
      | none => []
      | some s =>
        match keyFields (samplingFields s) with
        | none => []
        | some (all, _) =>
          if sameSet (memo ++ missing) all then []
          else [fail s!"C14:ingest-fields:{if specLegacyB key then "classic-key" else "env-key"}"
                  s!"ingestion selected fields {encList (sortU (memo ++ missing))}, sampler for {enc (specName c key wantEnv ds)} reads {encList (sortU all)}"]
    let seen : SeenSpan := { path := pathS, key := g "key", env := g "env", ds := g "ds", root := (obsKV o "root") == some "1", data := data, ingest := memo ++ missing, epoch := m.reloads }
    let tid := g "tid"
    let late := (obsKV o "late") == some "1"
    let traces := if late then m.traces else
      match m.traces.find? (·.1 == tid) with
      | some _ => m.traces.map fun e => if e.1 == tid then (e.1, e.2 ++ [seen]) else e
      | none => m.traces ++ [(tid, [seen])]
    ({ m with traces := traces }, f1 ++ f2)
  | some (.decide tid), some o =>
    if !o.startsWith "sel=" then (m, []) else
    let m' := { m with traces := m.traces.filter (·.1 != tid) }
    match m.traces.find? (·.1 == tid) with
    | none => (m', [])
    | some (_, spans) =>
      match spans with
      | [] => (m', [])
      | sp0 :: _ =>
        let uniform := spans.all fun sp => sp.key == sp0.key && sp.env == sp0.env && sp.ds == sp0.ds
        let rate := ((obsKV o "rate").bind String.toNat?).getD 0
        let reason := (obsKV o "reason").getD ""
        let kf := ((obsKV o "kf").getD "-|-").splitOn "|"
        let kfAll := decList (kf.getD 0 "-")
        let kfNonRoot := decList (kf.getD 1 "-")
        let gets := ((obsKV o "get").getD "").splitOn ";"
        let name := specName c sp0.key sp0.env sp0.ds
        let cls := if specLegacyB sp0.key then "classic-key" else "env-key"
        let named := (c.rules.find? (·.1 == name)).isSome
        -- (1) the sampler configured for the destination decides
        let f1 := if !uniform then [] else
          match specSampler c name with
          | none => []
          | some s =>
            (if samplerMatches s rate reason then []
             else [fail (if m.reloads > 0 then "C14:wrong-sampler-for-destination:after-reload" else s!"C14:wrong-sampler:{cls}:{if named then "named" else "default"}")
                     s!"trace {enc tid} ({enc sp0.key},{enc sp0.env},{enc sp0.ds}) decided with rate={rate} reason={reason}; configured sampler for {enc name} is {kindStr s.kind}:{s.rate}"]) ++
            (match keyFields (samplingFields s) with
             | some (all, nonRoot) =>
               if sameSet all kfAll && sameSet nonRoot kfNonRoot then []
               else [fail "C14:sampler-keyfields" s!"sampler used reads {encList (sortU kfAll)}|{encList (sortU kfNonRoot)}, configured sampler reads {encList (sortU all)}|{encList (sortU nonRoot)}"]
             | none => [])
        -- (2) ingestion selected the fields of the sampler that decides
        let f2 := if !uniform then [] else
          spans.filterMap fun sp =>
            if sp.path == "otlp" || sp.epoch != m.reloads || sameSet sp.ingest kfAll then none
            else some (fail "C14:ingest-decide-disagree" s!"trace {enc tid}: ingestion selected {encList (sortU sp.ingest)}, deciding sampler reads {encList (sortU kfAll)}")
        -- (3) every field the deciding sampler reads on a span is available with the value the client sent
        let f3 := (spans.zip gets).flatMap fun (sp, gs) =>
          if !uniqueKeys sp.data then [] else
          let got := if gs == "-" || gs == "" then [] else (gs.splitOn ",").filterMap parseGot
          let reads := if sp.root then kfAll else kfNonRoot
          (sortU reads).filterMap fun f =>
            match first sp.data f with
            | none => none
            | some v =>
              match got.find? (·.1 == f) with
              | some (_, some v') => if v' == v then none else
                  some (fail "C14:field-wrong-value" s!"trace {enc tid}: field {enc f} read as {fmtVal (some v')}, client sent {fmtVal (some v)}")
              | _ =>
                let idf := c.tids.contains f || c.pids.contains f
                some (fail s!"C14:field-unavailable:{if idf then "id-field" else "other"}"
                        s!"trace {enc tid}: sampler reads {enc f}, the {sp.path} span carries {enc f}={fmtVal (some v)}, but the sampler gets nil (ingestion memo/missing: {encList (sortU sp.ingest)})")
        (m', f1 ++ f2 ++ f3)
  | _, _ => (m, [])

def comp : Component (Cfg × St) Mon where
  init := fun args => (parseCfg args, {})
  step := mStep
  minit := fun args => { cfg := parseCfg args }
  mon := mon

def main : IO Unit := do runLoop comp (← IO.getStdin)
