import Oracle.Lib
import Refinery.Model.TTL
/-
Oracle for `generics.SetWithTTL` / `generics.MapWithTTL` (C32).
case args: kind=set|map ttl=<ns>
ops:  adv <ns> | set <k> <v> | del <k> | get <k> | gset <k> <v> (get k overlapped by set k v) | keys | values | length | probe
`probe` asks, at one instant and in this order: get for every key of the universe (no cleanup),
then length, keys, values;   obs: g=<k:v,…> n=<len> k=<keys> v=<values>
-/
open Refinery.Model.TTL Oracle

def optStr : Option Nat → String
  | none => "none"
  | some v => s!"some:{v}"

def probeStr (s : St) (u : Nat) : String :=
  let gs := (List.range u).filterMap fun k => (lookup s k).map fun v => s!"{k}:{v}"
  let g := if gs.isEmpty then "-" else ",".intercalate gs
  s!"g={g} n={length s} k={natList (sortedKeys s)} v={natList (sortedValues s)}"

def ttlStep (su : St × Nat) (op : List String) (_ : List (List String)) : (St × Nat) × Option String :=
  let (s, u) := su
  let r (p : St × Out) : (St × Nat) × Option String :=
    ((p.1, u), match p.2 with
      | .none => none
      | .opt v => some (optStr v)
      | .list l => some (natList l)
      | .num n => some (toString n))
  match op with
  | ["adv", d] => match d.toNat? with | some d => r (step s (.adv d)) | none => (su, some "bad-op")
  | ["set", k, v] => match k.toNat?, v.toNat? with
      | some k, some v => r (step s (.set k v)) | _, _ => (su, some "bad-op")
  | ["del", k] => match k.toNat? with | some k => r (step s (.del k)) | none => (su, some "bad-op")
  | ["get", k] => match k.toNat? with | some k => r (step s (.get k)) | none => (su, some "bad-op")
  -- a lookup of k overlapped by set k v: the lookup answers for the state before the set, and the
  -- set takes effect (linearised as `get k; set k v`)
  | ["gset", k, v] => match k.toNat?, v.toNat? with
      | some k, some v =>
        let p := step s (.get k)
        let q := step p.1 (.set k v)
        r (q.1, p.2)
      | _, _ => (su, some "bad-op")
  | ["keys"] => r (step s .keys)
  | ["values"] => r (step s .values)
  | ["length"] => r (step s .length)
  | ["probe"] => ((cleanup s, u), some (probeStr s u))
  | _ => (su, some "bad-op")

/-- Monitor state: the clock and, per key, the expiry instant of its last completed set (from the
operations alone, never from the model). -/
structure TtlMon where
  ttl : Int
  now : Int
  exp : List (Nat × Int)

def TtlMon.put (m : TtlMon) (k : Nat) : TtlMon := { m with exp := (k, m.now + m.ttl) :: m.exp.filter (·.1 != k) }
def TtlMon.del (m : TtlMon) (k : Nat) : TtlMon := { m with exp := m.exp.filter (·.1 != k) }

/-- C32 monitor on the implementation's own answers.  At a `probe`: the keys `get` finds, the
listing and the count must describe the same set, and values must be the looked-up values.  At a
`get k`: a key whose last set completed and has not reached its expiry instant (and was not
deleted) must be found. -/
def ttlMon (m : TtlMon) (op : List String) (_ : List (List String)) (obs : Option String) : TtlMon × List Fail :=
  match op, obs with
  | ["adv", d], _ => ({ m with now := m.now + (d.toInt?.getD 0) }, [])
  | ["set", k, _], _ => (match k.toNat? with | some k => m.put k | none => m, [])
  | ["gset", k, _], _ => (match k.toNat? with | some k => m.put k | none => m, [])
  | ["del", k], _ => (match k.toNat? with | some k => m.del k | none => m, [])
  | ["get", k], some o =>
    match k.toNat? with
    | some k =>
      match m.exp.find? (·.1 == k) with
      | some (_, e) =>
        if m.now ≤ e ∧ o == "none" then
          (m, [{ prop := "C32", sig := "C32:live-entry-not-found", what := s!"key {k} set with expiry {e} is reported absent at {m.now}" : Fail }])
        else (m, [])
      | none => (m, [])
    | none => (m, [])
  | ["probe"], some o =>
    let toks := o.splitOn " "
    let g := (kv toks "g").getD "-"
    let n := ((kv toks "n").getD "0").toNat?.getD 0
    let ks := parseNatList ((kv toks "k").getD "-")
    let vs := parseNatList ((kv toks "v").getD "-")
    let gpairs := if g == "-" then [] else (g.splitOn ",").filterMap fun kvs =>
      match kvs.splitOn ":" with
      | [k, v] => match k.toNat?, v.toNat? with | some k, some v => some (k, v) | _, _ => none
      | _ => none
    let gk := gpairs.map (·.1)
    let gv := gpairs.map (·.2)
    let live := (m.exp.filter fun p => m.now ≤ p.2).map (·.1)
    let missing := live.filter fun k => !ks.contains k
    let fails :=
      (if gk != ks then [{ prop := "C32", sig := "C32:lookup-vs-listing", what := s!"lookup finds keys {natList gk} but listing is {natList ks}" : Fail }] else []) ++
      (if n != ks.length then [{ prop := "C32", sig := "C32:count-vs-listing", what := s!"count {n} but listing has {ks.length}" : Fail }] else []) ++
      (if gk == ks && gv != vs then [{ prop := "C32", sig := "C32:values-vs-lookup", what := s!"values {natList vs} but lookups give {natList gv}" : Fail }] else []) ++
      (if !missing.isEmpty then [{ prop := "C32", sig := "C32:live-entry-not-listed", what := s!"keys {natList missing} set and not yet expired at {m.now} are missing from the listing {natList ks}" : Fail }] else [])
    (m, fails)
  | _, _ => (m, [])

def comp : Component (St × Nat) TtlMon where
  init := fun args =>
    let ttl := ((kv args "ttl").getD "0").toInt?.getD 0
    let u := ((kv args "universe").getD "0").toNat?.getD 0
    (init ttl, u)
  step := ttlStep
  minit := fun args => { ttl := ((kv args "ttl").getD "0").toInt?.getD 0, now := 0, exp := [] }
  mon := ttlMon

def main : IO Unit := do runLoop comp (← IO.getStdin)
