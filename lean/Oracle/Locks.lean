import Refinery.Model.LocksTable
import Refinery.Gen.Access
/-!
C35 report tool (no transcript oracle: C35 has no op/obs harness).  Evaluates the same
`factOK` the theorem `facts_comply` is stated with on the regenerated facts and prints, with
names, every access fact that does not comply, every declared field without a discipline and
every unreviewed unresolved selector.  Run: `lake env lean --run Oracle/Locks.lean`.
-/
open Refinery.Locks Refinery.Locks.Table Refinery.Gen.Access

def nameOf (names : List String) (i : Nat) : String := (names[i]?).getD s!"#{i}"

def kindStr : AKind → String
  | .read => "read" | .write => "write" | .atomic => "atomic"

def modeStr : Mode → String
  | .sh => "sh" | .ex => "ex"

def discStr : LDisc → String
  | .lock m => s!"lock({nameOf locNames m})"
  | .confined r => s!"confined(role{r})"
  | .atomic => "atomic"
  | .initOnly => "initOnly"
  | .ownedLock r m => s!"ownedLock(role{r},{nameOf locNames m})"

def roleStr : Role → String
  | .init => "init" | .teardown => "teardown" | .any => "any" | .named r => s!"role{r}"

def main : IO Unit := do
  IO.println s!"FACTS {accessFacts.length} FIELDS {declaredFields.length}"
  -- non-trivial = the verdict depends on synchronisation (not a plain read of an init-only field)
  let nontriv := accessFacts.filter fun f => match lookup disciplines f.loc with
    | some .initOnly => f.kind != .read
    | _ => true
  let count (p : LDisc → Bool) : Nat := (accessFacts.filter fun f => match lookup disciplines f.loc with
    | some d => p d
    | none => false).length
  IO.println s!"STATS nontrivial={nontriv.length} lock={count fun d => match d with | .lock _ => true | _ => false} confined={count fun d => match d with | .confined _ => true | _ => false} atomic={count fun d => d == .atomic} initOnly={count fun d => d == .initOnly} ownedLock={count fun d => match d with | .ownedLock _ _ => true | _ => false} held_nonempty={(accessFacts.filter fun f => !f.held.isEmpty).length} fresh={(accessFacts.filter fun f => f.fresh).length}"
  for f in accessFacts do
    if !factOK disciplines roles f then
      let held := ",".intercalate (f.held.map fun (m, md) => s!"{nameOf locNames m}:{modeStr md}")
      let d := match lookup disciplines f.loc with
        | some d => discStr d
        | none => "none"
      IO.println s!"FAIL loc={nameOf locNames f.loc} fn={nameOf fnNames f.fn} kind={kindStr f.kind} held=[{held}] discipline={d} role={roleStr (roleOf roles f.fn)} known={isKnown knownViolations f}"
  for l in declaredFields do
    if (lookup disciplines l).isNone then
      IO.println s!"UNCOVERED field={nameOf locNames l}"
  for u in unresolvedSelectors do
    if !reviewedUnresolved.contains u then
      IO.println s!"UNREVIEWED name={u.1} fn={u.2}"
  for k in knownViolations do
    if !(accessFacts.any fun f => f.loc == k.1 && f.fn == k.2.1 && f.kind == k.2.2 && !factOK disciplines roles f) then
      IO.println s!"STALE-KNOWN loc={nameOf locNames k.1} fn={nameOf fnNames k.2.1} kind={kindStr k.2.2}"
  IO.println "REPORT-DONE"
