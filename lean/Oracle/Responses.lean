import Oracle.Lib
import Refinery.Model.BatchHandler
/-
Oracle for "responses reflect what happened to the data" (C23).
case args: responses
op:  req rt=<incoming|peer> ep=<event|batch|otlp-http-traces|otlp-http-logs|otlp-grpc-traces|otlp-grpc-logs>
         (rt: which router serves it — RouterTypeIncoming or RouterTypePeer; gRPC exists on incoming only)
         via=<mux|direct> enc=<json|msgpack|proto> ct=<ok|bad> ds=<ok|bad> key=<classic|es|none>
         env=<ok|fail|upok|up401|up500>
         body=<ok|gzip|zstd|readerr|badgzip|truncgzip|badzstd|garbage|truncated|oversize>
         evs=<letters|->    e empty data, d no data member, n no trace id, p peer's trace,
                            l own trace, f own trace with the collector queue full, x probe
     ts=<letters|->     per-event time text class (a absent, r RFC 3339, 0/3/6/9 epochs, s t u x short
                        numerics, f float, g garbage, e empty).  `getEventTime` is total: every text
                        yields some time and never a failure, so the model's answer does not depend on it.
obs: w=<H<code>|B<err|list:s:s..|empty|other>|G<grpc code>,…> up=<i,…|-> peer=… coll=… ref=… cq=<in|peer|mixed|->
     (cq: which collector method was called: AddSpan / AddSpanFromPeer)

How the concrete faults map onto the model's fault points:
  key=none                      → keyBlank
  key=es ∧ env∈{fail,up401,up500} → envFails   (classic and blank keys are never looked up)
  ds=bad                        → datasetBad
  ct=bad                        → ctBad
  body∈{readerr,badgzip,truncgzip,badzstd} → readFails
  body∈{garbage,truncated,oversize}        → parseFails
-/
open Refinery.Model.BatchHandler Oracle

/-- `false`: the model follows the code as it is (two missing `return`s in `batch`, `return nil`
in `processOTLPRequest*`).  After the fix is applied to /repo only this flag flips. -/
def variant : Bool := true

def itemOf : Char → Option Item
  | 'e' => some .emptyData | 'd' => some .noData | 'n' => some .nonTrace | 'p' => some .peer
  | 'l' => some .localOk | 'f' => some .localFull | 'x' => some .probe | _ => none

def itemsOf (s : String) : Option (List Item) :=
  if s == "-" then some [] else s.toList.mapM itemOf

structure POp where
  lst : Listener
  ep : String
  viaMux : Bool
  f : Faults
  items : List Item
  req : Req

def allIn (items : List Item) (ok : List Item) : Bool := items.all fun i => ok.contains i

/-- the request of an op line; `none` = not a well-formed operation of this harness -/
def parseOp (op : List String) : Option POp := do
  guard (op.head? == some "req")
  let ep ← kv op "ep"
  let lst ← (match kv op "rt" with | some "incoming" => some Listener.incoming | some "peer" => some Listener.peer | _ => none)
  let via ← kv op "via"
  let enc ← kv op "enc"
  let ct ← kv op "ct"
  let ds ← kv op "ds"
  let key ← kv op "key"
  let env ← kv op "env"
  let body ← kv op "body"
  let items ← itemsOf (← kv op "evs")
  let ts ← kv op "ts"
  let tsChars := if ts == "-" then [] else ts.toList
  guard (tsChars.all fun c => "ar0369stuxfge".toList.contains c)
  guard (["mux", "direct"].contains via ∧ ["ok", "bad"].contains ct ∧ ["ok", "bad"].contains ds)
  guard (["classic", "es", "none"].contains key ∧ ["ok", "fail", "upok", "up401", "up500"].contains env)
  let readF := ["readerr", "badgzip", "truncgzip", "badzstd"].contains body
  let parseF := ["garbage", "truncated", "oversize"].contains body
  guard (readF || parseF || ["ok", "gzip", "zstd"].contains body)
  let f : Faults := {
    keyBlank := key == "none"
    readFails := readF
    datasetBad := ds == "bad"
    envFails := key == "es" && ["fail", "up401", "up500"].contains env
    parseFails := parseF
    ctBad := ct == "bad" }
  let viaMux := via == "mux"
  let native := ep == "event" || ep == "batch"
  if native then
    guard (["json", "msgpack"].contains enc ∧ ct == "ok" ∧ (ds == "ok" ∨ via == "direct"))
    guard (body != "oversize" ∨ enc == "json")
    guard (tsChars.length == items.length)
    guard (!(ep == "batch" && enc == "msgpack") || tsChars.all fun c => c == 'a' || c == 'r')
  else
    guard (enc == "proto" ∧ via == "mux" ∧ ds == "ok" ∧ body != "oversize" ∧ tsChars.isEmpty)
  match ep with
  | "event" =>
    match items with
    | [it] =>
      guard (it != .noData)
      pure ⟨lst, ep, viaMux, f, items, .event viaMux f it⟩
    | _ => none
  | "batch" => pure ⟨lst, ep, viaMux, f, items, .batch viaMux f items⟩
  | "otlp-http-traces" =>
    guard (allIn items [.peer, .localOk, .localFull])
    pure ⟨lst, ep, viaMux, f, items, .otlpHttp false f items⟩
  | "otlp-http-logs" =>
    guard (allIn items [.nonTrace, .peer, .localOk, .localFull])
    pure ⟨lst, ep, viaMux, f, items, .otlpHttp true f items⟩
  | "otlp-grpc-traces" =>
    guard (allIn items [.peer, .localOk, .localFull] ∧ ct == "ok" ∧ !readF ∧ ["ok", "garbage", "truncated"].contains body)
    guard (lst == .incoming)
    pure ⟨lst, ep, viaMux, f, items, .otlpGrpc false f items⟩
  | "otlp-grpc-logs" =>
    guard (allIn items [.nonTrace, .peer, .localOk, .localFull] ∧ ct == "ok" ∧ body == "ok")
    guard (lst == .incoming)
    pure ⟨lst, ep, viaMux, f, items, .otlpGrpc true f items⟩
  | _ => none

/-! ## rendering the model's prediction -/

def stList (l : List Int) : String :=
  if l.isEmpty then "list:-" else "list:" ++ ":".intercalate (l.map toString)

def actWrites : Act → List String
  | .err c => [s!"H{c}", "Berr"]
  | .list l => ["B" ++ stList l]
  | .otlpOk => [s!"H{Refinery.Gen.Responses.stOK}", "Bempty"]
  | .otlpFail c => [s!"H{c}", "Bother"]
  | .grpc c => [s!"G{c}"]

def isH (s : String) : Bool := s.toList.head? == some 'H'
def isB (s : String) : Bool := s.toList.head? == some 'B'
def isG (s : String) : Bool := s.toList.head? == some 'G'

/-- net/http: a Write before any WriteHeader, or no write at all, is a 200 -/
def normalize (ws : List String) : List String :=
  if ws.any isG then ws else
    let rec go (seen : Bool) : List String → List String
      | [] => if seen then [] else [s!"H{Refinery.Gen.Responses.stOK}"]
      | w :: rest =>
        if isH w then w :: go true rest
        else if seen then w :: go seen rest
        else s!"H{Refinery.Gen.Responses.stOK}" :: w :: go true rest
    go false ws

def idxStr (items : List Item) (i : Nat) : String :=
  match items[i]? with
  | some .noData | some .emptyData => "?"     -- no marker field to carry the index
  | _ => toString i

def strList (l : List String) : String := if l.isEmpty then "-" else ",".intercalate l

def queueStr : Queue → String
  | .addSpan => "in" | .addSpanFromPeer => "peer"

def render (l : Listener) (items : List Item) (o : Out) : String :=
  let w := ",".intercalate (normalize (o.acts.flatMap actWrites))
  let atSink (f : Sink → Bool) := (o.eff.sent.filter (fun p => f p.2)).map fun p => idxStr items p.1
  let isColl : Sink → Bool := fun s => match s with | .collector _ => true | _ => false
  -- queues of the accepted spans; a refusal comes from the listener's queue as well
  let qs := (o.eff.sent.filterMap fun p => match p.2 with | .collector q => some (queueStr q) | _ => none) ++
            (if o.eff.refused.isEmpty then [] else [queueStr (collectorQueue l)])
  let cq := match qs.eraseDups with | [] => "-" | [q] => q | _ => "mixed"
  s!"w={w} up={strList (atSink (· == .upstream))} peer={strList (atSink (· == .peer))} coll={strList (atSink isColl)} ref={strList (o.eff.refused.map (idxStr items))} cq={cq}"

def respStep (st : Unit) (op : List String) (_ : List (List String)) : Unit × Option String :=
  match parseOp op with
  | none => (st, some "bad-op")
  | some p => (st, some (render p.lst p.items (handle variant p.lst p.req)))

/-! ## monitor: the property evaluated on what the implementation answered and did -/

def codeOf (s : String) : Int := ((String.ofList (s.toList.drop 1)).toInt?).getD (-1)

def parseIdx (s : String) : List String := if s == "-" || s == "" then [] else s.splitOn ","

/-- the first fault point (in handler order) that the request's injected faults reach -/
def faultTag (p : POp) : String :=
  let native := p.ep == "event" || p.ep == "batch"
  let f := p.f
  if native then
    if p.viaMux && f.keyBlank then "blank-key"
    else if f.readFails then "read-error"
    else if f.datasetBad then "bad-dataset"
    else if f.envFails then "env-error"
    else if f.parseFails then "parse-error"
    else "no-fault"
  else
    if f.ctBad then "bad-content-type"
    else if f.keyBlank then "blank-key"
    else if f.readFails || f.parseFails then "bad-body"
    else if f.envFails then "env-error"
    else "no-fault"

def mkFail (sig what : String) : Fail := { prop := "C23", sig := sig, what := what }

def respMon (m : Unit) (op : List String) (_ : List (List String)) (obs : Option String) : Unit × List Fail :=
  match parseOp op, obs with
  | some p, some o =>
    let toks := o.splitOn " "
    match kv toks "w" with
    | none => (m, [])
    | some wstr =>
    let ws := wstr.splitOn ","
    let hs := ws.filter isH
    let bs := ws.filter isB
    let gs := ws.filter isG
    let up := parseIdx ((kv toks "up").getD "-")
    let peer := parseIdx ((kv toks "peer").getD "-")
    let coll := parseIdx ((kv toks "coll").getD "-")
    let ref := parseIdx ((kv toks "ref").getD "-")
    let sunk := up ++ peer ++ coll
    let isErr : Bool := match hs.head?, gs.head? with
      | some h, _ => decide (400 ≤ codeOf h)
      | none, some g => codeOf g != Refinery.Gen.Responses.grpcOK
      | none, none => false
    let tag := faultTag p
    let pre := s!"C23:{p.ep}:"
    let n := p.items.length
    let lists := bs.filter fun b => (b.toList.take 5) == "Blist".toList
    -- the status list, if exactly one was written
    let sts : Option (List Int) := match lists with
      | [b] => some (if b == "Blist:-" then [] else ((b.splitOn ":").drop 1).map fun s => (s.toInt?).getD (-1))
      | _ => none
    -- events without a data object carry no index marker and show up as `?`; more `?` than such
    -- events means that an empty-data event was handed on as well
    let nNoData := (p.items.filter (· == .noData)).length
    let seenAt (i : Nat) (l : List String) : Bool :=
      l.contains (toString i) || (p.items[i]? == some .noData && l.contains "?") ||
      (p.items[i]? == some .emptyData && (l.filter (· == "?")).length > nNoData)
    -- (A) an error status for the request as a whole: nothing else written, nothing forwarded or buffered
    let fA := if isErr && (hs.length > 1 || bs.length > 1 || gs.length > 1 || !sunk.isEmpty) then
        [mkFail (pre ++ (if tag == "no-fault" then "error-status-after-effects" else tag ++ "-continues"))
          s!"error status answered, yet the handler went on: writes {wstr}, upstream {strList up}, peer {strList peer}, collector {strList coll}"]
      else []
    -- (B) exactly one status also on success
    let fB := if !isErr && (hs.length > 1 || bs.length > 1 || gs.length > 1) then
        [mkFail (pre ++ tag ++ "-double-response") s!"more than one response written: {wstr}"]
      else []
    -- (C) success: every event of the request was handed to processEvent (seen at a sink or refused by
    -- the collector; probes vanish by design) or is individually answered non-202 in the status list
    let lost := (List.range n).filter fun i =>
      !(p.items[i]? == some .probe || seenAt i (sunk ++ ref) ||
        (match sts with | some l => (match l[i]? with | some s => s != Refinery.Gen.Responses.stAccepted | none => false) | none => false))
    let fC := if !isErr && !lost.isEmpty then
        [mkFail (pre ++ tag ++ "-success")
          s!"success answered ({wstr}) but events {natList lost} of {n} were never handed to processEvent"]
      else []
    -- (D) the batch status list
    let fD : List Fail := match p.ep == "batch", sts with
      | true, some l =>
        if l.length != n then [mkFail (pre ++ "status-list-length") s!"{l.length} statuses for {n} events"]
        else (List.range n).flatMap fun i =>
          let s := l.getD i (-1)
          let acc := seenAt i sunk
          let rf := ref.contains (toString i)
          let inv := p.items[i]? == some .emptyData
          let prb := p.items[i]? == some .probe
          let e (k what : String) := [mkFail (pre ++ k) s!"event {i}: {what} (status {s})"]
          (if acc && s != Refinery.Gen.Responses.stAccepted then e "accepted-not-202" "handed to a sink" else []) ++
          (if rf && s != Refinery.Gen.Responses.stTooManyRequests then e "refused-not-429" "refused by the collector" else []) ++
          (if inv && s != Refinery.Gen.Responses.stBadRequest then e "invalid-not-400" "empty data" else []) ++
          (if s == Refinery.Gen.Responses.stAccepted && !(acc || prb) then e "202-not-accepted" "reached no sink" else []) ++
          (if s == Refinery.Gen.Responses.stTooManyRequests && !rf then e "429-not-refused" "the collector did not refuse it" else []) ++
          (if s == Refinery.Gen.Responses.stBadRequest && !inv then e "400-not-invalid" "the event is valid" else []) ++
          (if s != Refinery.Gen.Responses.stAccepted && s != Refinery.Gen.Responses.stTooManyRequests && s != Refinery.Gen.Responses.stBadRequest
            then e "status-unknown" "not one of 202/429/400" else [])
      | _, _ => []
    -- (E) no event is handed on twice
    let marked := (sunk ++ ref).filter (· != "?")
    let fE := if marked.eraseDups.length != marked.length then
        [mkFail (pre ++ "duplicate-effect") s!"an event reached more than one sink: up {strList up} peer {strList peer} coll {strList coll} refused {strList ref}"]
      else []
    -- (F) the listener kind only selects the collector queue
    let cq := (kv toks "cq").getD "-"
    let want := queueStr (collectorQueue p.lst)
    let fF := if cq != "-" && cq != want then
        [mkFail (pre ++ "wrong-collector-queue") s!"request on the {want} listener, collector called through {cq}"]
      else []
    (m, fA ++ fB ++ fC ++ fD ++ fE ++ fF)
  | _, _ => (m, [])

def comp : Component Unit Unit where
  init := fun _ => ()
  step := respStep
  minit := fun _ => ()
  mon := respMon

def main : IO Unit := do runLoop comp (← IO.getStdin)
