import Oracle.Lib
import Refinery.Model.Rules
/-
Oracle for `sample.RulesBasedSampler` (C08).  Grammar: see harness/cmd/rules/main.go.

The case state is only *input*: the rule list and trace built so far and the graphs of the external
functions (`ext` lines: fmt / atoi / pfloat / pbool accumulate over the case; rxc / rxm / down / intn
belong to one `eval`).  `step` evaluates the model on it; `mon` evaluates the documented semantics
(C08) on the implementation's own per-(condition, span) results, per-rule results and decision.
-/
open Refinery.Model.Rules Oracle
open Refinery.Gen.Rules

/-! ## tokens -/

def hexVal (c : Char) : Nat :=
  if '0' ≤ c ∧ c ≤ '9' then c.toNat - '0'.toNat
  else if 'A' ≤ c ∧ c ≤ 'F' then c.toNat - 'A'.toNat + 10
  else if 'a' ≤ c ∧ c ≤ 'f' then c.toNat - 'a'.toNat + 10
  else 0

/-- kit.Dec -/
def dec (s : String) : String :=
  if s == "%" then "" else
  let rec go (cs : List Char) (acc : ByteArray) : ByteArray :=
    match cs with
    | '%' :: a :: b :: rest => go rest (acc.push (UInt8.ofNat (hexVal a * 16 + hexVal b)))
    | c :: rest => go rest (acc ++ (String.singleton c).toUTF8)
    | [] => acc
  (String.fromUTF8? (go s.toList ByteArray.empty)).getD "�"

def hexDigit (n : Nat) : Char := "0123456789ABCDEF".toList.getD n '0'

/-- kit.Enc -/
def enc (s : String) : String :=
  if s.isEmpty then "%" else
  String.ofList <| s.toUTF8.toList.flatMap fun b =>
    let c := Char.ofNat b.toNat
    if c.isAlphanum || c == '.' || c == '_' || c == ':' || c == '/' || c == '+' || c == '-' then [c]
    else ['%', hexDigit (b.toNat / 16), hexDigit (b.toNat % 16)]

def parseFrac (s : String) : Option (Int × Nat) :=
  match s.splitOn "/" with
  | [a, b] => match a.toInt?, b.toNat? with
    | some n, some d => if d = 0 then none else some (n, d)
    | _, _ => none
  | _ => none

def dropStr (s : String) (n : Nat) : String := String.ofList (s.toList.drop n)

/-- scalar value token; a list token is the sequence taken as a whole -/
def parseVal (t : String) : Option Val :=
  if t == "n" then some .nil
  else if t.startsWith "s:" then some (.str (dec (dropStr t 2)))
  else if t.startsWith "i:" then (dropStr t 2).toInt?.map .int
  else if t.startsWith "f:" then (parseFrac (dropStr t 2)).map fun q => .flt q.1 q.2
  else if t == "b:1" then some (.bool true)
  else if t == "b:0" then some (.bool false)
  else if t.startsWith "o:" then some (.other (dropStr t 2))
  else if t.startsWith "l:" then some (.other t)
  else none

def parseItems (t : String) : Option (Option (List Val)) :=
  if t.startsWith "l:" then
    let body := dropStr t 2
    if body.isEmpty then some (some []) else
    let its := (body.splitOn "~").map fun i => if i.startsWith "l:" then none else parseVal i
    if its.all Option.isSome then some (some (its.filterMap id)) else none
  else some none

def valTok : Val → String
  | .str s => "s:" ++ enc s
  | .int n => s!"i:{n}"
  | .flt n d => s!"f:{n}/{d}"
  | .bool b => if b then "b:1" else "b:0"
  | .nil => "n"
  | .other id => if id.startsWith "l:" then id else "o:" ++ id

def parseOp (s : String) : Op :=
  if s == opNEQ then .neq else if s == opEQ then .eq else if s == opGT then .gt else if s == opLT then .lt
  else if s == opGTE then .gte else if s == opLTE then .lte else if s == opContains then .contains
  else if s == opDoesNotContain then .doesNotContain else if s == opStartsWith then .startsWith
  else if s == opExists then .ex else if s == opNotExists then .notEx else if s == opHasRootSpan then .hasRootSpan
  else if s == opMatches then .regex else if s == opIn then .isIn else if s == opNotIn then .notIn else .unknown

def opWord : Op → String
  | .neq => "neq" | .eq => "eq" | .gt => "gt" | .lt => "lt" | .gte => "gte" | .lte => "lte"
  | .contains => "contains" | .doesNotContain => "does-not-contain" | .startsWith => "starts-with"
  | .ex => "exists" | .notEx => "not-exists" | .hasRootSpan => "has-root-span" | .regex => "matches"
  | .isIn => "in" | .notIn => "not-in" | .unknown => "unknown"

def parseDT (s : String) : Option DT :=
  if s == "" then some .none else if s == "string" then some .str else if s == "int" then some .int
  else if s == "float" then some .float else if s == "bool" then some .bool else none

def dtWord : DT → String
  | .none => "none" | .str => "string" | .int => "int" | .float => "float" | .bool => "bool"

/-! ## case state (inputs only) -/

structure Graph where
  fmt : List (Val × String) := []
  atoi : List (String × Option Int) := []
  pfloat : List (String × Option (Int × Nat)) := []
  pbool : List (String × Option Bool) := []
  jstr : List (Val × String) := []
  maps : List (String × List (String × Val)) := []
  rxc : List (String × Bool) := []
  rxm : List ((String × String) × Bool) := []
  down : List (Nat × Option DownRes) := []
  intn : List (Int × Nat) := []

structure SpanIn where
  root : Bool
  span : Span

structure Inp where
  rules : List Rule := []          -- in configuration order
  spans : List SpanIn := []        -- in arrival order
  g : Graph := {}
  bad : Bool := false              -- an `ext` line could not be read
  nested : Bool := false           -- CheckNestedFields (case header)

def b01 (b : Bool) : String := if b then "1" else "0"

def addExt (g : Graph) (bad : Bool) (e : List String) (evalOnly : Bool) : Graph × Bool :=
  match e with
  | ["fmt", v, "=", r] => match parseVal v with
    | some v => ({ g with fmt := (v, dec r) :: g.fmt }, bad)
    | none => (g, true)
  | ["atoi", s, "=", r] =>
    if r == "err" then ({ g with atoi := (dec s, none) :: g.atoi }, bad)
    else match r.toInt? with
      | some n => ({ g with atoi := (dec s, some n) :: g.atoi }, bad)
      | none => (g, true)
  | ["pfloat", s, "=", r] =>
    if r == "err" then ({ g with pfloat := (dec s, none) :: g.pfloat }, bad)
    else match parseFrac r with
      | some q => ({ g with pfloat := (dec s, some q) :: g.pfloat }, bad)
      | none => (g, true)        -- NaN / Inf: outside the model
  | ["pbool", s, "=", r] =>
    if r == "err" then ({ g with pbool := (dec s, none) :: g.pbool }, bad)
    else if r == "1" then ({ g with pbool := (dec s, some true) :: g.pbool }, bad)
    else if r == "0" then ({ g with pbool := (dec s, some false) :: g.pbool }, bad)
    else (g, true)
  | ["jstr", v, "=", r] => match parseVal v with
    | some v => if r == "err" then (g, true) else ({ g with jstr := (v, dec r) :: g.jstr }, bad)
    | none => (g, true)
  | ["map", mid, "=", ents] =>
    if ents == "-" then ({ g with maps := (mid, []) :: g.maps }, bad) else
    let es := (ents.splitOn ",").map fun e => match e.splitOn "~" with
      | [k, vt] => (parseVal vt).map fun v => (dec k, v)
      | _ => none
    if es.all Option.isSome then ({ g with maps := (mid, es.filterMap id) :: g.maps }, bad) else (g, true)
  | ["rxc", p, "=", r] => if evalOnly then ({ g with rxc := (dec p, r == "1") :: g.rxc }, bad) else (g, true)
  | ["rxm", p, s, "=", r] => if evalOnly then ({ g with rxm := ((dec p, dec s), r == "1") :: g.rxm }, bad) else (g, true)
  | ["down", i, "=", "missing"] => match i.toNat? with
    | some i => ({ g with down := (i, none) :: g.down }, bad)
    | none => (g, true)
  | ["down", i, "=", rate, keep, reason, key] => match i.toNat?, rate.toNat? with
    | some i, some rate => ({ g with down := (i, some ⟨rate, keep == "1", dec reason, dec key⟩) :: g.down }, bad)
    | _, _ => (g, true)
  | ["intn", n, "=", d] => match n.toInt?, d.toNat? with
    | some n, some d => ({ g with intn := (n, d) :: g.intn }, bad)
    | _, _ => (g, true)
  | _ => (g, true)

def addExts (g : Graph) (bad : Bool) (exts : List (List String)) (evalOnly : Bool) : Graph × Bool :=
  exts.foldl (fun (gb : Graph × Bool) e => addExt gb.1 gb.2 e evalOnly) (g, bad)

def extOf (g : Graph) : Ext where
  fmt v := (g.fmt.lookup v).getD ""
  atoi s := (g.atoi.lookup s).getD none
  pfloat s := (g.pfloat.lookup s).getD none
  pbool s := (g.pbool.lookup s).getD none
  rxCompiles p := (g.rxc.lookup p).getD false
  jsonStr v := (g.jstr.lookup v).getD ""
  rxMatch p s := (g.rxm.lookup (p, s)).getD false

def parseScope (s : String) : Scope :=
  if s == "span" then .span else if s == "trace" || s == "" then .trace else .invalid

def hasDown (d : String) : Bool := d.startsWith "det" || d.startsWith "missing" || d.startsWith "dyn" || d.startsWith "ema"

/-- input-building operations; `none` = not one of them, `some none` = malformed -/
def applyInput (st : Inp) (op : List String) (exts : List (List String)) : Option (Option Inp) :=
  match op with
  | "rule" :: args =>
    match ((kv args "rate").getD "x").toInt? with
    | none => some none
    | some rate =>
      let r : Rule := { name := dec ((kv args "name").getD ""), rate := rate, drop := (kv args "drop") == some "1",
                        scope := parseScope (dec ((kv args "scope").getD "")), conds := [],
                        sampler := if hasDown ((kv args "down").getD "") then some st.rules.length else none }
      some (some { st with rules := st.rules ++ [r] })
  | "cond" :: args =>
    let vt := (kv args "val").getD ""
    match parseVal vt, parseItems vt, parseDT (dec ((kv args "dt").getD "")) with
    | some v, some items, some dt =>
      let fs := (kv args "fields").getD "-"
      let c : Cond := { field := dec ((kv args "field").getD ""), fields := if fs == "-" || fs == "" then [] else (fs.splitOn ",").map dec,
                        op := parseOp (dec ((kv args "op").getD "")), val := v, items := items, dt := dt }
      let (g, bad) := addExts st.g st.bad exts false
      let rules := match st.rules.reverse with
        | [] => []
        | last :: before => (({ last with conds := last.conds ++ [c] }) :: before).reverse
      some (some { st with rules := rules, g := g, bad := bad })
    | _, _, _ => some none
  | "span" :: args =>
    let kindOf (a : String) : Option Kind :=
      if a == "kind=e" then some .event else if a == "kind=l" then some .link else if a == "kind=s" then some .span else none
    let kind := (args.findSome? kindOf).getD .span
    let step (acc : Option (Bool × List (String × Val))) (a : String) : Option (Bool × List (String × Val)) :=
      match acc with
      | none => none
      | some (root, data) =>
        if (kindOf a).isSome then acc else
        match a.splitOn "=" with
        | [k, vt] =>
          if k == "root" && (vt == "0" || vt == "1") then some (vt == "1", data)
          else if vt.startsWith "l:" then none
          else match parseVal vt with
            | some v => let name := dec k
              if data.any (·.1 == name) then some (root, data) else some (root, data ++ [(name, v)])
            | none => none
        | _ => none
    match args.foldl step (some (false, [])) with
    | none => some none
    | some (root, data) =>
      let (g, bad) := addExts st.g st.bad exts false
      some (some { st with spans := st.spans ++ [⟨root, { data := data, kind := kind }⟩], g := g, bad := bad })
  | ["cleartrace"] => some (some { st with spans := [] })
  | _ => none

def traceOf (st : Inp) : Trace :=
  { spans := st.spans.map (·.span), root := (st.spans.reverse.find? (·.root)).map (·.span),
    nested := st.nested, maps := st.g.maps }

/-! ## completeness of the `ext` graphs for one evaluation (nothing is ever defaulted silently) -/

def condVals (c : Cond) : List Val := c.val :: (c.items.getD [])

def missingExt (st : Inp) (g : Graph) : Option String :=
  let t := traceOf st
  let count : Val := .int t.spans.length
  let flatVals := t.spans.flatMap fun s => s.data.map (·.2)
  -- values nested in map-valued fields (by reference through `maps`), to any depth used here
  let step (vs : List Val) : List Val := vs.flatMap fun v => match v with
    | .other id => ((g.maps.lookup id).getD []).map (·.2)
    | _ => []
  let l1 := step flatVals
  let l2 := step l1
  let l3 := step l2
  let l4 := step l3
  let reach := flatVals ++ l1 ++ l2 ++ l3 ++ l4
  let mapIds := reach.filterMap fun v => match v with
    | .other id => if id.startsWith "M" then some id else none
    | _ => none
  if let some id := mapIds.find? (fun id => (g.maps.lookup id).isNone) then some ("map:" ++ id) else
  if let some v := reach.find? (fun v => (g.jstr.lookup v).isNone) then some ("jstr:" ++ valTok v) else
  let spanVals := reach ++ reach.map (fun v => Val.str ((g.jstr.lookup v).getD "")) ++ [.nil, count]
  let conds := st.rules.flatMap (·.conds)
  let vals := spanVals ++ conds.flatMap condVals
  match vals.find? (fun v => (g.fmt.lookup v).isNone) with
  | some v => some ("fmt:" ++ valTok v)
  | none =>
    let E := extOf g
    let strs := vals.map E.fmt ++ vals.filterMap fun v => match v with | .str s => some s | _ => none
    match strs.find? (fun s => (g.atoi.lookup s).isNone || (g.pfloat.lookup s).isNone || (g.pbool.lookup s).isNone) with
    | some s => some ("parse:" ++ enc s)
    | none =>
      let pats := (conds.filter (·.op == .regex)).map fun c => E.fmt c.val
      match pats.find? (fun p => (g.rxc.lookup p).isNone) with
      | some p => some ("rxc:" ++ enc p)
      | none =>
        let subjects := spanVals.map E.fmt
        match (pats.filter E.rxCompiles).find? (fun p => subjects.any fun s => (g.rxm.lookup (p, s)).isNone) with
        | some p => some ("rxm:" ++ enc p)
        | none =>
          match st.rules.find? (fun r => match r.sampler with
              | some id => (g.down.lookup id).isNone
              | none => r.rate > 0 && (g.intn.lookup r.rate).isNone) with
          | some r => some ("down-or-intn:" ++ enc r.name)
          | none => none

/-! ## rendering -/

def scopePrefix : Scope → String
  | .trace => "rules/trace/"
  | .span => "rules/span/"
  | .invalid => "rules/invalid scope/"

def reasonStr : Reason → String
  | .noRuleMatched => "no rule matched"
  | .rule sc n => scopePrefix sc ++ n
  | .delegated sc n sub => scopePrefix sc ++ n ++ ":" ++ sub
  | .badRule sc n => scopePrefix sc ++ "bad_rule:" ++ n

def cellStr (E : Ext) (t : Trace) (c : Cond) (s : Span) : String :=
  let x := extract E t s c
  let fl := (if x.ex then 1 else 0) + (if x.cor then 2 else 0) + (if condOnSpan E t c s then 4 else 0)
  toString fl ++ valTok x.val

def dash (s : String) : String := if s.isEmpty then "-" else s

def evalObs (st : Inp) (g : Graph) : String :=
  match missingExt st g with
  | some m => "missing-ext:" ++ m
  | none =>
    let E := extOf g
    let t := traceOf st
    let down := fun id => (g.down.lookup id).getD none
    let intn := fun n => (g.intn.lookup n).getD 0
    let d := getSampleRate E t down intn st.rules
    let m := String.join (st.rules.map fun r => b01 (matchTrace E t r.conds) ++ b01 (matchSpan E t r.conds))
    let x := "|".intercalate (st.rules.map fun r =>
      ";".intercalate (r.conds.map fun c => ",".intercalate (t.spans.map (cellStr E t c))))
    s!"rate={d.rate} keep={b01 d.keep} reason={enc (reasonStr d.reason)} key={enc d.key} m={dash m} x={dash x}"

def rulesStep (st : Inp) (op : List String) (exts : List (List String)) : Inp × Option String :=
  match applyInput st op exts with
  | some (some st') => (st', none)
  | some none => (st, some "bad-op")
  | none =>
    match op with
    | ["eval", sd] =>
      match ((kv [sd] "seed").getD "x").toInt? with
      | none => (st, some "bad-op")
      | some _ =>
        let (g, bad) := addExts st.g st.bad exts true
        -- fmt/atoi/… learnt here stay; rxc/rxm/down/intn belong to this evaluation only
        let keep : Graph := { g with rxc := [], rxm := [], down := [], intn := [] }
        ({ st with g := keep, bad := bad }, some (if bad then "bad-ext" else evalObs st g))
    | _ => (st, some "bad-op")

/-! ## monitor: the documented semantics, on the implementation's observations -/

structure Cell where
  ex : Bool
  cor : Bool
  m : Bool
  val : Option Val

def parseCell (s : String) : Option Cell :=
  match s.toList with
  | d :: rest =>
    let n := d.toNat - '0'.toNat
    if d < '0' || d > '7' then none
    else some ⟨n % 2 == 1, (n / 2) % 2 == 1, n / 4 == 1, parseVal (String.ofList rest)⟩
  | [] => none

def splitNonEmpty (s : String) (sep : String) : List String := if s.isEmpty then [] else s.splitOn sep

def mk (sig what : String) : Fail := { prop := "C08", sig := "C08:" ++ sig, what := what }

/-- documented extraction: the first of the condition's fields that is present, where a `root.`
field is looked up in the root span (skipped when there is none) and any other in the span itself;
`?.NUM_DESCENDANTS` is the number of spans -/
def specExtract (E : Ext) (t : Trace) (s : Span) (c : Cond) : Val × Bool :=
  if c.field == numDescendants then (.int t.spans.length, true) else
  let cands := (effFields c).filterMap fun f =>
    if hasPrefix f rootPrefix then t.root.bind fun r => r.data.lookup (dropPrefix f rootPrefix)
    else s.data.lookup f
  match cands with
  | v :: _ => (v, true)
  | [] =>
    if !t.nested then (.nil, false) else
    -- documented: after all flat lookups, each field as a dotted path into nested maps
    let nest := (effFields c).filterMap fun f =>
      if hasPrefix f rootPrefix then t.root.bind fun r => nestedGet t.maps r.data (splitDots (dropPrefix f rootPrefix))
      else nestedGet t.maps s.data (splitDots f)
    match nest with
    | v :: _ => (.str (E.jsonStr v), true)
    | [] => (.nil, false)

/-- Classification of an extraction that differs from the documented one in the nested phase
(no field present flat, `CheckNestedFields` on): which of the code's two known short-comings
explains the value it returned.  `none`: neither does. -/
def nestedSig (E : Ext) (t : Trace) (s : Span) (c : Cond) (implEx : Bool) (implVal : Option Val) : Option String :=
  let fs := effFields c
  let flat := fs.filterMap fun f =>
    if hasPrefix f rootPrefix then t.root.bind fun r => r.data.lookup (dropPrefix f rootPrefix) else s.data.lookup f
  if !t.nested || !flat.isEmpty then none else
  let sp := lastSpan t s fs
  -- what the code does: every field verbatim as a path, in the span the flat loop looked at last
  let hit := fs.findSome? fun f => (nestedGet t.maps sp.data (splitDots f)).map fun v => (f, v)
  match hit with
  | some (f, v) =>
    if implEx && implVal == some (.str (E.jsonStr v)) then
      if hasPrefix f rootPrefix then some "nested-root-prefix-taken-as-path" else some "nested-field-read-from-root-span"
    else none
  | none =>
    if implEx then none else
    -- the documented lookup finds something the code does not
    let docHit := fs.find? fun f =>
      if hasPrefix f rootPrefix then (t.root.bind fun r => nestedGet t.maps r.data (splitDots (dropPrefix f rootPrefix))).isSome
      else (nestedGet t.maps s.data (splitDots f)).isSome
    match docHit with
    | some f => if hasPrefix f rootPrefix then some "nested-root-field-not-resolved" else some "nested-field-not-resolved-after-root-field"
    | none => none

def absentSig (c : Cond) : String :=
  match c.op with
  | .neq | .eq | .gt | .lt | .gte | .lte | .isIn | .notIn => s!"absent-field-matches:op={opWord c.op}:dt={dtWord c.dt}"
  | op => s!"absent-field-matches:op={opWord op}"

def usesRoot (c : Cond) : Bool := (effFields c).any fun f => hasPrefix f rootPrefix

def monEval (st : Inp) (g : Graph) (obs : String) : List Fail :=
  let toks := obs.splitOn " "
  let t := traceOf st
  let E := extOf g
  let ns := t.spans.length
  match kv toks "rate", kv toks "keep", kv toks "reason", kv toks "key", kv toks "m", kv toks "x" with
  | some rate, some keep, some reason, some key, some m, some x =>
    let rate := rate.toNat?.getD 0
    let keep := keep == "1"
    let reason := dec reason
    let key := dec key
    let mbits := if m == "-" then [] else m.toList
    let rows := if x == "-" then st.rules.map (fun _ => "") else x.splitOn "|"
    if mbits.length != 2 * st.rules.length || rows.length != st.rules.length then [mk "obs-shape" "m/x do not have one entry per rule"] else
    -- per rule: cells[j][k] for condition j, span k
    let perRule : List (Rule × (Bool × Bool) × List (Cond × List (Option Cell))) :=
      (st.rules.zip (rows.zip (List.range st.rules.length))).map fun (r, row, i) =>
        let cs := if r.conds.isEmpty then [] else row.splitOn ";"
        (r, (mbits.getD (2 * i) '0' == '1', mbits.getD (2 * i + 1) '0' == '1'),
          (r.conds.zip cs).map fun (c, cstr) => (c, (splitNonEmpty cstr ",").map parseCell))
    let shapeBad := perRule.any fun (r, _, cs) =>
      cs.length != r.conds.length || cs.any fun (_, cells) => cells.length != ns || cells.any Option.isNone
    if shapeBad then [mk "obs-shape" "matrix does not have one readable cell per (condition, span)"] else
    let cellsOf (cells : List (Option Cell)) : List Cell := cells.filterMap id
    -- (1) absent fields, (4) extraction
    let condFails := perRule.flatMap fun (r, _, cs) => cs.flatMap fun (c, cells) =>
      let cells := cellsOf cells
      let absent := ns > 0 && cells.all (fun x => !x.ex) && c.op != .notEx && cells.any (·.m)
      (if absent then [mk (absentSig c) s!"rule {r.name}: {opWord c.op} (datatype {dtWord c.dt}) matched although no span has the field"] else []) ++
      ((cells.zip t.spans).flatMap fun (x, s) =>
        let (v, ex) := specExtract E t s c
        if x.ex == ex && x.val == some v then [] else
          let sig := if c.field == numDescendants then "num-descendants" else (nestedSig E t s c x.ex x.val).getD (if usesRoot c then "root-prefix" else "fields-first-present")
          [mk sig s!"rule {r.name}: extracted {(x.val.map valTok).getD "?"} exists={x.ex}, documented lookup gives {valTok v} exists={ex}"]).foldl
            (fun (acc : List Fail) f => if acc.any (·.sig == f.sig) then acc else acc ++ [f]) [] ++
      -- (5) the operator itself, on the value the implementation extracted from a span that has the field
      (cells.flatMap fun x =>
        match x.val with
        | some v =>
          -- only on arguments for which the external graphs are known (an extraction already reported
          -- as wrong may lie outside them)
          let known := (g.fmt.lookup v).isSome &&
            (c.op != .regex || !E.rxCompiles (E.fmt c.val) || (g.rxm.lookup (E.fmt c.val, E.fmt v)).isSome)
          if x.ex && known && x.m != condValue E c v true then
            [mk s!"comparison:op={opWord c.op}:dt={dtWord c.dt}" s!"rule {r.name}: {valTok v} {opWord c.op} {valTok c.val} (datatype {dtWord c.dt}) gave {x.m}"]
          else if !x.ex && c.op == .notEx && !x.m then
            [mk "comparison:op=not-exists:dt=none" s!"rule {r.name}: not-exists did not match a span without the field"]
          else []
        | none => []).take 1
    -- (2) scopes
    let ruleRes := perRule.map fun (r, (mt, ms), cs) =>
      let cs' : List (Cond × List Cell) := cs.map fun (c, cells) => (c, cellsOf cells)
      let specT := r.conds.isEmpty || cs'.all fun (p : Cond × List Cell) =>
        if p.1.op == Op.hasRootSpan then t.root.isSome == toBool E p.1.val else p.2.any Cell.m
      let specS := r.conds.isEmpty || (List.range ns).any fun k => cs'.all fun (p : Cond × List Cell) => (p.2[k]?.map Cell.m).getD false
      (r, mt, ms, specT, specS)
    let scopeFails := ruleRes.flatMap fun (r, mt, ms, specT, specS) =>
      (if mt != specT then [mk "trace-scope-not-forall-exists" s!"rule {r.name}: trace-scope result {mt}, every condition matched by some span: {specT}"] else []) ++
      (if ms != specS then [mk "span-scope-not-exists-forall" s!"rule {r.name}: span-scope result {ms}, some span matched by all conditions: {specS}"] else [])
    -- (3) decision
    let matched := ruleRes.map fun (r, mt, ms, _, _) => (r, match r.scope with | .span => ms | .trace => mt | .invalid => true)
    let decFails : List Fail :=
      match matched.find? (·.2) with
      | none =>
        if rate == 1 && keep && reason == "no rule matched" && key == "" then []
        else [mk "no-match-not-kept-at-1" s!"no rule matches but rate={rate} keep={keep} reason={reason}"]
      | some (r, _) =>
        match r.sampler with
        | some id =>
          match (g.down.lookup id).getD none with
          | none =>
            if rate == 1 && keep && reason == scopePrefix r.scope ++ "bad_rule:" ++ r.name then [] else [mk "delegation" s!"rule {r.name} has no downstream sampler but rate={rate} keep={keep} reason={reason}"]
          | some d =>
            if rate == d.rate && keep == d.keep && key == d.key && reason == scopePrefix r.scope ++ r.name ++ ":" ++ d.reason then []
            else
              -- is it the answer another rule's downstream sampler gives for this trace?
              let other := st.rules.find? fun r' => match r'.sampler with
                | some id' => id' != id && (match (g.down.lookup id').getD none with
                  | some d' => rate == d'.rate && keep == d'.keep && key == d'.key && reason == scopePrefix r.scope ++ r.name ++ ":" ++ d'.reason
                  | none => false)
                | none => false
              match other with
              | some r' => [mk "downstream-sampler-of-another-rule" s!"first matching rule {r.name} (#{id}) has a downstream sampler answering rate={d.rate} key={d.key} reason={d.reason}, but the sampler returned rate={rate} key={key} reason={reason}, which is the answer of the downstream sampler of rule #{r'.sampler.getD 0} ({r'.name})"]
              | none => [mk "delegation" s!"rule {r.name}: downstream said rate={d.rate} keep={d.keep} reason={d.reason}, sampler returned rate={rate} keep={keep} reason={reason}"]
        | none =>
          if reason != scopePrefix r.scope ++ r.name then [mk "first-match-wrong-rule" s!"first matching rule is {r.name} but reason={reason}"]
          else if r.drop && keep then [mk "drop-rule-kept" s!"drop rule {r.name} kept the trace"]
          else if rate != toUint r.rate then [mk "rate-rule-rate" s!"rule {r.name} SampleRate {r.rate} but rate={rate}"]
          else if keep != (!r.drop && r.rate > 0 && (g.intn.lookup r.rate).getD 1 == 0) then [mk "rate-rule-keep" s!"rule {r.name} SampleRate {r.rate} draw {(g.intn.lookup r.rate).getD 1} but keep={keep}"]
          else if key != "" then [mk "rate-rule-key" s!"rule {r.name} returned key {key}"]
          else []
    condFails ++ scopeFails ++ decFails
  | _, _, _, _, _, _ => []      -- start-error / bad-op / panic: reported by the model comparison

def rulesMon (st : Inp) (op : List String) (exts : List (List String)) (obs : Option String) : Inp × List Fail :=
  match applyInput st op exts with
  | some (some st') => (st', [])
  | some none => (st, [])
  | none =>
    match op, obs with
    | ["eval", _], some o =>
      if o.startsWith "panic" then (st, [mk "sampler-panic" ("GetSampleRate / rule evaluation panicked: " ++ o)]) else
      let (g, bad) := addExts st.g st.bad exts true
      let keep : Graph := { g with rxc := [], rxm := [], down := [], intn := [] }
      ({ st with g := keep, bad := bad }, if bad || (missingExt st g).isSome then [] else monEval st g o)
    | _, _ => (st, [])

def comp : Component Inp Inp where
  init := fun args => { nested := kv args "nested" == some "1" }
  step := rulesStep
  minit := fun args => { nested := kv args "nested" == some "1" }
  mon := rulesMon

def main : IO Unit := do runLoop comp (← IO.getStdin)
