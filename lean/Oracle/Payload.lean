import Oracle.Lib
import Refinery.Model.Payload
/-
Oracle for `types.Payload` (C21, C20).
case args: prof=<id|fwd> tn=<list> pn=<list> sk=<list> ua=<enc>      (lists: comma separated, `-` = empty)
ops:  ev <path> <n> (<key> <value…>)×n     path = mp | jb | js | om
      memo <key>…   get <key>   has <key>   set <key> <value…>   out   fwd
value / key token syntax: see harness/cmd/payload/codec.go.  Strings stay percent-encoded tokens
(injective), the empty string is the token `%`.
-/
open Refinery Refinery.Model.Payload Oracle

namespace PayloadOracle

/-! ### tokens -/

def decTok (s : String) : String := if s == "%" then "" else s
def encTok (s : String) : String := if s == "" then "%" else s

/-- split at the first ':' -/
def cut (tok : String) : String × String :=
  match tok.splitOn ":" with
  | [] => ("", "")
  | [a] => (a, "")
  | a :: rest => (a, ":".intercalate rest)

def hexVal (c : Char) : Option Nat :=
  if '0' ≤ c ∧ c ≤ '9' then some (c.toNat - '0'.toNat)
  else if 'a' ≤ c ∧ c ≤ 'f' then some (c.toNat - 'a'.toNat + 10)
  else if 'A' ≤ c ∧ c ≤ 'F' then some (c.toNat - 'A'.toNat + 10)
  else none

def parseHex (s : String) : Option Nat :=
  if s.isEmpty then none else
  s.toList.foldl (fun acc c => match acc, hexVal c with
    | some a, some d => some (a * 16 + d)
    | _, _ => none) (some 0)

def hexDigit (n : Nat) : Char := if n < 10 then Char.ofNat (48 + n) else Char.ofNat (87 + n)

def toHex (width n : Nat) : String :=
  let rec go (fuel n : Nat) (acc : List Char) : List Char :=
    match fuel with
    | 0 => acc
    | f + 1 => go f (n / 16) (hexDigit (n % 16) :: acc)
  String.ofList (go width n [])

def parseList (s : String) : List String :=
  if s == "-" || s == "" then [] else (s.splitOn ",").map decTok

def listStr (l : List String) : String :=
  if l.isEmpty then "-" else ",".intercalate ((l.map encTok).mergeSort (fun a b => !(b < a)))

partial def parseVal : List String → Option (Val × List String)
  | [] => none
  | tok :: rest =>
    let (tag, body) := cut tok
    match tag.toList.head? with
    | some 's' => some (.str (decTok body), rest)
    | some 'b' => some (.bin (decTok body), rest)
    | some 'i' => body.toInt?.map fun i => (.int i, rest)
    | some 'u' => body.toNat?.map fun n => (.uint n, rest)
    | some 'f' => (parseHex body).map fun n => (.f32 n, rest)
    | some 'd' => (parseHex body).map fun n => (.f64 n, rest)
    | some 'n' => (parseHex (cut body).1).map fun n => (.f64 n, rest)
    | some 'T' => some (.bool true, rest)
    | some 'F' => some (.bool false, rest)
    | some 'N' => some (.nil, rest)
    | some 't' =>
      let (a, b) := cut body
      match a.toInt?, b.toInt? with
      | some s, some n => some (.time s n, rest)
      | _, _ => none
    | some 'x' =>
      let (a, b) := cut body
      match a.toInt?, b.toInt? with
      | some s, some n => some (.ext5 s n, rest)
      | _, _ => none
    | some 'a' =>
      match body.toNat? with
      | none => none
      | some n =>
        let rec items (n : Nat) (toks : List String) (acc : List Val) : Option (List Val × List String) :=
          match n with
          | 0 => some (acc.reverse, toks)
          | m + 1 => match parseVal toks with
            | none => none
            | some (v, toks') => items m toks' (v :: acc)
        (items n rest []).map fun (l, r) => (.arr l, r)
    | some 'm' =>
      match body.toNat? with
      | none => none
      | some n =>
        let rec entries (n : Nat) (toks : List String) (acc : List (String × Val)) :
            Option (List (String × Val) × List String) :=
          match n with
          | 0 => some (acc.reverse, toks)
          | m + 1 => match toks with
            | [] => none
            | kt :: toks1 =>
              let (t, kb) := cut kt
              if t != "k" && t != "K" then none else
              match parseVal toks1 with
              | none => none
              | some (v, toks') => entries m toks' ((decTok kb, v) :: acc)
        (entries n rest []).map fun (l, r) => (.map l, r)
    | _ => none

def parseKey (tok : String) : Option String :=
  let (t, kb) := cut tok
  if t == "k" || t == "K" then some (decTok kb) else none

def sortFields (l : List (String × Val)) : List (String × Val) :=
  l.mergeSort (fun a b => !(encTok b.1 < encTok a.1))

/-- canonical rendering: every map stably sorted by (encoded) key -/
partial def render : Val → List String
  | .str s => ["s:" ++ encTok s]
  | .bin s => ["b:" ++ encTok s]
  | .int i => [s!"i:{i}"]
  | .uint n => [s!"u:{n}"]
  | .f32 b => ["f:" ++ toHex 8 b]
  | .f64 b => ["d:" ++ toHex 16 b]
  | .bool true => ["T"]
  | .bool false => ["F"]
  | .nil => ["N"]
  | .time s n => [s!"t:{s}:{n}"]
  | .ext5 s n => [s!"x:{s}:{n}"]
  | .arr l => s!"a:{l.length}" :: (l.map render).flatten
  | .map l => s!"m:{l.length}" :: ((sortFields l).map fun kv => ("k:" ++ encTok kv.1) :: render kv.2).flatten

def renderStr (v : Val) : String := " ".intercalate (render v)

/-! ### model side -/

structure St where
  cfg : Cfg := {}
  cur : Option Pay := none
  held : AList String Pay := []      -- events queued by `post`

def cfgOf (args : List String) : Cfg :=
  { tn := parseList ((kv args "tn").getD "-"), pn := parseList ((kv args "pn").getD "-"),
    sk := parseList ((kv args "sk").getD "-"), ua := decTok ((kv args "ua").getD "%") }

def outcomeStr : Outcome → String
  | .err => "err"
  | .probe => "probe"
  | .nonspan => "nonspan"
  | .span t r => s!"span:{encTok t}:{if r then "T" else "F"}"

def rootStr (p : Pay) : String :=
  match p.md.id.root with
  | none => "n"
  | some true => "T"
  | some false => "F"

def stateStr (p : Pay) : String := s!"m={listStr (AList.keys p.memo)} x={listStr p.missing}"

/-- the payload the harness keeps after an `ev`: spans and non-span events, not errors / probes -/
def keptOf (r : Option Pay) : Option Pay :=
  match r with
  | none => none
  | some p => match outcome p with
    | .span _ _ => some p
    | .nonspan => some p
    | _ => none

def evObs (o : String) (r : Option Pay) : String :=
  match keptOf r with
  | none => s!"o={o}"
  | some p => s!"o={o} r={rootStr p} {stateStr p}"

def parseFields : Nat → List String → List (String × Val) → Option (List (String × Val))
  | 0, [], acc => some acc.reverse
  | 0, _ :: _, _ => none
  | _ + 1, [], _ => none
  | n + 1, kt :: toks, acc =>
    match parseKey kt, parseVal toks with
    | some k, some (v, rest) => parseFields n rest ((k, v) :: acc)
    | _, _ => none

partial def perms {α : Type} : List α → List (List α)
  | [] => [[]]
  | l => (List.range l.length).flatMap fun i =>
      match l[i]? with
      | none => []
      | some x => (perms (l.eraseIdx i)).map (x :: ·)

/-- the entries whose relative iteration order can influence `ExtractMetadata`'s result -/
def orderRelevant (cfg : Cfg) (kv : String × Val) : Bool :=
  match kv.2 with
  | .str _ => cfg.tn.contains kv.1 || cfg.pn.contains kv.1 || kv.1 == kTid
  | .bool _ => kv.1 == kRoot
  | _ => false

/-- candidate iteration orders of the memoised map: every permutation of the order-relevant entries
(at most 7 of them), followed by the others -/
def candidateOrders (cfg : Cfg) (memo : List (String × Val)) : List (List (String × Val)) :=
  let rel := memo.filter fun kv => orderRelevant cfg kv
  let irr := memo.filter fun kv => !orderRelevant cfg kv
  if rel.length > 7 then [memo] else (perms rel).map (· ++ irr)

def f2iOf (exts : List (List String)) : Nat → Int :=
  let tbl := exts.filterMap fun e =>
    match e with
    | ["f2i", h, "=", v] => match parseHex h, v.toInt? with
      | some b, some i => some (b, i)
      | _, _ => none
    | _ => none
  fun b => ((tbl.find? fun e => e.1 == b).map (·.2)).getD 0

/-- the path's JSON number parser where it differs from the nearest float64 (graph from the harness) -/
def jnumOf (exts : List (List String)) : Nat → Nat :=
  let tbl := exts.filterMap fun e =>
    match e with
    | ["jnum", a, "=", b] => match parseHex a, parseHex b with
      | some x, some y => some (x, y)
      | _, _ => none
    | _ => none
  fun b => ((tbl.find? fun e => e.1 == b).map (·.2)).getD b

partial def mapF64 (f : Nat → Nat) : Val → Val
  | .f64 b => .f64 (f b)
  | .arr l => .arr (l.map (mapF64 f))
  | .map l => .map (l.map fun kv => (kv.1, mapF64 f kv.2))
  | v => v

def pickOf (exts : List (List String)) : Option (String × String) :=
  exts.findSome? fun e => match e with
    | ["pick", o, r] => some (o, r)
    | _ => none

def seenOf (exts : List (List String)) : Option String :=
  exts.findSome? fun e => match e with
    | ["seen", s] => some s
    | _ => none

def resKey (r : Option Pay) : String × String :=
  (outcomeStr (outcomeOf r), match keptOf r with | some p => rootStr p | none => "n")

def stepEv (s : St) (path : String) (fs0 : List (String × Val)) (exts : List (List String)) :
    St × Option String :=
  let fs := if path == "jb" || path == "js" then fs0.map (fun kv => (kv.1, mapF64 (jnumOf exts) kv.2)) else fs0
  match path with
  | "mp" | "jb" | "pr" =>
    let r := ingestBatchF fixedNow s.cfg fs
    ({ s with cur := keptOf r }, some (evObs (outcomeStr (outcomeOf r)) r))
  | "om" =>
    let r := ingestMetaF fixedNow s.cfg fs
    ({ s with cur := keptOf r }, some (evObs (outcomeStr (outcomeOf r)) r))
  | "js" =>
    let f2i := f2iOf exts
    let memo := memoOfJSON fs
    let results := (candidateOrders s.cfg memo).map fun ord => ingestMapF fixedNow s.cfg f2i fs ord
    let canon := results.head?.getD none
    match seenOf exts with
    | none => ({ s with cur := keptOf canon }, some (evObs (outcomeStr (outcomeOf canon)) canon))
    | some seen =>
      -- acceptor: every outcome the implementation showed, and the one it kept, must be produced by
      -- some iteration order of the model
      let outs := results.map fun r => outcomeStr (outcomeOf r)
      let okSeen := (seen.splitOn "|").all fun o => outs.contains o
      let chosen := match pickOf exts with
        | none => if okSeen then some canon else none
        | some pk => results.find? fun r => resKey r == pk
      match okSeen, chosen with
      | true, some r => ({ s with cur := keptOf r }, some (evObs seen r))
      | _, _ => ({ s with cur := keptOf canon }, some (evObs (outcomeStr (outcomeOf canon)) canon))
  | _ => (s, some "bad-op")

def step (s : St) (op : List String) (exts : List (List String)) : St × Option String :=
  match op with
  | "ev" :: path :: n :: toks =>
    match n.toNat? with
    | none => (s, some "bad-op")
    | some n => match parseFields n toks [] with
      | none => (s, some "bad-op")
      | some fs => stepEv s path fs exts
  | "post" :: id :: path :: n :: toks =>
    match n.toNat? with
    | none => (s, some "bad-op")
    | some n => match parseFields n toks [] with
      | none => (s, some "bad-op")
      | some fs =>
        let (s', o) := stepEv s path fs exts
        ({ s' with held := qstep s'.held (.post id s'.cur) }, o)
  | ["outq", id] =>
    match AList.get s.held id with
    | none => (s, some "nopayload")
    | some p => (s, some (renderStr (.map (marshalF fixedNow p))))
  | "memo" :: ks =>
    match s.cur with
    | none => (s, some "nopayload")
    | some p =>
      match ks.mapM parseKey with
      | none => (s, some "bad-op")
      | some keys =>
        let p' := memoize p keys
        ({ s with cur := some p' }, some (stateStr p'))
  | ["get", kt] =>
    match s.cur, parseKey kt with
    | none, _ => (s, some "nopayload")
    | _, none => (s, some "bad-op")
    | some p, some k => (s, some (match p.get k with | some v => renderStr v | none => "N"))
  | ["has", kt] =>
    match s.cur, parseKey kt with
    | none, _ => (s, some "nopayload")
    | _, none => (s, some "bad-op")
    | some p, some k => (s, some (if p.has k then "T" else "F"))
  | "set" :: kt :: toks =>
    match s.cur with
    | none => (s, some "nopayload")
    | some p =>
      match parseKey kt, parseVal toks with
      | some k, some (v, []) => ({ s with cur := some (p.set k v) }, none)
      | _, _ => (s, some "bad-op")
  | ["out"] =>
    match s.cur with
    | none => (s, some "nopayload")
    | some p => (s, some (renderStr (.map (marshalF fixedNow p))))
  | ["fwd"] =>
    match s.cur with
    | none => (s, some "nopayload")
    | some p =>
      if p.md.id.tid = "" then (s, some "nofwd") else
      -- the wire order of the re-encoded event is the implementation's choice (Go-map iteration in
      -- `MarshalMsg`), passed as `ext worder`; accepted when it is a rearrangement of the model's fields
      let fields := marshalF fixedNow p
      let ordered := match exts.findSome? (fun e => match e with | ["worder", ks] => some (parseList ks) | _ => none) with
        | none => fields
        | some ks =>
          let picked := ks.filterMap fun k => fields.find? fun kv => kv.1 == k
          if picked.length == fields.length && ks.eraseDups.length == ks.length then picked else fields
      let r := ingestBatchF fixedNow s.cfg ordered
      (s, some (evObs (outcomeStr (outcomeOf r)) r))
  | _ => (s, some "bad-op")

/-! ### monitors (implementation observations + the generated inputs only) -/

structure MSt where
  cfg : Cfg := {}
  path : String := ""
  fs : List (String × Val) := []        -- fields of the last `ev`
  sets : List (String × Val) := []      -- keys Refinery itself `Set` since, latest first
  posted : Option String := none        -- id of the `post` whose `out` comes next
  before : List (String × String) := [] -- id ↦ the re-encoding observed right after the `post`

def nonEmptyStrAt (fs : List (String × Val)) (k : String) : Option String :=
  fs.findSome? fun kv => if kv.1 == k then (match kv.2 with
    | .str x => if x == "" then none else some x
    | _ => none) else none

def hasEmptyStrAt (fs : List (String × Val)) (k : String) : Bool :=
  fs.any fun kv => kv.1 == k && (match kv.2 with | .str x => x == "" | _ => false)

def reserved (k : String) : Bool := (tableKind k).isSome

/-- C21: what the property says the span handed to the collector must be, from the input alone -/
def c21Expected (cfg : Cfg) (fs : List (String × Val)) : Outcome :=
  let cands := cfg.tn.filterMap (nonEmptyStrAt fs)
  let tid := match nonEmptyStrAt fs kTid with
    | some m => m
    | none => cands.head?.getD ""
  let hasParent := cfg.pn.any fun k => (nonEmptyStrAt fs k).isSome
  let isLog := fs.any fun kv => kv.1 == kSig && (match kv.2 with | .str x => x == "log" | _ => false)
  if tid == "" then .nonspan else .span tid (!hasParent && !isLog)

def c21InScope (cfg : Cfg) (fs : List (String × Val)) : Bool :=
  let ks := fs.map (·.1)
  (cfg.tn ++ cfg.pn).all (fun k => !reserved k) && cfg.tn.all (fun k => !cfg.pn.contains k)
    && ks.eraseDups.length == ks.length && !ks.contains kRoot && !ks.contains kProbe

/-- `a` and `b` are different names that differ only in letter case -/
def caseVariantOf (a b : String) : Bool := a != b && a.toLower == b.toLower

def c21Cause (cfg : Cfg) (fs : List (String × Val)) : String :=
  if fs.any (fun kv => (cfg.tn ++ cfg.pn).any (caseVariantOf kv.1)) then "case-variant-of-id-field"
  else if hasEmptyStrAt fs kTid then "empty-meta-trace-id"
  else if (cfg.tn.filterMap (nonEmptyStrAt fs)).eraseDups.length ≥ 2 then "several-trace-id-fields"
  else "other"

def c21Check (cfg : Cfg) (path : String) (fs : List (String × Val)) (o : String) : List Fail :=
  let exp := c21Expected cfg fs
  let cause := c21Cause cfg fs
  let mk (what : String) : List Fail :=
    [{ prop := "C21", sig := s!"C21:{what}:{cause}:path={path}",
       what := s!"handed on as {o}, the ID-field configuration says {outcomeStr exp}" }]
  if o == "err" || o == "probe" || o == outcomeStr exp then [] else
  match exp with
  | .nonspan => mk "belongs"
  | .span t _ =>
    if o == "nonspan" then mk "belongs"
    else if o == outcomeStr (.span t true) || o == outcomeStr (.span t false) then mk "root"
    else mk "trace-id"
  | _ => []

/-- msgpack has one integer type; a non-negative value up to 127 has a single encoding (positive
fixint) whatever family wrote it, so the comparison identifies `uint n` and `int n` there. -/
partial def normU : Val → Val
  | .uint n => if n ≤ 127 then .int n else .uint n
  | .arr l => .arr (l.map normU)
  | .map l => .map (l.map fun kv => (kv.1, normU kv.2))
  | v => v

def cmpStr (v : Val) : String := renderStr (normU v)

/-- the decoded top-level map of an `out` observation -/
def outEntries (obs : String) : Option (List (String × Val)) :=
  match parseVal (obs.splitOn " ") with
  | some (.map l, []) => some l
  | _ => none

partial def maskF64 : Val → Val
  | .f64 _ => .f64 0
  | .arr l => .arr (l.map maskF64)
  | .map l => .map (l.map fun kv => (kv.1, maskF64 kv.2))
  | v => v

partial def maskTime : Val → Val
  | .time _ _ => .nil
  | .ext5 _ _ => .nil
  | .arr l => .arr (l.map maskTime)
  | .map l => .map (l.map fun kv => (kv.1, maskTime kv.2))
  | v => v

partial def hasNestedDup : Val → Bool
  | .arr l => l.any hasNestedDup
  | .map l => (l.map (·.1)).eraseDups.length != l.length || l.any fun kv => hasNestedDup kv.2
  | _ => false

partial def hasTime : Val → Bool
  | .time _ _ => true
  | .arr l => l.any hasTime
  | .map l => l.any fun kv => hasTime kv.2
  | _ => false

def tagName (v : Val) : String :=
  match v.tag with
  | .str => "str" | .bin => "bin" | .int => "int" | .uint => "uint" | .f32 => "f32" | .f64 => "f64"
  | .bool => "bool" | .nil => "nil" | .time => "time" | .ext5 => "ext5" | .arr => "arr" | .map => "map"

def keyClass (cfg : Cfg) (k : String) : String :=
  if cfg.sk.contains k then "sampling-key-field"
  else if cfg.tn.contains k || cfg.pn.contains k then "id-field"
  else "plain-field"

/-- C20 on a re-encoded payload: every client field with a non-reserved name is there exactly once
with its value; nothing else appears except reserved metadata names and what Refinery `Set`. -/
def c20Check (m : MSt) (obs : String) : List Fail :=
  let mk (sig what : String) : List Fail := [{ prop := "C20", sig := sig, what := what }]
  if obs == "nopayload" then [] else
  match outEntries obs with
  | none => mk "C20:undecodable" s!"re-encoded payload is not a decodable map: {obs}"
  | some out =>
    let inKeys := m.fs.map (·.1)
    if inKeys.eraseDups.length != inKeys.length then [] else       -- scope: unique client keys
    let outKeys := out.map (·.1)
    let dups := if outKeys.eraseDups.length != outKeys.length then
        mk "C20:duplicate-key" s!"a key is emitted twice: {listStr outKeys}" else []
    let setKeys := m.sets.map (·.1)
    let lostOrAltered := m.fs.flatMap fun kv =>
      if reserved kv.1 || setKeys.contains kv.1 then [] else
      match out.find? (fun e => e.1 == kv.1) with
      | none => mk s!"C20:field-lost:{keyClass m.cfg kv.1}" s!"client field {encTok kv.1} is missing from the re-encoded event"
      | some e =>
        if hasNestedDup kv.2 then [] else
        let want := cmpStr kv.2
        if cmpStr e.2 == want then [] else
        let cls := if hasTime kv.2 && cmpStr (maskTime e.2) == cmpStr (maskTime kv.2) then "timestamp-as-private-ext5"
          else if (m.path == "jb" || m.path == "js") && cmpStr (maskF64 e.2) == cmpStr (maskF64 kv.2) then
            s!"json-number-not-nearest-float:path={m.path}"
          else tagName kv.2
        -- a case variant of a key field explains the alteration only when it is the other field's value
        -- that was forwarded, and nothing listed above already explains it
        let js := m.path == "jb" || m.path == "js"
        let sameAs (a b : Val) : Bool := cmpStr a == cmpStr b || (js && cmpStr (maskF64 a) == cmpStr (maskF64 b))
        let cls := if cls == tagName kv.2 && m.cfg.sk.contains kv.1
            && m.fs.any (fun o => caseVariantOf kv.1 o.1 && sameAs e.2 o.2) then "case-variant-of-key-field" else cls
        mk s!"C20:value-altered:{cls}" s!"client field {encTok kv.1} sent as {want} re-encoded as {cmpStr e.2}"
    let added := out.flatMap fun e =>
      if reserved e.1 || inKeys.contains e.1 then [] else
      match m.sets.find? (fun s => s.1 == e.1) with
      | none =>
        if m.cfg.sk.contains e.1 && inKeys.any (caseVariantOf e.1) then
          mk "C20:field-invented:case-variant-of-key-field"
            s!"key {encTok e.1} (a sampler key field) was not sent by the client, only a name differing in letter case"
        else mk "C20:field-added" s!"key {encTok e.1} was neither sent by the client nor set by Refinery"
      | some s => if cmpStr e.2 == cmpStr s.2 then [] else
          mk "C20:set-value-altered" s!"Refinery set {encTok e.1} to {renderStr s.2}, re-encoded as {cmpStr e.2}"
    dups ++ lostOrAltered ++ added

/-- C20 across requests: the re-encoding of a queued event after later requests must be what it was
right after its own request (implementation observations only). -/
def c20Later (id before after : String) : List Fail :=
  if before == after then [] else
  let what := s!"queued event {id}: re-encoded as {before} right after its request, as {after} after later requests"
  match outEntries before, outEntries after with
  | some b, some a =>
    if b.any (fun e => !(a.map (·.1)).contains e.1) then
      [{ prop := "C20", sig := "C20:field-lost:after-later-request", what := what }]
    else [{ prop := "C20", sig := "C20:value-altered:after-later-request", what := what }]
  | _, _ => [{ prop := "C20", sig := "C20:undecodable:after-later-request", what := what }]

partial def mon (m : MSt) (op : List String) (exts : List (List String)) (obs : Option String) : MSt × List Fail :=
  match op with
  | "post" :: id :: rest =>
    let (m', fs) := mon m ("ev" :: rest) exts obs
    ({ m' with posted := some id, before := m'.before.filter (fun e => e.1 != id) }, fs)
  | ["outq", id] =>
    match obs, m.before.find? (fun e => e.1 == id) with
    | some o, some b => (m, c20Later id b.2 o)
    | _, _ => (m, [])
  | "ev" :: path :: n :: toks =>
    match n.toNat?.bind fun n => parseFields n toks [] with
    | none => (m, [])
    | some fs =>
      let m' := { m with path := path, fs := fs, sets := [], posted := none }
      let o := (obs.getD "").splitOn " " |>.findSome? fun t => if t.startsWith "o=" then some (t.drop 2).toString else none
      match o with
      | none => (m', [])
      | some os =>
        if !c21InScope m.cfg fs then (m', []) else
        (m', (os.splitOn "|").flatMap fun o => c21Check m.cfg path fs o)
  | "set" :: kt :: toks =>
    match parseKey kt, parseVal toks with
    | some k, some (v, []) => ({ m with sets := (k, v) :: m.sets }, [])
    | _, _ => (m, [])
  | ["out"] =>
    match obs with
    | some o =>
      let m' := match m.posted with
        | some id => if o == "nopayload" then m else { m with before := (id, o) :: m.before }
        | none => m
      (m', c20Check m o)
    | none => (m, [])
  | _ => (m, [])

def comp : Component St MSt where
  init := fun args => { cfg := cfgOf args }
  step := step
  minit := fun args => { cfg := cfgOf args }
  mon := mon

end PayloadOracle

def main : IO Unit := do Oracle.runLoop PayloadOracle.comp (← IO.getStdin)
