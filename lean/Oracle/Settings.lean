import Oracle.Lib
import Refinery.Model.Settings
/-
Oracle for the settings loader (C29).

ops
  load m=<v|nv> p=<path> k=<str|strs|smap|num> d=<val> doc=<val|-> ph=<val|-> oe=<0|1> ec=<none|plain|mask>
       n=<#options> dl<i>=<s:c|-> F<i>=<l:raw,…|-> E<i>=<s:raw|-> A=<val|-> B=<val|-> X=<m:NAME~value,…>
       (+ loc= eq= : how the harness phrases the command line; no meaning for the model)
     one complete start-up of the real loader: the setting `p` under test, its descriptor as read from
     the real structs by reflection (kind, default tag, cmdenv options in tag order with env-delim),
     the flag occurrences / environment variable per option, the setting's value in config file 1 / 2
     and the process environment for ${VAR} references.
     obs:  ok <val> | rej <enc echo|?> | err <class>
     ext:  bad <val> = <0|1>      the field's real validator on that value alone
           getter <same|blank|other|none>
  exp s=<s:…> X=<m:…>            the real expandEnvVarsInString;  obs: <s:…>

values: s:<enc> | l:<enc>,… | m:<enc>~<enc>,… (sorted by key) | n:<digits> | -
-/
open Refinery Refinery.Model.Settings Oracle

namespace SettingsOracle

def hexVal (c : Char) : Nat :=
  if c.isDigit then c.toNat - 48
  else if 'A' ≤ c ∧ c ≤ 'F' then c.toNat - 55
  else if 'a' ≤ c ∧ c ≤ 'f' then c.toNat - 87 else 0

/-- kit.Dec -/
def dec (s : String) : String :=
  if s == "%" then "" else
  let rec go (cs : List Char) (acc : ByteArray) : ByteArray :=
    match cs with
    | '%' :: a :: b :: rest => go rest (acc.push (UInt8.ofNat (hexVal a * 16 + hexVal b)))
    | c :: rest => go rest (acc ++ (String.singleton c).toUTF8)
    | [] => acc
  (String.fromUTF8? (go s.toList ByteArray.empty)).getD "�"

def hexDigit (n : Nat) : Char := "0123456789ABCDEF".toList.getD n '0'

/-- kit.Enc -/
def enc (s : String) : String :=
  if s.isEmpty then "%" else
  String.ofList <| s.toUTF8.toList.flatMap fun b =>
    let c := Char.ofNat b.toNat
    if c.isAlphanum || c == '.' || c == '_' || c == ':' || c == '/' || c == '+' || c == '-' then [c]
    else ['%', hexDigit (b.toNat / 16), hexDigit (b.toNat % 16)]

def dropS (s : String) (n : Nat) : String := String.ofList (s.toList.drop n)

/-- key=value with the first `=` as separator -/
def tk (op : List String) (key : String) : Option String :=
  op.findSome? fun a => if (key ++ "=").isPrefixOf a then some (dropS a (key.length + 1)) else none

def splitTok (body : String) : List String := if body.isEmpty then [] else body.splitOn ","

def parseVal (t : String) : Option Val :=
  match t.toList with
  | 's' :: ':' :: b => some (.str (dec (String.ofList b)).toList)
  | 'n' :: ':' :: b => (String.ofList b).toNat?.map .num
  | 'l' :: ':' :: b => some (.list ((splitTok (String.ofList b)).map fun e => (dec e).toList))
  | 'm' :: ':' :: b =>
    some (.map ((splitTok (String.ofList b)).filterMap fun e =>
      match e.splitOn "~" with
      | [k, v] => some ((dec k).toList, (dec v).toList)
      | _ => none))
  | _ => none

def encS (s : Str) : String := enc (String.ofList s)

def valTok : Val → String
  | .str s => "s:" ++ encS s
  | .num n => "n:" ++ toString n
  | .list l => "l:" ++ ",".intercalate (l.map encS)
  | .map m =>
    let a := (m.map fun kv => (String.ofList kv.1, String.ofList kv.2)).toArray.qsort (fun a b => a.1 < b.1)
    "m:" ++ ",".intercalate (a.toList.map fun kv => enc kv.1 ++ "~" ++ enc kv.2)

def parseKind : String → Option Kind
  | "str" => some .str | "strs" => some .strs | "smap" => some .smap | "num" => some .num | _ => none

def envOf (op : List String) : Str → Str :=
  match (tk op "X").bind parseVal with
  | some (.map m) => fun n => (AList.get m n).getD []
  | _ => fun _ => []

structure Parsed where
  validate : Bool
  d : Desc
  s : Src
  ec : String

def parseOpt (op : List String) (i : Nat) : Option OptSrc := do
  let dl ← tk op s!"dl{i}"
  let f ← tk op s!"F{i}"
  let e ← tk op s!"E{i}"
  let delim : Option Char := match parseVal dl with
    | some (.str [c]) => some c
    | _ => none
  if dl != "-" && delim.isNone then none
  let flag : Option (List Str) ← (if f == "-" then some none else
    match parseVal f with | some (.list l) => some (some l) | _ => none)
  let env : Option Str ← (if e == "-" then some none else
    match parseVal e with | some (.str s) => some (some s) | _ => none)
  pure { delim, flag, env }

def parseFile (t : String) : Option (Option Val) :=
  if t == "-" then some none else (parseVal t).map some

def parseLoad (op : List String) : Option Parsed := do
  let m ← tk op "m"
  let k ← (tk op "k").bind parseKind
  let dflt ← (tk op "d").bind parseVal
  let ph ← tk op "ph"
  let placeholder : Option Str ← (if ph == "-" then some none else
    match parseVal ph with | some (.str s) => some (some s) | _ => none)
  let n ← (tk op "n").bind String.toNat?
  let opts ← (List.range n).mapM (parseOpt op)
  let a ← (tk op "A").bind parseFile
  let b ← (tk op "B").bind parseFile
  let ec ← tk op "ec"
  let oe ← tk op "oe"
  if m != "v" && m != "nv" then none
  pure { validate := m == "v", d := { kind := k, dflt, placeholder, omitEmpty := oe == "1" }, s := { opts, files := [a, b] }, ec }

def lastN (s : Str) (n : Nat) : Str := s.drop (s.length - n)

/-- `%v` echo of a value in a validation message (`maskString` for API keys) -/
def echoTok (ec : String) : Val → String
  | .str s =>
    if ec == "plain" then encS s
    else if ec == "mask" then (if s.length < 4 then enc "****" else enc ("****" ++ String.ofList (lastN s 4)))
    else "?"
  | _ => "?"

def extBad (exts : List (List String)) (v : Val) : Option Bool :=
  let t := valTok v
  exts.findSome? fun e =>
    match e with
    | ["bad", x, "=", r] => if x == t then some (r == "1") else none
    | _ => none

def errTok : Err → String
  | .cmdline => "err cmdline"
  | .noDelimiter => "err nodelim"

def modelLoad (op : List String) (exts : List (List String)) : String :=
  match parseLoad op with
  | none => "bad-op"
  | some p =>
    let env := envOf op
    if !p.validate then
      match loadUnvalidated p.d p.s env with
      | .accepted v => "ok " ++ valTok v
      | .rejected _ v => "rej " ++ echoTok p.ec v
      | .failed e => errTok e
    else
      -- the validator is a parameter of the model: its graph on the values that matter comes
      -- with the op; a value it was not asked about makes the step fail loudly
      let asked := [checkedFirst p.s env, ((checkedFinal p.d p.s env).toOption).join].filterMap id
      match asked.find? (fun v => (extBad exts v).isNone && (p.d.kind == .str)) with
      | some v => "no-ext-bad " ++ valTok v
      | none =>
        let bad := fun v => (extBad exts v).getD false
        match loadValidated p.d p.s env bad with
        | .accepted v => "ok " ++ valTok v
        | .rejected _ v => "rej " ++ echoTok p.ec v
        | .failed e => errTok e

def modelExp (op : List String) : String :=
  match (tk op "s").bind parseVal with
  | some (.str s) => valTok (.str (expand (envOf op) s))
  | _ => "bad-op"

def step (st : Unit) (op : List String) (exts : List (List String)) : Unit × Option String :=
  match op with
  | "load" :: rest => (st, some (modelLoad rest exts))
  | "exp" :: rest => (st, some (modelExp rest))
  | _ => (st, some "bad-op")

/-! ## Monitor: the property's conclusions, evaluated on the implementation's observations with
its own small string functions (`String.splitOn`), not with the model's. -/

def hasOpenS (s : String) : Bool := (s.splitOn "${").length > 1

/-- documented expansion of a string with at most one `${`: `none` when there are several -/
def expand1 (x : String → String) (s : String) : Option String :=
  match s.splitOn "${" with
  | [_] => some s
  | [p, rest] =>
    match rest.splitOn "}" with
    | [_] => some s                                  -- never closed
    | n :: t =>
      if n.isEmpty then some s                       -- `${}` is not a reference
      else
        let v := x n
        some (p ++ (if v.isEmpty then "${" ++ n ++ "}" else v) ++ "}".intercalate t)
    | [] => some s
  | _ => none

def strsOf : Val → List String
  | .str s => [String.ofList s]
  | .list l => l.map String.ofList
  | .map m => m.map fun kv => String.ofList kv.2
  | .num _ => []

def mapValM (f : String → Option String) : Val → Option Val
  | .str s => (f (String.ofList s)).map fun r => .str r.toList
  | .list l => (l.mapM fun e => f (String.ofList e)).map fun r => .list (r.map String.toList)
  | .map m => (m.mapM fun kv => (f (String.ofList kv.2)).map fun r => (kv.1, r.toList)).map .map
  | .num n => some (.num n)

def splitS (c : Char) (s : Str) : List Str :=
  ((String.ofList s).splitOn (String.singleton c)).map String.toList

def kvOf (r : Str) : Str × Str :=
  match (String.ofList r).splitOn ":" with
  | [] => ([], [])
  | k :: rest => (k.toList, (":".intercalate rest).toList)

def canonMap (m : List (Str × Str)) : List (Str × Str) :=
  -- last binding of a key wins; order is irrelevant (printed sorted)
  m.foldl (fun acc kv => (acc.filter fun x => x.1 != kv.1) ++ [kv]) []

/-- the documented value of one option (flag over environment; every list element counts) -/
def docOpt (k : Kind) (o : OptSrc) : Option (Option Val × String) :=
  let raw : Option (List Str × String) :=
    match o.flag with
    | some vs => some (vs, "flag")
    | none => match o.env with
      | some e => some ((match o.delim with | some c => splitS c e | none => [e]), "env")
      | none => none
  match raw with
  | none => some (none, "")
  | some (vs, w) =>
    match k with
    | .str => some (some (.str (vs.getLast?.getD [])), w)
    | .strs => some (some (.list (match o.delim with | some c => vs.flatMap (splitS c) | none => vs)), w)
    | .smap => some (some (.map (canonMap (vs.map kvOf))), w)
    | .num => match vs.getLast? with
      | none => some (none, w)
      | some r => match (String.ofList r).toNat? with
        | some n => some (some (.num n), w)
        | none => none

def sameVal (a b : Val) : Bool := valTok a == valTok b

def anyZeroPresent (p : Parsed) : Bool :=
  p.s.files.any (fun f => match f with | some v => isZero v | none => false) ||
  p.s.opts.any (fun o =>
    (match o.flag with | some vs => vs.isEmpty || vs.any List.isEmpty | none => false) ||
    (match o.env with | some e => e.isEmpty | none => false))

def mergeDoc (k : Kind) (a b : Option Val) : Option Val :=
  match k, a, b with
  | .smap, some (.map x), some (.map y) => some (.map (canonMap (x ++ y)))
  | _, a, none => a
  | _, _, some v => some v

def monLoad (op : List String) (exts : List (List String)) (obs : Option String) : List Fail :=
  match parseLoad op, obs with
  | some p, some o =>
    let path := (tk op "p").getD "?"
    let x : String → String := fun n => String.ofList (envOf op n.toList)
    let toks := o.splitOn " "
    let getter := exts.findSome? fun e => match e with | ["getter", g] => some g | _ => none
    -- documented winner
    let optVals := p.s.opts.map (docOpt p.d.kind)
    let firstOpt : Option (Val × String) := (optVals.zipIdx).findSome? fun (ov, i) =>
      match ov with
      | some (some v, w) => if isZero v then none else some (v, s!"{w}{i}")
      | _ => none
    let fileA := p.s.files.getD 0 none
    let fileB := p.s.files.getD 1 none
    let fromFiles := mergeDoc p.d.kind fileA fileB
    let nothing := firstOpt.isNone && fromFiles.isNone
    let (winner, who) : Val × String :=
      match firstOpt with
      | some (v, w) => (v, w)
      | none => match fromFiles with
        | some v => (v, if fileB.isSome then "file2" else "file1")
        | none => (p.d.dflt, "default")
    match toks with
    | ["ok", vt] =>
      match parseVal vt with
      | none => [{ prop := "C29", sig := "C29:unreadable-observation", what := o }]
      | some eff =>
        let precedence : List Fail :=
          if anyZeroPresent p || optVals.any Option.isNone then [] else
          match mapValM (expand1 x) winner with
          | none => []
          | some expected =>
            if sameVal eff expected then [] else
            let firstOnly : Bool :=
              match p.d.kind, p.s.opts.head?, firstOpt with
              | .strs, some o0, some _ =>
                (match o0.delim, (match o0.flag with | some vs => vs.head? | none => (o0.env.bind fun e => match o0.delim with | some c => (splitS c e).head? | none => some e)) with
                 | some c, some e0 => (mapValM (expand1 x) (.list (splitS c e0))).any (sameVal eff)
                 | _, _ => false)
              | _, _, _ => false
            if firstOnly then
              [{ prop := "C29", sig := s!"C29:slice-option-keeps-first-element:{(who.toList.takeWhile Char.isAlpha |> String.ofList)}",
                 what := s!"{path}: documented value {valTok expected} from {who}, effective {valTok eff}" }]
            else
              [{ prop := "C29", sig := s!"C29:precedence:{(tk op "k").getD "?"}:expected-{who}{if p.s.opts.length > 1 then ":fallback-chain" else ""}",
                 what := s!"{path}: expected {valTok expected} (from {who}), effective {valTok eff}" }]
        let docd : List Fail :=
          match (tk op "doc").bind parseVal with
          | some dv => if nothing && !sameVal eff dv then
              [{ prop := "C29", sig := s!"C29:default-differs-from-documented:{path}",
                 what := s!"{path}: nothing configured, documented default {valTok dv}, effective {valTok eff}" }] else []
          | none => []
        -- two coded exceptions: the API-key placeholder, and omitempty fields whose zero value is
        -- not part of the validated config
        let isPh := (p.d.placeholder.isSome && sameVal eff (.str [])) || (p.d.omitEmpty && isZero eff)
        let accBad : List Fail :=
          if p.validate && extBad exts eff == some true && !isPh then
            [{ prop := "C29", sig := "C29:accepted-value-fails-its-validator",
               what := s!"{path}: validation passed, the value in use {valTok eff} does not pass the field's validator" }] else []
        let gt : List Fail :=
          match getter with
          | some "other" => [{ prop := "C29", sig := "C29:getter-differs-from-field", what := s!"{path}: getter and struct field disagree" }]
          | some "blank" => if extBad exts eff == some true then [] else
              [{ prop := "C29", sig := "C29:getter-blank-for-valid-value", what := s!"{path}: getter returns \"\" for {valTok eff}" }]
          | _ => []
        precedence ++ docd ++ accBad ++ gt
    | ["rej", echo] =>
      -- validation objected to a value: it has to be the value that would have been used
      if !p.validate then [{ prop := "C29", sig := "C29:rejected-without-validation", what := o }] else
      match p.d.kind, firstOpt, (match fileB with | some v => some v | none => fileA) with
      | .str, some (v, w), some fv =>
        if anyZeroPresent p || (strsOf v ++ strsOf fv).any hasOpenS then [] else
        if echo == echoTok p.ec fv && echo != echoTok p.ec v && extBad exts v == some false then
          [{ prop := "C29", sig := "C29:validation-rejects-overridden-file-value",
             what := s!"{path}: start-up refused because of the file's value {valTok fv}, which {w} overrides with the valid {valTok v}" }]
        else []
      | _, _, _ => []
    | _ => []
  | _, _ => []

def monExp (op : List String) (obs : Option String) : List Fail :=
  match (tk op "s").bind parseVal, obs.bind parseVal with
  | some (.str s), some (.str r) =>
    let s' := String.ofList s
    let r' := String.ofList r
    let x : String → String := fun n => String.ofList (envOf op n.toList)
    let allUnset : Bool := match (tk op "X").bind parseVal with
      | some (.map m) => m.all fun kv => kv.2.isEmpty
      | _ => true
    (if allUnset && r' != s' then
      [{ prop := "C29", sig := "C29:expand-changed-unset-reference", what := s!"{enc s'} -> {enc r'} with no variable set" : Fail }] else []) ++
    (if !hasOpenS s' && r' != s' then
      [{ prop := "C29", sig := "C29:expand-outside-braces", what := s!"{enc s'} -> {enc r'} without any $\{" : Fail }] else []) ++
    (match expand1 x s' with
     | some e => if hasOpenS s' && !allUnset && e != r' then
         [{ prop := "C29", sig := "C29:expand-wrong-substitution", what := s!"{enc s'} -> {enc r'}, documented {enc e}" : Fail }] else []
     | none => [])
  | _, _ => []

def mon (m : Unit) (op : List String) (exts : List (List String)) (obs : Option String) : Unit × List Fail :=
  match op with
  | "load" :: rest => (m, monLoad rest exts obs)
  | "exp" :: rest => (m, monExp rest obs)
  | _ => (m, [])

def comp : Component Unit Unit where
  init := fun _ => ()
  step := step
  minit := fun _ => ()
  mon := mon

end SettingsOracle

def main : IO Unit := do runLoop SettingsOracle.comp (← IO.getStdin)
