import Oracle.Lib
import Refinery.Model.Decode
import Refinery.Gen.Encoding
/-
Oracle for the `encoding` harness (C09).  Grammar: see harness/cmd/encoding/main.go.

The case state is only *input*: the sampler configuration, the variant (encoded spans in arrival
order) built so far, and the graphs of the external functions (`ext` lines: fmt / conv / atoi /
pfloat / pbool accumulate over the case; rxc / rxm / down / intn / dyn / dintn belong to one
`eval`).  `step` predicts the whole observation with the model (`goOf` for every field, the rules
sampler and the dynamic key on the decoded trace).  `mon` compares, on the implementation's own
observations only, the outcomes of variants that carry the same logical trace.
-/
open Refinery.Model Refinery.Model.Decode Oracle
open Refinery.Gen.Rules (opNEQ opEQ opGT opLT opGTE opLTE opContains opDoesNotContain opStartsWith opExists
  opNotExists opHasRootSpan opMatches opIn opNotIn)

namespace Enc

/-! ## tokens -/

def hexVal (c : Char) : Nat :=
  if '0' ≤ c ∧ c ≤ '9' then c.toNat - '0'.toNat
  else if 'A' ≤ c ∧ c ≤ 'F' then c.toNat - 'A'.toNat + 10
  else if 'a' ≤ c ∧ c ≤ 'f' then c.toNat - 'a'.toNat + 10
  else 0

/-- kit.Dec -/
def dec (s : String) : String :=
  if s == "%" then "" else
  let rec go (cs : List Char) (acc : ByteArray) : ByteArray :=
    match cs with
    | '%' :: a :: b :: rest => go rest (acc.push (UInt8.ofNat (hexVal a * 16 + hexVal b)))
    | c :: rest => go rest (acc ++ (String.singleton c).toUTF8)
    | [] => acc
  (String.fromUTF8? (go s.toList ByteArray.empty)).getD "�"

def hexDigit (n : Nat) : Char := "0123456789ABCDEF".toList.getD n '0'

/-- kit.Enc -/
def enc (s : String) : String :=
  if s.isEmpty then "%" else
  String.ofList <| s.toUTF8.toList.flatMap fun b =>
    let c := Char.ofNat b.toNat
    if c.isAlphanum || c == '.' || c == '_' || c == ':' || c == '/' || c == '+' || c == '-' then [c]
    else ['%', hexDigit (b.toNat / 16), hexDigit (b.toNat % 16)]

def parseFrac (s : String) : Option (Int × Nat) :=
  match s.splitOn "/" with
  | [a, b] => match a.toInt?, b.toNat? with
    | some n, some d => if d = 0 then none else some (n, d)
    | _, _ => none
  | _ => none

def dropStr (s : String) (n : Nat) : String := String.ofList (s.toList.drop n)

def b01 (b : Bool) : String := if b then "1" else "0"

/-- a Go value token -/
def parseGo (t : String) : Option GoVal :=
  if t == "n" then some .nil
  else if t.startsWith "s:" then some (.str (dec (dropStr t 2)))
  else if t.startsWith "i:" then (dropStr t 2).toInt?.map .int
  else if t.startsWith "f:" then (parseFrac (dropStr t 2)).map fun q => .flt q.1 q.2
  else if t == "b:1" then some (.bool true)
  else if t == "b:0" then some (.bool false)
  else if t.startsWith "u:" then (dropStr t 2).toNat?.map .u64
  else if t.startsWith "g:" then (parseFrac (dropStr t 2)).map fun q => .f32 q.1 q.2
  else if t.startsWith "x:" then some (.bin (dec (dropStr t 2)))
  else none

def goTok : GoVal → String
  | .str s => "s:" ++ enc s
  | .int n => s!"i:{n}"
  | .flt n d => s!"f:{n}/{d}"
  | .bool b => "b:" ++ b01 b
  | .nil => "n"
  | .u64 n => s!"u:{n}"
  | .f32 n d => s!"g:{n}/{d}"
  | .bin s => "x:" ++ enc s

/-- a value token as a rules-model value; a list token is the sequence taken as a whole -/
def parseVal (t : String) : Option Rules.Val :=
  if t.startsWith "l:" then some (.other t) else (parseGo t).map toVal

def parseItems (t : String) : Option (Option (List Rules.Val)) :=
  if t.startsWith "l:" then
    let body := dropStr t 2
    if body.isEmpty then some (some []) else
    let its := (body.splitOn "~").map fun i => if i.startsWith "l:" then none else parseVal i
    if its.all Option.isSome then some (some (its.filterMap id)) else none
  else some none

def parseWire (t : String) : Option Wire :=
  match t.splitOn ":" with
  | ["jz"] => some .jnull
  | ["mz"] => some .mnil
  | ["jn", q, lit] => (parseFrac q).map fun q => .jnum (dec lit) q.1 q.2
  | ["js", s] => some (.jstr (dec s))
  | ["jb", b] => if b == "1" then some (.jbool true) else if b == "0" then some (.jbool false) else none
  | ["mi", n, _] => n.toInt?.map .mint
  | ["mu", n, _] => n.toNat?.map .muint
  | ["m4", q] => (parseFrac q).map fun q => .mf32 q.1 q.2
  | ["m8", q] => (parseFrac q).map fun q => .mf64 q.1 q.2
  | ["ms", s] => some (.mstr (dec s))
  | ["mx", s] => some (.mbin (dec s))
  | ["mb", b] => if b == "1" then some (.mbool true) else if b == "0" then some (.mbool false) else none
  | ["oi", n] => n.toInt?.map .oint
  | ["od", q] => (parseFrac q).map fun q => .odbl q.1 q.2
  | ["os", s] => some (.ostr (dec s))
  | ["ob", b] => if b == "1" then some (.obool true) else if b == "0" then some (.obool false) else none
  | _ => none

def parsePath (s : String) : Option Path :=
  let (e, p) := match s.splitOn "+" with
    | [e] => (e, some false)
    | [e, "p"] => (e, some true)
    | _ => (s, none)
  match p with
  | none => none
  | some p =>
    (if e == "je" then some Entry.jsonEvent else if e == "jb" then some .jsonBatch else if e == "me" then some .msgpEvent
     else if e == "mb" then some .msgpBatch else if e == "ot" then some .otlp else none).map fun e => ⟨e, p⟩

def parseOp (s : String) : Rules.Op :=
  if s == opNEQ then .neq else if s == opEQ then .eq else if s == opGT then .gt else if s == opLT then .lt
  else if s == opGTE then .gte else if s == opLTE then .lte else if s == opContains then .contains
  else if s == opDoesNotContain then .doesNotContain else if s == opStartsWith then .startsWith
  else if s == opExists then .ex else if s == opNotExists then .notEx else if s == opHasRootSpan then .hasRootSpan
  else if s == opMatches then .regex else if s == opIn then .isIn else if s == opNotIn then .notIn else .unknown

def parseDT (s : String) : Option Rules.DT :=
  if s == "" then some .none else if s == "string" then some .str else if s == "int" then some .int
  else if s == "float" then some .float else if s == "bool" then some .bool else none

def parseScope (s : String) : Rules.Scope :=
  if s == "span" then .span else if s == "trace" || s == "" then .trace else .invalid

/-! ## case state (inputs only) -/

structure Graph where
  fmt : List (Rules.Val × String) := []
  fmtk : List (TraceKey.Val × String) := []
  conv : List (TraceKey.Val × String) := []
  atoi : List (String × Option Int) := []
  pfloat : List (String × Option (Int × Nat)) := []
  pbool : List (String × Option Bool) := []
  rxc : List (String × Bool) := []
  rxm : List ((String × String) × Bool) := []
  down : List (Nat × Rules.DownRes) := []
  intn : List (Int × Nat) := []
  dyn : List ((String × Nat) × Int) := []
  dintn : List (Nat × Nat) := []
  fastjson : List (String × (Int × Nat)) := []

structure SpanIn where
  root : Bool
  span : ESpan

/-- which downstream sampler a rule has -/
inductive DownKind where
  | none | det | dyn
  deriving DecidableEq

structure Inp where
  rules : List Rules.Rule := []
  downKinds : List DownKind := []
  keyCfg : TraceKey.Cfg := { fields := [], useTraceLength := false }
  spans : List SpanIn := []
  g : Graph := {}
  bad : Bool := false

def addExt (g : Graph) (bad : Bool) (e : List String) (evalOnly : Bool) : Graph × Bool :=
  match e with
  | ["fmt", v, "=", r] =>
    match parseVal v with
    | some rv =>
      let g := { g with fmt := (rv, dec r) :: g.fmt }
      match parseGo v with
      | some gv => ({ g with fmtk := (toTK gv, dec r) :: g.fmtk }, bad)
      | none => (g, bad)
    | none => (g, true)
  | ["conv", v, "=", r] => match parseGo v with
    | some gv => ({ g with conv := (toTK gv, dec r) :: g.conv }, bad)
    | none => (g, true)
  | ["atoi", s, "=", r] =>
    if r == "err" then ({ g with atoi := (dec s, none) :: g.atoi }, bad)
    else match r.toInt? with
      | some n => ({ g with atoi := (dec s, some n) :: g.atoi }, bad)
      | none => (g, true)
  | ["pfloat", s, "=", r] =>
    if r == "err" then ({ g with pfloat := (dec s, none) :: g.pfloat }, bad)
    else match parseFrac r with
      | some q => ({ g with pfloat := (dec s, some q) :: g.pfloat }, bad)
      | none => (g, true)        -- NaN / Inf: outside the model
  | ["pbool", s, "=", r] =>
    if r == "err" then ({ g with pbool := (dec s, none) :: g.pbool }, bad)
    else if r == "1" then ({ g with pbool := (dec s, some true) :: g.pbool }, bad)
    else if r == "0" then ({ g with pbool := (dec s, some false) :: g.pbool }, bad)
    else (g, true)
  | ["rxc", p, "=", r] => if evalOnly then ({ g with rxc := (dec p, r == "1") :: g.rxc }, bad) else (g, true)
  | ["rxm", p, s, "=", r] => if evalOnly then ({ g with rxm := ((dec p, dec s), r == "1") :: g.rxm }, bad) else (g, true)
  | ["down", i, "=", rate, keep, reason, key] => match i.toNat?, rate.toNat? with
    | some i, some rate => ({ g with down := (i, { rate := rate, keep := keep == "1", reason := dec reason, key := dec key }) :: g.down }, bad)
    | _, _ => (g, true)
  | ["intn", n, "=", d] => match n.toInt?, d.toNat? with
    | some n, some d => ({ g with intn := (n, d) :: g.intn }, bad)
    | _, _ => (g, true)
  | ["dyn", k, c, "=", r] => match c.toNat?, r.toInt? with
    | some c, some r => ({ g with dyn := ((dec k, c), r) :: g.dyn }, bad)
    | _, _ => (g, true)
  | ["fastjson", l, "=", r] => match parseFrac r with
    | some q => ({ g with fastjson := (dec l, q) :: g.fastjson }, bad)
    | none => (g, true)
  | ["dintn", n, "=", d] => match n.toNat?, d.toNat? with
    | some n, some d => ({ g with dintn := (n, d) :: g.dintn }, bad)
    | _, _ => (g, true)
  | _ => (g, true)

def addExts (g : Graph) (bad : Bool) (exts : List (List String)) (evalOnly : Bool) : Graph × Bool :=
  exts.foldl (fun (gb : Graph × Bool) e => addExt gb.1 gb.2 e evalOnly) (g, bad)

def extOf (g : Graph) : Rules.Ext where
  fmt v := (g.fmt.lookup v).getD ""
  atoi s := (g.atoi.lookup s).getD none
  pfloat s := (g.pfloat.lookup s).getD none
  pbool s := (g.pbool.lookup s).getD none
  rxCompiles p := (g.rxc.lookup p).getD false
  rxMatch p s := (g.rxm.lookup (p, s)).getD false

/-- the external renderings of float64 / float32 / []byte values (the plain types are rendered by
the trace-key model itself) -/
def kextOf (g : Graph) : TraceKey.Ext where
  str ty raw := (g.conv.lookup (.ext ty raw)).getD ""
  fmt ty raw := (g.fmtk.lookup (.ext ty raw)).getD ""

def decList (s : String) : List String := if s == "-" || s == "" then [] else (s.splitOn ",").map dec

/-- input-building operations; `none` = not one of them, `some none` = malformed -/
def applyInput (st : Inp) (op : List String) (exts : List (List String)) : Option (Option Inp) :=
  match op with
  | "rule" :: args =>
    match ((kv args "rate").getD "x").toInt? with
    | none => some none
    | some rate =>
      let d := (kv args "down").getD ""
      let dk : DownKind := if d.startsWith "det" then .det else if d.startsWith "dyn" then .dyn else .none
      let r : Rules.Rule := { name := dec ((kv args "name").getD ""), rate := rate, drop := (kv args "drop") == some "1",
                              scope := parseScope (dec ((kv args "scope").getD "")), conds := [],
                              sampler := if dk == .none then none else some st.rules.length }
      some (some { st with rules := st.rules ++ [r], downKinds := st.downKinds ++ [dk] })
  | "cond" :: args =>
    let vt := (kv args "val").getD ""
    match parseVal vt, parseItems vt, parseDT (dec ((kv args "dt").getD "")) with
    | some v, some items, some dt =>
      let c : Rules.Cond := { field := dec ((kv args "field").getD ""), fields := decList ((kv args "fields").getD "-"),
                              op := parseOp (dec ((kv args "op").getD "")), val := v, items := items, dt := dt }
      let (g, bad) := addExts st.g st.bad exts false
      let rules := match st.rules.reverse with
        | [] => []
        | last :: before => (({ last with conds := last.conds ++ [c] }) :: before).reverse
      some (some { st with rules := rules, g := g, bad := bad })
    | _, _, _ => some none
  | "key" :: args =>
    match ((kv args "rate").getD "x").toNat? with
    | some (_ + 1) => some (some { st with keyCfg := { fields := decList ((kv args "fields").getD "-"), useTraceLength := (kv args "tl") == some "1" } })
    | _ => some none
  | "span" :: args =>
    let step (acc : Option (Bool × Option Path × List (String × Wire))) (a : String) :=
      match acc with
      | none => none
      | some (root, path, data) =>
        match a.splitOn "=" with
        | [k, vt] =>
          if k == "root" && (vt == "0" || vt == "1") then some (vt == "1", path, data)
          else if k == "path" then (parsePath vt).map fun p => (root, some p, data)
          else match parseWire vt with
            | some w => let name := dec k
              if data.any (·.1 == name) then none else some (root, path, data ++ [(name, w)])
            | none => none
        | _ => none
    match args.foldl step (some (false, none, [])) with
    | some (root, some path, data) =>
      let sp : ESpan := ⟨path, data⟩
      let (g, bad) := addExts st.g st.bad exts false
      if sp.realizable then some (some { st with spans := st.spans ++ [⟨root, sp⟩], g := g, bad := bad }) else some none
    | _ => some none
  | ["cleartrace"] => some (some { st with spans := [] })
  | _ => none

def traceOf (st : Inp) : ETrace :=
  { spans := st.spans.map (·.span), root := (st.spans.reverse.find? (·.root)).map (·.span) }

/-! ## completeness of the `ext` graphs for one evaluation (nothing is ever defaulted silently) -/

def condVals (c : Rules.Cond) : List Rules.Val := c.val :: (c.items.getD [])

def missingExt (st : Inp) (g : Graph) (D : Dec) : Option String :=
  let t := traceOf st
  let lits := t.spans.flatMap fun s => if s.path.entry == .jsonBatch then
      s.data.filterMap fun kw => match kw.2 with | .jnum lit _ _ => some lit | _ => none else []
  match lits.find? (fun l => (g.fastjson.lookup l).isNone) with
  | some l => some ("fastjson:" ++ enc l)
  | none =>
  let gos : List GoVal := (t.spans.flatMap fun s => (goSpan D s).map (·.2)) ++ [.nil, .int t.spans.length]
  let spanVals := gos.map toVal
  let conds := st.rules.flatMap (·.conds)
  let vals := spanVals ++ conds.flatMap condVals
  match vals.find? (fun v => (g.fmt.lookup v).isNone) with
  | some _ => some "fmt"
  | none =>
    match gos.find? (fun v => match toTK v with
        | .ext _ _ => (g.conv.lookup (toTK v)).isNone || (g.fmtk.lookup (toTK v)).isNone
        | _ => false) with
    | some v => some ("conv:" ++ goTok v)
    | none =>
      let E := extOf g
      let strs := vals.map E.fmt ++ vals.filterMap fun v => match v with | .str s => some s | _ => none
      match strs.find? (fun s => (g.atoi.lookup s).isNone || (g.pfloat.lookup s).isNone || (g.pbool.lookup s).isNone) with
      | some s => some ("parse:" ++ enc s)
      | none =>
        let pats := (conds.filter (·.op == .regex)).map fun c => E.fmt c.val
        match pats.find? (fun p => (g.rxc.lookup p).isNone) with
        | some p => some ("rxc:" ++ enc p)
        | none =>
          let subjects := spanVals.map E.fmt
          match (pats.filter E.rxCompiles).find? (fun p => subjects.any fun s => (g.rxm.lookup (p, s)).isNone) with
          | some p => some ("rxm:" ++ enc p)
          | none =>
            match st.rules.find? (fun r => match r.sampler with
                | some id => (g.down.lookup id).isNone
                | none => r.rate > 0 && (g.intn.lookup r.rate).isNone) with
            | some r => some ("down-or-intn:" ++ enc r.name)
            | none => none

/-! ## the model's prediction -/

def scopePrefix : Rules.Scope → String
  | .trace => "rules/trace/"
  | .span => "rules/span/"
  | .invalid => "rules/invalid scope/"

def reasonStr : Rules.Reason → String
  | .noRuleMatched => "no rule matched"
  | .rule sc n => scopePrefix sc ++ n
  | .delegated sc n sub => scopePrefix sc ++ n ++ ":" ++ sub
  | .badRule sc n => scopePrefix sc ++ "bad_rule:" ++ n

def samplersOf (st : Inp) (g : Graph) : Samplers where
  fj l := (g.fastjson.lookup l).getD (0, 1)
  computedPre := Refinery.Gen.Encoding.computedPrefix
  E := extOf g
  x := kextOf g
  cap := Refinery.Gen.Encoding.maxKeyLength.toNat
  pre := Refinery.Gen.Encoding.rootPrefix
  rules := st.rules
  downs id :=
    match g.down.lookup id, st.downKinds[id]? with
    | some d, some .det => .fixed d
    -- a dynsampler-backed downstream sampler: its answer as observed, the key as the model builds it
    | some d, some .dyn => .keyed st.keyCfg (fun _ _ => (d.rate, d.keep)) d.reason
    | _, _ => .missing
  intn n := (g.intn.lookup n).getD 0
  keyCfg := st.keyCfg
  dyn k c := (g.dyn.lookup (k, c)).getD (-1)
  dintn n := (g.dintn.lookup n).getD 1

def gStr (D : Dec) (t : ETrace) : String :=
  if t.spans.isEmpty then "-" else
  "|".intercalate (t.spans.map fun s => ",".intercalate ((goSpan D s).map fun kv => goTok kv.2))

def evalObs (st : Inp) (g : Graph) : String :=
  let S := samplersOf st g
  match missingExt st g S.dec with
  | some m => "missing-ext:" ++ m
  | none =>
    let t := traceOf st
    let o := outcome S t
    match (g.dyn.lookup (o.dynKey, t.spans.length)) with
    | some _ =>
      let dr := o.dyn.rate
      let dkeep := o.dyn.keep
      let roots := if st.spans.isEmpty then "-" else String.join (st.spans.map fun s => b01 s.root)
      s!"rate={o.rules.rate} keep={b01 o.rules.keep} reason={enc (reasonStr o.rules.reason)} key={enc o.rules.key} " ++
      s!"dk={enc o.dynKey} dr={dr} dkeep={b01 dkeep} roots={roots} g={gStr S.dec t}"
    | none => "missing-ext:dyn:" ++ enc o.dynKey

def encStep (st : Inp) (op : List String) (exts : List (List String)) : Inp × Option String :=
  match applyInput st op exts with
  | some (some st') => (st', none)
  | some none => (st, some "bad-op")
  | none =>
    match op with
    | "eval" :: sd :: _ =>
      match ((kv [sd] "seed").getD "x").toInt? with
      | none => (st, some "bad-op")
      | some _ =>
        let (g, bad) := addExts st.g st.bad exts true
        let keep : Graph := { g with rxc := [], rxm := [], down := [], intn := [], dyn := [], dintn := [] }
        ({ st with g := keep, bad := bad }, some (if bad then "bad-ext" else evalObs st g))
    | _ => (st, some "bad-op")

/-! ## monitor: same logical trace ⇒ same outcome, on the implementation's observations -/

def insertS (x : String) : List String → List String
  | [] => [x]
  | y :: t => if x ≤ y then x :: y :: t else y :: insertS x t

def sortS : List String → List String
  | [] => []
  | x :: t => insertS x (sortS t)

def logicalTok : Logical → String
  | .num n d => s!"q{n}/{d}"
  | .str s => "s" ++ enc s
  | .bool b => "b" ++ b01 b
  | .null => "z"

/-- the logical content of a variant: the multiset of its spans, each a root flag and a set of
(field, value) pairs — independent of arrival order, paths and encodings -/
def contentOf (spans : List SpanIn) : List String :=
  sortS (spans.map fun s =>
    b01 s.root ++ ";" ++ ";".intercalate (sortS (s.span.data.map fun kw => enc kw.1 ++ "=" ++ logicalTok (logical kw.2))))

/-- the wire-level content (paths and encodings included), order-independent -/
def wireContentOf (spans : List SpanIn) : List String :=
  sortS (spans.map fun s =>
    b01 s.root ++ ";" ++ b01 s.span.path.viaPeer ++ toString (repr s.span.path.entry) ++ ";" ++
      ";".intercalate (sortS (s.span.data.map fun kw => enc kw.1 ++ "=" ++ toString (repr kw.2))))

structure Seen where
  tid : String
  seed : String
  content : List String
  wire : List String
  outcome : String          -- rate= … dkeep=  as observed
  toks : List String        -- the observation's tokens
  spans : List SpanIn       -- the variant as sent (paths and wire encodings)
  inexact : List String     -- fields whose JSON batch number (exponent spelling) was observed as another float64 than it denotes

structure MSt where
  inp : Inp := {}
  seen : List Seen := []

def outcomePart (obs : String) : String :=
  " ".intercalate ((obs.splitOn " ").filter fun t =>
    t.startsWith "rate=" || t.startsWith "keep=" || t.startsWith "reason=" || t.startsWith "key=" ||
    t.startsWith "dk=" || t.startsWith "dr=" || t.startsWith "dkeep=")

/-- fields whose JSON batch number is observed as a float64 other than the one the literal denotes -/
def jsonInexact (spans : List SpanIn) (obs : String) : List String :=
  match kv (obs.splitOn " ") "g" with
  | some g =>
    if g == "-" then [] else
    (spans.zip (g.splitOn "|")).flatMap fun (s, gs) =>
      (s.span.data.zip (gs.splitOn ",")).filterMap fun (kw, tok) =>
        match kw.2 with
        | .jnum lit n d =>
          if s.span.path.entry == .jsonBatch && (lit.contains 'e' || lit.contains 'E') && tok != s!"f:{n}/{d}" then some kw.1 else none
        | _ => none
  | none => []

/-! ### which wire-encoding class a field carries in a pair of variants — decided from the inputs -/

/-- integers of magnitude ≥ 10^6 that field `f` carries in an integer encoding / in a float encoding -/
def largeAs (spans : List SpanIn) (f : String) (asInt : Bool) : List Int :=
  spans.flatMap fun s => s.span.data.filterMap fun kw =>
    let big (n : Int) (d : Nat) (isInt : Bool) : Option Int :=
      if kw.1 == f && d == 1 && n.natAbs ≥ 1000000 && isInt == asInt then some n else none
    match kw.2 with
    | .mint n | .oint n => big n 1 true
    | .muint n => big n 1 true
    | .jnum _ n d | .mf64 n d | .mf32 n d | .odbl n d => big n d false
    | _ => none

def fieldWire (spans : List SpanIn) (f : String) (p : Path → Wire → Bool) : Bool :=
  spans.any fun s => s.span.data.any fun kw => kw.1 == f && p s.span.path kw.2

/-- the classes of encodings outside the partial theorem that field `f` carries in the pair -/
def fieldClasses (a b : Seen) (f : String) : List String :=
  let either (p : Path → Wire → Bool) := fieldWire a.spans f p || fieldWire b.spans f p
  let pv (p q : Seen) := (largeAs p.spans f true).any fun n => (largeAs q.spans f false).contains n
  (if a.inexact.contains f || b.inexact.contains f then ["json-batch-number-parse"] else []) ++
  (if either (fun _ w => match w with | .muint _ => true | _ => false) then ["msgpack-uint-not-numeric"] else []) ++
  (if either (fun p w => match w with | .mf32 .. => p.entry == .msgpBatch | _ => false) then ["msgpack-float32-not-numeric"] else []) ++
  (if either (fun p w => match w with | .mbin _ => p.entry == .msgpBatch | _ => false) then ["msgpack-bin-not-string"] else []) ++
  (if pv a b || pv b a then ["percent-v-large-int"] else [])

def dedupS (l : List String) : List String := l.foldl (fun acc x => if acc.contains x then acc else acc ++ [x]) []

/-! ### which code site a condition takes its value through (a static reading of the configuration) -/

/-- `compare` (no matcher installed), the typed conversions `tryConvertToInt/Float`, or
`convertToString`; `none` for operators that do not look at the value -/
def condSite (E : Rules.Ext) (c : Rules.Cond) : Option String :=
  let installed := (Rules.matcherOf E c).isSome
  match c.op with
  | .neq | .eq | .gt | .lt | .gte | .lte =>
    if !installed then some "rules-compare"
    else match c.dt with
      | .int | .float => some "rules-typed-conversion"
      | _ => some "rules-string-coercion"
  | .contains | .doesNotContain | .startsWith => if installed then some "rules-string-coercion" else none
  | .regex => some "rules-string-coercion"   -- (whether the pattern compiles is known per evaluation only)
  | .isIn | .notIn =>
    if !installed then none
    else match c.dt with
      | .int | .float => some "rules-typed-conversion"
      | _ => some "rules-string-coercion"
  | _ => none

def bareField (f : String) : String :=
  if Rules.hasPrefix f Refinery.Gen.Encoding.rootPrefix then Rules.dropPrefix f Refinery.Gen.Encoding.rootPrefix else f

/-- index of the rule a reason string names -/
def ruleOfReason (rules : List Rules.Rule) (reason : String) : Option Nat :=
  (List.range rules.length).find? fun i =>
    match rules[i]? with
    | some r => let pfx := scopePrefix r.scope ++ r.name
      reason == pfx || reason.startsWith (pfx ++ ":")
    | none => false

/-- split a key into the part written for ordinary key fields (ends with the last `•,`) and the rest
(root-only fields, trace length) -/
def splitKey (k : String) : String × String :=
  let parts := k.splitOn "•,"
  match parts.reverse with
  | [] => ("", k)
  | [_] => ("", k)
  | last :: before => ("•,".intercalate before.reverse ++ "•,", last)

def mkFail (cls site what : String) : Fail :=
  { prop := "C09", sig := s!"C09:encoding:{cls}:site={site}", what := what }

/-- the failures for one pair of variants carrying the same logical trace with different
outcomes: one per code site at which the outcomes differ, attributed to a class of encodings only
when the fields read at that site carry exactly one such class (nothing is reported for a site when
several classes are involved; `plain-encodings-differ` when none is) -/
def pairFails (inp : Inp) (p cur : Seen) : List Fail :=
  let what := s!"same logical trace (t={cur.tid}), outcomes differ: [{p.outcome}] vs [{cur.outcome}]"
  -- the same spans with the same encodings over the same paths, in another arrival order
  let isPerm := p.wire == cur.wire
  let orderFail (site : String) : List Fail :=
    [{ prop := "C09", sig := "C09:order-dependent:" ++ site, what := what }]
  let get (s : Seen) (k : String) := (kv s.toks k).getD ""
  let attrib (site : String) (classes : List String) : List Fail :=
    if isPerm then orderFail site else
    match dedupS classes with
    | [] => [mkFail "plain-encodings-differ" site what]
    | [c] => [mkFail c site what]
    | _ => []
  -- the rules sampler
  let rulesFails : List Fail :=
    if get p "rate" == get cur "rate" && get p "keep" == get cur "keep" && get p "reason" == get cur "reason" then [] else
    let ip := ruleOfReason inp.rules (dec (get p "reason"))
    let ic := ruleOfReason inp.rules (dec (get cur "reason"))
    if ip == ic then (if isPerm then orderFail "rules-decision" else [mkFail "plain-encodings-differ" "rules-decision" what]) else
    let idx := match ip, ic with
      | some a, some b => min a b
      | some a, none => a
      | none, some b => b
      | none, none => 0
    match inp.rules[idx]? with
    | none => if isPerm then orderFail "rules-decision" else [mkFail "plain-encodings-differ" "rules-decision" what]
    | some r =>
      if isPerm then
        -- the call site by the shape of the rule that matched in one arrival order only
        let isRoot (f : String) := Rules.hasPrefix f Refinery.Gen.Encoding.rootPrefix
        let plainBeforeRoot (fs : List String) : Bool :=
          (List.range fs.length).any fun i => !isRoot (fs.getD i "") && ((fs.drop (i + 1)).any isRoot)
        if r.conds.any (fun c => plainBeforeRoot (Rules.effFields c)) then orderFail "rules-multi-field-root-fallback"
        else if r.conds.any (fun c => (Rules.effFields c).any isRoot) then orderFail "rules-root-field"
        else orderFail (match r.scope with | .span => "rules-span-scope" | .trace => "rules-trace-scope" | .invalid => "rules-invalid-scope")
      else
      let E := extOf inp.g
      let cands := r.conds.flatMap fun c =>
        match condSite E c with
        | some site => ((Rules.effFields c).flatMap fun f => fieldClasses p cur (bareField f)).map fun cls => (cls, site)
        | none => []
      let cands := cands.foldl (fun (acc : List (String × String)) x => if acc.contains x then acc else acc ++ [x]) []
      match cands with
      | [] => [mkFail "plain-encodings-differ" "rules" what]
      | [(cls, site)] => [mkFail cls site what]
      | _ => []
  -- the dynamic sampler's key
  let kp := splitKey (dec (get p "dk"))
  let kc := splitKey (dec (get cur "dk"))
  let pre := Refinery.Gen.Encoding.rootPrefix
  let plainFields := inp.keyCfg.fields.filter fun f => !Rules.hasPrefix f pre
  let rootFields := (inp.keyCfg.fields.filter fun f => Rules.hasPrefix f pre).map bareField
  let keyFails :=
    (if kp.1 != kc.1 then attrib "key-field" (plainFields.flatMap (fieldClasses p cur)) else []) ++
    (if kp.2 != kc.2 then attrib "root-field-key" (rootFields.flatMap (fieldClasses p cur)) else [])
  let dynFails :=
    if get p "dk" == get cur "dk" && (get p "dr" != get cur "dr" || get p "dkeep" != get cur "dkeep")
    then (if isPerm then orderFail "dynamic-decision" else [mkFail "plain-encodings-differ" "dynamic-decision" what]) else []
  rulesFails ++ keyFails ++ dynFails

def encMon (m : MSt) (op : List String) (exts : List (List String)) (obs : Option String) : MSt × List Fail :=
  match applyInput m.inp op exts with
  | some (some st') => ({ m with inp := st' }, [])
  | some none => (m, [])
  | none =>
    match op, obs with
    | "eval" :: args, some o =>
      if !(o.startsWith "rate=") then (m, []) else
      let cur : Seen := { tid := (kv args "t").getD "", seed := (kv args "seed").getD "",
                          content := contentOf m.inp.spans, wire := wireContentOf m.inp.spans,
                          outcome := outcomePart o, toks := o.splitOn " ", spans := m.inp.spans,
                          inexact := jsonInexact m.inp.spans o }
      let fails := m.seen.flatMap fun (p : Seen) =>
        if p.tid == cur.tid && p.seed == cur.seed && p.content == cur.content && p.outcome != cur.outcome then
          pairFails m.inp p cur
        else []
      -- one report per signature and evaluation
      let fails := fails.foldl (fun (acc : List Fail) f => if acc.any (·.sig == f.sig) then acc else acc ++ [f]) []
      ({ m with seen := m.seen ++ [cur] }, fails)
    | _, _ => (m, [])

def comp : Component Inp MSt where
  init := fun _ => {}
  step := encStep
  minit := fun _ => {}
  mon := encMon

end Enc

def main : IO Unit := do runLoop Enc.comp (← IO.getStdin)
