import Oracle.Lib
import Refinery.Model.Deterministic
/-
Oracle for `sample.DeterministicSampler` and `collect.StressRelief.GetSampleRate` (C10).
case args: pool=<n> (informative)
ops (trace IDs are opaque percent-encoded tokens; the hash values come as `ext` lines):
  det <id> <rate>        ext sha1 <id> = <h>      obs A <keep> <rate> <reason> B <keep> <rate> <reason>
  stress <id> <rate>     ext wyhash <id> = <h>    obs (same shape)
  frac det|stress <seed> <n> <rate>   ext hashes = h1,…,hn    obs A <kept> B <kept> n <n>
A sampler whose construction panics with an integer division by zero answers `panic-div0`.
One long-lived StressRelief per case (case args smode=<never|monitor|always> srate=<n>, default never/100):
  sreload <mode> <rate>   (no obs)      srecalc   obs stressed=<bool>
  sask <id>   ext wyhash <id> = <h>     obs A <long-lived answer> B <answer of a fresh instance at the rate configured last>
Wiring leg (case args coll=1 crate=<n>): a real InMemCollector whose reload callback is fired with non-empty hashes:
  creload cfg|rules|both <rate>   (no obs; the collector's reloadConfigs must call UpdateFromConfig)
  cask <id>   ext wyhash <id> = <h>     obs A <collector's StressRelief> B <fresh instance at the rate in force> P <keep> <stamped rate|->
-/
open Refinery.Model.Deterministic Oracle

def reasonStr : Reason → String
  | .detAlways => "deterministic/always"
  | .detChance => "deterministic/chance"
  | .stressAlways => "stress_relief/always"
  | .stressDet => "stress_relief/deterministic/"

def outStr : Outcome Decision → String
  | .ok d => s!"{d.keep} {d.rate} {reasonStr d.reason}"
  | .panicDivZero => "panic-div0"

/-- value of `ext <fn> <arg> = <v>` -/
def extVal (exts : List (List String)) (fn arg : String) : Option Nat :=
  exts.findSome? fun e =>
    match e with
    | [f, a, "=", v] => if f == fn && a == arg then v.toNat? else none
    | _ => none

def extHashes (exts : List (List String)) : Option (List Nat) :=
  exts.findSome? fun e =>
    match e with
    | ["hashes", "=", v] => some (parseNatList v)
    | _ => none

def parseMode : String → Option Mode
  | "never" => some .never
  | "monitor" => some .monitor
  | "always" => some .always
  | _ => none

/-- model state: the long-lived `StressRelief` and the rate configured last -/
structure OSt where
  live : Outcome Relief
  cfgRate : Nat
  cl : Outcome Relief := Relief.init .always 100     -- the StressRelief behind the collector (wiring leg)
  crate : Nat := 100                                 -- SamplingRate in force in its configuration

def determStep (st : OSt) (op : List String) (exts : List (List String)) : OSt × Option String :=
  match op with
  | ["sreload", mode, rate] =>
    match parseMode mode, rate.toNat? with
    | some m, some r => ({ st with live := Relief.run st.live [.reload m r], cfgRate := r }, none)
    | _, _ => (st, some "bad-op")
  | ["srecalc"] =>
    let l := Relief.run st.live [.recalc]
    ({ st with live := l }, some (match l with
      | .ok r => s!"stressed={r.stressed}"
      | .panicDivZero => "panic-div0"))
  | ["creload", which, rate] =>
    -- every reload callback reaches reloadConfigs -> UpdateFromConfig, whichever hash changed
    match rate.toNat? with
    | some r =>
      if which == "cfg" || which == "rules" || which == "both" then
        ({ st with cl := Relief.run st.cl [.reload .always r], crate := r }, none)
      else (st, some "bad-op")
    | none => (st, some "bad-op")
  | ["cask", id] =>
    match extVal exts "wyhash" id with
    | some h =>
      let da : Outcome Decision := match st.cl with | .ok r => .ok (r.s.get h) | .panicDivZero => .panicDivZero
      let p := match da with
        | .ok d => if d.keep then s!"true {d.rate}" else "false -"
        | .panicDivZero => "panic-div0"
      (st, some s!"A {outStr da} B {outStr (stressSample st.crate h)} P {p}")
    | none => (st, some "bad-ext")
  | ["sask", id] =>
    match extVal exts "wyhash" id with
    | some h =>
      let a := outStr (match st.live with | .ok r => .ok (r.s.get h) | .panicDivZero => .panicDivZero)
      let b := outStr (stressSample st.cfgRate h)
      (st, some s!"A {a} B {b}")
    | none => (st, some "bad-ext")
  | ["det", id, rate] =>
    match rate.toInt?, extVal exts "sha1" id with
    | some r, some h => let o := outStr (detSample r h); (st, some s!"A {o} B {o}")
    | none, _ => (st, some "bad-op")
    | _, none => (st, some "bad-ext")
  | ["stress", id, rate] =>
    match rate.toNat?, extVal exts "wyhash" id with
    | some r, some h => let o := outStr (stressSample r h); (st, some s!"A {o} B {o}")
    | none, _ => (st, some "bad-op")
    | _, none => (st, some "bad-ext")
  | ["frac", kind, _seed, n, rate] =>
    match n.toNat?, extHashes exts with
    | some n, some hs =>
      if hs.length != n then (st, some "bad-ext") else
      match kind, rate.toInt?, rate.toNat? with
      | "det", some r, _ =>
        let k := match Det.start r with
          | .ok _ => toString (keptOf (detKeeps r) hs)
          | .panicDivZero => "panic-div0"
        (st, some s!"A {k} B {k} n {n}")
      | "stress", _, some r =>
        let k := toString (keptOf (stressKeeps r) hs)
        (st, some s!"A {k} B {k} n {n}")
      | _, _, _ => (st, some "bad-op")
    | none, _ => (st, some "bad-op")
    | _, none => (st, some "bad-ext")
  | _ => (st, some "bad-op")

/-! ## Monitor: C10's conclusions evaluated on the implementation's own answers.
It never looks at the hash values nor at the model. -/

structure Seen where
  kind : String
  id : String
  rate : Int
  ans : String       -- the full answer of instance A
  keep : Bool

structure MSt where
  seen : List Seen := []
  cfgRate : Nat := 100        -- rate configured last on the long-lived StressRelief (from the ops)
  crate : Nat := 100          -- wiring leg: SamplingRate in force in the collector's configuration
  cwhich : String := "none"   -- which hash(es) the last reload changed

def fail (sig what : String) : Fail := { prop := "C10", sig := sig, what := what }

/-- rates on which C10 speaks.  Since the C28 repair of `DeterministicSampler.Start` every `int`
rate must give a decision (rates ≤ 1 keep everything, nesting holds across all rates); stress
relief: every `uint64` (0 means 1). -/
def inDomain (kind : String) (r : Int) : Bool :=
  if kind == "det" then true else decide (0 ≤ r)

/-- answer triple `<keep> <rate> <reason>` -/
def parseAns (t : List String) : Option (Bool × Nat × String) :=
  match t with
  | [k, r, rs] =>
    match r.toNat? with
    | some r => if k == "true" then some (true, r, rs) else if k == "false" then some (false, r, rs) else none
    | none => none
  | _ => none

def monSample (m : MSt) (kind id : String) (rate : Int) (obs : String) : MSt × List Fail :=
  let toks := obs.splitOn " "
  -- split at "B"
  let a := (toks.drop 1).takeWhile (· != "B")
  let b := (toks.dropWhile (· != "B")).drop 1
  let sa := " ".intercalate a
  let sb := " ".intercalate b
  let f1 := if toks.head? != some "A" || b.isEmpty then
      [fail s!"C10:{kind}-malformed-answer" s!"answer `{obs}`"] else []
  let f2 := if sa != sb then
      [fail s!"C10:{kind}-instances-disagree" s!"id={id} rate={rate}: instance A says `{sa}`, instance B says `{sb}`"] else []
  match parseAns a with
  | none =>
    -- a panic (or garbage): no decision for an accepted rate is a violation
    let f3 := if inDomain kind rate then
        [fail s!"C10:{kind}-no-decision-in-domain" s!"id={id} rate={rate}: `{sa}`"] else []
    (m, f1 ++ f2 ++ f3)
  | some (keep, rr, _) =>
    let f3 :=
      if rate ≤ 1 then
        (if !keep then [fail s!"C10:{kind}-rate-le-one-dropped" s!"id={id} rate={rate} was dropped"] else []) ++
        (if rr != 1 then [fail s!"C10:{kind}-rate-le-one-reports" s!"id={id} rate={rate} reported rate {rr}"] else [])
      else if inDomain kind rate && (rr : Int) != rate then
        [fail s!"C10:{kind}-rate-misreported" s!"id={id} configured rate {rate} reported as {rr}"]
      else []
    let same := m.seen.filter fun s => s.kind == kind && s.id == id
    let f4 := match same.find? (fun s => s.rate == rate && s.ans != sa) with
      | some s => [fail s!"C10:{kind}-impure" s!"id={id} rate={rate}: answered `{s.ans}` before and `{sa}` now"]
      | none => []
    let dom := inDomain kind rate || rate ≤ 1
    let f5 := if !dom then [] else
      match same.find? (fun s => s.rate != rate && (inDomain kind s.rate || s.rate ≤ 1) &&
          ((s.rate ≤ rate && keep && !s.keep) || (rate ≤ s.rate && s.keep && !keep))) with
      | some s =>
        let (lo, hi) := if s.rate ≤ rate then (s.rate, rate) else (rate, s.rate)
        [fail s!"C10:{kind}-not-nested" s!"id={id} kept at rate {hi} but dropped at rate {lo}"]
      | none => []
    ({ m with seen := { kind := kind, id := id, rate := rate, ans := sa, keep := keep } :: m.seen },
      f1 ++ f2 ++ f3 ++ f4 ++ f5)

/-- Empirical fraction (a statistical TEST, not a proof): `n` pseudo-random trace IDs at rate `N`;
the kept count `k` must satisfy `|k·N − n| ≤ 6·sqrt(n·(N−1)) + 4·N` (six standard deviations of the
binomial plus four traces of slack for tiny expectations). -/
def fracOk (k n rate : Nat) : Bool :=
  if rate ≤ 1 then k == n else
  let d := if k * rate ≥ n then k * rate - n else n - k * rate
  let slack := 4 * rate
  d ≤ slack || (d - slack) * (d - slack) ≤ 36 * n * (rate - 1)

def monFrac (m : MSt) (kind : String) (rate : Int) (obs : String) : MSt × List Fail :=
  match obs.splitOn " " with
  | ["A", ka, "B", kb, "n", n] =>
    let f2 := if ka != kb then
        [fail s!"C10:{kind}-instances-disagree" s!"frac rate={rate}: instance A kept {ka}, instance B kept {kb}"] else []
    match ka.toNat?, n.toNat? with
    | some k, some n =>
      let f3 := if inDomain kind rate && !fracOk k n rate.toNat then
          [fail s!"C10:{kind}-fraction-test" s!"TEST: kept {k} of {n} random trace IDs at rate {rate}"] else []
      (m, f2 ++ f3)
    | _, _ =>
      let f3 := if inDomain kind rate then
          [fail s!"C10:{kind}-no-decision-in-domain" s!"frac rate={rate}: `{obs}`"] else []
      (m, f2 ++ f3)
  | _ => (m, [fail s!"C10:{kind}-malformed-answer" s!"answer `{obs}`"])

def determMon (m : MSt) (op : List String) (_ : List (List String)) (obs : Option String) : MSt × List Fail :=
  match op, obs with
  | ["det", id, rate], some o =>
    match rate.toInt? with
    | some r => monSample m "det" id r o
    | none => (m, [])
  | ["stress", id, rate], some o =>
    match rate.toInt? with
    | some r => monSample m "stress" id r o
    | none => (m, [])
  | ["creload", which, rate], _ =>
    match rate.toNat? with
    | some r => ({ m with crate := r, cwhich := which }, [])
    | none => (m, [])
  | ["cask", id], some o =>
    -- answers of the collector's StressRelief must follow the rate in force after the last reload
    let toks := o.splitOn " "
    let ab := toks.takeWhile (· != "P")
    let p := (toks.dropWhile (· != "P")).drop 1
    let a := (ab.drop 1).takeWhile (· != "B")
    let want : Nat := if m.crate ≤ 1 then 1 else m.crate
    match parseAns a with
    | some (keep, rr, _) =>
      if rr != want then
        (m, [fail s!"C10:stress-rate-not-updated-after-reload:hash={m.cwhich}"
          s!"id={id}: the configuration in force says rate {m.crate} (last reload changed hash `{m.cwhich}`) but the collector's StressRelief answers `{" ".intercalate a}`"])
      else
        let (m', fs) := monSample m "stress" id m.crate (" ".intercalate ab)
        let okP := if keep then p == ["true", toString rr] else p == ["false", "-"]
        (m', fs ++ (if okP then [] else
          [fail "C10:stress-collector-decision-differs"
            s!"id={id}: StressRelief says `{" ".intercalate a}` but ProcessSpanImmediately did `{" ".intercalate p}`"]))
    | none => monSample m "stress" id m.crate (" ".intercalate ab)
  | ["sreload", _, rate], _ =>
    match rate.toNat? with
    | some r => ({ m with cfgRate := r }, [])
    | none => (m, [])
  -- the long-lived instance must answer as the pure function of (trace ID, rate configured last):
  -- same checks as for `stress`, with instance A = long-lived, B = fresh at that rate
  | ["sask", id], some o => monSample m "stress" id m.cfgRate o
  | ["frac", kind, _, _, rate], some o =>
    match rate.toInt? with
    | some r => if kind == "det" || kind == "stress" then monFrac m kind r o else (m, [])
    | none => (m, [])
  | _, _ => (m, [])

def hdrRate (args : List String) : Nat := ((kv args "srate").getD "100").toNat?.getD 100

def comp : Component OSt MSt where
  init := fun args =>
    let m := (parseMode ((kv args "smode").getD "never")).getD .never
    let cr := ((kv args "crate").getD "100").toNat?.getD 100
    { live := Relief.init m (hdrRate args), cfgRate := hdrRate args, cl := Relief.init .always cr, crate := cr }
  step := determStep
  minit := fun args => { cfgRate := hdrRate args, crate := ((kv args "crate").getD "100").toNat?.getD 100 }
  mon := determMon

def main : IO Unit := do runLoop comp (← IO.getStdin)
