import Refinery.Gen.QueryAuth
/-!
# Model of the `/query/` token check  (property C25)

Code: `route/middleware.go` `queryTokenChecker` (installed with `Use` on the `/query/` sub-router
in `route/route.go` `LnS`), `route/errors.go` `handlerReturnWithError` with `ErrAuthNeeded`
(`detailed` and `friendly`, so the body is `msg + ": " + err`).

The comparison in the code is Go's `==` on strings, i.e. byte equality (not constant time, no
normalisation, no trimming, case sensitive); the model uses `String` equality, which is equality of
the UTF-8 bytes.  The request token is `req.Header.Get(header)`: the *first* value of the header,
`""` when the header is absent.

Message text, status and header name of the refusal come from the code (`facts`:
`ErrAuthNeeded.msg`, `ErrAuthNeeded.status`, `types.QueryTokenHeader`).
-/
namespace Refinery.Model.QueryAuth
open Refinery.Gen.QueryAuth

/-- `http.Header.Get`: first value, `""` when there is none -/
def headerGet (vals : List String) : String := vals.headD ""

/-- does the request carry the configured token?  (`requiredToken != ""` and `token == requiredToken`) -/
def answers (cfgTok reqTok : String) : Bool := cfgTok != "" && reqTok == cfgTok

inductive Resp where
  | data                                   -- `next.ServeHTTP`: the route's handler answers
  | error (status : Int) (body : String)   -- `handlerReturnWithError(w, ErrAuthNeeded, err)`
  deriving Repr, DecidableEq

/-- `handlerReturnWithError` for a detailed, friendly error: the JSON body is assembled by string
concatenation (the detail is not escaped) -/
def errJSON (detail : String) : String :=
  "{\"source\":\"refinery\",\"error\":\"" ++ errAuthNeededMsg ++ ": " ++ detail ++ "\"}"

def notConfiguredDetail : String :=
  "/query endpoint is not authorized for use (specify QueryAuthToken in config)"

/-- `fmt.Errorf("token %s found in %s not authorized for query", token, types.QueryTokenHeader)` -/
def badTokenDetail (reqTok : String) : String :=
  "token " ++ reqTok ++ " found in " ++ queryTokenHeader ++ " not authorized for query"

/-- `queryTokenChecker`, statement by statement -/
def respond (cfgTok : String) (vals : List String) : Resp :=
  if cfgTok == "" then .error errAuthNeededStatus (errJSON notConfiguredDetail)
  else
    let token := headerGet vals
    if token == cfgTok then .data
    else .error errAuthNeededStatus (errJSON (badTokenDetail token))

/-- The refusal as a function of the request alone (and of whether any token is configured):
the specification's "error that reveals nothing". -/
def refusal (tokenConfigured : Bool) (reqTok : String) : Resp :=
  if tokenConfigured then .error errAuthNeededStatus (errJSON (badTokenDetail reqTok))
  else .error errAuthNeededStatus (errJSON notConfiguredDetail)

/-! ## Request method

`LnS` mounts the `/query/` sub-router with `Methods(…)` (`facts`: `queryMethods`, read off the walked
mux — `["GET"]`).  A request to a `/query/` path with any other method does not match the sub-router;
the catch-all `PathPrefix("/")` route matches it and `proxy` relays it to the upstream API: the
router itself produces neither data nor the token checker's refusal. -/

inductive RResp where
  | handled (r : Resp)     -- the `/query/` sub-router matched: token checker, then the data handler
  | proxied                -- relayed to the upstream API by the catch-all route
  deriving Repr, DecidableEq

def routerRespond (method cfgTok : String) (vals : List String) : RResp :=
  if queryMethods.contains method then .handled (respond cfgTok vals) else .proxied

/-! ## Reloads

`QueryAuthToken` is reloadable configuration.  `queryTokenChecker` reads it inside the request
closure (`r.Config.GetQueryAuthToken()` per request), so the token that counts is the one in force
**when the request is served**, however long ago the middleware instance was built. -/

inductive Op where
  | reload (tok : String)           -- the configuration is reloaded with this `QueryAuthToken`
  | request (vals : List String)    -- a `/query/` request with these values of the token header
  deriving Repr

/-- state = the configured token in force; a request is answered against it -/
def step (cfgTok : String) : Op → String × Option Resp
  | .reload tok => (tok, none)
  | .request vals => (cfgTok, some (respond cfgTok vals))

/-- the token in force after a history that started with `t0` configured -/
def tokenAfter (t0 : String) (ops : List Op) : String := ops.foldl (fun t o => (step t o).1) t0

/-- the responses of a history, in order -/
def run (t0 : String) : List Op → List Resp
  | [] => []
  | o :: os =>
    match (step t0 o).2 with
    | some resp => resp :: run (step t0 o).1 os
    | none => run (step t0 o).1 os

/-! ## A reload that lands in the middle of a request

`queryTokenChecker` reads the configured token **once** per request (`requiredToken := …` at the top
of the closure) and uses that one value for both the "not configured" guard and the comparison.  A
reload concurrent with the request therefore lands either before that read (`split = 0`: the request
is answered against the new token) or after it (`split ≥ 1`: against the old one) — the request is
always answered against ONE token that was in force. -/

/-- `split` = number of token reads of the request that happen before the reload lands -/
def respondUnderReload (split : Nat) (old new : String) (vals : List String) : Resp :=
  respond (if split = 0 then new else old) vals

/-- What a checker that read the token twice (guard, then comparison) would do when the reload lands
between the two reads — not the code; kept to show which hazard the single read excludes. -/
def respondTwoReads (atGuard atCompare : String) (vals : List String) : Resp :=
  if atGuard == "" then .error errAuthNeededStatus (errJSON notConfiguredDetail)
  else if headerGet vals == atCompare then .data
  else .error errAuthNeededStatus (errJSON (badTokenDetail (headerGet vals)))

end Refinery.Model.QueryAuth
