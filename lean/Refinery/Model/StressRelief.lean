import Refinery.Basic.AList
import Refinery.Basic.Sort
/-!
# Model of `collect.StressRelief`  (property C15)

Anchors: `collect/stressRelief.go` — `onStressLevelUpdate`, `UpdateFromConfig`, `Recalc`,
`clusterStressLevel`.  The background loop of `Start` is not modelled: it only calls `Recalc`
periodically, and the model is driven by the same calls in any interleaving.

* Time is nanoseconds on the injected clock (`Int`), starting at 0; the clock only moves forward.
* Peers are `Nat` ids (the harness uses the strings "p0","p1",…); the node's own id is `hostId`.
* `stressLevels` (a Go map id ↦ report) is an association list id ↦ (level, timestamp).
* The node's own level — `uint(100 * max over sqrt/sigmoid of metric ratios)`, float arithmetic —
  is **not** modelled: it is an input of `recalc` (the harness reads the value `Recalc` returns).
* `clusterStressLevel` computes `uint(math.Sqrt(total / float64(n)))` in `float64`.  The model
  computes the integer `isqrt (total / n)` (floor of the real root mean square, see
  `Props.C15.rms_floor`).  The two agree whenever `total < 2^53` and `n·total < 2^50`, which covers all
  levels a `uint` percentage can take; levels ≥ 2^32 (where `level*level` wraps in `uint`) are outside
  the model.  The harness compares the code's float result with the model's on every recalculation.
* `stayOnUntil` is a `time.Time` whose zero value is before every clock instant: `none`.
-/
namespace Refinery.Model.StressRelief

/-- integer square root with fuel (kernel-reducible); `isqrt n = ⌊√n⌋` (`Lemmas.StressRelief.isqrt_spec`). -/
def isqrtF : Nat → Nat → Nat
  | 0, _ => 0
  | f + 1, n =>
    if n < 2 then n
    else
      let r := 2 * isqrtF f (n / 4)
      if (r + 1) * (r + 1) ≤ n then r + 1 else r

def isqrt (n : Nat) : Nat := isqrtF n n

inductive Mode where
  | never | monitor | always
  deriving Repr, DecidableEq

/-- what `UpdateFromConfig` copies from `StressReliefConfig` -/
structure Cfg where
  mode : Mode := .never
  act : Nat := 0          -- activateLevel
  deact : Nat := 0        -- deactivateLevel
  minDur : Int := 0       -- minDuration (ns)
  deriving Repr, DecidableEq

abbrev Reports := AList Nat (Nat × Int)      -- id ↦ (level, timestamp)

def hostId : Nat := 0

structure St where
  timeout : Int                      -- peer.PeerEntryTimeout (ns)
  fixed : Bool := false              -- model of the repaired `UpdateFromConfig` (see `clampCfg`)
  cfg : Cfg := {}
  now : Int := 0
  reports : Reports := []            -- stressLevels
  stressed : Bool := false
  stayOnUntil : Option Int := none   -- none = zero time.Time
  level : Nat := 0                   -- overallStressLevel
  deriving Repr

inductive Op where
  | adv (d : Nat)                    -- the fake clock advances
  | peer (id lvl : Nat)              -- onStressLevelUpdate with a well-formed message
  | junk                             -- onStressLevelUpdate with a malformed message: ignored
  | reload (c : Cfg)                 -- UpdateFromConfig
  | recalc (loc : Nat)               -- Recalc; `loc` = the node's own level the code computed
  deriving Repr, DecidableEq

/-- One recalculation as seen from outside. -/
structure Ev where
  cfg : Cfg           -- configuration in force
  now : Int
  loc : Nat           -- individual_stress_level
  cluster : Nat       -- cluster_stress_level
  level : Nat         -- stress_level (the level that is acted on)
  before : Bool       -- Stressed() before
  after : Bool        -- Stressed() after
  deriving Repr, DecidableEq

/-- The proposed repair of `UpdateFromConfig`: a deactivation level above the activation level is
replaced by the activation level.  Only used when `St.fixed` is set; the code as it is stores the
configuration unchanged. -/
def clampCfg (c : Cfg) : Cfg := if c.act < c.deact then { c with deact := c.act } else c

/-- `!(Clock.Since(ts) > PeerEntryTimeout)` -/
def fresh (timeout now : Int) (_ : Nat) (e : Nat × Int) : Bool := !decide (now - e.2 > timeout)

def levelsOf (r : Reports) : List Nat := r.map (·.2.1)

/-- `clusterStressLevel`'s aggregation: zero levels are skipped, an empty set counts as one peer. -/
def rms (ls : List Nat) : Nat :=
  let nz := ls.filter (· ≠ 0)
  let total := (nz.map (fun l => l * l)).sum
  isqrt (total / (if nz.length = 0 then 1 else nz.length))

/-- `Now().After(stayOnUntil)` -/
def after (now : Int) : Option Int → Bool
  | none => true
  | some u => decide (u < now)

/-- the `switch s.mode` of `Recalc`: new (stressed, stayOnUntil) -/
def machine (c : Cfg) (now : Int) (stressed : Bool) (hold : Option Int) (lvl : Nat) : Bool × Option Int :=
  match c.mode with
  | .never => (false, hold)
  | .always => (true, hold)
  | .monitor =>
    let on1 := stressed || decide (c.act ≤ lvl)
    let hold1 := if on1 && decide (c.deact ≤ lvl) then some (now + c.minDur) else hold
    let on2 := if on1 && decide (lvl < c.deact) && after now hold1 then false else on1
    (on2, hold1)

def recalc (s : St) (loc : Nat) : St × Ev :=
  let reps1 := AList.put s.reports hostId (loc, s.now)          -- own report, then expiry
  let reps2 := AList.keep reps1 (fresh s.timeout s.now)
  let cluster := rms (levelsOf reps2)
  let lvl := max cluster loc
  let m := machine s.cfg s.now s.stressed s.stayOnUntil lvl
  ({ s with reports := reps2, level := lvl, stressed := m.1, stayOnUntil := m.2 },
   { cfg := s.cfg, now := s.now, loc := loc, cluster := cluster, level := lvl,
     before := s.stressed, after := m.1 })

def step (s : St) : Op → St × Option Ev
  | .adv d => ({ s with now := s.now + d }, none)
  | .peer id l => ({ s with reports := AList.put s.reports id (l, s.now) }, none)
  | .junk => (s, none)
  | .reload c => ({ s with cfg := if s.fixed then clampCfg c else c }, none)
  | .recalc loc => let r := recalc s loc; (r.1, some r.2)

def init (timeout : Int) (fixed : Bool := false) : St := { timeout := timeout, fixed := fixed }

/-- state and the recalculations so far, most recent first -/
def stepE (p : St × List Ev) (o : Op) : St × List Ev :=
  let r := step p.1 o
  (r.1, match r.2 with | some e => e :: p.2 | none => p.2)

def runE (timeout : Int) (ops : List Op) (fixed : Bool := false) : St × List Ev :=
  ops.foldl stepE (init timeout fixed, [])

def run (timeout : Int) (ops : List Op) (fixed : Bool := false) : St := (runE timeout ops fixed).1

/-- all recalculations of a history, most recent first -/
def trace (timeout : Int) (ops : List Op) (fixed : Bool := false) : List Ev := (runE timeout ops fixed).2

/-! ## Specification vocabulary -/

/-- History-indexed view of the reports: the most recent report of every id, never deleted. -/
structure Spec where
  now : Int := 0
  last : Reports := []
  lastRecalc : Int := 0

def Spec.step (sp : Spec) : Op → Spec
  | .adv d => { sp with now := sp.now + d }
  | .peer id l => { sp with last := AList.put sp.last id (l, sp.now) }
  | .recalc loc => { sp with last := AList.put sp.last hostId (loc, sp.now), lastRecalc := sp.now }
  | _ => sp

def Spec.run (ops : List Op) : Spec := ops.foldl Spec.step {}

/-- the levels the property speaks of at a recalculation with own level `loc`: the most recent
report of every id (the node's own included), if it is at most `timeout` old -/
def Spec.recent (sp : Spec) (timeout : Int) (loc : Nat) : List Nat :=
  levelsOf (AList.keep (AList.put sp.last hostId (loc, sp.now)) (fresh timeout sp.now))

/-- "relief was on after this monitor-mode recalculation and the level was at or above the
deactivation level then in force" -/
def aboveOn (e : Ev) : Bool := decide (e.cfg.mode = .monitor) && e.after && decide (e.cfg.deact ≤ e.level)

/-- "the level was at or above the deactivation level then in force" (any mode, relief on or off) -/
def aboveAny (e : Ev) : Bool := decide (e.cfg.deact ≤ e.level)

/-- instant and minimum duration in force of the most recent event satisfying `p` -/
def lastWhere (p : Ev → Bool) : List Ev → Option (Int × Int)
  | [] => none
  | e :: t => if p e then some (e.now, e.cfg.minDur) else lastWhere p t

/-- the hold has run out: strictly more than the minimum duration has passed -/
def holdOver (now : Int) : Option (Int × Int) → Bool
  | none => true
  | some (t, d) => decide (t + d < now)

end Refinery.Model.StressRelief
