/-!
# Model of `sample/trace_key.go` (`newTraceKey`, `traceKey.build`, `distinctValue`) and of the
`GetSampleRate` tail shared by the five dynsampler-backed samplers  (property C11)

A span is its field map (`field ↦ value`); a trace is the list of its spans (arrival order) plus
the root span, if any (`trace.RootSpan`).  A value is the LOGICAL, type-tagged value the generator
put into the span (`Val`): a string, an integer of some Go integer type (the mathematical integer),
a bool, nil, or a value of another type (`float64`, slices, …).

How a value is rendered into the key is modelled here, independently of the code, for the types
whose rendering is plain (`renderOf`): a string is itself, every Go integer type is its signed /
unsigned decimal (`uint64` ≥ 2^63 and the `int64` minimum included), `true`/`false`, `<nil>`.
Only for floats and other types the text is external (`Ext`), and the harness takes it from the Go
standard library itself (`strconv.FormatFloat(v,'f',-1,64)`, `fmt.Sprintf("%v", v)`), never from
the code under verification:

* `Ext.str ty raw` — what `AddAsString` must produce for a non-plain value
* `Ext.fmt ty raw` — `fmt.Sprintf("%v", v)`, used for `root.`-prefixed fields

The key-building functions below are generic in the rendering (`Render`), so the theorems hold for
every rendering; the model of the code is `build … (renderOf e)`.

`distinctValue` dedups by `wyhash` of the rendering; the model dedups by the rendering itself
(assumption: no 64-bit hash collision among a trace's values).

The code as written:

```
newTraceKey: sort.Strings(fields); "root."-prefixed → rootOnlyFields (prefix cut), rest → fields
build:
  for i, field in fields: for span in spans: if span.Data.Exists(field):
       if totalUniqueCount >= maxKeyLength: break outer
       AddAsString(value, i)   -- new value: totalUniqueCount++; stored only if still < max
  for i in fields: values := sorted(distinct[i]); if len(values)==0: continue
       for j, str in values: if j == 0 || str != values[j-1] { write str; write '•'; n++ }
       write ','
  if RootSpan != nil: for field in rootOnlyFields: if exists: write fmt("%v,", value); n++
  if useTraceLength: write len(spans); n++
```
-/
namespace Refinery.Model.TraceKey

inductive Val where
  | str (s : String)
  | int (ty : String) (n : Int)        -- any Go integer type `ty`; `n` is the number itself
  | bool (b : Bool)
  | nil
  | ext (ty : String) (raw : String)   -- float64 (`raw` = shortest round-trip text) and all other types
  deriving DecidableEq, Repr

/-- a span's `Data`: Go map, modelled as an association list (first binding wins) -/
abbrev Span := List (String × Val)

structure Trace where
  spans : List Span
  root : Option Span := none
  deriving Repr

/-- sampler configuration: `FieldList` as configured and `UseTraceLength` -/
structure Cfg where
  fields : List String
  useTraceLength : Bool := false
  deriving Repr

/-- how values are turned into text: `conv` for key fields (`AddAsString`), `fmtv` for root-only
fields (`%v`) -/
structure Render where
  conv : Val → String
  fmtv : Val → String

/-- Go standard-library text of the non-plain values (external; supplied by the harness) -/
structure Ext where
  str : String → String → String
  fmt : String → String → String

/-- the rendering the code must implement: plain types as Go's `strconv`/`%v` define them -/
def renderOf (e : Ext) : Render where
  conv
    | .str s => s
    | .int _ n => toString n
    | .bool b => if b then "true" else "false"
    | .nil => "<nil>"
    | .ext ty raw => e.str ty raw
  fmtv
    | .str s => s
    | .int _ n => toString n
    | .bool b => if b then "true" else "false"
    | .nil => "<nil>"
    | .ext ty raw => e.fmt ty raw

/-! ## `sort.Strings` (insertion sort: kernel-reducible) -/

def insertStr (x : String) : List String → List String
  | [] => [x]
  | y :: t => if x ≤ y then x :: y :: t else y :: insertStr x t

def sortStr : List String → List String
  | [] => []
  | x :: t => insertStr x (sortStr t)

/-! ## `newTraceKey` -/

def hasPrefix (pre s : String) : Bool := pre.toList.isPrefixOf s.toList
def cutPrefix (pre s : String) : String := String.ofList (s.toList.drop pre.toList.length)

/-- `traceKey.fields`: sorted, without the root-only ones -/
def nonRootFields (pre : String) (c : Cfg) : List String :=
  (sortStr c.fields).filter fun f => !hasPrefix pre f

/-- `traceKey.rootOnlyFields`: sorted, prefix removed -/
def rootFields (pre : String) (c : Cfg) : List String :=
  ((sortStr c.fields).filter fun f => hasPrefix pre f).map (cutPrefix pre)

/-! ## the collection loop -/

/-- renderings of `field` over the spans that have it, in span order -/
def fieldVals (conv : Val → String) (spans : List Span) (f : String) : List String :=
  spans.filterMap fun sp => (sp.lookup f).map conv

/-- one `Exists → (break outer | AddAsString)` step; state = (totalUniqueCount, stored values) -/
def addStr (cap : Nat) (st : Nat × List String) (s : String) : Nat × List String :=
  if st.1 ≥ cap then st                               -- `break outer`: nothing is added any more
  else if s ∈ st.2 then st                            -- already stored
  else if st.1 + 1 ≥ cap then (st.1 + 1, st.2)        -- counted, but not stored (limit reached)
  else (st.1 + 1, s :: st.2)

/-- stored values per field (unsorted), the counter running across the fields -/
def collect (cap : Nat) (conv : Val → String) (spans : List Span) : List String → Nat → List (List String)
  | [], _ => []
  | f :: fs, cnt =>
    let r := (fieldVals conv spans f).foldl (addStr cap) (cnt, [])
    r.2 :: collect cap conv spans fs r.1

/-! ## rendering -/

/-- the loop over the sorted values for `j ≥ 1`: written when `str != values[j-1]` (`prev`) -/
def renderRest : String → List String → String × Nat
  | _, [] => ("", 0)
  | prev, s :: t =>
    let r := renderRest s t
    if s ≠ prev then (s ++ "•" ++ r.1, r.2 + 1) else r

/-- the loop over the sorted values, `if j == 0 || str != values[j-1]`: text written and number
of values written (the first value is always written, the empty string included) -/
def renderVals : List String → String × Nat
  | [] => ("", 0)
  | s :: t => let r := renderRest s t; (s ++ "•" ++ r.1, r.2 + 1)

/-- one field's part of the key; a field without stored values is skipped entirely -/
def renderGroup (vals : List String) : String × Nat :=
  if vals.isEmpty then ("", 0)
  else let r := renderVals (sortStr vals); (r.1 ++ ",", r.2)

def renderGroups : List (List String) → String × Nat
  | [] => ("", 0)
  | g :: gs => let a := renderGroup g; let b := renderGroups gs; (a.1 ++ b.1, a.2 + b.2)

/-- root-only fields, read from `trace.RootSpan` -/
def renderRoot (fmtv : Val → String) (root : Option Span) : List String → String × Nat
  | [] => ("", 0)
  | f :: fs =>
    let b := renderRoot fmtv root fs
    match root with
    | none => b
    | some r =>
      match r.lookup f with
      | none => b
      | some v => (fmtv v ++ "," ++ b.1, b.2 + 1)

def renderLen (c : Cfg) (spans : List Span) : String × Nat :=
  if c.useTraceLength then (toString spans.length, 1) else ("", 0)

/-- `traceKey.build`: the key and the number of values used -/
def build (cap : Nat) (pre : String) (x : Render) (c : Cfg) (t : Trace) : String × Nat :=
  let g := renderGroups (collect cap x.conv t.spans (nonRootFields pre c) 0)
  let r := renderRoot x.fmtv t.root (rootFields pre c)
  let l := renderLen c t.spans
  (g.1 ++ r.1 ++ l.1, g.2 + r.2 + l.2)

def key (cap : Nat) (pre : String) (x : Render) (c : Cfg) (t : Trace) : String := (build cap pre x c t).1

/-! ## specification-level notions used by the theorems -/

/-- first-occurrence dedup, as the map does it without a limit -/
def dedupInto (acc : List String) (l : List String) : List String :=
  l.foldl (fun a s => if s ∈ a then a else s :: a) acc

/-- the distinct renderings a field takes across the spans -/
def distinctVals (conv : Val → String) (spans : List Span) (f : String) : List String :=
  dedupInto [] (fieldVals conv spans f)

/-- number of distinct (field, value) pairs involved: what `totalUniqueCount` counts -/
def distinctTotal (conv : Val → String) (spans : List Span) (fields : List String) : Nat :=
  (fields.map fun f => (distinctVals conv spans f).length).sum

/-- same set of values -/
def SameSet {α : Type} (a b : List α) : Prop := ∀ s, s ∈ a ↔ s ∈ b

/-- the (logical) values `field` takes over the spans that have it, in span order -/
def fieldLogical (spans : List Span) (f : String) : List Val := spans.filterMap fun sp => sp.lookup f

/-! ## the tail of `GetSampleRate` (identical in all five samplers; as of commit 6dd5492)

```
answer := d.dynsampler.GetSampleRateMulti(key, count)
if answer < 1 { answer = 1 }                 -- compared as an int, before the conversion
rate = uint(answer)
shouldKeep := rand.Intn(int(rate)) == 0      -- int(rate) = answer >= 1: Intn's precondition holds
```
`r` is what dynsampler returned (any Go `int`), `intn n` the value `rand.Intn(n)` returned. -/

structure Decision where
  rate : Nat
  keep : Bool
  deriving DecidableEq, Repr

def two63 : Nat := 9223372036854775808

def decision (r : Int) (intn : Nat → Nat) : Decision :=
  let answer : Int := if r < 1 then 1 else r
  let rate := answer.toNat                   -- uint(answer), answer ≥ 1
  ⟨rate, intn rate == 0⟩

/-- `GetSampleRate`: build the key, ask dynsampler with (key, number of spans), decide.
Returns the key and the decision. -/
def getSampleRate (cap : Nat) (pre : String) (x : Render) (c : Cfg) (t : Trace)
    (dyn : String → Nat → Int) (intn : Nat → Nat) : String × Decision :=
  let k := key cap pre x c t
  (k, decision (dyn k t.spans.length) intn)

end Refinery.Model.TraceKey
