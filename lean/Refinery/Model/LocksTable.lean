import Refinery.Model.Locks
import Refinery.Gen.Access
/-!
# C35 — the hand-written specification: discipline of every tracked field, role of every function

This file is the *specification* side of `facts_comply`.  It is maintained by hand, by reading the
code; `tools/check C35` regenerates the access facts (`Refinery.Gen.Access`) and decides them
against these tables.

Disciplines (`Refinery.Locks.LDisc`):
* `.lock m` — every access holds mutex field `m` of the same receiver (reads may hold it shared);
* `.confined r` — only the goroutine playing role `r` touches the field;
* `.atomic` — the field is a synchronisation object (`sync.*`, `atomic.*`): only method calls;
* `.initOnly` — assigned only by initialisation code (role `init`: constructors, `Start`, and the
  helpers only they call), read freely afterwards.  Fields holding a channel, or a pointer to an
  object that synchronises itself (lru.Cache, SetWithTTL, MapWithTTL, pool.Pool, …) are of this
  kind: the *variable* is what is tracked;
* `.ownedLock r m` — written only by role `r` holding `m`; `r` may read without `m`.

Roles (`Refinery.Locks.Role`): `init` (runs before the object is used by any other goroutine),
`teardown` (runs after every user of the object has been stopped and joined), `named r` (exactly
one goroutine at a time plays `r` for a given object), everything not listed is `any`.
-/
namespace Refinery.Locks.Table
open Refinery.Locks Refinery.Gen.Access

/-- Roles (one goroutine at a time per object instance). -/
def worker : Nat := 1            -- CollectorWorker.collect, one per worker
def collectorMonitor : Nat := 2  -- InMemCollector.monitor
def stressMonitor : Nat := 3     -- the ticker goroutine StressRelief.Start spawns
def sentcacheMonitor : Nat := 4  -- cuckooSentCache.monitor (Resize stops the old one, waits, starts a new one)

/-! ## State of the race fixes in /repo
One flag per finding group (patches `/verif/.cache/C35-fix/N-*.patch`).  When the `fix:` commit N
lands in /repo, set `fixN` to `true` (and retire the signatures from known_findings.jsonl): the
discipline of the repaired field and the list of known violations follow from the flags. -/
def fix1 : Bool := true  -- cuckooSentCache.kept becomes an atomic.Pointer
def fix2 : Bool := true  -- fileConfig.mainHash / rulesHash compared and read under f.mux
def fix3 : Bool := true  -- fileConfig.callbacks copied under f.mux before the calls
def fix4 : Bool := true  -- ConfigWatcher.done created by Start
def fix5 : Bool := true  -- RedisPubsubPeers.hash becomes an atomic.Uint64
def fix6 : Bool := true  -- RedisPubsubPeers.callbacks guarded by the new cbMut
def fix7 : Bool := true  -- SamplerFactory.sharedDynsamplers length read under s.mutex
def fix8 : Bool := true -- DeterministicSharder.Start reads d.peers under peerLock (after the callback is registered)
def allFixed : Bool := fix1 && fix2 && fix3 && fix4 && fix5 && fix6 && fix7 && fix8

def disciplines : List (Nat × LDisc) := [
  -- InMemCollector
  (L.«InMemCollector.Config», .initOnly),
  (L.«InMemCollector.Logger», .initOnly),
  (L.«InMemCollector.Clock», .initOnly),
  (L.«InMemCollector.Tracer», .initOnly),
  (L.«InMemCollector.Health», .initOnly),
  (L.«InMemCollector.Sharder», .initOnly),
  (L.«InMemCollector.Transmission», .initOnly),
  (L.«InMemCollector.PeerTransmission», .initOnly),
  (L.«InMemCollector.PubSub», .initOnly),
  (L.«InMemCollector.Metrics», .initOnly),
  (L.«InMemCollector.SamplerFactory», .initOnly),
  (L.«InMemCollector.StressRelief», .initOnly),
  (L.«InMemCollector.Peers», .initOnly),
  (L.«InMemCollector.TestMode», .initOnly),
  (L.«InMemCollector.BlockOnAddSpan», .initOnly),
  (L.«InMemCollector.workers», .initOnly),
  (L.«InMemCollector.mutex», .atomic),
  (L.«InMemCollector.monitorWG», .atomic),
  (L.«InMemCollector.workersWG», .atomic),
  (L.«InMemCollector.sendTracesWG», .atomic),
  (L.«InMemCollector.reload», .initOnly),
  (L.«InMemCollector.tracesToSend», .initOnly),
  (L.«InMemCollector.done», .initOnly),
  (L.«InMemCollector.hostname», .initOnly),
  (L.«InMemCollector.memMetricSample», .confined collectorMonitor),
  -- CollectorWorker
  (L.«CollectorWorker.ID», .initOnly),
  (L.«CollectorWorker.parent», .initOnly),
  (L.«CollectorWorker.incoming», .initOnly),
  (L.«CollectorWorker.fromPeer», .initOnly),
  (L.«CollectorWorker.sendEarly», .initOnly),
  (L.«CollectorWorker.pause», .initOnly),
  (L.«CollectorWorker.reload», .initOnly),
  (L.«CollectorWorker.cache», .confined worker),
  (L.«CollectorWorker.sampleCache», .initOnly),
  (L.«CollectorWorker.datasetSamplers», .confined worker),
  (L.«CollectorWorker.lastCacheSize», .atomic),
  (L.«CollectorWorker.localSpansWaiting», .atomic),
  (L.«CollectorWorker.localSpanReceived», .atomic),
  (L.«CollectorWorker.localSpanProcessed», .confined worker),
  (L.«CollectorWorker.healthCheckInAt», .atomic),
  -- StressRelief
  (L.«StressRelief.RefineryMetrics», .initOnly),
  (L.«StressRelief.Config», .initOnly),
  (L.«StressRelief.Logger», .initOnly),
  (L.«StressRelief.Health», .initOnly),
  (L.«StressRelief.PubSub», .initOnly),
  (L.«StressRelief.Peer», .initOnly),
  (L.«StressRelief.Clock», .initOnly),
  (L.«StressRelief.Done», .initOnly),
  (L.«StressRelief.mode», .lock L.«StressRelief.lock»),
  (L.«StressRelief.hostID», .initOnly),
  (L.«StressRelief.activateLevel», .lock L.«StressRelief.lock»),
  (L.«StressRelief.deactivateLevel», .lock L.«StressRelief.lock»),
  (L.«StressRelief.sampleRate», .lock L.«StressRelief.lock»),
  (L.«StressRelief.upperBound», .lock L.«StressRelief.lock»),
  (L.«StressRelief.overallStressLevel», .lock L.«StressRelief.lock»),
  (L.«StressRelief.reason», .lock L.«StressRelief.lock»),
  (L.«StressRelief.formula», .ownedLock stressMonitor L.«StressRelief.lock»),
  (L.«StressRelief.stressed», .lock L.«StressRelief.lock»),
  (L.«StressRelief.stayOnUntil», .lock L.«StressRelief.lock»),
  (L.«StressRelief.minDuration», .lock L.«StressRelief.lock»),
  (L.«StressRelief.topic», .initOnly),
  (L.«StressRelief.algorithms», .initOnly),
  (L.«StressRelief.lock», .atomic),
  (L.«StressRelief.stressLevels», .lock L.«StressRelief.lock»),
  (L.«StressRelief.disableStressLevelReport», .initOnly),
  -- CuckooTraceChecker
  (L.«CuckooTraceChecker.current», .lock L.«CuckooTraceChecker.mut»),
  (L.«CuckooTraceChecker.current*», .lock L.«CuckooTraceChecker.mut»),
  (L.«CuckooTraceChecker.future», .ownedLock sentcacheMonitor L.«CuckooTraceChecker.mut»),
  (L.«CuckooTraceChecker.future*», .lock L.«CuckooTraceChecker.mut»),
  (L.«CuckooTraceChecker.mut», .atomic),
  (L.«CuckooTraceChecker.capacity», .lock L.«CuckooTraceChecker.mut»),
  (L.«CuckooTraceChecker.met», .initOnly),
  (L.«CuckooTraceChecker.addch», .initOnly),
  (L.«CuckooTraceChecker.done», .initOnly),
  (L.«CuckooTraceChecker.shutdownWG», .atomic),
  -- cuckooSentCache
  (L.«cuckooSentCache.met», .initOnly),
  (L.«cuckooSentCache.kept», if fix1 then .atomic else .initOnly),
  (L.«cuckooSentCache.dropped», .initOnly),
  (L.«cuckooSentCache.recentDroppedIDs», .initOnly),
  (L.«cuckooSentCache.cfg», .initOnly),
  (L.«cuckooSentCache.done», .initOnly),
  (L.«cuckooSentCache.shutdownWG», .atomic),
  (L.«cuckooSentCache.keptReasons», .initOnly),
  -- Router
  (L.«Router.Config», .initOnly),
  (L.«Router.Logger», .initOnly),
  (L.«Router.Health», .initOnly),
  (L.«Router.HTTPTransport», .initOnly),
  (L.«Router.UpstreamTransmission», .initOnly),
  (L.«Router.PeerTransmission», .initOnly),
  (L.«Router.Sharder», .initOnly),
  (L.«Router.Collector», .initOnly),
  (L.«Router.Metrics», .initOnly),
  (L.«Router.Tracer», .initOnly),
  (L.«Router.versionStr», .initOnly),
  (L.«Router.proxyClient», .initOnly),
  (L.«Router.routerType», .initOnly),
  (L.«Router.iopLogger», .initOnly),
  (L.«Router.zstdDecoder», .initOnly),
  (L.«Router.server», .initOnly),
  (L.«Router.grpcServer», .initOnly),
  (L.«Router.doneWG», .atomic),
  (L.«Router.donech», .initOnly),
  (L.«Router.environmentCache», .initOnly),
  (L.«Router.hsrv», .initOnly),
  (L.«Router.metricsNames», .initOnly),
  -- environmentCache
  (L.«environmentCache.mutex», .atomic),
  (L.«environmentCache.items», .lock L.«environmentCache.mutex»),
  (L.«environmentCache.ttl», .initOnly),
  (L.«environmentCache.getFn», .initOnly),
  (L.«environmentCache.addItem()», .lock L.«environmentCache.mutex»),   -- call sites of addItem (requires mutex)
  -- eventBatch
  (L.«eventBatch.mutex», .atomic),
  (L.«eventBatch.events», .lock L.«eventBatch.mutex»),
  (L.«eventBatch.startTime», .lock L.«eventBatch.mutex»),
  -- DirectTransmission
  (L.«DirectTransmission.Config», .initOnly),
  (L.«DirectTransmission.Logger», .initOnly),
  (L.«DirectTransmission.Version», .initOnly),
  (L.«DirectTransmission.Metrics», .initOnly),
  (L.«DirectTransmission.Transport», .initOnly),
  (L.«DirectTransmission.Clock», .initOnly),
  (L.«DirectTransmission.transmitType», .initOnly),
  (L.«DirectTransmission.enableCompression», .initOnly),
  (L.«DirectTransmission.maxBatchSize», .initOnly),
  (L.«DirectTransmission.batchTimeout», .initOnly),
  (L.«DirectTransmission.batchSendTimeout», .initOnly),
  (L.«DirectTransmission.additionalHeaders», .initOnly),
  (L.«DirectTransmission.eventBatches», .lock L.«DirectTransmission.batchMutex»),
  (L.«DirectTransmission.batchMutex», .atomic),
  (L.«DirectTransmission.dispatchPool», .initOnly),
  (L.«DirectTransmission.stop», .initOnly),
  (L.«DirectTransmission.stopWG», .atomic),
  (L.«DirectTransmission.httpClient», .initOnly),
  (L.«DirectTransmission.userAgent», .initOnly),
  (L.«DirectTransmission.metricKeys», .initOnly),
  -- RedisPubsubPeers
  (L.«RedisPubsubPeers.Config», .initOnly),
  (L.«RedisPubsubPeers.Metrics», .initOnly),
  (L.«RedisPubsubPeers.Logger», .initOnly),
  (L.«RedisPubsubPeers.PubSub», .initOnly),
  (L.«RedisPubsubPeers.Clock», .initOnly),
  (L.«RedisPubsubPeers.InstanceID», .initOnly),
  (L.«RedisPubsubPeers.Done», .initOnly),
  (L.«RedisPubsubPeers.peers», .initOnly),
  (L.«RedisPubsubPeers.hash», .atomic),
  (L.«RedisPubsubPeers.callbacks», if fix6 then .lock L.«RedisPubsubPeers.cbMut» else .initOnly),
  (L.«RedisPubsubPeers.cbMut», .atomic),   -- introduced by fix 6 (reserved name until then)
  (L.«RedisPubsubPeers.sub», .initOnly),
  (L.«RedisPubsubPeers.topic», .initOnly),
  -- fileConfig
  (L.«fileConfig.mainConfig», .lock L.«fileConfig.mux»),
  (L.«fileConfig.mainHash», .lock L.«fileConfig.mux»),
  (L.«fileConfig.rulesConfig», .lock L.«fileConfig.mux»),
  (L.«fileConfig.rulesHash», .lock L.«fileConfig.mux»),
  (L.«fileConfig.opts», .initOnly),
  (L.«fileConfig.callbacks», .lock L.«fileConfig.mux»),
  (L.«fileConfig.mux», .atomic),
  (L.«fileConfig.lastLoadTime», .initOnly),
  -- ConfigWatcher
  (L.«ConfigWatcher.Config», .initOnly),
  (L.«ConfigWatcher.Logger», .initOnly),
  (L.«ConfigWatcher.PubSub», .initOnly),
  (L.«ConfigWatcher.Tracer», .initOnly),
  (L.«ConfigWatcher.Clock», .initOnly),
  (L.«ConfigWatcher.subscr», .initOnly),
  (L.«ConfigWatcher.msgTime», .lock L.«ConfigWatcher.mut»),
  (L.«ConfigWatcher.done», .initOnly),
  (L.«ConfigWatcher.mut», .atomic),
  (L.«ConfigWatcher.topic», .initOnly),
  (L.«ConfigWatcher.Starter», .initOnly),
  (L.«ConfigWatcher.Stopper», .initOnly),
  -- MultiMetrics
  (L.«MultiMetrics.Config», .initOnly),
  (L.«MultiMetrics.PromMetrics», .initOnly),
  (L.«MultiMetrics.OTelMetrics», .initOnly),
  (L.«MultiMetrics.children», .initOnly),
  (L.«MultiMetrics.counters», .atomic),
  (L.«MultiMetrics.gauges», .atomic),
  (L.«MultiMetrics.updowns», .atomic),
  (L.«MultiMetrics.stores», .atomic),
  (L.«MultiMetrics.metricTypes», .atomic),
  -- SamplerFactory
  (L.«SamplerFactory.Config», .initOnly),
  (L.«SamplerFactory.Logger», .initOnly),
  (L.«SamplerFactory.Metrics», .initOnly),
  (L.«SamplerFactory.Peers», .initOnly),
  (L.«SamplerFactory.peerCount», .lock L.«SamplerFactory.mutex»),
  (L.«SamplerFactory.mutex», .atomic),
  (L.«SamplerFactory.sharedDynsamplers», .lock L.«SamplerFactory.mutex»),
  (L.«SamplerFactory.goalThroughputConfigs», .lock L.«SamplerFactory.mutex»),
  -- DeterministicSharder
  (L.«DeterministicSharder.Config», .initOnly),
  (L.«DeterministicSharder.Logger», .initOnly),
  (L.«DeterministicSharder.Peers», .initOnly),
  (L.«DeterministicSharder.myShard», .initOnly),   -- written by Start only; the peers callback never touches it
  (L.«DeterministicSharder.peers», .lock L.«DeterministicSharder.peerLock»),
  (L.«DeterministicSharder.hashes», .lock L.«DeterministicSharder.peerLock»),
  (L.«DeterministicSharder.peerLock», .atomic)]

/-- Role of the functions that need one (every function not listed is `any`). -/
def roles : List (Nat × Role) := [
  -- initialisation: constructors, Start methods and helpers only they call
  (F.«InMemCollector.Start», .init),
  (F.«NewCollectorWorker», .init),
  (F.«StressRelief.Start», .init),
  (F.«NewCuckooSentCache», .init),
  (F.«NewCuckooTraceChecker», .init),
  (F.«Router.LnS», .init),
  (F.«Router.SetVersion», .init),
  (F.«Router.SetType», .init),
  (F.«Router.registerMetricNames», .init),      -- only called by LnS
  (F.«Router.SetEnvironmentCache», .init),      -- test helper, before LnS serves
  (F.«newEnvironmentCache», .init),
  (F.«NewDirectTransmission», .init),
  (F.«DirectTransmission.Start», .init),
  (F.«DirectTransmission.registerMetrics», .init), -- only called by Start
  (F.«RedisPubsubPeers.Start», .init),
  (F.«NewConfig», .init),
  (F.«newFileConfig», .init),
  (F.«ConfigWatcher.Start», .init),
  (F.«NewMultiMetrics», .init),
  (F.«MultiMetrics.Start», .init),
  (F.«MultiMetrics.AddChild», .init),           -- only called by Start
  (F.«SamplerFactory.Start», .init),
  -- Start registers the peers callback (→ loadPeerList in its own goroutine) before it reads
  -- d.peers: those reads are extracted as `Start@shared` (spec.json post_publication), no role
  (F.«DeterministicSharder.Start», .init),
  -- tear-down: after every user of the object has been stopped (startstop stops in reverse order)
  (F.«DirectTransmission.Stop», .teardown),
  (F.«DirectTransmission.Stop$1», .teardown),   -- the sends Stop starts and waits for itself
  -- the collector worker goroutine (one per CollectorWorker)
  (F.«CollectorWorker.collect», .named worker),
  (F.«CollectorWorker.processSpan», .named worker),
  (F.«CollectorWorker.processSpan$1», .named worker),
  (F.«CollectorWorker.sendExpiredTracesInCache», .named worker),
  (F.«CollectorWorker.sendExpiredTracesInCache$1», .named worker),
  (F.«CollectorWorker.sendTracesEarly», .named worker),
  (F.«CollectorWorker.sendTracesEarly$1», .named worker),
  (F.«CollectorWorker.getLastSpanProcessed», .named worker),
  (F.«CollectorWorker.makeDecision», .named worker),
  -- InMemCollector.monitor goroutine
  (F.«InMemCollector.monitor», .named collectorMonitor),
  (F.«InMemCollector.checkAlloc», .named collectorMonitor),
  (F.«InMemCollector.isReady», .named collectorMonitor),
  (F.«InMemCollector.reloadConfigs», .named collectorMonitor),
  -- StressRelief's ticker goroutine (the only caller of Recalc)
  (F.«StressRelief.Start$2», .named stressMonitor),
  (F.«StressRelief.Recalc», .named stressMonitor),
  -- cuckooSentCache.monitor goroutine (one at a time: Resize stops the old one, waits, starts a new one)
  (F.«cuckooSentCache.monitor», .named sentcacheMonitor),
  (F.«CuckooTraceChecker.Maintain», .named sentcacheMonitor)]

/-- Accesses of the current tree that violate their field's discipline: each one is a finding
(signature `C35:race:<field>:<function>:<kind>`), confirmed on the real code by the race-detector
harness (`harness/cmd/races`). -/
def knownViolations : List (Nat × Nat × AKind) :=
  -- 1. Resize (worker goroutine, on reload) replaces c.kept while router goroutines read it through
  --    ProcessSpanImmediately → CheckSpan / Record
  (if fix1 then [] else [(L.«cuckooSentCache.kept», F.«cuckooSentCache.Resize», .write)]) ++
  -- 2. Reload compares the hashes before taking the lock (concurrent Reloads: ticker + pubsub message);
  --    the /query/configmetadata endpoint reads them without the lock while Reload writes them
  (if fix2 then [] else [
    (L.«fileConfig.mainHash», F.«fileConfig.Reload», .read),
    (L.«fileConfig.rulesHash», F.«fileConfig.Reload», .read),
    (L.«fileConfig.mainHash», F.«fileConfig.GetConfigMetadata», .read),
    (L.«fileConfig.rulesHash», F.«fileConfig.GetConfigMetadata», .read)]) ++
  -- 3. Reload iterates the callback slice without the lock while RegisterReloadCallback appends
  (if fix3 then [] else [(L.«fileConfig.callbacks», F.«fileConfig.Reload», .read)]) ++
  -- 4. monitor (own goroutine) creates cw.done; Stop reads it
  (if fix4 then [] else [(L.«ConfigWatcher.done», F.«ConfigWatcher.monitor», .write)]) ++
  -- 5. every pubsub message runs listen → checkHash in its own goroutine; the peer report reads it too
  (if fix5 then [] else [
    (L.«RedisPubsubPeers.hash», F.«RedisPubsubPeers.checkHash», .read),
    (L.«RedisPubsubPeers.hash», F.«RedisPubsubPeers.checkHash», .write),
    (L.«RedisPubsubPeers.hash», F.«RedisPubsubPeers.Ready$1», .read)]) ++
  -- 6. callbacks are appended (by other components' Start) after the subscription is live
  (if fix6 then [] else [(L.«RedisPubsubPeers.callbacks», F.«RedisPubsubPeers.RegisterUpdatedPeersCallback», .write)]) ++
  -- 7. createSampler (worker goroutines) reports len(s.sharedDynsamplers) without the mutex while
  --    ClearDynsamplers (collector monitor goroutine, on reload) clears the map
  (if fix7 then [] else [(L.«SamplerFactory.sharedDynsamplers», F.«SamplerFactory.createSampler», .read)]) ++
  -- 8. DeterministicSharder.Start reads d.peers without peerLock after it registered the peers
  --    callback, whose goroutine (loadPeerList) replaces d.peers under the write lock
  (if fix8 then [] else [(L.«DeterministicSharder.peers», F.«DeterministicSharder.Start@shared», .read)])

/-- Unresolved selectors that were inspected by hand and are not accesses to a tracked field. -/
def reviewedUnresolved : List (String × String) := [
  ("Config", "newBatchedEvents"),             -- opts.Config of the msgpack decoder options
  ("Done", "CollectorWorker.collect"),        -- sendEarly.wg.Done()
  ("ID", "CollectorWorker.makeDecision"),     -- trace.ID()
  ("Tracer", "ConfigWatcher.Start")]          -- noop.NewTracerProvider().Tracer("test")

end Refinery.Locks.Table
