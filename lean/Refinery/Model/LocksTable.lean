import Refinery.Model.Locks
/-!
# C35 — the hand-written specification: discipline of every tracked field, role of every function

This file is the *specification* side of `facts_comply`.  It is maintained by hand, by reading the
code; `tools/check C35` regenerates the access facts (`Refinery.Gen.Access`) and decides them
against these tables.

Disciplines (`Refinery.Locks.LDisc`):
* `.lock m` — every access holds mutex field `m` of the same receiver (reads may hold it shared);
* `.confined r` — only the goroutine playing role `r` touches the field;
* `.atomic` — the field is a synchronisation object (`sync.*`, `atomic.*`): only method calls;
* `.initOnly` — assigned only by initialisation code (role `init`: constructors, `Start`, and the
  helpers only they call), read freely afterwards.  Fields holding a channel, or a pointer to an
  object that synchronises itself (lru.Cache, SetWithTTL, MapWithTTL, pool.Pool, …) are of this
  kind: the *variable* is what is tracked;
* `.ownedLock r m` — written only by role `r` holding `m`; `r` may read without `m`.

Roles (`Refinery.Locks.Role`): `init` (runs before the object is used by any other goroutine),
`teardown` (runs after every user of the object has been stopped and joined), `named r` (exactly
one goroutine at a time plays `r` for a given object), everything not listed is `any`.
-/
namespace Refinery.Locks.Table
open Refinery.Locks

def disciplines : List (String × LDisc) := [
  -- InMemCollector
  ("InMemCollector.Config", .initOnly),
  ("InMemCollector.Logger", .initOnly),
  ("InMemCollector.Clock", .initOnly),
  ("InMemCollector.Tracer", .initOnly),
  ("InMemCollector.Health", .initOnly),
  ("InMemCollector.Sharder", .initOnly),
  ("InMemCollector.Transmission", .initOnly),
  ("InMemCollector.PeerTransmission", .initOnly),
  ("InMemCollector.PubSub", .initOnly),
  ("InMemCollector.Metrics", .initOnly),
  ("InMemCollector.SamplerFactory", .initOnly),
  ("InMemCollector.StressRelief", .initOnly),
  ("InMemCollector.Peers", .initOnly),
  ("InMemCollector.TestMode", .initOnly),
  ("InMemCollector.BlockOnAddSpan", .initOnly),
  ("InMemCollector.workers", .initOnly),
  ("InMemCollector.mutex", .atomic),
  ("InMemCollector.monitorWG", .atomic),
  ("InMemCollector.workersWG", .atomic),
  ("InMemCollector.sendTracesWG", .atomic),
  ("InMemCollector.reload", .initOnly),
  ("InMemCollector.tracesToSend", .initOnly),
  ("InMemCollector.done", .initOnly),
  ("InMemCollector.hostname", .initOnly),
  ("InMemCollector.memMetricSample", .confined "collector-monitor"),
  -- CollectorWorker
  ("CollectorWorker.ID", .initOnly),
  ("CollectorWorker.parent", .initOnly),
  ("CollectorWorker.incoming", .initOnly),
  ("CollectorWorker.fromPeer", .initOnly),
  ("CollectorWorker.sendEarly", .initOnly),
  ("CollectorWorker.pause", .initOnly),
  ("CollectorWorker.reload", .initOnly),
  ("CollectorWorker.cache", .confined "worker"),
  ("CollectorWorker.sampleCache", .initOnly),
  ("CollectorWorker.datasetSamplers", .confined "worker"),
  ("CollectorWorker.lastCacheSize", .atomic),
  ("CollectorWorker.localSpansWaiting", .atomic),
  ("CollectorWorker.localSpanReceived", .atomic),
  ("CollectorWorker.localSpanProcessed", .confined "worker"),
  ("CollectorWorker.healthCheckInAt", .atomic),
  -- StressRelief
  ("StressRelief.RefineryMetrics", .initOnly),
  ("StressRelief.Config", .initOnly),
  ("StressRelief.Logger", .initOnly),
  ("StressRelief.Health", .initOnly),
  ("StressRelief.PubSub", .initOnly),
  ("StressRelief.Peer", .initOnly),
  ("StressRelief.Clock", .initOnly),
  ("StressRelief.Done", .initOnly),
  ("StressRelief.mode", .lock "StressRelief.lock"),
  ("StressRelief.hostID", .initOnly),
  ("StressRelief.activateLevel", .lock "StressRelief.lock"),
  ("StressRelief.deactivateLevel", .lock "StressRelief.lock"),
  ("StressRelief.sampleRate", .lock "StressRelief.lock"),
  ("StressRelief.upperBound", .lock "StressRelief.lock"),
  ("StressRelief.overallStressLevel", .lock "StressRelief.lock"),
  ("StressRelief.reason", .lock "StressRelief.lock"),
  ("StressRelief.formula", .ownedLock "stress-monitor" "StressRelief.lock"),
  ("StressRelief.stressed", .lock "StressRelief.lock"),
  ("StressRelief.stayOnUntil", .lock "StressRelief.lock"),
  ("StressRelief.minDuration", .lock "StressRelief.lock"),
  ("StressRelief.topic", .initOnly),
  ("StressRelief.algorithms", .initOnly),
  ("StressRelief.lock", .atomic),
  ("StressRelief.stressLevels", .lock "StressRelief.lock"),
  ("StressRelief.disableStressLevelReport", .initOnly),
  -- CuckooTraceChecker
  ("CuckooTraceChecker.current", .lock "CuckooTraceChecker.mut"),
  ("CuckooTraceChecker.current*", .lock "CuckooTraceChecker.mut"),
  ("CuckooTraceChecker.future", .ownedLock "sentcache-monitor" "CuckooTraceChecker.mut"),
  ("CuckooTraceChecker.future*", .lock "CuckooTraceChecker.mut"),
  ("CuckooTraceChecker.mut", .atomic),
  ("CuckooTraceChecker.capacity", .lock "CuckooTraceChecker.mut"),
  ("CuckooTraceChecker.met", .initOnly),
  ("CuckooTraceChecker.addch", .initOnly),
  ("CuckooTraceChecker.done", .initOnly),
  ("CuckooTraceChecker.shutdownWG", .atomic),
  -- cuckooSentCache
  ("cuckooSentCache.met", .initOnly),
  ("cuckooSentCache.kept", .initOnly),
  ("cuckooSentCache.dropped", .initOnly),
  ("cuckooSentCache.recentDroppedIDs", .initOnly),
  ("cuckooSentCache.cfg", .initOnly),
  ("cuckooSentCache.done", .initOnly),
  ("cuckooSentCache.shutdownWG", .atomic),
  ("cuckooSentCache.keptReasons", .initOnly),
  -- Router
  ("Router.Config", .initOnly),
  ("Router.Logger", .initOnly),
  ("Router.Health", .initOnly),
  ("Router.HTTPTransport", .initOnly),
  ("Router.UpstreamTransmission", .initOnly),
  ("Router.PeerTransmission", .initOnly),
  ("Router.Sharder", .initOnly),
  ("Router.Collector", .initOnly),
  ("Router.Metrics", .initOnly),
  ("Router.Tracer", .initOnly),
  ("Router.versionStr", .initOnly),
  ("Router.proxyClient", .initOnly),
  ("Router.routerType", .initOnly),
  ("Router.iopLogger", .initOnly),
  ("Router.zstdDecoder", .initOnly),
  ("Router.server", .initOnly),
  ("Router.grpcServer", .initOnly),
  ("Router.doneWG", .atomic),
  ("Router.donech", .initOnly),
  ("Router.environmentCache", .initOnly),
  ("Router.hsrv", .initOnly),
  ("Router.metricsNames", .initOnly),
  -- environmentCache
  ("environmentCache.mutex", .atomic),
  ("environmentCache.items", .lock "environmentCache.mutex"),
  ("environmentCache.ttl", .initOnly),
  ("environmentCache.getFn", .initOnly),
  ("environmentCache.addItem()", .lock "environmentCache.mutex"),   -- call sites of addItem (requires mutex)
  -- eventBatch
  ("eventBatch.mutex", .atomic),
  ("eventBatch.events", .lock "eventBatch.mutex"),
  ("eventBatch.startTime", .lock "eventBatch.mutex"),
  -- DirectTransmission
  ("DirectTransmission.Config", .initOnly),
  ("DirectTransmission.Logger", .initOnly),
  ("DirectTransmission.Version", .initOnly),
  ("DirectTransmission.Metrics", .initOnly),
  ("DirectTransmission.Transport", .initOnly),
  ("DirectTransmission.Clock", .initOnly),
  ("DirectTransmission.transmitType", .initOnly),
  ("DirectTransmission.enableCompression", .initOnly),
  ("DirectTransmission.maxBatchSize", .initOnly),
  ("DirectTransmission.batchTimeout", .initOnly),
  ("DirectTransmission.batchSendTimeout", .initOnly),
  ("DirectTransmission.additionalHeaders", .initOnly),
  ("DirectTransmission.eventBatches", .lock "DirectTransmission.batchMutex"),
  ("DirectTransmission.batchMutex", .atomic),
  ("DirectTransmission.dispatchPool", .initOnly),
  ("DirectTransmission.stop", .initOnly),
  ("DirectTransmission.stopWG", .atomic),
  ("DirectTransmission.httpClient", .initOnly),
  ("DirectTransmission.userAgent", .initOnly),
  ("DirectTransmission.metricKeys", .initOnly),
  -- RedisPubsubPeers
  ("RedisPubsubPeers.Config", .initOnly),
  ("RedisPubsubPeers.Metrics", .initOnly),
  ("RedisPubsubPeers.Logger", .initOnly),
  ("RedisPubsubPeers.PubSub", .initOnly),
  ("RedisPubsubPeers.Clock", .initOnly),
  ("RedisPubsubPeers.InstanceID", .initOnly),
  ("RedisPubsubPeers.Done", .initOnly),
  ("RedisPubsubPeers.peers", .initOnly),
  ("RedisPubsubPeers.hash", .atomic),
  ("RedisPubsubPeers.callbacks", .initOnly),
  ("RedisPubsubPeers.sub", .initOnly),
  ("RedisPubsubPeers.topic", .initOnly),
  -- fileConfig
  ("fileConfig.mainConfig", .lock "fileConfig.mux"),
  ("fileConfig.mainHash", .lock "fileConfig.mux"),
  ("fileConfig.rulesConfig", .lock "fileConfig.mux"),
  ("fileConfig.rulesHash", .lock "fileConfig.mux"),
  ("fileConfig.opts", .initOnly),
  ("fileConfig.callbacks", .lock "fileConfig.mux"),
  ("fileConfig.mux", .atomic),
  ("fileConfig.lastLoadTime", .initOnly),
  -- ConfigWatcher
  ("ConfigWatcher.Config", .initOnly),
  ("ConfigWatcher.Logger", .initOnly),
  ("ConfigWatcher.PubSub", .initOnly),
  ("ConfigWatcher.Tracer", .initOnly),
  ("ConfigWatcher.Clock", .initOnly),
  ("ConfigWatcher.subscr", .initOnly),
  ("ConfigWatcher.msgTime", .lock "ConfigWatcher.mut"),
  ("ConfigWatcher.done", .initOnly),
  ("ConfigWatcher.mut", .atomic),
  ("ConfigWatcher.topic", .initOnly),
  ("ConfigWatcher.Starter", .initOnly),
  ("ConfigWatcher.Stopper", .initOnly),
  -- MultiMetrics
  ("MultiMetrics.Config", .initOnly),
  ("MultiMetrics.PromMetrics", .initOnly),
  ("MultiMetrics.OTelMetrics", .initOnly),
  ("MultiMetrics.children", .initOnly),
  ("MultiMetrics.counters", .atomic),
  ("MultiMetrics.gauges", .atomic),
  ("MultiMetrics.updowns", .atomic),
  ("MultiMetrics.stores", .atomic),
  ("MultiMetrics.metricTypes", .atomic)]

/-- Role of the functions that need one (every function not listed is `any`). -/
def roles : List (String × Role) := [
  -- initialisation: constructors, Start methods and helpers only they call
  ("InMemCollector.Start", .init),
  ("NewCollectorWorker", .init),
  ("StressRelief.Start", .init),
  ("NewCuckooSentCache", .init),
  ("NewCuckooTraceChecker", .init),
  ("Router.LnS", .init),
  ("Router.SetVersion", .init),
  ("Router.SetType", .init),
  ("Router.registerMetricNames", .init),      -- only called by LnS
  ("Router.SetEnvironmentCache", .init),      -- test helper, before LnS serves
  ("newEnvironmentCache", .init),
  ("NewDirectTransmission", .init),
  ("DirectTransmission.Start", .init),
  ("DirectTransmission.registerMetrics", .init), -- only called by Start
  ("RedisPubsubPeers.Start", .init),
  ("NewConfig", .init),
  ("newFileConfig", .init),
  ("ConfigWatcher.Start", .init),
  ("NewMultiMetrics", .init),
  ("MultiMetrics.Start", .init),
  ("MultiMetrics.AddChild", .init),           -- only called by Start
  -- tear-down: after every user of the object has been stopped (startstop stops in reverse order)
  ("DirectTransmission.Stop", .teardown),
  ("DirectTransmission.Stop$1", .teardown),   -- the sends Stop starts and waits for itself
  -- the collector worker goroutine (one per CollectorWorker)
  ("CollectorWorker.collect", .named "worker"),
  ("CollectorWorker.processSpan", .named "worker"),
  ("CollectorWorker.processSpan$1", .named "worker"),
  ("CollectorWorker.sendExpiredTracesInCache", .named "worker"),
  ("CollectorWorker.sendExpiredTracesInCache$1", .named "worker"),
  ("CollectorWorker.sendTracesEarly", .named "worker"),
  ("CollectorWorker.sendTracesEarly$1", .named "worker"),
  ("CollectorWorker.getLastSpanProcessed", .named "worker"),
  ("CollectorWorker.makeDecision", .named "worker"),
  -- InMemCollector.monitor goroutine
  ("InMemCollector.monitor", .named "collector-monitor"),
  ("InMemCollector.checkAlloc", .named "collector-monitor"),
  ("InMemCollector.isReady", .named "collector-monitor"),
  ("InMemCollector.reloadConfigs", .named "collector-monitor"),
  -- StressRelief's ticker goroutine (the only caller of Recalc)
  ("StressRelief.Start$2", .named "stress-monitor"),
  ("StressRelief.Recalc", .named "stress-monitor"),
  -- cuckooSentCache.monitor goroutine (one at a time: Resize stops the old one, waits, starts a new one)
  ("cuckooSentCache.monitor", .named "sentcache-monitor"),
  ("CuckooTraceChecker.Maintain", .named "sentcache-monitor")]

/-- Accesses of the current tree that violate their field's discipline: each one is a finding
(signature `C35:race:<field>:<function>:<kind>`), confirmed on the real code by the race-detector
harness (`harness/cmd/races`). -/
def knownViolations : List (String × String × AKind) := [
  -- Resize (worker goroutine, on reload) replaces c.kept while router goroutines read it through
  -- ProcessSpanImmediately → CheckSpan / Record
  ("cuckooSentCache.kept", "cuckooSentCache.Resize", .write),
  -- Reload compares the hashes before taking the lock; concurrent Reloads (ticker + pubsub message)
  ("fileConfig.mainHash", "fileConfig.Reload", .read),
  ("fileConfig.rulesHash", "fileConfig.Reload", .read),
  -- the /query/configmetadata endpoint reads the hashes without the lock while Reload writes them
  ("fileConfig.mainHash", "fileConfig.GetConfigMetadata", .read),
  ("fileConfig.rulesHash", "fileConfig.GetConfigMetadata", .read),
  -- Reload iterates the callback slice without the lock while RegisterReloadCallback appends
  ("fileConfig.callbacks", "fileConfig.Reload", .read),
  -- monitor (own goroutine) creates cw.done; Stop reads it
  ("ConfigWatcher.done", "ConfigWatcher.monitor", .write),
  -- every pubsub message runs listen → checkHash in its own goroutine; the peer report reads it too
  ("RedisPubsubPeers.hash", "RedisPubsubPeers.checkHash", .read),
  ("RedisPubsubPeers.hash", "RedisPubsubPeers.checkHash", .write),
  ("RedisPubsubPeers.hash", "RedisPubsubPeers.Ready$1", .read),
  -- callbacks are appended (by other components' Start) after the subscription is live
  ("RedisPubsubPeers.callbacks", "RedisPubsubPeers.RegisterUpdatedPeersCallback", .write)]

/-- Unresolved selectors that were inspected by hand and are not accesses to a tracked field. -/
def reviewedUnresolved : List (String × String) := [
  ("Config", "newBatchedEvents"),             -- opts.Config of the msgpack decoder options
  ("Done", "CollectorWorker.collect"),        -- sendEarly.wg.Done()
  ("ID", "CollectorWorker.makeDecision"),     -- trace.ID()
  ("Tracer", "ConfigWatcher.Start")]          -- noop.NewTracerProvider().Tracer("test")

end Refinery.Locks.Table
