import Refinery.Basic.AList
/-!
# Model of graceful shutdown: `InMemCollector.Stop`, `DirectTransmission.Stop`  (property C36)

Anchors: `collect/collect.go` (`Stop`, `send`, `sendTraces`), `collect/collector_worker.go`
(`collect`, `processSpan`, `sendExpiredTracesInCache`), `transmit/direct_transmit.go`
(`EnqueueEvent`, `dispatchStaleBatches`, `Stop`), `agent/agent.go` (`healthCheck`).

The collector is a set of workers, each with two input queues (`incoming`, `fromPeer`), a buffer
of undecided traces and a record of decided trace ids; decided-and-kept traces wait in
`tracesToSend` until the `sendTraces` goroutine hands their spans to the transmission.  The
transmission keeps one pending batch per destination and a list of dispatched batches.

Everything a goroutine does between two blocking points is one atomic step; the schedule is the
list of operations.  A worker that is busy (does not read its queues) is `held`; the only thing
that ends a hold is `stop` (the harness never resumes a held worker otherwise).

Parameters: the sampler is `keep : tid → Bool`; the routing of a trace id to a worker
(`getWorkerIDForTrace`, a wyhash) is supplied with each span (`w`); times are nanoseconds on the
two injected clocks.  `Cfg.fixed = false` is the code as it is; `true` is the proposed repair
(the worker drains both queues and decides every buffered trace before it exits); the agent loop
has its own flag (`hcStep`).

Ghost fields (`accepted`, `handed`, `discarded`, `lost`, `Tx.acc`) only record history; no
transition reads them.
-/
namespace Refinery.Model.Shutdown

structure Span where
  sid : Nat
  tid : Nat
  dest : Nat
  root : Bool
  deriving DecidableEq, Repr

/-- a buffered trace: owning worker, id, `SendBy`, spans in arrival order -/
structure Trace where
  w : Nat
  tid : Nat
  sendBy : Int
  spans : List Span
  deriving DecidableEq, Repr

structure Cfg where
  nw : Nat := 1        -- workers
  tt : Int := 0        -- TraceTimeout (effective, non-zero)
  sd : Int := 0        -- SendDelay (effective, non-zero)
  bto : Int := 0       -- BatchTimeout
  mb : Nat := 1        -- MaxBatchSize
  fixed : Bool := false
  deriving Repr

/-! ## Transmission (`DirectTransmission`) -/

/-- what `EnqueueEvent` does: returns, panics (`assignment to entry in nil map`, raised while the
write lock of `batchMutex` is held and never released), or blocks for ever on that lock -/
inductive EnqOut | ok | panic | blocked
  deriving DecidableEq, Repr

structure Tx where
  stopped : Bool := false
  locked : Bool := false                            -- batchMutex left write-locked by the panic
  now : Int := 0
  pending : AList Nat (Int × List Nat) := []        -- dest ↦ (startTime, event ids); `[]` = `events == nil`
  sent : List (Nat × List Nat) := []                -- dispatched batches, dispatch order
  acc : List Nat := []                              -- ghost: events `EnqueueEvent` accepted
  deriving Repr

/-- the batch of `dest` after appending `sid`: (startTime, events); an absent or emptied batch
starts at `now` -/
def Tx.grow (t : Tx) (dest sid : Nat) : Int × List Nat :=
  match AList.get t.pending dest with
  | some (st, e :: es) => (st, (e :: es) ++ [sid])
  | _ => (t.now, [sid])

def Tx.enqueue (c : Cfg) (t : Tx) (dest sid : Nat) : Tx × EnqOut :=
  if t.stopped then
    -- eventBatches == nil: the read misses, the write under batchMutex.Lock() panics
    if t.locked then (t, .blocked) else ({ t with locked := true }, .panic)
  else if c.mb ≤ (t.grow dest sid).2.length then
    ({ t with pending := AList.put t.pending dest ((t.grow dest sid).1, []),
              sent := t.sent ++ [(dest, (t.grow dest sid).2)], acc := t.acc ++ [sid] }, .ok)
  else
    ({ t with pending := AList.put t.pending dest (t.grow dest sid), acc := t.acc ++ [sid] }, .ok)

/-- `batchCount > 0 && dispatchStart.Sub(batch.startTime) >= d.batchTimeout` -/
def Tx.due (c : Cfg) (now : Int) (p : Nat × Int × List Nat) : Bool :=
  !p.2.2.isEmpty && decide (c.bto ≤ now - p.2.1)

/-- the clock advances by `ns` and the stale-batch ticker fires once -/
def Tx.tick (c : Cfg) (t : Tx) (ns : Nat) : Tx :=
  if t.stopped then { t with now := t.now + ns } else
  { t with now := t.now + ns,
           sent := t.sent ++ (t.pending.filter (Tx.due c (t.now + ns))).map (fun p => (p.1, p.2.2)),
           pending := t.pending.map (fun p => if Tx.due c (t.now + ns) p then (p.1, (p.2.1, [])) else p) }

/-- `Stop`: every non-empty pending batch is dispatched, `eventBatches = nil`; a second `Stop` is a no-op -/
def Tx.stop (t : Tx) : Tx :=
  if t.stopped then t else
  { t with stopped := true,
           sent := t.sent ++ (t.pending.filter (fun p => !p.2.2.isEmpty)).map (fun p => (p.1, p.2.2)),
           pending := [] }

/-! ## Collector -/

structure St where
  now : Int := 0
  held : List Nat := []                  -- busy workers
  qIn : List (Nat × Span) := []          -- (worker, span) waiting in `incoming`
  qPeer : List (Nat × Span) := []        -- … in `fromPeer`
  buf : List Trace := []                 -- undecided traces of all workers, creation order
  decided : List (Nat × Nat) := []       -- (worker, tid) in the worker's decision record
  toSend : List Trace := []              -- `tracesToSend`
  stopped : Bool := false
  tx : Tx := {}
  hlog : List (Nat × EnqOut) := []       -- what each hand-over to the transmission returned
  -- ghost
  accepted : List Span := []             -- spans `AddSpan` returned nil for
  handed : List Span := []               -- spans given to `Transmission.EnqueueSpan`
  discarded : List Span := []            -- spans dropped because their trace was decided `drop`
  lost : List Span := []                 -- spans thrown away undecided
  deriving Repr

def hand (c : Cfg) (s : St) (sp : Span) : St :=
  { s with handed := s.handed ++ [sp], tx := (s.tx.enqueue c sp.dest sp.sid).1,
           hlog := s.hlog ++ [(sp.sid, (s.tx.enqueue c sp.dest sp.sid).2)] }

def handAll (c : Cfg) (s : St) (sps : List Span) : St := sps.foldl (hand c) s

def owns (w tid : Nat) (t : Trace) : Bool := t.w == w && t.tid == tid

/-- `trace.AddSpan`; a root span pulls `SendBy` in to `now + SendDelay` -/
def addSpan (c : Cfg) (now : Int) (t : Trace) (sp : Span) : Trace :=
  if sp.root && decide (now + c.sd < t.sendBy) then
    { t with spans := t.spans ++ [sp], sendBy := now + c.sd }
  else { t with spans := t.spans ++ [sp] }

inductive Kind | queued | buffered | forwarded | dropped | panic
  deriving DecidableEq, Repr

/-- `processSpan` -/
def processK (c : Cfg) (keep : Nat → Bool) (s : St) (w : Nat) (sp : Span) : St × Kind :=
  if s.buf.any (owns w sp.tid) then
    ({ s with buf := s.buf.map fun t => if owns w sp.tid t then addSpan c s.now t sp else t }, .buffered)
  else if (w, sp.tid) ∈ s.decided then
    -- dealWithSentTrace: obey the recorded decision
    if keep sp.tid then (hand c s sp, .forwarded)
    else ({ s with discarded := s.discarded ++ [sp] }, .dropped)
  else
    ({ s with buf := s.buf ++ [addSpan c s.now { w := w, tid := sp.tid, sendBy := s.now + c.tt, spans := [] } sp] },
     .buffered)

def process (c : Cfg) (keep : Nat → Bool) (s : St) (ws : Nat × Span) : St := (processK c keep s ws.1 ws.2).1

def processAll (c : Cfg) (keep : Nat → Bool) (s : St) (l : List (Nat × Span)) : St :=
  l.foldl (process c keep) s

/-- order in which one tick decides traces: workers in index order (the harness lets them run one
after the other), each in `SendBy` order (priority queue), ties in creation order -/
def tle (a b : Trace) : Bool := decide (a.w < b.w) || (a.w == b.w && decide (a.sendBy ≤ b.sendBy))

def insT (x : Trace) : List Trace → List Trace
  | [] => [x]
  | y :: t => if tle x y then x :: y :: t else y :: insT x t

def sortT : List Trace → List Trace
  | [] => []
  | x :: t => insT x (sortT t)

/-- `makeDecision` + `send` for traces already taken out of the buffer -/
def decideTraces (keep : Nat → Bool) (s : St) (ts : List Trace) : St :=
  { s with decided := s.decided ++ ts.map (fun t => (t.w, t.tid)),
           toSend := s.toSend ++ ts.filter (fun t => keep t.tid),
           discarded := s.discarded ++ (ts.filter (fun t => !keep t.tid)).flatMap (·.spans) }

/-- `TakeExpiredTraces`: not `now.Before(sendBy)`; a busy worker does not tick -/
def expired (held : List Nat) (now : Int) (t : Trace) : Bool := !held.contains t.w && decide (t.sendBy ≤ now)

/-- one decision pass at instant `now` over the buffered traces selected by `ex` -/
def decideWhere (keep : Nat → Bool) (s : St) (now : Int) (ex : Trace → Bool) : St :=
  decideTraces keep { s with now := now, buf := s.buf.filter (fun t => !ex t) } (sortT (s.buf.filter ex))

def tick (keep : Nat → Bool) (s : St) (ns : Nat) : St :=
  if s.stopped then { s with now := s.now + ns } else
  decideWhere keep s (s.now + ns) (expired s.held (s.now + ns))

/-- the first worker (index order) whose pass at `now` contains a trace the sampler keeps -/
def firstKeeper (keep : Nat → Bool) (s : St) (now : Int) : Option Nat :=
  ((s.buf.filter (fun t => expired s.held now t && keep t.tid)).map (·.w)).foldl
    (fun (m : Option Nat) w => match m with | none => some w | some v => some (min v w)) none

/-- a tick during which `Stop` lands: the workers tick one after the other; the first one whose
pass reaches the hand-over of a kept trace (`send`) is still inside that pass when `Stop` closes
the input channels, and finishes it; the workers after it find their channels closed before they
look at their ticker and never tick.  (No such worker: an ordinary tick.) -/
def tickUpTo (keep : Nat → Bool) (s : St) (ns : Nat) : St :=
  decideWhere keep s (s.now + ns) (fun t => expired s.held (s.now + ns) t &&
    (match firstKeeper keep s (s.now + ns) with
     | none => true
     | some w => decide (t.w ≤ w)))

/-- the `sendTraces` goroutine takes one trace from `tracesToSend` -/
def fwdOne (c : Cfg) (s : St) : St :=
  match s.toSend with
  | [] => s
  | t :: r => handAll c { s with toSend := r } t.spans

/-- `close(tracesToSend); sendTracesWG.Wait()` -/
def drain (c : Cfg) (s : St) : St := handAll c { s with toSend := [] } (s.toSend.flatMap (·.spans))

inductive Out
  | ok | refused | panic | idle
  | kind (k : Kind)
  | enq (o : EnqOut)
  | fwd (tid : Nat)
  deriving DecidableEq, Repr

/-! `InMemCollector.Stop` (not yet stopped).  Code as it is: the channels are closed; a worker sees
the closed `fromPeer` first, so what is still in `fromPeer` is processed, what is in `incoming`
is never read, buffered traces stay undecided; then `tracesToSend` is drained.
Repaired: each worker also processes `incoming` and decides everything it has buffered. -/

def stopPeer (c : Cfg) (keep : Nat → Bool) (s : St) : St := processAll c keep { s with qPeer := [] } s.qPeer

def stopIn (c : Cfg) (keep : Nat → Bool) (s : St) : St :=
  if c.fixed then processAll c keep { s with qIn := [] } s.qIn
  else { s with qIn := [], lost := s.lost ++ s.qIn.map (·.2) }

def stopBuf (c : Cfg) (keep : Nat → Bool) (s : St) : St :=
  if c.fixed then decideTraces keep { s with buf := [] } s.buf else s

def stopBody (c : Cfg) (keep : Nat → Bool) (s : St) : St :=
  { drain c (stopBuf c keep (stopIn c keep (stopPeer c keep s))) with stopped := true, held := [] }

/-- clock +dt, then `AddSpan` / `AddSpanFromPeer` -/
def spanOp (c : Cfg) (keep : Nat → Bool) (s : St) (dt w : Nat) (peer : Bool) (sp : Span) : St × Out :=
  if s.stopped then ({ s with now := s.now + dt }, .panic)                 -- send on closed channel
  else if s.held.contains w then
    (if peer then { s with now := s.now + dt, accepted := s.accepted ++ [sp], qPeer := s.qPeer ++ [(w, sp)] }
     else { s with now := s.now + dt, accepted := s.accepted ++ [sp], qIn := s.qIn ++ [(w, sp)] },
     .kind .queued)
  else
    ((processK c keep { s with now := s.now + dt, accepted := s.accepted ++ [sp] } w sp).1,
     .kind (processK c keep { s with now := s.now + dt, accepted := s.accepted ++ [sp] } w sp).2)

inductive Op
  | span (dt w : Nat) (peer : Bool) (sp : Span)   -- clock +dt, then AddSpan / AddSpanFromPeer
  | hold (w : Nat)                                -- worker w becomes busy
  | tick (ns : Nat)                               -- collector clock +ns, every idle worker ticks once
  | fwd                                           -- sendTraces forwards one trace
  | ev (sid dest : Nat)                           -- EnqueueEvent called directly (router)
  | txtick (ns : Nat)                             -- transmission clock +ns, stale-batch ticker fires
  | stop                                          -- InMemCollector.Stop
  | tickstop (ns : Nat)                           -- a tick with Stop requested while a worker is inside its pass
  | txstop                                        -- DirectTransmission.Stop
  deriving DecidableEq, Repr

def step (c : Cfg) (keep : Nat → Bool) (s : St) : Op → St × Out
  | .span dt w peer sp => spanOp c keep s dt w peer sp
  | .hold w =>
    if s.stopped || decide (c.nw ≤ w + 1) || s.held.contains w then (s, .refused)
    else ({ s with held := w :: s.held }, .ok)
  | .tick ns => (tick keep s ns, .ok)
  | .fwd =>
    match s.toSend with
    | [] => (s, .idle)
    | t :: _ => (fwdOne c s, .fwd t.tid)
  | .ev sid dest =>
    let r := s.tx.enqueue c dest sid
    ({ s with tx := r.1 }, .enq r.2)
  | .txtick ns => ({ s with tx := s.tx.tick c ns }, .ok)
  | .stop =>
    if s.stopped then (s, .panic)                 -- close of closed channel
    else (stopBody c keep s, .ok)
  | .tickstop ns =>
    if s.stopped then ({ s with now := s.now + ns }, .refused)
    else (stopBody c keep (tickUpTo keep s ns), .ok)
  | .txstop => ({ s with tx := s.tx.stop }, .ok)

/-- the operations that request `InMemCollector.Stop` -/
def Op.isStop : Op → Bool
  | .stop => true
  | .tickstop _ => true
  | _ => false

def init : St := {}

def run (c : Cfg) (keep : Nat → Bool) (ops : List Op) : St :=
  ops.foldl (fun s o => (step c keep s o).1) init

/-- spans still waiting somewhere inside the collector -/
def located (s : St) : List Span :=
  s.qIn.map (·.2) ++ s.qPeer.map (·.2) ++ s.buf.flatMap (·.spans) ++ s.toSend.flatMap (·.spans)

/-! ## The order of `InMemCollector.Stop` and the producers of `tracesToSend`

```go
close(worker.incoming); close(worker.fromPeer)   // closeInputs
i.workersWG.Wait()                               // waitWorkers
close(i.tracesToSend)                            // closeOut
i.sendTracesWG.Wait()                            // waitSender
```
A worker is a producer on `tracesToSend` for as long as it runs: a decision pass (`pass w k`: `k`
kept traces to hand over) can start at any time before the worker has exited — also after its
inputs were closed, when the select still picks the ticker — and each `work w` step either does
the next `i.tracesToSend <- trace` of the pass or, with nothing left to send and the inputs
closed, lets the worker exit.  A send on the closed channel panics (`violated`).
`Stop`'s phases are a parameter (`order`) so that the coded order can be compared with others.
-/
inductive Phase | closeInputs | waitWorkers | closeOut | waitSender
  deriving DecidableEq, Repr

inductive PEv
  | pass (w k : Nat)      -- worker w starts a pass with k hand-overs
  | work (w : Nat)        -- worker w takes its next step
  | stop                  -- Stop takes its next phase (waitWorkers blocks while a worker is alive)
  deriving DecidableEq, Repr

structure PSt where
  pc : Nat := 0
  live : List Nat                  -- workers that have not exited
  pend : Nat → Nat := fun _ => 0   -- hand-overs the worker's current pass still has to do
  inClosed : Bool := false
  outClosed : Bool := false
  violated : Bool := false         -- a send on the closed `tracesToSend` has happened

def codedOrder : List Phase := [.closeInputs, .waitWorkers, .closeOut, .waitSender]
def swappedOrder : List Phase := [.closeInputs, .closeOut, .waitWorkers, .waitSender]

def pstep (order : List Phase) (s : PSt) : PEv → PSt
  | .pass w k =>
    if w ∈ s.live then { s with pend := fun x => if x = w then s.pend x + k else s.pend x } else s
  | .work w =>
    if w ∈ s.live then
      if 0 < s.pend w then
        { s with pend := fun x => if x = w then s.pend x - 1 else s.pend x,
                 violated := s.violated || s.outClosed }
      else if s.inClosed then { s with live := s.live.filter (· ≠ w) }
      else s
    else s
  | .stop =>
    match order[s.pc]? with
    | some .closeInputs => { s with pc := s.pc + 1, inClosed := true }
    | some .waitWorkers => if s.live = [] then { s with pc := s.pc + 1 } else s
    | some .closeOut => { s with pc := s.pc + 1, outClosed := true }
    | some .waitSender => { s with pc := s.pc + 1 }
    | none => s

def prun (order : List Phase) (workers : List Nat) (evs : List PEv) : PSt :=
  evs.foldl (pstep order) { live := workers }

/-! ## Retry-After and the shutdown flush (`DirectTransmission.sendBatch`)

```go
for try := 0; try < 2; try++ {
    resp, err = d.httpClient.Do(req)
    if 429 or 503 { sleepDur := Retry-After; if 0 < sleepDur < 60s { d.Clock.Sleep(sleepDur); continue } }
    break }
```
Times are whole seconds on the transmission's clock.  The upstream is a parameter of a simple
kind: a destination in `lim` is rate limited from the first attempt it sees (at `t`) until
`t + r`; before that instant it answers 429/503 with `Retry-After` = the time left, from then on it
accepts.  A batch whose first attempt is refused sleeps until the announced instant and is tried
once more; a second refusal drops the whole batch.  `stopWakes = false` is the code as it is
(`Clock.Sleep`: `Stop` has no influence on the wait — it closes `d.stop`, dispatches what is
pending and waits in `dispatchPool.Wait()` while the clock runs); `true` is a wait that `Stop`
cuts short.
-/
structure RCfg where
  mb : Nat := 1
  r : Int := 1
  lim : List Nat := []
  stopWakes : Bool := false
  deriving Repr

structure RSleep where
  dest : Nat
  evs : List Nat
  wake : Int
  deriving DecidableEq, Repr

structure RSt where
  now : Int := 0
  stopped : Bool := false
  locked : Bool := false
  pending : AList Nat (List Nat) := []
  sleeping : List RSleep := []               -- batches in their Retry-After sleep
  acceptAt : AList Nat Int := []             -- upstream: limited destination ↦ instant from which it accepts
  delivered : List (Nat × List Nat) := []
  dropped : List (Nat × List Nat) := []      -- batches given up after the second refusal
  early : Nat := 0                           -- retries that reached the upstream before its Retry-After instant
  acc : List Nat := []                       -- ghost: events EnqueueEvent accepted
  deriving Repr

def RSt.deliver (s : RSt) (d : Nat) (evs : List Nat) : RSt := { s with delivered := s.delivered ++ [(d, evs)] }

/-- the first attempt was refused with `Retry-After` = `a - now` -/
def RSt.sleepOrDrop (s : RSt) (d : Nat) (evs : List Nat) (a : Int) : RSt :=
  if 0 < a - s.now ∧ a - s.now < 60 then { s with sleeping := s.sleeping ++ [{ dest := d, evs := evs, wake := a }] }
  else { s with dropped := s.dropped ++ [(d, evs)] }

/-- a batch is dispatched: first attempt at `s.now` -/
def RSt.firstAttempt (c : RCfg) (s : RSt) (d : Nat) (evs : List Nat) : RSt :=
  if !c.lim.contains d then s.deliver d evs
  else match AList.get s.acceptAt d with
    | none => ({ s with acceptAt := AList.put s.acceptAt d (s.now + c.r) }).sleepOrDrop d evs (s.now + c.r)
    | some a => if a ≤ s.now then s.deliver d evs else s.sleepOrDrop d evs a

/-- the one retry, at `s.now` -/
def RSt.retry (s : RSt) (b : RSleep) : RSt :=
  match AList.get s.acceptAt b.dest with
  | some a => if a ≤ s.now then s.deliver b.dest b.evs
              else { s with dropped := s.dropped ++ [(b.dest, b.evs)], early := s.early + 1 }
  | none => s.deliver b.dest b.evs

/-- every sleeping batch whose sleep is over retries -/
def RSt.wakeDue (s : RSt) : RSt :=
  (s.sleeping.filter (fun b => decide (b.wake ≤ s.now))).foldl RSt.retry
    { s with sleeping := s.sleeping.filter (fun b => !decide (b.wake ≤ s.now)) }

def RSt.flush (c : RCfg) (s : RSt) : RSt :=
  (s.pending.filter (fun p => !p.2.isEmpty)).foldl (fun s p => s.firstAttempt c p.1 p.2) { s with pending := [] }

/-- the pending batch of `d` with `sid` appended -/
def RSt.grown (s : RSt) (d sid : Nat) : List Nat := (AList.get s.pending d).getD [] ++ [sid]

/-- the latest instant a sleeping batch is waiting for -/
def RSt.lastWake (s : RSt) : Int := s.sleeping.foldl (fun (m : Int) (b : RSleep) => max m b.wake) s.now

/-- `Stop`: `close(d.stop)`, dispatch what is pending, `dispatchPool.Wait()` -/
def RSt.stop (c : RCfg) (s : RSt) : RSt :=
  if s.stopped then s
  else if c.stopWakes then
    -- the closed `d.stop` ends every wait at once: sleeping batches and the flush batches retry now
    (({ s with stopped := true }).flush c).sleeping.foldl RSt.retry
      { ({ s with stopped := true }).flush c with sleeping := [] }
  else
    -- the clock runs on while Stop waits for its dispatch pool: every sleep comes to its end
    ({ ({ s with stopped := true }).flush c with now := (({ s with stopped := true }).flush c).lastWake }).wakeDue

inductive ROp
  | ev (sid dest : Nat)     -- EnqueueEvent
  | adv (n : Nat)           -- the clock advances n seconds
  | stop                    -- DirectTransmission.Stop, the clock keeps running while it blocks
  deriving DecidableEq, Repr

def rstep (c : RCfg) (s : RSt) : ROp → RSt × EnqOut
  | .ev sid d =>
    if s.stopped then (if s.locked then (s, .blocked) else ({ s with locked := true }, .panic))
    else if c.mb ≤ (s.grown d sid).length then
      (({ s with acc := s.acc ++ [sid], pending := AList.put s.pending d [] }).firstAttempt c d (s.grown d sid), .ok)
    else ({ s with acc := s.acc ++ [sid], pending := AList.put s.pending d (s.grown d sid) }, .ok)
  | .adv n => (({ s with now := s.now + n }).wakeDue, .ok)
  | .stop => (s.stop c, .ok)

def rrun (c : RCfg) (ops : List ROp) : RSt := ops.foldl (fun s o => (rstep c s o).1) {}

/-! ## The stop sequence (`startstop.Stop` over main.go's object graph)

`startstop.Stop` stops the components level by level, dependants first — the App, its two routers,
the collector, the two transmissions — and **returns at the first error**, leaving the rest
running.  Every `Stop` but the router's returns nil.  `Router.Stop` is
`server.Shutdown(ctx)` with `ctx` = `context.WithTimeout(…, grace)`: nil when no request is in
flight, otherwise nil iff the requests in flight finish within `grace` (nanoseconds; `time.Minute`
in the code).
-/
inductive Comp
  | app                 -- stops the OpAMP agent when OpAMP is enabled
  | incomingRouter | peerRouter | collector
  | configWatcher       -- subscribes to the config topic only when OpAMP is disabled; Stop guards the nil subscription
  | stressRelief | samplerFactory | health | sharder | peers | pubsub | metrics
  | upstreamTx | peerTx
  deriving DecidableEq, Repr

/-- the order `startstop.Stop` derives from main.go's graph (dependants first); it is the same for
every configuration — which components do something in `Start` / `Stop` differs (the agent and the
config watcher's subscription depend on `OpAMP.Enabled`), not which are stopped -/
def stopOrder : List Comp :=
  [.app, .incomingRouter, .peerRouter, .collector, .configWatcher, .stressRelief, .samplerFactory, .sharder,
   .upstreamTx, .peerTx, .health, .peers, .pubsub, .metrics]

/-- does this component's `Stop` return nil: `grace` = the router's shutdown timeout, `finishIn` =
`some d` when a request is in flight on the incoming listener and completes after `d` -/
def compStopOk (grace : Nat) (finishIn : Option Nat) : Comp → Bool
  | .incomingRouter => match finishIn with
      | none => true
      | some d => decide (d ≤ grace)
  | _ => true

/-- the components whose `Stop` has been called, and whether the sequence was aborted by an error -/
def stopSeq (grace : Nat) (finishIn : Option Nat) : List Comp → List Comp × Bool
  | [] => ([], false)
  | c :: rest =>
    if compStopOk grace finishIn c then (c :: (stopSeq grace finishIn rest).1, (stopSeq grace finishIn rest).2)
    else ([c], true)

/-! ## `Agent.healthCheck`

The loop as it is now (commit 4b2120c, `fixed = true`):
```go
for { select { case <-agent.ctx.Done(): return
               case <-timer.Chan(): … } }
```
and as it was before that commit (`fixed = false`): the `ctx.Done()` case had an empty body, so
the loop went round again for ever on the closed channel.  This flag is independent of
`Cfg.fixed` (the collector's `Stop`, which is still as coded).
-/
inductive HcEv | done | tick deriving DecidableEq, Repr
inductive HcSt | running | exited deriving DecidableEq, Repr

def hcStep (fixed : Bool) : HcSt → HcEv → HcSt
  | .exited, _ => .exited
  | .running, .done => if fixed then .exited else .running
  | .running, .tick => .running

def hcRun (fixed : Bool) (evs : List HcEv) : HcSt := evs.foldl (hcStep fixed) .running

/-! ## `Agent.reportUsagePeriodically` / `sendUsageReport`

```go
for { select { case <-agent.ctx.Done(): return
               case <-timer.Chan(): agent.sendUsageReport() } }          // idle
sendUsageReport:
  report := NewReport()                      // errNoData: back to idle
  isSent, err := SendCustomMessage(report)
  ErrCustomMessagePending: select { case <-ctx.Done(): return            // waitPending
                                    case <-isSent: isSent, err = SendCustomMessage(report) (once) }
  other error: return
  select { case <-ctx.Done(): return; case <-isSent: completeSend() }    // waitSent
```
One *own step* of the loop = one select firing and everything up to the next select.  When more
than one case of a select is ready Go chooses at random: `choice` (true = the `ctx.Done()` case).
The OpAMP client is a parameter: the outcome of each `SendCustomMessage` call comes from `script`
(nothing left: error); the environment closes the returned channel (or never does).
-/
inductive SendOut
  | ok (closed : Bool)      -- accepted; the returned channel is already closed / still open
  | pend (closed : Bool)    -- ErrCustomMessagePending + the pending message's channel
  | fail
  deriving DecidableEq, Repr

inductive ULoc | idle | waitPending | waitSent | exited
  deriving DecidableEq, Repr

structure USt where
  loc : ULoc := .idle
  tick : Bool := false        -- a tick is waiting in the ticker's channel (capacity 1)
  cancelled : Bool := false   -- Agent.Stop has cancelled the context
  chClosed : Bool := false    -- the channel the loop is waiting on has been closed
  cur : Bool := false         -- usageTracker.currentDataPoints non-empty
  last : Bool := false        -- usageTracker.lastDataPoints non-empty
  script : List SendOut := []
  calls : Nat := 0
  deriving DecidableEq, Repr

def USt.nextOut (s : USt) : SendOut := s.script.headD .fail

def USt.called (s : USt) : USt := { s with script := s.script.tail, calls := s.calls + 1 }

/-- the ticker case: `sendUsageReport` up to its first blocking point -/
def sendReport (s : USt) : USt :=
  if !(s.cur || s.last) then { s with loc := .idle }                 -- errNoData
  else
    match s.nextOut with
    | .ok c => { s.called with cur := false, last := true, loc := .waitSent, chClosed := c }
    | .pend c => { s.called with cur := false, last := true, loc := .waitPending, chClosed := c }
    | .fail => { s.called with cur := false, last := true, loc := .idle }

/-- the retry after the pending message has gone out -/
def retrySend (s : USt) : USt :=
  match s.nextOut with
  | .ok c => { s.called with loc := .waitSent, chClosed := c }
  | _ => { s.called with loc := .idle }

/-- one own step; `none`: the loop is blocked (or has exited) -/
def ustep (choice : Bool) (s : USt) : Option USt :=
  match s.loc with
  | .exited => none
  | .idle =>
    if s.cancelled && (!s.tick || choice) then some { s with loc := .exited }
    else if s.tick then some (sendReport { s with tick := false })
    else none
  | .waitPending =>
    if s.cancelled && (!s.chClosed || choice) then some { s with loc := .idle }   -- return ctx.Err()
    else if s.chClosed then some (retrySend s)
    else none
  | .waitSent =>
    if s.cancelled && (!s.chClosed || choice) then some { s with loc := .idle }
    else if s.chClosed then some { s with loc := .idle, last := false }           -- completeSend
    else none

/-- the loop runs on its own, one step per element of `choices` (a blocked loop stays where it is) -/
def urun (choices : List Bool) (s : USt) : USt :=
  choices.foldl (fun s ch => (ustep ch s).getD s) s

/-- environment: a tick of `reportUsageInterval` (the ticker never blocks: capacity 1) -/
def USt.ticked (s : USt) : USt := { s with tick := true }
/-- environment: the OpAMP client has sent the message the loop is waiting for -/
def USt.sent (s : USt) : USt :=
  if s.loc = .waitPending ∨ s.loc = .waitSent then { s with chClosed := true } else s
/-- environment: the health-check loop (or anyone) adds usage -/
def USt.added (s : USt) : USt := { s with cur := true }
/-- `Agent.Stop`: `cancel()` -/
def USt.stop (s : USt) : USt := { s with cancelled := true }

end Refinery.Model.Shutdown
