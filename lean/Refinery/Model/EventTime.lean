/-!
# Model of event-time handling (property C22)

* `parseEpoch` — `route.getEventTime` on an all-digit string: the first ten digits are Unix seconds,
  the remaining digits (at most nine are significant) are a decimal fraction of a second.
* `encodeTs` / `decodeTs` — the msgpack timestamp extension (type -1) in its 32/64/96-bit forms, as
  `msgp.AppendTimeExt` chooses them and `msgp.ReadTimeBytes` reads them (used by
  `transmit.batchedEvent.MarshalMsg` and `route.batchedEvent.UnmarshalMsg`).

An instant is `(sec, nsec)` with `nsec < 10^9`; Go's `time.Unix(sec, nsec)` denotes exactly that.
Core Lean only.
-/
namespace Refinery.Model.EventTime

def digitVal (c : Char) : Option Nat :=
  if '0' ≤ c ∧ c ≤ '9' then some (c.toNat - '0'.toNat) else none

/-- value of a list of decimal digits (most significant first) -/
def numeral (ds : List Nat) : Nat := ds.foldl (fun acc d => acc * 10 + d) 0

def digitsOf (s : String) : Option (List Nat) := s.toList.mapM digitVal

/-- `getEventTime` on digit strings of length ≥ 10 (shorter ones are not epoch times: `none`). -/
def parseEpochDigits (ds : List Nat) : Option (Nat × Nat) :=
  if ds.length < 10 then none
  else
    let sec := numeral (ds.take 10)
    let frac := (ds.drop 10).take 9
    some (sec, numeral frac * 10 ^ (9 - frac.length))

def parseEpoch (s : String) : Option (Nat × Nat) :=
  match digitsOf s with
  | none => none
  | some ds => parseEpochDigits ds

/-! ## msgpack timestamp extension -/

/-- big-endian bytes of `k` in `n` bytes -/
def beBytes : Nat → Nat → List Nat
  | 0, _ => []
  | n + 1, k => beBytes n (k / 256) ++ [k % 256]

def ofBE (bs : List Nat) : Nat := bs.foldl (fun acc b => acc * 256 + b) 0

/-- `msgp.AppendTimeExt` for an instant at or after the epoch (`sec ≥ 0`) -/
def encodeTs (sec nsec : Nat) : List Nat :=
  if nsec = 0 ∧ 0 < sec ∧ sec ≤ 4294967295 then
    [0xd6, 0xff] ++ beBytes 4 sec
  else if sec ≥ 2 ^ 34 then
    [0xc7, 12, 0xff] ++ beBytes 4 nsec ++ beBytes 8 sec
  else
    [0xd7, 0xff] ++ beBytes 8 (sec + nsec * 2 ^ 34)

/-- `msgp.ReadTimeBytes` restricted to the standard extension; `none` = error.
(ts96 seconds are signed in the wire format; instants before 1970 are outside the property.) -/
def decodeTs (bs : List Nat) : Option (Nat × Nat) :=
  match bs with
  | 0xd6 :: 0xff :: rest => if rest.length = 4 then some (ofBE rest, 0) else none
  | 0xd7 :: 0xff :: rest =>
    if rest.length = 8 then
      let v := ofBE rest
      let nanos := v / 2 ^ 34
      if nanos > 999999999 then none else some (v % 2 ^ 34, nanos)
    else none
  | 0xc7 :: 12 :: 0xff :: rest =>
    if rest.length = 12 then
      let nanos := ofBE (rest.take 4)
      let s := ofBE (rest.drop 4)
      if nanos > 999999999 then none else if s ≥ 2 ^ 63 then none else some (s, nanos)
    else none
  | _ => none

end Refinery.Model.EventTime
