import Refinery.Basic.AList
import Refinery.Gen.Transmit
/-!
# Model of `transmit.DirectTransmission`  (property C26)

Three layers, each mirroring `transmit/direct_transmit.go` as it is:

1. **splitting** (`fill`, `splitLoop`, `split`): `sendBatch`'s outer `for len(wholeBatch) > 0` loop and
   its inner packing loop over the serialized sizes of the events, with the code's `continue`
   (marshal error / event larger than `apiMaxEventSize`: counted as error, skipped) and `break`
   (`len(newPacked) > apiMaxBatchSize`: dispatch what we have) kept.  The outer loop is run with
   explicit fuel and reports whether it finished, so that termination is a theorem, not a
   definition.
2. **attempts / responses** (`tryLoop`, `finish`, `sendChunk`): the `for try := 0; try < 2; try++` loop
   (429/503 with a usable Retry-After: close, sleep, continue; `Timeout()` error: continue;
   everything else: break) and the accounting of every outcome (URL error, transport error,
   non-200, 200 with per-event statuses, short / long / undecodable bodies).
3. **batching** (`enq`, `tick`, `adv`, `stop`): per-destination batches keyed by
   `(apiHost, apiKey, dataset)`, dispatch when `len(events) >= maxBatchSize`, dispatch of batches with
   `now - startTime >= batchTimeout` on a ticker of period `batchTimeout/4`, flush on `Stop`.

Parameters (external to the model): the serialized size of each event (`Ev.size`, `none` when
`MarshalMsg` fails), whether `url.JoinPath` accepts a destination (`Cfg.badUrl`), the behaviour
of network + server per request (`Srv`, including how the standard library classified the
`Retry-After` header), the clock.  Time is nanoseconds since `Start`.  A dispatched `sendBatch`
runs to completion inside the operation that dispatched it (the harness waits for the dispatch
pool); `Clock.Sleep` is virtual.  The `http.NewRequest` failure branch is not modelled: it cannot
be taken after `url.JoinPath` succeeded (NewRequest only re-parses that URL).
-/
namespace Refinery.Model.Transmit

structure Dest where
  host : String
  key : String
  dataset : String
  deriving DecidableEq, Repr

structure Ev where
  id : Nat
  dest : Dest
  /-- bytes `MarshalMsg` appends for this event; `none`: `MarshalMsg` returns an error -/
  size : Option Nat
  /-- `EnqueuedUnixMicro`: the clock when `EnqueueEvent` took the event (set by `enq`) -/
  t : Nat := 0
  deriving DecidableEq, Repr

/-- `sampleRate: int64(ev.SampleRate)`: the `samplerate` an event carries on the wire.  `SampleRate`
is a 64-bit `uint`; Go's conversion to `int64` is the identity below 2^63 and wraps above. -/
def wireRate (rate : Nat) : Int := if rate < 2 ^ 63 then rate else (rate : Int) - 2 ^ 64

/-! ## 1. splitting -/

/-- `packed := append(*bufPtr, 0, 0, 0, 0, 0)`: room for the largest msgpack array header -/
def reserve : Nat := 5

/-- `len(msgp.AppendArrayHeader(_, n))` -/
def hdrLen (n : Nat) : Nat := if n ≤ 15 then 1 else if n ≤ 65535 then 3 else 5

/-- an event the API would accept: it marshals and is not larger than `maxE` -/
def fits (maxE : Nat) (e : Ev) : Bool :=
  match e.size with
  | some s => decide (s ≤ maxE)
  | none => false

structure Fill where
  sub : List Ev        -- `subBatch`
  dropped : List Ev    -- events handed to `handleEventError` ("failed to marshal event")
  rest : List Ev       -- `wholeBatch[i:]`
  packed : Nat         -- `len(packed)` at the end of the inner loop
  deriving Repr

/-- The inner loop `for i = 0; i < len(wholeBatch); i++`, started with `len(packed) = packed`. -/
def fill (maxB maxE : Nat) : Nat → List Ev → Fill
  | packed, [] => ⟨[], [], [], packed⟩
  | packed, e :: es =>
    match e.size with
    | none =>                                      -- err != nil: continue
      let r := fill maxB maxE packed es
      { r with dropped := e :: r.dropped }
    | some s =>
      if maxE < s then                             -- "event exceeds max event size": continue
        let r := fill maxB maxE packed es
        { r with dropped := e :: r.dropped }
      else if maxB < packed + s then               -- len(newPacked) > apiMaxBatchSize: break
        ⟨[], [], e :: es, packed⟩
      else
        let r := fill maxB maxE (packed + s) es
        { r with sub := e :: r.sub }

/-- One iteration of the outer loop. -/
structure Chunk where
  dest : Dest          -- `wholeBatch[0]`'s destination: where this sub-batch is addressed
  sub : List Ev
  dropped : List Ev
  packed : Nat
  deriving Repr

/-- The outer loop `for len(wholeBatch) > 0` with fuel; the flag says whether it ran to the end. -/
def splitLoop (maxB maxE : Nat) : Nat → List Ev → List Chunk × Bool
  | _, [] => ([], true)
  | 0, _ :: _ => ([], false)
  | fuel + 1, e :: es =>
    let r := fill maxB maxE reserve (e :: es)
    let p := splitLoop maxB maxE fuel r.rest
    (⟨e.dest, r.sub, r.dropped, r.packed⟩ :: p.1, p.2)

def maxB : Nat := Gen.Transmit.apiMaxBatchSize.toNat
def maxE : Nat := Gen.Transmit.apiMaxEventSize.toNat

/-- `sendBatch`'s splitting of a whole batch (fuel `length + 1` is enough: `split_terminates`). -/
def split (evs : List Ev) : List Chunk × Bool := splitLoop maxB maxE (evs.length + 1) evs

/-- length of the request body of a sub-batch: the packed events behind a right-sized header -/
def bodyLen (ch : Chunk) : Nat := ch.packed - reserve + hdrLen ch.sub.length

/-! ## 2. attempts and responses -/

/-- how Go's `time.ParseDuration(v+"s")` / `http.ParseTime(v)` classified the header -/
inductive RetryAfter where
  | absent                -- no header, or an empty one
  | dur (ns : Int)        -- ParseDuration succeeded
  | date (t : Int)        -- ParseTime succeeded: instant, ns since Start
  | garbage               -- neither
  deriving Repr, DecidableEq

/-- what `httpClient.Do` produced for one attempt -/
inductive Resp where
  | timeout                                   -- error with `Timeout() == true`
  | netErr                                    -- any other error
  /-- `decodeErr`: reading / decoding the body fails in a way the code counts as
  `_response_decode_errors` (an undecodable JSON body of a 200 is logged but not counted: the JSON
  branch assigns a shadowed `err`).  `statuses`: the per-event statuses decoded from a 200. -/
  | http (code : Nat) (ra : RetryAfter) (decodeErr : Bool) (statuses : List Nat)
  deriving Repr

/-- network + server behaviour for one request, given the number of events in it -/
abbrev Srv := Nat → Resp

def Srv.ok : Srv := fun n => .http 200 .absent false (List.replicate n 202)

def second : Int := 1000000000

/-- `sleepDur` as computed from the `Retry-After` header (default one second) -/
def sleepDur (now : Nat) : RetryAfter → Int
  | .absent => second
  | .dur d => d
  | .date t => t - now
  | .garbage => second

structure Ctr where
  ups : Nat := 0           -- `_queued_items` Up
  downs : Nat := 0         -- `_queued_items` Down
  r20x : Nat := 0          -- `_response_20x`
  rerr : Nat := 0          -- `_response_errors`
  sendErr : Nat := 0       -- `_send_errors`
  retries : Nat := 0       -- `_send_retries`
  batchesSent : Nat := 0   -- `_batches_sent`
  msgsSent : Nat := 0      -- `_messages_sent`
  decodeErr : Nat := 0     -- `_response_decode_errors`
  deriving Repr, DecidableEq

def Ctr.add (a b : Ctr) : Ctr :=
  ⟨a.ups + b.ups, a.downs + b.downs, a.r20x + b.r20x, a.rerr + b.rerr, a.sendErr + b.sendErr,
   a.retries + b.retries, a.batchesSent + b.batchesSent, a.msgsSent + b.msgsSent,
   a.decodeErr + b.decodeErr⟩

/-- Path of the request URL `url.JoinPath(apiHost, "/1/batch", url.PathEscape(dataset))`, as segments
below the host, given the escaped dataset (always a single segment: `PathEscape` escapes `/`).
`JoinPath` cleans the joined path: an empty or `.` segment disappears, a `..` segment removes
`batch`. -/
def requestPath (escapedDataset : String) : List String :=
  if escapedDataset = ".." then ["1"]
  else if escapedDataset = "." ∨ escapedDataset = "" then ["1", "batch"]
  else ["1", "batch", escapedDataset]

/-- the batch endpoint of a dataset -/
def ownPath (escapedDataset : String) : List String := ["1", "batch", escapedDataset]

/-- one HTTP request made by `sendBatch` -/
structure Attempt where
  dest : Dest
  path : List String   -- the request path (`requestPath` of the escaped dataset)
  events : List Ev
  bodyLen : Nat
  time : Nat      -- clock when the batch was dispatched
  chunk : Nat     -- index of the sub-batch within its whole batch
  sidx : Nat      -- which element of the operation's server script answered it
  deriving Repr, DecidableEq

structure Acc where
  ctr : Ctr := {}
  log : List Attempt := []
  sleeps : List Int := []
  pos : Nat := 0          -- next unused element of the script
  deriving Repr

def maxTries : Nat := 2

/-- the `(resp, err)` pair after the retry loop -/
inductive Last where
  | none
  | err
  | resp (code : Nat) (decodeErr : Bool) (statuses : List Nat)
  deriving Repr

/-- `for try := 0; try < 2; try++`.  `left` = iterations still allowed, `t` = `try`. -/
def tryLoop (script : List Srv) (now : Nat) (mk : Nat → Attempt) (n : Nat) :
    Nat → Nat → Last → Acc → Last × Acc
  | 0, _, last, acc => (last, acc)
  | left + 1, t, _, acc =>
    let acc := if 0 < t then { acc with ctr := { acc.ctr with retries := acc.ctr.retries + 1 } } else acc
    let resp := (script.getD acc.pos Srv.ok) n
    let acc := { acc with log := acc.log ++ [mk acc.pos], pos := acc.pos + 1 }
    match resp with
    | .timeout => tryLoop script now mk n left (t + 1) .err acc            -- continue
    | .netErr => (.err, acc)                                               -- break
    | .http code ra de sts =>
      let sl := sleepDur now ra
      if (code = 429 ∨ code = 503) ∧ 0 < sl ∧ sl < 60 * second then
        -- resp.Body.Close(); Clock.Sleep(sleepDur); continue.  If this was the last try the
        -- response is handled below with its body already closed (a read error).
        tryLoop script now mk n left (t + 1) (.resp code true []) { acc with sleeps := acc.sleeps ++ [sl] }
      else (.resp code de sts, acc)                                        -- break

/-- the loop over `subBatch` in the 200 branch: exactly one `Down` per event -/
def respond : List Nat → List Ev → Ctr → Ctr
  | _, [], c => c
  | [], _ :: es, c =>        -- "insufficient responses from server"
    respond [] es { c with rerr := c.rerr + 1, downs := c.downs + 1 }
  | st :: sts, _ :: es, c =>
    if st = 202 then respond sts es { c with r20x := c.r20x + 1, downs := c.downs + 1 }
    else respond sts es { c with rerr := c.rerr + 1, downs := c.downs + 1 }

/-- `handleBatchFailure` -/
def batchFailure (n : Nat) (c : Ctr) : Ctr :=
  { c with sendErr := c.sendErr + 1, downs := c.downs + n }

/-- everything after the retry loop -/
def finish (last : Last) (sub : List Ev) (c : Ctr) : Ctr :=
  match last with
  | .none => c      -- not reachable: the loop body runs at least once (`tryLoop_ne_none`)
  | .err => batchFailure sub.length c
  | .resp code de sts =>
    let c := { c with batchesSent := c.batchesSent + 1, msgsSent := c.msgsSent + sub.length }
    if code = 200 then
      respond sts sub (if de then { c with decodeErr := c.decodeErr + 1 } else c)
    else
      { c with sendErr := c.sendErr + 1, decodeErr := c.decodeErr + (if de then 1 else 0),
               rerr := c.rerr + sub.length, downs := c.downs + sub.length }

structure Cfg where
  maxBatch : Nat            -- MaxBatchSize (events)
  bt : Nat                  -- BatchTimeout (ns)
  badUrl : Dest → Bool      -- `buildRequestURL` returns an error for this destination
  esc : String → String := id   -- `url.PathEscape`

/-- every skipped event went through handleEventError: one error, one Down -/
def countDropped (n : Nat) (acc : Acc) : Acc :=
  let c := acc.ctr
  { acc with ctr := { c with rerr := c.rerr + n, downs := c.downs + n } }

def mkAttempt (cfg : Cfg) (now i : Nat) (ch : Chunk) (p : Nat) : Attempt :=
  ⟨ch.dest, requestPath (cfg.esc ch.dest.dataset), ch.sub, bodyLen ch, now, i, p⟩

/-- the body of one iteration of the outer loop after the packing -/
def sendChunk (cfg : Cfg) (script : List Srv) (now : Nat) (i : Nat) (ch : Chunk) (acc : Acc) : Acc :=
  let acc := countDropped ch.dropped.length acc
  if ch.sub.isEmpty then acc                                   -- `continue`
  else if cfg.badUrl ch.dest then                              -- "failed to create request URL"
    { acc with ctr := batchFailure ch.sub.length acc.ctr }
  else
    let r := tryLoop script now (mkAttempt cfg now i ch) ch.sub.length maxTries 0 .none acc
    let a := r.2
    { a with ctr := finish r.1 ch.sub a.ctr }

def sendChunks (cfg : Cfg) (script : List Srv) (now : Nat) : List Chunk → Nat → Acc → Acc
  | [], _, acc => acc
  | ch :: cs, i, acc => sendChunks cfg script now cs (i + 1) (sendChunk cfg script now i ch acc)

/-- `sendBatch(wholeBatch)` at clock `now` against `script` -/
def sendBatch (cfg : Cfg) (script : List Srv) (now : Nat) (evs : List Ev) : Acc :=
  sendChunks cfg script now (split evs).1 0 {}

/-! ## 3. batching -/

structure Batch where
  events : List Ev     -- `[]` is the code's `nil`
  start : Nat          -- `startTime`
  deriving Repr

inductive Why where
  | size | tick | stop
  deriving Repr, DecidableEq

/-- one call of `sendBatch` made by the transmission -/
structure Disp where
  dest : Dest          -- the map key of the batch
  events : List Ev
  start : Nat          -- the batch's `startTime` (clock at its first event)
  time : Nat           -- clock at dispatch
  why : Why
  script : List Srv

def Disp.chunks (d : Disp) : List Chunk := (split d.events).1
def Disp.out (cfg : Cfg) (d : Disp) : Acc := sendBatch cfg d.script d.time d.events

structure St where
  batches : AList Dest Batch := []
  now : Nat := 0
  lastTick : Nat := 0          -- instant of the most recent tick of the batch ticker (Start = 0)
  stopped : Bool := false
  ctr : Ctr := {}
  disps : List Disp := []      -- history of dispatches, oldest first
  accepted : List Ev := []     -- history of events taken by EnqueueEvent, oldest first
  complete : Bool := true      -- every sendBatch so far returned (`never_hangs`)
  panicked : Bool := false     -- EnqueueEvent after Stop writes to a nil map

def period (cfg : Cfg) : Nat := cfg.bt / 4

/-- `Start()`: `Clock.NewTicker(batchTimeout / 4)` panics on a non-positive interval. -/
def start (cfg : Cfg) : Option St := if period cfg = 0 then none else some {}

def record (cfg : Cfg) (s : St) (ds : List Disp) : St :=
  { s with disps := s.disps ++ ds,
           ctr := ds.foldl (fun c d => c.add (d.out cfg).ctr) s.ctr,
           complete := s.complete && ds.all (fun d => (split d.events).2) }

/-- `EnqueueEvent` for an event already stamped with its enqueue time -/
def enq1 (cfg : Cfg) (s : St) (e : Ev) (script : List Srv) : St :=
  if s.stopped then { s with panicked := true }
  else
    let b := (AList.get s.batches e.dest).getD ⟨[], 0⟩
    let st := if b.events.isEmpty then s.now else b.start
    let evs := b.events ++ [e]
    let s := { s with accepted := s.accepted ++ [e] }
    let s :=
      if cfg.maxBatch ≤ evs.length then
        record cfg { s with batches := AList.put s.batches e.dest ⟨[], st⟩ }
          [⟨e.dest, evs, st, s.now, .size, script⟩]
      else { s with batches := AList.put s.batches e.dest ⟨evs, st⟩ }
    { s with ctr := { s.ctr with ups := s.ctr.ups + 1 } }

/-- `EnqueueEvent`: `ev.EnqueuedUnixMicro = Clock.Now()`, then batching -/
def enq (cfg : Cfg) (s : St) (e : Ev) (script : List Srv) : St :=
  enq1 cfg s { e with t := s.now } script

def stale (cfg : Cfg) (now : Nat) (b : Batch) : Bool :=
  !b.events.isEmpty && decide (b.start + cfg.bt ≤ now)

/-- one firing of the batch ticker, handled at clock `s.now` -/
def tick (cfg : Cfg) (script : List Srv) (s : St) : St :=
  let due := s.batches.filter (fun kb => stale cfg s.now kb.2)
  let bs := s.batches.map (fun kb => if stale cfg s.now kb.2 then (kb.1, (⟨[], kb.2.start⟩ : Batch)) else kb)
  let s' := { s with batches := bs }
  record cfg s' (due.map (fun kb => ⟨kb.1, kb.2.events, kb.2.start, s.now, .tick, script⟩))

/-- `k` consecutive firings of the ticker, one period apart -/
def ticks (cfg : Cfg) (script : List Srv) : Nat → St → St
  | 0, s => s
  | k + 1, s =>
    let t := s.lastTick + period cfg
    ticks cfg script k (tick cfg script { s with now := t, lastTick := t })

/-- the clock moves forward by `d`; every tick that falls due is handled at its own instant -/
def adv (cfg : Cfg) (s : St) (d : Nat) (script : List Srv) : St :=
  let target := s.now + d
  if s.stopped then { s with now := target }
  else
    let s' := ticks cfg script ((target - s.lastTick) / period cfg) s
    { s' with now := target }

/-- `Stop()` -/
def stop (cfg : Cfg) (s : St) (script : List Srv) : St :=
  if s.stopped then s
  else
    let due := s.batches.filter (fun kb => !kb.2.events.isEmpty)
    record cfg { s with batches := [], stopped := true }
      (due.map (fun kb => ⟨kb.1, kb.2.events, kb.2.start, s.now, .stop, script⟩))

inductive Op where
  | enq (e : Ev) (script : List Srv)
  | adv (d : Nat) (script : List Srv)
  | stop (script : List Srv)

def step (cfg : Cfg) (s : St) : Op → St
  | .enq e sc => enq cfg s e sc
  | .adv d sc => adv cfg s d sc
  | .stop sc => stop cfg s sc

def run (cfg : Cfg) (ops : List Op) : St := ops.foldl (step cfg) {}

/-- number of events waiting in batches -/
def pendingCount (s : St) : Nat := (s.batches.map (fun kb => kb.2.events.length)).sum

/-- events waiting for destination `k` -/
def pendingOf (s : St) (k : Dest) : List Ev :=
  match AList.get s.batches k with
  | some b => b.events
  | none => []

/-- all requests made so far -/
def attempts (cfg : Cfg) (s : St) : List Attempt := s.disps.flatMap (fun d => (d.out cfg).log)

end Refinery.Model.Transmit
