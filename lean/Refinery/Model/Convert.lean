import Refinery.Basic.AList
import Refinery.Gen.Convert
/-!
# Model of the v1 → v2 converter's value functions (`tools/convert`, property C38)

What is modelled (mirroring `helpers.go`, `main.go: ConvertConfig`, `ruleconvert.go` as they are):

* `_fetch` (dotted old keys, `A/B.Name` alternatives, *first table found decides*), `_equivalent`,
  `_isZeroValue`, `yamlf` (a string is written without quotes iff it matches `^[a-zA-z0-9]+$`),
* the template helpers `nonDefaultOnly`, `nonEmptyString`, `nonZero`, `secondsToDuration`,
  `memorysize` (with `MemorySize.MarshalText`), `choice`, `conditional`, `renderMap`,
  `renderStringarray`, each as  *fetched v1 value ↦ `Out`* (`line v` = an active `Key: v` line,
  `comment` = commented out, `panic`),
* `removeDeprecated` as far as a v1 file can trigger it: any deprecated key present ⇒ the converter
  writes the (v1-shaped) data back instead of executing the template (`FileOut.dump`),
* `effective`: what the v2 loader yields for a row — the loader default for a commented line,
  otherwise validator type check, decode, and `defaults.Set` (a zero value is replaced by the
  struct default),
* the rules conversion per field: `transformSamplerMap` (lower-casing, `ClearFrequencySec` and
  integer `AdjustmentInterval` seconds → durations), JSON-tag lookup, `defaults.Set`.

Proposed repairs of five converter defects are modelled behind the flags of `Fixes` (all `false` =
the code as it is; patches in `/verif/.cache/C38-fix`, oracle switch `fixesDefault` /
`VERIF_C38_FIXED`); `Props/C38.lean` refutes the full statements for `{}` and proves them for the
repaired variants.

What is **not** modelled (parameters, `Ext`): the template engine and the YAML text itself.  How
yaml.v3 reads an unquoted scalar (`Ext.yaml`: as the same string, as a *different* string — a plain
scalar loses its leading and trailing blanks —, or as a non-string), `time.ParseDuration` (`Ext.dur`), decimal printing
(`Ext.fmtNat`) and `strings.ToLower` (`Ext.lower`) are functions supplied per case by the harness
(`ext` lines) and universally quantified in the theorems.  Integers are naturals (negative
settings are not valid v1 values and are not generated); `int64`/`float64` overflow is ignored.
The conversion table, the deprecated keys, the sampler structs' tags and the memory units are
regenerated from the code on every run (`Refinery.Gen.Convert`).
-/
namespace Refinery.Model.Convert

/-- A value of a decoded v1 file (Go `any` after the TOML / YAML decoder). -/
inductive V1 where
  | str (s : String)
  | int (n : Nat)
  | bool (b : Bool)
  | strs (l : List String)
  | flt (s : String)          -- a float, as its shortest decimal text (rules files only)
  | tbl (kv : List (String × String))   -- a table of strings (`AdditionalAttributes`), or any table found where a scalar was looked for
  deriving DecidableEq, Repr

/-- Proposed repairs of the converter (patches `0001`…`0005` in `/verif/.cache/C38-fix`), one flag
per defect.  All `false` = the code as it is.  Flip a flag (oracle: `fixesDefault`) when the
corresponding patch lands in /repo.
* `yamlf`      — `yamlf` leaves a string unquoted only if it is `[a-zA-Z][a-zA-Z0-9]*` and not a YAML keyword
* `items`      — `renderStringarray` writes the user's items through `yamlf`
* `deprecated` — `ConvertConfig` runs `removeDeprecated` only on v2 input (`General.ConfigurationVersion` present)
* `renderMap`  — `renderMap` fetches the old key and accepts a decoded table (`map[string]any`)
* `condValue`  — a condition's nil `Value` is omitted (`yaml:"Value,omitempty"`) instead of written as `null` -/
structure Fixes where
  yamlf : Bool := false
  items : Bool := false
  deprecated : Bool := false
  renderMap : Bool := false
  condValue : Bool := false
  deriving DecidableEq, Repr

/-- How yaml.v3 resolves a text written without quotes. -/
inductive YTag where
  | str                     -- the same string
  | diff (t : String)       -- a *different* string: a plain scalar is trimmed ("s3cret " ↦ "s3cret"), ...
  | int | bool | null | float | other | err
  deriving DecidableEq, Repr

/-- External functions (parameters of the model). -/
structure Ext where
  yaml : String → YTag
  dur : String → Option Nat        -- time.ParseDuration, nanoseconds
  fmtNat : Nat → String            -- fmt "%v" of an integer
  lower : String → String          -- strings.ToLower

/-! ## v1 data and `_fetch` -/

inductive Entry where
  | val (v : V1)
  | grp (kv : List (String × V1))
  deriving Repr

abbrev Data := List (String × Entry)

/-- An old key `A/B.Name`: the raw text, the alternative table names, the name inside the table
(`groups = []` for a key without a dot). -/
structure Key where
  raw : String
  groups : List String
  name : String
  deriving DecidableEq, Repr

def parseKey (s : String) : Key :=
  match s.splitOn "." with
  | g :: r :: rest => ⟨s, g.splitOn "/", ".".intercalate (r :: rest)⟩
  | _ => ⟨s, [], s⟩

def entryVal : Entry → V1
  | .val v => v
  | .grp kv => .tbl (kv.filterMap fun p => match p.2 with | .str s => some (p.1, s) | _ => none)

/-- the loop over `groups` in `_fetch`: the first alternative that *is a table* decides, whether or
not it contains the name. -/
def fetchGroups (d : Data) : List String → String → Option V1
  | [], _ => none
  | g :: gs, name =>
    match AList.get d g with
    | some (.grp sub) => AList.get sub name
    | _ => fetchGroups d gs name

def fetch (d : Data) (k : Key) : Option V1 :=
  match AList.get d k.raw with
  | some e => some (entryVal e)
  | none => fetchGroups d k.groups k.name

/-! ## formatting helpers -/

/-- `fmt.Sprintf("%v", value)` as far as `_equivalent` needs it. -/
def fmtV (x : Ext) : V1 → String
  | .str s => s
  | .int n => x.fmtNat n
  | .bool true => "true"
  | .bool false => "false"
  | .flt s => s
  | .strs l => "[" ++ " ".intercalate l ++ "]"
  | .tbl _ => "map[…]"

/-- `_equivalent`: equality of the `%v` texts (two integers print alike iff they are equal). -/
def equivalent (x : Ext) : V1 → V1 → Bool
  | .int a, .int b => a == b
  | a, b => fmtV x a == fmtV x b

/-- `_isZeroValue` on decoded values (a decoded list is `[]any`, which falls to `default: false`). -/
def isZeroV1 : V1 → Bool
  | .str s => s == ""
  | .int n => n == 0
  | .bool b => !b
  | _ => false

/-- `[a-zA-z0-9]`: the range `A-z` also contains the six characters between `Z` and `a`. -/
def isPlainChar (c : Char) : Bool :=
  (65 ≤ c.toNat && c.toNat ≤ 122) || (48 ≤ c.toNat && c.toNat ≤ 57)

def isPlain (s : String) : Bool := !s.toList.isEmpty && s.toList.all isPlainChar

/-! the repaired rule (`Fixes.yamlf`): `^[a-zA-Z][a-zA-Z0-9]*$` and not a word YAML resolves -/
def isLetter (c : Char) : Bool := (65 ≤ c.toNat && c.toNat ≤ 90) || (97 ≤ c.toNat && c.toNat ≤ 122)
def isDigit (c : Char) : Bool := 48 ≤ c.toNat && c.toNat ≤ 57
def lowerChar (c : Char) : Char := if 65 ≤ c.toNat && c.toNat ≤ 90 then Char.ofNat (c.toNat + 32) else c

def yamlReserved : List (List Char) :=
  ["true".toList, "false".toList, "null".toList, "yes".toList, "no".toList, "on".toList,
   "off".toList, "y".toList, "n".toList]

def isPlainFixed (s : String) : Bool :=
  match s.toList with
  | [] => false
  | c :: cs => isLetter c && cs.all (fun d => isLetter d || isDigit d) &&
      !yamlReserved.contains ((c :: cs).map lowerChar)

def isPlainFx (fx : Fixes) (s : String) : Bool := if fx.yamlf then isPlainFixed s else isPlain s

/-- What ends up to the right of `Key:` in the output. -/
inductive V2 where
  | text (s : String) (quoted : Bool)   -- a string through `yamlf`
  | num (n : Nat)
  | bool (b : Bool)
  | dur (ns : Nat)                      -- `time.Duration.String()`
  | mem (q : Nat) (scalar : Nat)        -- `MemorySize.MarshalText`: q followed by a unit read back as ×scalar
  | items (l : List String)             -- `renderStringarray`: one unquoted `- item` line each
  | qitems (l : List (String × Bool))   -- repaired `renderStringarray`: items through `yamlf` (text, quoted)
  | table (l : List ((String × Bool) × (String × Bool)))  -- repaired `renderMap`: `key: value` lines through `yamlf`
  | junk                                -- `%v` of something that is not a scalar
  deriving DecidableEq, Repr

def yamlf (fx : Fixes) : V1 → V2
  | .str s => .text s (!isPlainFx fx s)
  | .int n => .num n
  | .bool b => .bool b
  | _ => .junk

/-- `MemorySize.MarshalText`: the first unit (in `unitSlice` order) that divides the size, else the
plain number.  Units are `(divisor, printed suffix, scalar applied when the suffix is read)`. -/
def marshalMem (units : List (Nat × String × Nat)) (m : Nat) : V2 :=
  if m = 0 then .mem 0 1 else
  match units.find? (fun u => m % u.1 == 0) with
  | some u => .mem (m / u.1) u.2.2
  | none => .mem m 1

inductive Out where
  | line (v : V2)
  | comment
  | panic
  deriving DecidableEq, Repr

/-! ## the template helpers (argument `f` = result of `_fetch data oldkey`) -/

def nonDefaultOnly (fx : Fixes) (x : Ext) (f : Option V1) (dflt : V1) : Out :=
  match f with
  | some v => if equivalent x v dflt then .comment else .line (yamlf fx v)
  | none => .comment

def nonEmptyString (fx : Fixes) (f : Option V1) : Out :=
  match f with
  | some v => if v = .str "" then .comment else .line (yamlf fx v)
  | none => .comment

def nonZero (fx : Fixes) (f : Option V1) : Out :=
  match f with
  | some v => if isZeroV1 v then .comment else .line (yamlf fx v)
  | none => .comment

def intOf : V1 → Nat
  | .int n => n
  | _ => 0

def secondsToDuration (f : Option V1) : Out :=
  match f with
  | some v => if v = .str "" then .comment else .line (.dur (intOf v * 1000000000))
  | none => .comment

def memorysize (units : List (Nat × String × Nat)) (f : Option V1) : Out :=
  match f with
  | some v => if v = .str "" then .comment else .line (marshalMem units (intOf v))
  | none => .comment

def choice (fx : Fixes) (x : Ext) (f : Option V1) (choices : List String) (dflt : String) : Out :=
  match f with
  | some v =>
    if fmtV x v == dflt then .comment
    else if choices.any (· == fmtV x v) then .line (yamlf fx v)
    else .comment                                   -- "### Invalid option!"
  | none => .comment

inductive Cond where
  | eq (k : Key) (v : String)
  | nostar (k : Key)
  | nonempty (k : Key)
  | bad
  deriving DecidableEq, Repr

def parseCond (extra : String) : Cond :=
  match extra.splitOn " " with
  | "eq" :: k :: v :: _ => .eq (parseKey k) v
  | "nostar" :: k :: _ => .nostar (parseKey k)
  | "nonempty" :: k :: _ => .nonempty (parseKey k)
  | _ => .bad

def stringsFrom : V1 → List String
  | .strs l => l
  | _ => []

def conditional (x : Ext) (d : Data) : Cond → Out
  | .eq k v =>
    match fetch d k with
    | some a => if fmtV x a == v then .line (.bool true) else .comment
    | none => .comment
  | .nostar k =>
    match fetch d k with
    | some a =>
      let l := stringsFrom a
      if !l.isEmpty && !l.contains "*" then .line (.bool true) else .comment
    | none => .comment
  | .nonempty k =>
    match fetch d k with
    | some a => if fmtV x a != "" then .line (.bool true) else .comment
    | none => .comment
  | .bad => .panic

/-- `renderMap` as it is looks at `data[key]` (the NEW name, top level) and asserts
`map[string]string`, which a decoded file never contains: present ⇒ panic.  Repaired
(`Fixes.renderMap`): `_fetch` of the old key; a non-empty table is written `key: value` per entry,
both through `yamlf`. -/
def renderMap (fx : Fixes) (d : Data) (key : String) (f : Option V1) : Out :=
  if fx.renderMap then
    match f with
    | some (.tbl kv) =>
      if kv.isEmpty then .comment
      else .line (.table (kv.map fun p => ((p.1, !isPlainFx fx p.1), (p.2, !isPlainFx fx p.2))))
    | _ => .comment
  else
    match AList.get d key with
    | some _ => .panic
    | none => .comment

def renderStringarray (fx : Fixes) (f : Option V1) : Out :=
  match f with
  | some (.strs l) =>
    if l.isEmpty then .comment
    else if fx.items then .line (.qitems (l.map fun s => (s, !isPlainFx fx s)))
    else .line (.items l)
  | _ => .comment

/-! ## the conversion table -/

inductive Helper where
  | nonDefaultOnly | nonEmptyString | nonZero | secondsToDuration | memorysize | choice
  | conditional | renderMap | renderStringarray | unknown
  deriving DecidableEq, Repr

def Helper.ofName (s : String) : Helper :=
  if s = "nonDefaultOnly" then .nonDefaultOnly
  else if s = "nonEmptyString" then .nonEmptyString
  else if s = "nonZero" then .nonZero
  else if s = "secondsToDuration" then .secondsToDuration
  else if s = "memorysize" then .memorysize
  else if s = "choice" then .choice
  else if s = "conditional" then .conditional
  else if s = "renderMap" then .renderMap
  else if s = "renderStringarray" then .renderStringarray
  else .unknown

inductive FType where
  | string | hostport | url | int | percentage | bool | defaulttrue | duration | memorysize
  | stringarray | map | other
  deriving DecidableEq, Repr

def FType.ofName (s : String) : FType :=
  if s = "string" then .string
  else if s = "hostport" then .hostport
  else if s = "url" then .url
  else if s = "int" then .int
  else if s = "percentage" then .percentage
  else if s = "bool" then .bool
  else if s = "defaulttrue" then .defaulttrue
  else if s = "duration" then .duration
  else if s = "memorysize" then .memorysize
  else if s = "stringarray" then .stringarray
  else if s = "map" then .map
  else .other

/-- What the v2 loader yields for a field. -/
inductive Eff where
  | str (s : String)
  | int (n : Nat)
  | bool (b : Bool)
  | dur (ns : Nat)
  | mem (n : Nat)
  | strs (l : List String)
  | tbl (kv : List (String × String))
  | invalid                 -- the file is refused (validation error or not YAML)
  | unknown
  deriving DecidableEq, Repr

abbrev ValTuple := String × String × Nat × List String

def Eff.ofTuple : ValTuple → Eff
  | (tag, s, n, l) =>
    if tag = "s" then .str s
    else if tag = "i" then .int n
    else if tag = "b" then .bool (n != 0)
    else if tag = "d" then .dur n
    else if tag = "m" then .mem n
    else if tag = "l" then .strs l
    else if tag = "t" then .tbl []          -- loader defaults of map fields are empty
    else .unknown

def V1.ofTuple : ValTuple → Option V1
  | (tag, s, n, _) =>
    if tag = "s" then some (.str s)
    else if tag = "i" then some (.int n)
    else if tag = "b" then some (.bool (n != 0))
    else none

abbrev RowTuple := String × String × String × String × ValTuple × List String × String × ValTuple × ValTuple

structure Row where
  group : String
  field : String
  key : Key
  helper : Helper
  arg : Option V1          -- the template's default / example literal
  choices : List String
  cond : Cond
  ftype : FType
  ldef : Eff               -- loader default (value of the field after loading an empty config)
  argEff : Eff             -- the template default as the loader reads it
  deriving Repr

def Row.ofTuple : RowTuple → Row
  | (g, f, old, h, arg, ch, ft, ld, ae) =>
    { group := g, field := f, key := parseKey old, helper := Helper.ofName h, arg := V1.ofTuple arg,
      choices := ch, cond := (match V1.ofTuple arg with | some (.str s) => parseCond s | _ => .bad),
      ftype := FType.ofName ft, ldef := Eff.ofTuple ld, argEff := Eff.ofTuple ae }

def table : List Row := Gen.Convert.rows.map Row.ofTuple

def argStr : Option V1 → String
  | some (.str s) => s
  | _ => ""

/-- One template action. -/
def convertRow (fx : Fixes) (x : Ext) (units : List (Nat × String × Nat)) (d : Data) (r : Row) : Out :=
  match r.helper with
  | .nonDefaultOnly =>
    match r.arg with
    | some a => nonDefaultOnly fx x (fetch d r.key) a
    | none => .panic
  | .nonEmptyString => nonEmptyString fx (fetch d r.key)
  | .nonZero => nonZero fx (fetch d r.key)
  | .secondsToDuration => secondsToDuration (fetch d r.key)
  | .memorysize => memorysize units (fetch d r.key)
  | .choice => choice fx x (fetch d r.key) r.choices (argStr r.arg)
  | .conditional => conditional x d r.cond
  | .renderMap => renderMap fx d r.field (fetch d r.key)
  | .renderStringarray => renderStringarray fx (fetch d r.key)
  | .unknown => .panic                     -- "function not defined": the template does not parse

/-! ## what the v2 loader makes of a line -/

/-- the YAML value of an output line -/
inductive YV where
  | str (s : String)
  | int (n : Nat)
  | bool (b : Bool)
  | durtext (ns : Nat)        -- a string that `time.ParseDuration` reads as ns  (`Duration.String`)
  | memtext (n : Nat)         -- a string that `MemorySize.UnmarshalText` reads as n
  | strs (l : List String)
  | tbl (kv : List (String × String))
  | bad
  deriving DecidableEq, Repr

/-- reading a text written WITHOUT quotes: the string itself, or whatever other string YAML makes of
it (leading / trailing blanks of a plain scalar are stripped), or not a string at all -/
def readPlain (x : Ext) (s : String) : Option String :=
  match x.yaml s with
  | .str => some s
  | .diff t => some t
  | _ => none

/-- reading a text written through `yamlf` (second component: was it quoted) -/
def readText (x : Ext) (p : String × Bool) : Option String :=
  if p.2 then some p.1 else readPlain x p.1

def readPair (x : Ext) (p : (String × Bool) × (String × Bool)) : Option (String × String) :=
  match readText x p.1, readText x p.2 with
  | some k, some v => some (k, v)
  | _, _ => none

def allSome {α : Type} : List (Option α) → Option (List α)
  | [] => some []
  | none :: _ => none
  | some a :: t => match allSome t with | some l => some (a :: l) | none => none

def yamlOf (x : Ext) : V2 → YV
  | .text s q => match readText x (s, q) with | some t => .str t | none => .bad
  | .num n => .int n
  | .bool b => .bool b
  | .dur ns => .durtext ns
  | .mem q u => .memtext (q * u)
  | .items l => match allSome (l.map (readPlain x)) with | some l' => .strs l' | none => .bad
  | .qitems l => match allSome (l.map (readText x)) with | some l' => .strs l' | none => .bad
  | .table l => match allSome (l.map (readPair x)) with | some kv => .tbl kv | none => .bad
  | .junk => .bad

/-- `validateDatatype` + decode into the config struct. -/
def decode (x : Ext) : FType → YV → Eff
  | .string, .str s | .hostport, .str s | .url, .str s => .str s
  | .int, .int n => .int n
  | .percentage, .int n => if n ≤ 100 then .int n else .invalid
  | .bool, .bool b | .defaulttrue, .bool b => .bool b
  | .duration, .str s => match x.dur s with | some ns => .dur ns | none => .invalid
  | .duration, .durtext ns => .dur ns
  | .memorysize, .memtext n | .memorysize, .int n => .mem n
  | .stringarray, .strs l => .strs l
  | .map, .tbl kv => .tbl kv
  | _, _ => .invalid

/-- `defaults.Set` after the load: a zero value is replaced by the struct default (= the loader
default).  `*DefaultTrue` fields are pointers: an explicit `false` stays. -/
def isZeroEff : FType → Eff → Bool
  | .defaulttrue, _ => false
  | _, .str s => s == ""
  | _, .int n => n == 0
  | _, .bool b => !b
  | _, .dur n => n == 0
  | _, .mem n => n == 0
  | _, .strs l => l.isEmpty
  | _, .tbl kv => kv.isEmpty
  | _, _ => false

def applyDefault (ft : FType) (ldef : Eff) (e : Eff) : Eff :=
  if isZeroEff ft e then ldef else e

def effective (x : Ext) (r : Row) : Out → Eff
  | .comment => r.ldef
  | .line v => applyDefault r.ftype r.ldef (decode x r.ftype (yamlOf x v))
  | .panic => .invalid

/-! ## the whole file -/

def deprecatedPresent (dep : List Key) (depGroups : List String) (d : Data) : Bool :=
  dep.any (fun k => (fetch d k).isSome) ||
  depGroups.any (fun g => match AList.get d g with | some (.grp _) => true | _ => false)

inductive FileOut where
  | aborted                      -- template error / panic: exit status ≠ 0, nothing usable written
  | dump                         -- "# The following deprecated config options were removed" + the data as it came
  | rows (outs : List Out)
  deriving DecidableEq, Repr

/-- a v2 file declares `General.ConfigurationVersion`; a v1 file never does -/
def isV2 (d : Data) : Bool :=
  (fetch d ⟨"General.ConfigurationVersion", ["General"], "ConfigurationVersion"⟩).isSome

def convertFile (fx : Fixes) (x : Ext) (units : List (Nat × String × Nat)) (T : List Row) (dep : List Key)
    (depGroups : List String) (d : Data) : FileOut :=
  if (!fx.deprecated || isV2 d) && deprecatedPresent dep depGroups d then .dump
  else
    let outs := T.map (convertRow fx x units d)
    if outs.any (· == .panic) then .aborted else .rows outs

def rowEffs (x : Ext) : List Row → List Out → List Eff
  | r :: rs, o :: os => effective x r o :: rowEffs x rs os
  | _, _ => []

/-- does the v2 loader accept the produced file? -/
def loads (x : Ext) (T : List Row) : FileOut → Bool
  | .rows outs => (rowEffs x T outs).all (· != .invalid)
  | _ => false

/-! ## the property's reading of a v1 value: the value the field must have in v2 -/

def expectedBase (x : Ext) : FType → V1 → Eff
  | .string, .str s | .hostport, .str s | .url, .str s => .str s
  | .int, .int n | .percentage, .int n => .int n
  | .bool, .bool b | .defaulttrue, .bool b => .bool b
  | .duration, .str s => match x.dur s with | some ns => .dur ns | none => .invalid
  | .memorysize, .int n => .mem n
  | .stringarray, .strs l => .strs l
  | .map, .tbl kv => .tbl kv
  | _, _ => .invalid

/-- a `secondsToDuration` row holds integer seconds in v1; every other row holds the value itself -/
def expected (x : Ext) (r : Row) (v : V1) : Eff :=
  match r.helper, v with
  | .secondsToDuration, .int n => .dur (n * 1000000000)
  | _, _ => expectedBase x r.ftype v

/-! ## rules files -/

/-- a field of one of the structs `readV1RulesIntoV2Sampler` unmarshals into (regenerated by
reflection): struct, json tag (= lower-case v1 name), yaml tag (= v2 name), kind, default. -/
structure SField where
  struct : String
  json : String
  yaml : String
  kind : String
  dflt : ValTuple
  deriving Repr

def sfields : List SField :=
  Gen.Convert.samplerFields.map fun (s, j, y, k, d) => ⟨s, j, y, k, d⟩

/-- a value in the loaded v2 rules -/
inductive RV where
  | int (n : Nat)
  | str (s : String)
  | bool (b : Bool)
  | strs (l : List String)
  | dur (ns : Nat)
  | flt (s : String)
  | null
  deriving DecidableEq, Repr

/-- value after `transformSamplerMap` -/
inductive TV where
  | raw (v : V1)
  | durv (ns : Nat)
  deriving DecidableEq, Repr

def secsToDur : V1 → TV
  | .int n => .durv (n * 1000000000)
  | v => .raw v

def transformKV (x : Ext) (key : String) (v : V1) : String × TV :=
  let k := x.lower key
  if k = "clearfrequencysec" then ("clearfrequency", secsToDur v)
  else if k = "adjustmentinterval" then (k, secsToDur v)
  else (k, .raw v)

/-- JSON round trip into a struct field of the given kind; `none` = `json.Unmarshal` fails (the
converter panics). -/
def convKind (x : Ext) (kind : String) : TV → Option RV
  | .durv ns => if kind = "dur" then some (.dur ns) else none
  | .raw (.int n) =>
    if kind = "int" ∨ kind = "any" then some (.int n)
    else if kind = "float" then some (.flt (x.fmtNat n)) else none
  | .raw (.str s) =>
    if kind = "string" ∨ kind = "any" then some (.str s)
    else if kind = "dur" then (x.dur s).map .dur else none
  | .raw (.bool b) => if kind = "bool" ∨ kind = "any" then some (.bool b) else none
  | .raw (.strs l) => if kind = "strs" ∨ kind = "any" then some (.strs l) else none
  | .raw (.flt s) => if kind = "float" ∨ kind = "any" then some (.flt s) else none
  | .raw (.tbl _) => none

inductive ROut where
  | field (yaml : String) (v : RV)
  | dropped                        -- no such field in v2
  | error
  deriving DecidableEq, Repr

def lookupField (T : List SField) (struct json : String) : Option SField :=
  T.find? (fun f => f.struct == struct && f.json == json)

def convField (x : Ext) (T : List SField) (struct key : String) (v : V1) : ROut :=
  let kt := transformKV x key v
  match lookupField T struct kt.1 with
  | none => .dropped
  | some f =>
    match convKind x f.kind kt.2 with
    | some rv => .field f.yaml rv
    | none => .error

def zeroOfKind (kind : String) : RV :=
  if kind = "int" then .int 0
  else if kind = "bool" then .bool false
  else if kind = "string" then .str ""
  else if kind = "strs" then .strs []
  else if kind = "dur" then .dur 0
  else if kind = "float" then .flt "0"
  else .null

def RV.ofTuple : ValTuple → Option RV
  | (tag, s, n, _) =>
    if tag = "i" then some (.int n)
    else if tag = "s" then some (.str s)
    else if tag = "b" then some (.bool (n != 0))
    else if tag = "d" then some (.dur n)
    else none

def isZeroRV : RV → Bool
  | .int n => n == 0
  | .str s => s == ""
  | .bool b => !b
  | .strs l => l.isEmpty
  | .dur n => n == 0
  | .flt s => s == "0"
  | .null => true

/-- `defaults.Set` in `readV1RulesIntoV2Sampler`: zero ⇒ struct default (when there is one). -/
def applyRDefault (f : SField) (v : RV) : RV :=
  match RV.ofTuple f.dflt with
  | some d => if isZeroRV v then d else v
  | none => v

/-- the sampler types `readV1RulesIntoV2Sampler` knows -/
def v1SamplerTypes : List String :=
  ["DeterministicSampler", "DynamicSampler", "EMADynamicSampler", "RulesBasedSampler", "TotalThroughputSampler"]

def pickField (x : Ext) (T : List SField) (struct yaml : String) (kv : String × V1) : Option RV :=
  match convField x T struct kv.1 kv.2 with
  | .field y v => if y = yaml then some v else none
  | _ => none

/-- The value of the v2 field `yaml` of a struct given the v1 (key, value) pairs of its table. -/
def fieldValue (x : Ext) (T : List SField) (struct : String) (kvs : List (String × V1)) (yaml : String) : Option RV :=
  match T.find? (fun f => f.struct == struct && f.yaml == yaml) with
  | none => none
  | some f =>
    let hit := kvs.findSome? (pickField x T struct yaml)
    some (applyRDefault f (hit.getD (zeroOfKind f.kind)))

/-- what `ConvertRules` writes for a condition's `Value` (`none` = the key is left out) -/
def condValueWritten (fx : Fixes) (v : RV) : Option RV :=
  if fx.condValue && v == .null then none else some v

/-- the rules validator refuses `Value: null` ("field Conditions.Value must not be nil") -/
def condAccepted (w : Option RV) : Bool := w != some .null

end Refinery.Model.Convert
