import Refinery.Basic.AList
/-!
# Model of how one main-config setting gets its effective value  (property C29)

Anchors: `config/cmdenv.go` (`CmdEnv`, `applyCmdEnvTags`), `config/configLoadHelpers.go`
(`loadConfigsInto`, `loadConfigsIntoMap`, `validateConfigs`, `applyConfigInto`,
`expandEnvVarsInConfig`, `expandEnvVarsInValues`, `expandEnvVarsInString`),
`config/file_config.go` (`newFileConfig`).

Strings are `List Char` (`Str`).  The three delimiters of the expansion syntax (`$ { }`) are
ASCII, so matching on characters and matching on UTF-8 bytes coincide.

Order of operations, as coded:

```
validateConfigs (skipped with --no-validate)
  pass 1   files --map merge--> expand --> validate            (flags / env not looked at)
  pass 2   files --struct merge--> defaults --> flags/env --> placeholder keys
           --> yaml round trip --> expand --> validate
applyConfigInto
           files --struct merge--> defaults --> flags/env --> expand      = the value used
```

Parameters (not modelled, supplied by the harness or quantified over): the command-line parser's
tokenisation (the model starts from "the values given to flag X, in order"), YAML encoding and
decoding (identity on the values of this model), the per-field validator (`bad`).
-/
namespace Refinery.Model.Settings

abbrev Str := List Char

/-! ## `${VAR}` expansion — `expandEnvVarsInString`

The code replaces every leftmost, non-overlapping match of the regular expression `\$\{([^}]+)\}`
by the variable's value when that value is non-empty, and leaves the match as it is otherwise
(`os.Getenv` cannot tell unset from empty).  The replacement is not rescanned.  `[^}]` matches
every character including a newline, `$` and `{`.

`scan` is that matcher as a one-pass machine: `out` (no partial match), `dollar` (just read a
`$`), `name acc` (read `${` and then `acc`, none of it a `}`). -/

inductive Mode where
  | out
  | dollar
  | name (acc : Str)
  deriving Repr, DecidableEq

/-- what a completed reference `${n}` is replaced by -/
def subst (env : Str → Str) (n : Str) : Str :=
  if env n = [] then '$' :: '{' :: (n ++ ['}']) else env n

def scan (env : Str → Str) : Mode → Str → Str
  | .out, [] => []
  | .out, c :: cs => if c = '$' then scan env .dollar cs else c :: scan env .out cs
  | .dollar, [] => ['$']
  | .dollar, c :: cs =>
      if c = '{' then scan env (.name []) cs
      else if c = '$' then '$' :: scan env .dollar cs
      else '$' :: c :: scan env .out cs
  | .name acc, [] => '$' :: '{' :: acc
  | .name acc, c :: cs =>
      if c = '}' then
        (if acc = [] then '$' :: '{' :: '}' :: scan env .out cs
         else subst env acc ++ scan env .out cs)
      else scan env (.name (acc ++ [c])) cs

/-- the text a partial match has consumed so far -/
def pending : Mode → Str
  | .out => []
  | .dollar => ['$']
  | .name acc => '$' :: '{' :: acc

/-- `expandEnvVarsInString` -/
def expand (env : Str → Str) (s : Str) : Str := scan env .out s

/-- the variable names a string refers to (the completed, non-empty `${…}` matches), in order -/
def refsFrom : Mode → Str → List Str
  | .out, [] => []
  | .out, c :: cs => if c = '$' then refsFrom .dollar cs else refsFrom .out cs
  | .dollar, [] => []
  | .dollar, c :: cs =>
      if c = '{' then refsFrom (.name []) cs
      else if c = '$' then refsFrom .dollar cs
      else refsFrom .out cs
  | .name _, [] => []
  | .name acc, c :: cs =>
      if c = '}' then (if acc = [] then refsFrom .out cs else acc :: refsFrom .out cs)
      else refsFrom (.name (acc ++ [c])) cs

def refs (s : Str) : List Str := refsFrom .out s

/-- `s` contains the two-character sequence `${` -/
def hasOpen : Str → Bool
  | [] => false
  | [_] => false
  | a :: b :: t => (a = '$' && b = '{') || hasOpen (b :: t)

/-! ## Values -/

inductive Kind where
  | str    -- string
  | strs   -- []string
  | smap   -- map[string]string
  | num    -- integer types with a cmdenv tag (MemorySize)
  deriving Repr, DecidableEq

inductive Val where
  | str (s : Str)
  | list (l : List Str)
  | map (m : AList Str Str)
  | num (n : Nat)
  deriving Repr, DecidableEq

/-- `value.IsZero() || ((Map || Slice) && Len() == 0)` -/
def isZero : Val → Bool
  | .str s => s.isEmpty
  | .list l => l.isEmpty
  | .map m => m.isEmpty
  | .num n => n == 0

/-- expansion of a whole setting: strings, list elements, map values (not keys); numbers are skipped -/
def expandVal (env : Str → Str) : Val → Val
  | .str s => .str (expand env s)
  | .list l => .list (l.map (expand env))
  | .map m => .map (m.map fun kv => (kv.1, expand env kv.2))
  | .num n => .num n

/-! ## Command line and environment (go-flags), one `CmdEnv` field -/

/-- `strings.Split(s, string c)` -/
def splitChar (c : Char) : Str → List Str
  | [] => [[]]
  | x :: xs =>
    if x = c then [] :: splitChar c xs
    else match splitChar c xs with
      | [] => [[x]]
      | h :: t => (x :: h) :: t

/-- `strings.SplitN(s, ":", 2)` as (key, value) -/
def splitKV : Str → Str × Str
  | [] => ([], [])
  | x :: xs => if x = ':' then ([], xs) else let (k, v) := splitKV xs; (x :: k, v)

def parseNat? (s : Str) : Option Nat :=
  if s.isEmpty then none
  else s.foldl (fun acc c => acc.bind fun n => if c.isDigit then some (n * 10 + (c.toNat - 48)) else none) (some 0)

/-- What the command line and the environment say for one `CmdEnv` field: the values of the
occurrences of its flag in order (`none`: flag not given), its environment variable, its
`env-delim` tag. -/
structure OptSrc where
  delim : Option Char := none
  flag : Option (List Str) := none
  env : Option Str := none
  deriving Repr, DecidableEq

/-- go-flags: the raw values assigned to the field.  Once the flag is given the environment is
not consulted; otherwise the environment variable is split at `env-delim` when there is one. -/
def rawValues (o : OptSrc) : List Str :=
  match o.flag with
  | some vs => vs
  | none =>
    match o.env with
    | none => []
    | some e => match o.delim with
      | none => [e]
      | some c => splitChar c e

/-- go-flags `convert`, folded over the raw values: scalars keep the last, slices append, maps
set `key:value`.  `none`: the value does not parse (go-flags reports a command line error). -/
def cmdField (k : Kind) (o : OptSrc) : Option Val :=
  match k with
  | .str => some (.str ((rawValues o).getLast?.getD []))
  | .strs => some (.list (rawValues o))
  | .smap => some (.map ((rawValues o).foldl (fun m r => AList.put m (splitKV r).1 (splitKV r).2) []))
  | .num => match (rawValues o).getLast? with
    | none => some (.num 0)
    | some r => (parseNat? r).map .num

inductive Err where
  | cmdline        -- go-flags rejects the command line
  | noDelimiter    -- "programming error -- missing delimiter for slice field"
  deriving Repr, DecidableEq

instance {ε α : Type} [DecidableEq ε] [DecidableEq α] : DecidableEq (Except ε α)
  | .ok a, .ok b => if h : a = b then isTrue (by rw [h]) else isFalse (fun e => h (by injection e))
  | .error a, .error b => if h : a = b then isTrue (by rw [h]) else isFalse (fun e => h (by injection e))
  | .ok _, .error _ => isFalse (fun e => by injection e)
  | .error _, .ok _ => isFalse (fun e => by injection e)

/-- `applyCmdEnvTags` for one tagged field: the options in tag order, the first with a non-zero
value is applied.  A slice value is rebuilt from every element, each split at the delimiter. -/
def applyOpts (k : Kind) (cur : Val) : List OptSrc → Except Err Val
  | [] => .ok cur
  | o :: os =>
    match cmdField k o with
    | none => .error .cmdline
    | some v =>
      if isZero v then applyOpts k cur os
      else match v with
        | .list es =>
          (match o.delim with
           | none => .error .noDelimiter
           | some c => .ok (.list (es.flatMap (splitChar c))))
        | v => .ok v

/-! ## Files and defaults -/

/-- Unmarshalling one more file into the same struct (`loadConfigsInto`): a value that the file
mentions replaces the field, except that map entries are set into the existing map. -/
def mergeStruct (acc : Option Val) (f : Option Val) : Option Val :=
  match f with
  | none => acc
  | some (.map m) =>
    (match acc with
     | some (.map a) => some (.map (m.foldl (fun a kv => AList.put a kv.1 kv.2) a))
     | _ => some (.map (m.foldl (fun a kv => AList.put a kv.1 kv.2) [])))
  | some v => some v

def structFiles (files : List (Option Val)) : Option Val := files.foldl mergeStruct none

/-- `loadConfigsIntoMap` (validation pass 1): groups are merged field by field, a field's value is
replaced as a whole. -/
def mapFiles (files : List (Option Val)) : Option Val :=
  files.foldl (fun acc f => match f with | none => acc | some v => some v) none

/-- `defaults.Set`: a string or number that is still zero takes the default; a slice or map takes
it only when no file mentioned it (an explicit `[]` / `{}` is not nil). -/
def withDefault (merged : Option Val) (dflt : Val) : Val :=
  match merged with
  | none => dflt
  | some (.str s) => if s.isEmpty then dflt else .str s
  | some (.num n) => if n == 0 then dflt else .num n
  | some v => v

/-! ## One setting -/

structure Desc where
  kind : Kind
  dflt : Val
  /-- literal validated in place of an empty value (`validateConfigs`: the three API keys) -/
  placeholder : Option Str := none
  /-- the field's yaml tag has `omitempty`: a zero value does not appear in the re-marshalled
  config that validation pass 2 looks at -/
  omitEmpty : Bool := false
  deriving Repr

structure Src where
  opts : List OptSrc          -- one per name in the `cmdenv` tag, in tag order
  files : List (Option Val)   -- per config file, in load order: the setting's value if mentioned
  deriving Repr

/-- files → defaults → flags / environment (both `validateConfigs` pass 2 and `applyConfigInto`) -/
def resolve (d : Desc) (s : Src) : Except Err Val :=
  applyOpts d.kind (withDefault (structFiles s.files) d.dflt) s.opts

/-- the value the getters return (`applyConfigInto` ends with `expandEnvVarsInConfig`) -/
def used (d : Desc) (s : Src) (env : Str → Str) : Except Err Val :=
  (resolve d s).map (expandVal env)

def withPlaceholder (d : Desc) (v : Val) : Val :=
  match d.placeholder, v with
  | some p, .str [] => .str p
  | _, v => v

/-- the value validation pass 1 checks: only when a file mentions the setting -/
def checkedFirst (s : Src) (env : Str → Str) : Option Val :=
  (mapFiles s.files).map (expandVal env)

/-- the value validation pass 2 checks (`none`: the setting is not in the re-marshalled config) -/
def checkedFinal (d : Desc) (s : Src) (env : Str → Str) : Except Err (Option Val) :=
  (resolve d s).map fun r =>
    let v := withPlaceholder d r
    if d.omitEmpty && isZero v then none else some (expandVal env v)

inductive Outcome where
  | rejected (pass : Nat) (v : Val)   -- refuses to start: the validator objected to `v`
  | accepted (v : Val)                -- starts, the getters return `v`
  | failed (e : Err)
  deriving Repr, DecidableEq

def outcomeOf : Except Err Val → Outcome
  | .ok v => .accepted v
  | .error e => .failed e

/-- validation pass 2 followed by the actual load -/
def finalPass (d : Desc) (s : Src) (env : Str → Str) (bad : Val → Bool) : Outcome :=
  match checkedFinal d s env with
  | .error e => .failed e
  | .ok none => outcomeOf (used d s env)
  | .ok (some v2) => if bad v2 then .rejected 2 v2 else outcomeOf (used d s env)

/-- `newFileConfig` with validation on; `bad v`: the field's validator reports an error for `v`. -/
def loadValidated (d : Desc) (s : Src) (env : Str → Str) (bad : Val → Bool) : Outcome :=
  match checkedFirst s env with
  | some v1 => if bad v1 then .rejected 1 v1 else finalPass d s env bad
  | none => finalPass d s env bad

/-- `newFileConfig` with `--no-validate` -/
def loadUnvalidated (d : Desc) (s : Src) (env : Str → Str) : Outcome := outcomeOf (used d s env)

/-! ## The documented reading of a list-valued option

"Redis cluster host addresses (comma-separated)": every address given — in one occurrence or in
several, on the command line or in the variable — is a member of the setting. -/
def documentedList (c : Char) (o : OptSrc) : List Str :=
  match o.flag with
  | some vs => vs.flatMap (splitChar c)
  | none => match o.env with
    | some e => splitChar c e
    | none => []

end Refinery.Model.Settings
