import Refinery.Basic.AList
/-!
# Model of `Router.proxy` (route/proxy.go) and of the way it is mounted (route/route.go)  — C37

`muxxer.PathPrefix("/").HandlerFunc(r.proxy)` is the last route of the gorilla mux built by
`LnS`; the mux was created without `SkipClean`, and the middleware `setResponseHeaders` presets
two response headers before any handler runs.

A client request, as `net/http`'s server hands it to the handler:

* `method`, `path` (the escaped path exactly as on the request line — `URL.EscapedPath()` returns
  it verbatim for every RFC 3986 path), `dpath` (the same path percent-decoded, `URL.Path`, which
  is what the mux looks at; `net/url`'s unescape is external, the value is an input),
  `rawQuery`, `forceQuery` (request target ends in a bare `?`),
* `headers`: the `http.Header` map — canonical name ↦ values in arrival order.  A Go map has
  unique keys: theorems carry `AList.NoDupKeys`.  Framing headers (`Host`, `Content-Length`,
  `Transfer-Encoding`) are `net/http`'s own business and are not part of this map in the model,
* `body` (opaque), `remoteAddr`.

The code:

```go
upstreamTarget := r.Config.GetHoneycombAPI()
forwarded := strings.Join(req.Header.Values("X-Forwarded-For"), ", ")  -- every line (commit 1274516)
upstreamReq, _ := http.NewRequest(req.Method, upstreamTarget+req.URL.String(), buf)
for header, vals := range req.Header { upstreamReq.Header.Set(header, strings.Join(vals, ",")) }
if forwarded != "" { Set("X-Forwarded-For", forwarded+", "+req.RemoteAddr) } else { Set(…, req.RemoteAddr) }
resp, err := r.proxyClient.Do(upstreamReq)            -- an http.Client: follows redirects
for header, vals := range resp.Header { w.Header()[header] = vals }     -- line for line (commit ceac3fa)
w.WriteHeader(resp.StatusCode); io.Copy(w, resp.Body)
```

External, hence parameters: the upstream (`up : UpReq → Resp`), `net/http`'s rewriting of a
request for a redirect hop (`redir`), whether the client follows redirects at all (`follow`,
read off the real `proxyClient` by the harness), the middleware's preset headers (`defaults`,
read off the real middleware), the configured API address (`target`).
-/
namespace Refinery.Model.Proxy

abbrev Headers := AList String (List String)

structure Req where
  method : String
  path : String
  dpath : String
  rawQuery : String
  forceQuery : Bool
  headers : Headers
  body : String
  remoteAddr : String
  deriving Repr

/-- What `proxyClient.Do` is handed. -/
structure UpReq where
  method : String
  url : String
  headers : Headers
  body : String
  deriving Repr, DecidableEq

structure Resp where
  status : Nat
  headers : Headers
  body : String
  deriving Repr, DecidableEq

/-- `strings.Join(vals, sep)` -/
def joinSep (sep : String) : List String → String
  | [] => ""
  | [v] => v
  | v :: w :: vs => v ++ sep ++ joinSep sep (w :: vs)

/-- `strings.Join(vals, ",")` -/
def joinVals (vs : List String) : String := joinSep "," vs

/-- The field value of a header in the sense of RFC 7230 §3.2.2: the values of all lines with
that name, in order, combined with commas.  `none`: no such header. -/
def fieldValue (vs : Option (List String)) : Option String := vs.map joinVals

/-- `for header, vals := range src { dst.Set(header, strings.Join(vals, ",")) }` -/
def copyHeaders (src dst : Headers) : Headers :=
  src.foldl (fun acc nv => AList.put acc nv.1 [joinVals nv.2]) dst

/-- `Header.Get`: the first value, "" when there is none. -/
def headerGet (h : Headers) (n : String) : String :=
  match AList.get h n with
  | some (v :: _) => v
  | _ => ""

def xffName : String := "X-Forwarded-For"

/-- `URL.String()` of a server-side request URL (no scheme, no host). -/
def urlString (r : Req) : String :=
  r.path ++ (if r.forceQuery || r.rawQuery != "" then "?" ++ r.rawQuery else "")

/-- `Header.Values`: all lines with that name, none when there is no such header. -/
def headerValues (h : Headers) (n : String) : List String := (AList.get h n).getD []

/-- the `X-Forwarded-For` value the code computes: all the client's lines joined by ", ", then the
remote address -/
def xffValue (r : Req) : String :=
  let fwd := joinSep ", " (headerValues r.headers xffName)
  if fwd != "" then fwd ++ ", " ++ r.remoteAddr else r.remoteAddr

/-- The upstream request the handler builds. -/
def relay (target : String) (r : Req) : UpReq :=
  { method := r.method
    url := target ++ urlString r
    headers := AList.put (copyHeaders r.headers []) xffName [xffValue r]
    body := r.body }

/-- `for header, vals := range src { dst[header] = vals }` -/
def copyLines (src dst : Headers) : Headers :=
  src.foldl (fun acc nv => AList.put acc nv.1 nv.2) dst

/-- What the handler writes to the client for the response `Do` returned; `defaults` is what the
`setResponseHeaders` middleware had already put into `w.Header()`. -/
def relayBack (defaults : Headers) (rs : Resp) : Resp :=
  { status := rs.status, headers := copyLines rs.headers defaults, body := rs.body }

/-! ## `http.Client.Do` -/

/-- the statuses for which `net/http`'s `redirectBehavior` says `shouldRedirect` (307/308 too,
because `http.NewRequest` with a `*bytes.Buffer` body sets `GetBody`) -/
def isRedirect (status : Nat) : Bool := status ∈ [301, 302, 303, 307, 308]

inductive DoResult where
  | resp (r : Resp) (hops : Nat)     -- the final response and how many requests went out
  | err                              -- "stopped after 10 redirects"
  deriving Repr, DecidableEq

/-- `fuel` = requests the client may still send (10 in net/http's default policy). -/
def clientDo (follow : Bool) (redir : UpReq → Resp → UpReq) (up : UpReq → Resp) :
    Nat → Nat → UpReq → DoResult
  | 0, _, _ => .err
  | fuel + 1, sent, q =>
    let rs := up q
    if follow && isRedirect rs.status && headerGet rs.headers "Location" != "" then
      clientDo follow redir up fuel (sent + 1) (redir q rs)
    else .resp rs (sent + 1)

/-! ## The mount: gorilla mux path cleaning in front of the handler -/

/-- split at '/' (structural, so that the kernel can evaluate it) -/
def segments : List Char → List (List Char)
  | [] => [[]]
  | c :: cs =>
    match segments cs with
    | [] => [[]]                       -- unreachable: `segments` is never empty
    | s :: ss => if c = '/' then [] :: s :: ss else (c :: s) :: ss

/-- all but the last element -/
def dropLast' : List (List Char) → List (List Char)
  | [] => []
  | [_] => []
  | x :: y :: t => x :: dropLast' (y :: t)

/-- `mux.cleanPath(p) == p` for a path that starts with '/': no empty segment except the leading
one and a trailing one, and no `.` / `..` segment (that is what `path.Clean` removes). -/
def isCleanPath (p : String) : Bool :=
  match segments p.toList with
  | [] :: rest =>
      !rest.isEmpty && (dropLast' rest).all (fun s => s ≠ []) && rest.all (fun s => s ≠ ['.'] && s ≠ ['.', '.'])
  | _ => false

inductive Outcome where
  | muxRedirect                        -- 301 from the mux, the handler never ran
  | unavailable                        -- `Do` failed: 503 from handlerReturnWithError
  | relayed (seen : UpReq) (hops : Nat) (client : Resp)
  deriving Repr, DecidableEq

/-- One request through mux + middleware + handler. -/
def serve (follow : Bool) (defaults : Headers) (target : String)
    (redir : UpReq → Resp → UpReq) (up : UpReq → Resp) (r : Req) : Outcome :=
  if !isCleanPath r.dpath then .muxRedirect
  else
    let q := relay target r
    match clientDo follow redir up 10 0 q with
    | .err => .unavailable
    | .resp rs hops => .relayed q hops (relayBack defaults rs)

/-! ## Vocabulary of the property -/

/-- appending one address to an `X-Forwarded-For` field value -/
def appendAddr (old addr : String) : String := if old != "" then old ++ ", " ++ addr else addr

/-- The `X-Forwarded-For` lines a client sent; a lone empty line says nothing and counts as none. -/
def xffLines (h : Headers) : List String :=
  match AList.get h xffName with
  | none => []
  | some vs => if vs = [""] then [] else vs

/-- The meaning of the `Set-Cookie` lines of a response: one cookie per line (RFC 6265 §3; the
RFC 7230 list rule explicitly does not apply to this header). -/
def cookies (h : Headers) : List String := (AList.get h "Set-Cookie").getD []

/-- split a character list at the first '?' -/
def splitQ : List Char → List Char × Option (List Char)
  | [] => ([], none)
  | c :: cs => if c = '?' then ([], some cs) else ((c :: (splitQ cs).1), (splitQ cs).2)

/-- Split a request target at the first '?' (what the receiving server does): path, and the
query if there was a '?'. -/
def splitTarget (s : String) : String × Option String :=
  (String.ofList (splitQ s.toList).1, (splitQ s.toList).2.map String.ofList)

end Refinery.Model.Proxy
