import Refinery.Basic.AList
import Refinery.Gen.Samplersel
/-!
# Model of sampler selection  (property C14)

Go strings are byte strings: `Str = List Nat` (one element per byte).  API keys, environment and
dataset names, the dataset prefix, sampler names of the rules file, field names and string values
are all `Str`; nothing here assumes UTF-8 or ASCII.

Code modelled, function by function:

* `config.IsLegacyAPIKey`                          → `isLegacyKey`   (the `switch len(key)` as written)
* `route.Router.getEnvironmentName`                → `envName`       (the lookup result is an input)
* `fileConfig.DetermineSamplerKey`                 → `samplerKey`
* `fileConfig.GetSamplerConfigForDestName`         → `lookupSampler` (decision side)
* `fileConfig.GetSamplingKeyFieldsForDestName`     → `lookupFields`  (ingestion side; its own copy of the fallback)
* `config.GetKeyFields`                            → `keyFields`     (empty field names are skipped)
* `types.NewCoreFieldsUnmarshaler`                 → `ingestFields`
* `Payload.extractCriticalFieldsFromBytes`         → `extract`       (trace-id / parent-id fields, sampling key fields, missing list)
* `Payload.MemoizeFields`, `Payload.Get`           → `memoize`, `Pay.get`
* `CollectorWorker.processSpan` (trace creation, `Trace.AddSpan`, root pointer) and `makeDecision`
  (selector, sampler, `MemoizeFields` per span)     → `step`

Out of the model (assumptions, see checks/C14.py): payload keys and sampler fields that are entries
of `types.metadataFields` (Refinery's own `meta.*` table, read from dedicated struct fields);
the samplers' rate computations beyond the first dynsampler interval; late spans after a decision.
-/
namespace Refinery.Model.SamplerSelect
open Refinery

abbrev Str := List Nat

/-- bytes of an ASCII literal -/
def ascii (s : String) : Str := s.toList.map Char.toNat

def rootPrefix : Str := ascii Refinery.Gen.Samplersel.rootPrefix          -- config.RootPrefix
def computedPrefix : Str := ascii Refinery.Gen.Samplersel.computedPrefix  -- config.ComputedFieldPrefix
def defaultName : Str := ascii "__default__"

/-! ## key classification -/

def isDigit (c : Nat) : Bool := 48 ≤ c && c ≤ 57          -- '0'..'9'
def isHexLower (c : Nat) : Bool := isDigit c || (97 ≤ c && c ≤ 102)     -- 'a'..'f'
def isAlnumLower (c : Nat) : Bool := isDigit c || (97 ≤ c && c ≤ 122)   -- 'a'..'z'

/-- `config.IsLegacyAPIKey`, byte for byte. -/
def isLegacyKey (k : Str) : Bool :=
  if k.length = 32 then
    k.all isHexLower
  else if k.length = 64 then
    if k.take 2 ≠ [104, 99] || (k.drop 3).take 3 ≠ [105, 99, 95] then false     -- key[:2] != "hc" || key[3:6] != "ic_"
    else match k.drop 2 with
      | c :: _ => if c < 97 || c > 122 then false else (k.drop 6).all isAlnumLower
      | [] => false
  else false

/-- The two classic key shapes as patterns, `[0-9a-f]{32}` and `hc[a-z]ic_[0-9a-z]{58}`: the
specification the monitor evaluates (it shares nothing with the `switch` above but the character
classes). -/
def specLegacyB (k : Str) : Bool :=
  (k.length == 32 && k.all isHexLower) ||
  match k with
  | 104 :: 99 :: c :: 105 :: 99 :: 95 :: body => (97 ≤ c && c ≤ 122) && body.length == 58 && body.all isAlnumLower
  | _ => false

/-- `Router.getEnvironmentName` given what the environment lookup answers for this key. -/
def envName (key env : Str) : Str := if key = [] || isLegacyKey key then [] else env

/-- `fileConfig.DetermineSamplerKey` (`fmt.Sprintf("%s.%s", prefix, dataset)` is byte concatenation). -/
def samplerKey (pfx key env ds : Str) : Str :=
  if !isLegacyKey key then env
  else if pfx ≠ [] then pfx ++ [46] ++ ds
  else ds

/-! ## rules file -/

inductive Kind where | det | dyn | rules
  deriving DecidableEq, Repr

structure Sampler where
  kind : Kind
  rate : Nat
  fields : List Str          -- FieldList, resp. the condition fields of the first rule
  deriving DecidableEq, Repr

abbrev Rules := AList Str Sampler     -- V2SamplerConfig.Samplers

/-- `V2SamplerChoice.GetSamplingFields` (for a rules-based sampler a set: order unspecified). -/
def samplingFields (s : Sampler) : List Str :=
  match s.kind with
  | .det => []
  | .dyn => s.fields
  | .rules => s.fields.eraseDups

/-- `GetSamplerConfigForDestName`: the named entry, else `__default__`, else nothing ("not found"). -/
def lookupSampler (r : Rules) (name : Str) : Option Sampler :=
  match AList.get r name with
  | some s => some s
  | none =>
    match AList.get r defaultName with
    | some s => some s
    | none => none

/-- `GetSamplingKeyFieldsForDestName`: written separately in the code, with its own fallback. -/
def lookupFields (r : Rules) (name : Str) : List Str :=
  match AList.get r name with
  | some s => samplingFields s
  | none =>
    match AList.get r defaultName with
    | some s => samplingFields s
    | none => []

def hasPrefix (p s : Str) : Bool := s.take p.length == p

/-- `slices.Compact` -/
def compact : List Str → List Str
  | a :: b :: t => if a = b then compact (b :: t) else a :: compact (b :: t)
  | l => l

/-- `config.GetKeyFields`: (allFields, nonRootFields).  Empty field names are skipped (they used to
hit the `field[0]` index panic; the result type is kept as an option, it is never `none` now). -/
def keyFields (fields : List Str) : Option (List Str × List Str) :=
  let fs := fields.filter (· ≠ [])
  let root := fs.filterMap (fun f => if hasPrefix rootPrefix f then some (f.drop rootPrefix.length) else none)
  let nonRoot := fs.filter (fun f => !hasPrefix rootPrefix f && !hasPrefix computedPrefix f)
  if root = [] then some (nonRoot, nonRoot) else some (compact (root ++ nonRoot), nonRoot)

/-- The field selection of `types.NewCoreFieldsUnmarshaler` for a request's (key, environment, dataset). -/
def ingestFields (r : Rules) (pfx key env ds : Str) : Option (List Str) :=
  (keyFields (lookupFields r (samplerKey pfx key env ds))).map (·.1)

/-! ## payloads -/

inductive Val where
  | str (s : Str)      -- msgpack str
  | int (n : Nat)      -- any other msgpack type (the harness uses non-negative integers)
  deriving DecidableEq, Repr

structure Pay where
  data : List (Str × Val)            -- the serialized map, in wire order
  memo : AList Str Val := []         -- memoizedFields
  missing : List Str := []           -- missingFields
  traceId : Str := []                -- MetaTraceID
  hasParent : Bool := false          -- ¬ MetaRefineryRoot
  deriving DecidableEq, Repr

/-- position of the first occurrence (`sliceContains`); `l.length` when absent -/
def idxOf (l : List Str) (k : Str) : Nat :=
  match l with
  | [] => 0
  | a :: t => if a = k then 0 else idxOf t k + 1

structure Ex where
  cand : Str := []                   -- traceIDFromField
  best : Option Nat := none          -- traceIDFieldIdx; `none` is the initial len(traceIdFieldNames): every configured index is below it
  hasParent : Bool := false
  memo : AList Str Val := []
  found : Nat := 0

def keyStep (skf : List Str) (st : Ex) (k : Str) (v : Val) : Ex :=
  if st.found < skf.length ∧ k ∈ skf ∧ AList.get st.memo k = none then
    { st with memo := AList.put st.memo k v, found := st.found + 1 }
  else st

/-- `idx < traceIDFieldIdx` -/
def belowBest (st : Ex) (i : Nat) : Bool :=
  match st.best with
  | none => true
  | some b => decide (i < b)

/-- one map entry of `extractCriticalFieldsFromBytes`: a string under a configured trace-id name is
consumed while its configured index is below the best so far (its value is taken only if
non-empty); otherwise a string under a parent-id name is consumed; everything else may be a
sampling key field. -/
def exStep (tids pids skf : List Str) (st : Ex) (kv : Str × Val) : Ex :=
  match kv.2 with
  | .str s =>
    if kv.1 ∈ tids ∧ belowBest st (idxOf tids kv.1) = true then
      { st with cand := if s = [] then st.cand else s,
                best := if s = [] then st.best else some (idxOf tids kv.1) }
    else if kv.1 ∈ pids then { st with hasParent := st.hasParent || decide (s ≠ []) }
    else keyStep skf st kv.1 kv.2
  | v => keyStep skf st kv.1 v

/-- `extractCriticalFieldsFromBytes` on a fresh payload (no `meta.trace_id`: the trace id is the
best candidate, filled in after the loop). -/
def extract (tids pids skf : List Str) (data : List (Str × Val)) : Pay :=
  let st := data.foldl (exStep tids pids skf) {}
  { data := data, memo := st.memo, traceId := st.cand, hasParent := st.hasParent,
    missing := if st.found < skf.length then skf.filter (fun f => AList.get st.memo f = none) else [] }

def memoStep (toFind : List Str) (acc : AList Str Val × Nat) (kv : Str × Val) : AList Str Val × Nat :=
  if acc.2 < toFind.length ∧ kv.1 ∈ toFind then (AList.put acc.1 kv.1 kv.2, acc.2 + 1) else acc

/-- the `keysToFind` of `MemoizeFields`: requested, not known missing, not memoized (a Go map: no repeats) -/
def toFind (keys : List Str) (p : Pay) : List Str :=
  (keys.filter (fun k => decide (k ∉ p.missing ∧ AList.get p.memo k = none))).eraseDups

/-- `Payload.MemoizeFields(keys...)` -/
def memoize (keys : List Str) (p : Pay) : Pay :=
  let tf := toFind keys p
  if tf = [] then p
  else
    let r := p.data.foldl (memoStep tf) (p.memo, 0)
    { p with memo := r.1, missing := p.missing ++ tf.filter (fun k => decide (AList.get r.1 k = none)) }

def first (data : List (Str × Val)) (k : Str) : Option Val := AList.get data k

/-- `Payload.Get` for a non-metadata key (`none` = nil). -/
def Pay.get (p : Pay) (k : Str) : Option Val :=
  match AList.get p.memo k with
  | some v => some v
  | none => if k ∈ p.missing then none else first p.data k

def Pay.exists (p : Pay) (k : Str) : Bool := (p.get k).isSome

/-! ## the two call sites as one machine -/

inductive Path where | msgp | json | otlp
  deriving DecidableEq, Repr

structure SpanSt where
  isRoot : Bool
  pay : Pay
  -- ghost: what the ingestion site worked with
  key : Str
  env : Str
  ds : Str
  ingSel : Option Str           -- selector computed by NewCoreFieldsUnmarshaler (none: OTLP path extracts nothing)
  deriving DecidableEq, Repr

structure TraceSt where
  key : Str
  env : Str
  ds : Str
  spans : List SpanSt := []
  root : Option Nat := none     -- index into spans of Trace.RootSpan
  deriving DecidableEq, Repr

structure Cfg where
  pfx : Str
  tids : List Str
  pids : List Str
  rules : Rules                 -- the rules file the process starts with
  validate : Bool := true       -- rules files are validated when (re)loaded (`--no-validate` off)

structure St where
  traces : AList Str TraceSt := []
  decided : List Str := []
  reloaded : Option Rules := none    -- the rules of the last accepted reload, if there was one

inductive Op where
  | classify (key : Str)
  | selkey (key env ds : Str)
  | lookup (name : Str)
  | span (path : Path) (key : Str) (env : Option Str) (ds : Str) (data : List (Str × Val))
  | decide (tid : Str)
  | reload (r : Rules)            -- the rules file is rewritten and `Reload()` is called

structure Decision where
  sel : Str
  sampler : Sampler
  hit : Bool                         -- rules sampler: first rule matched
  all : List Str
  nonRoot : List Str
  gets : List (List (Str × Option Val))   -- per span, per field the sampler reads on it
  deriving DecidableEq, Repr

inductive Out where
  | bool (b : Bool)
  | name (s : Str)
  | looked (s : Option Sampler) (fields : List Str)
  | nosampler
  | nothing
  | event
  | panic
  | span (tid : Str) (isRoot : Bool) (key env ds : Str) (memo missing : List Str) (late : Bool)
  | notrace
  | decision (d : Decision)
  | reloaded (accepted : Bool)
  deriving DecidableEq, Repr

/-- `Trace.AddSpan` + the root bookkeeping of `processSpan` -/
def addSpan (t : TraceSt) (sp : SpanSt) : TraceSt :=
  { t with
    spans := t.spans ++ [sp]
    env := if t.env = [] ∧ sp.env ≠ [] then sp.env else t.env
    root := if sp.isRoot then some t.spans.length else t.root }

def condExists (spans : List SpanSt) (root : Option SpanSt) (f : Str) : Bool :=
  if hasPrefix rootPrefix f then
    match root with
    | some r => r.pay.exists (f.drop rootPrefix.length)
    | none => false
  else spans.any (fun sp => sp.pay.exists f)

/-- The selector `makeDecision` computes from the trace. -/
def decideSel (c : Cfg) (t : TraceSt) : Str := samplerKey c.pfx t.key t.env t.ds

def decideTrace (c : Cfg) (t : TraceSt) : Out :=
  let sel := decideSel c t
  match lookupSampler c.rules sel with
  | none => .nosampler
  | some s =>
    match keyFields (samplingFields s) with
    | none => .panic
    | some (all, nonRoot) =>
      let spans := t.spans.map (fun sp => { sp with pay := memoize (if sp.isRoot then all else nonRoot) sp.pay })
      let root := t.root.bind (fun i => spans[i]?)
      let hit := s.fields.all (condExists spans root)
      .decision { sel := sel, sampler := s, hit := hit, all := all, nonRoot := nonRoot,
                  gets := spans.map (fun sp => (if sp.isRoot then all else nonRoot).map (fun f => (f, sp.pay.get f))) }

/-- What the router does with one request carrying one event. -/
inductive Routed where
  | nosampler | nothing | panic | event
  | span (tid : Str) (sp : SpanSt)
  deriving DecidableEq, Repr

/-- The span `processEvent` builds: the event's key, environment and dataset are the ones the
field selection was made with (`ingSel` is ghost state recording that selection). -/
def mkSpan (c : Cfg) (path : Path) (key e ds : Str) (p : Pay) : SpanSt :=
  { isRoot := !p.hasParent, pay := p, key := key, env := e, ds := ds,
    ingSel := if path = .otlp then none else some (samplerKey c.pfx key e ds) }

/-- `getEnvironmentName` as the handlers use it: no lookup for empty and classic keys; when the
lookup fails both `batch` and the OTLP path answer with the error and ingest nothing (`none`). -/
def resolveEnv (_path : Path) (key : Str) (env : Option Str) : Option Str :=
  if key = [] || isLegacyKey key then some [] else env

/-- `processEvent` for one event whose fields were extracted with the selection `skf`. -/
def routeExtract (c : Cfg) (path : Path) (key e ds : Str) (data : List (Str × Val)) (skf : List Str) : Routed :=
  if path ≠ .otlp ∧ data = [] then .nothing                   -- "empty event data"
  else if (extract c.tids c.pids skf data).traceId = [] then .event     -- not part of a trace: sent upstream
  else .span (extract c.tids c.pids skf data).traceId (mkSpan c path key e ds (extract c.tids c.pids skf data))

/-- `newBatchedEvents` / `NewCoreFieldsUnmarshaler` (+ `UnmarshalMsgpEventMetadataOnly` on the OTLP
path, which extracts no sampling fields), then the events. -/
def routeWith (c : Cfg) (path : Path) (key e ds : Str) (data : List (Str × Val)) : Routed :=
  match (if path = .otlp then some [] else ingestFields c.rules c.pfx key e ds) with
  | none => .panic
  | some skf => routeExtract c path key e ds data skf

/-- `Router.batch` / `processOTLPRequestBatchMsgp` + `processEvent` for one event. -/
def routeSpan (c : Cfg) (path : Path) (key : Str) (env : Option Str) (ds : Str) (data : List (Str × Val)) : Routed :=
  if AList.get c.rules defaultName = none then .nosampler      -- harness guard: the sampler factory would exit the process
  else match resolveEnv path key env with
    | none => .nothing                                         -- failed environment lookup: request refused
    | some e => routeWith c path key e ds data

/-- `processSpan`: the trace is created from the first span's key, dataset and environment. -/
def collectSpan (s : St) (tid : Str) (sp : SpanSt) : St :=
  let t : TraceSt := match AList.get s.traces tid with
    | some t => t
    | none => { key := sp.key, env := sp.env, ds := sp.ds }
  { s with traces := AList.put s.traces tid (addSpan t sp) }

/-- The rules in force: those of the last accepted reload, else the ones the process started with. -/
def curRules (c : Cfg) (s : St) : Rules :=
  match s.reloaded with
  | some r => r
  | none => c.rules

/-- The configuration the code works with in state `s` (`fileConfig.rulesConfig` is replaced by `Reload`). -/
def cur (c : Cfg) (s : St) : Cfg := { c with rules := curRules c s }

/-- `newFileConfig` on reload: with validation on, a rules file without `__default__` is rejected
(the generator keeps everything else valid); `Reload` then returns the error and changes nothing. -/
def acceptRules (c : Cfg) (r : Rules) : Bool := !c.validate || (AList.get r defaultName).isSome

def step (c : Cfg) (s : St) : Op → St × Out
  | .classify k => (s, .bool (isLegacyKey k))
  | .selkey k e d => (s, .name (samplerKey c.pfx k e d))
  | .lookup n => (s, .looked (lookupSampler (curRules c s) n) (lookupFields (curRules c s) n))
  | .span path key env ds data =>
    match routeSpan (cur c s) path key env ds data with
    | .nosampler => (s, .nosampler)
    | .nothing => (s, .nothing)
    | .panic => (s, .panic)
    | .event => (s, .event)
    | .span tid sp =>
      let late := s.decided.contains tid                      -- late spans: outside the model
      (if late then s else collectSpan s tid sp,
       .span tid sp.isRoot sp.key sp.env sp.ds (AList.keys sp.pay.memo) sp.pay.missing late)
  | .decide tid =>
    if AList.get (curRules c s) defaultName = none then (s, .nosampler)   -- harness guard, as for spans
    else match AList.get s.traces tid with
    | none => (s, .notrace)
    | some t => ({ s with traces := AList.del s.traces tid, decided := tid :: s.decided }, decideTrace (cur c s) t)
  | .reload r =>
    -- an accepted reload replaces the rules; the collector drops its cached samplers (reload signal),
    -- buffered traces stay and are decided under the new rules
    if acceptRules c r then ({ s with reloaded := some r }, .reloaded true) else (s, .reloaded false)

/-- The rules a history leaves in force, read off the history alone: the last accepted reload. -/
def lastAccepted (c : Cfg) (ops : List Op) : Rules :=
  ops.foldl (fun r o => match o with
    | .reload r' => if acceptRules c r' then r' else r
    | _ => r) c.rules

def run (c : Cfg) (ops : List Op) : St := ops.foldl (fun s o => (step c s o).1) {}

end Refinery.Model.SamplerSelect
