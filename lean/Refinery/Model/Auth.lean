/-!
# Model of ingest authorization and key replacement  (property C24)

Code: `config/file_config.go` (`AccessKeyConfig.IsAccepted`, `GetReplaceKey`),
`route/middleware.go` (`apiKeyProcessor`), `route/otlp_trace.go` (`postOTLPTrace`,
`customTraceExportHandler` + `TraceServer.ExportTraceData`), `route/otlp_logs.go`
(`postOTLPLogs`, `LogsServer.Export`).

Keys, key IDs and the mode are strings, exactly as in the code (the `switch` over the mode has
no default: an unknown mode replaces nothing).  External functions are parameters (`Env`):
`config.IsLegacyAPIKey` and the answer of Honeycomb's `/1/auth` (the key ID of a key).
husky's header validation is a parameter too (`Env.huskyOK`); the theorems that need it assume
`Env.HuskySpec` (a blank API key is refused, any other passes), which the harness' `facts`
re-establishes on the linked husky version.

Every endpoint is modelled as the *sequence of calls the code makes*, so the order of
"accept" and "replace" is the code's, not the documentation's.  (Until the fix recorded in
`known_findings.jsonl` the gRPC trace endpoint replaced first and accepted on the replaced key;
`corpus/C24/grpc-traces-replace-then-accept.ops` keeps the former witnesses as regressions.)
-/
namespace Refinery.Model.Auth

/-- `config.AccessKeyConfig` -/
structure Cfg where
  receiveKeys : List String := []
  receiveKeyIDs : List String := []
  sendKey : String := ""
  sendKeyMode : String := "none"
  acceptOnlyListed : Bool := false
  deriving Repr

/-- the test `slices.Contains(ReceiveKeys, key) || (keyID != "" && slices.Contains(ReceiveKeyIDs, keyID))`
that `IsAccepted` and `GetReplaceKey` both spell out -/
def isListed (c : Cfg) (key keyID : String) : Bool :=
  c.receiveKeys.contains key || (keyID != "" && c.receiveKeyIDs.contains keyID)

/-- `AccessKeyConfig.IsAccepted` (`true` = `nil` error) -/
def isAccepted (c : Cfg) (key keyID : String) : Bool :=
  if c.acceptOnlyListed then
    (c.sendKey != "" && key == c.sendKey) || isListed c key keyID
  else true

/-- the `switch a.SendKeyMode` of `GetReplaceKey`: the value of `overwriteWith` -/
def overwriteWith (c : Cfg) (apiKey keyID : String) : String :=
  if c.sendKeyMode == "none" then ""
  else if c.sendKeyMode == "all" then c.sendKey
  else if c.sendKeyMode == "nonblank" then (if apiKey != "" then c.sendKey else "")
  else if c.sendKeyMode == "listedonly" then (if isListed c apiKey keyID then c.sendKey else apiKey)
  else if c.sendKeyMode == "missingonly" then (if apiKey == "" then c.sendKey else apiKey)
  else if c.sendKeyMode == "unlisted" then
    (if apiKey != "" then (if !isListed c apiKey keyID then c.sendKey else apiKey) else "")
  else ""

/-- the value of `apiKey` at the end of `GetReplaceKey`, before the blank test -/
def finalKey (c : Cfg) (apiKey keyID : String) : String :=
  if c.sendKey != "" then
    let ow := overwriteWith c apiKey keyID
    if ow != "" then ow else apiKey
  else apiKey

/-- `AccessKeyConfig.GetReplaceKey`; `none` is the error "blank API key is not permitted with
this configuration" (the code then returns the key `""`). -/
def getReplaceKey (c : Cfg) (apiKey keyID : String) : Option String :=
  if finalKey c apiKey keyID == "" then none else some (finalKey c apiKey keyID)

/-- External functions. -/
structure Env where
  /-- `config.IsLegacyAPIKey` -/
  legacy : String → Bool
  /-- the `id` Honeycomb's `/1/auth` answers for a key (`""` when it has none) -/
  authID : String → String
  /-- husky `RequestInfo.Validate{Traces,Logs}Headers`, the API-key part (content type and dataset
  are held valid by the harness): does husky let a request with this key through? -/
  huskyOK : String → Bool

/-- What husky v0.43.1 does: a blank key is `ErrMissingAPIKeyHeader`, any other key passes.  The
harness' `facts` re-establishes the blank half on the linked husky version on every run. -/
def Env.HuskySpec (env : Env) : Prop := ∀ k, env.huskyOK k = (k != "")

/-- `keyID := ""; if cfg.HasKeyIDs() { keyID = r.getKeyID(key) }` with `getKeyID` answering `""`
for blank and legacy keys without asking. -/
def keyIDOf (c : Cfg) (env : Env) (key : String) : String :=
  if c.receiveKeyIDs.isEmpty then ""
  else if key == "" || env.legacy key then ""
  else env.authID key

inductive Endpoint where
  | event | batch | otlpTracesHTTP | otlpLogsHTTP | otlpTracesGRPC | otlpLogsGRPC
  deriving Repr, DecidableEq

def Endpoint.list : List Endpoint :=
  [.event, .batch, .otlpTracesHTTP, .otlpLogsHTTP, .otlpTracesGRPC, .otlpLogsGRPC]

/-- why a request was refused (which check refused it — this makes the order of the checks visible) -/
inductive Why where
  | unlisted      -- `IsAccepted` failed: "api key … not found in list of authorized keys"
  | blank         -- `GetReplaceKey` failed: "blank API key is not permitted with this configuration"
  | nohdr         -- husky: "missing 'x-honeycomb-team' header"
  deriving Repr, DecidableEq

inductive Result where
  | rejected (why : Why)     -- HTTP 401 / gRPC Unauthenticated, nothing leaves
  | failed                   -- another error status, nothing leaves
  | sent (key : String)      -- success status; the event leaves with this API key
  deriving Repr, DecidableEq

/-- the key with which data leaves, if any -/
def Result.key? : Result → Option String
  | .sent k => some k
  | _ => none

/-- Which request header carries the key.  `/1/` endpoints read `X-Honeycomb-Team` and fall back to
`X-Hny-Team`; the OTLP endpoints (husky) read `x-honeycomb-team` only. -/
def clientKey (ep : Endpoint) (long short : String) : String :=
  match ep with
  | .event | .batch => if long == "" then short else long
  | _ => long

/-- `apiKeyProcessor` followed by `event` / `batch`: accept, then replace; the handler reads the
header the middleware rewrote. -/
def handleV1 (c : Cfg) (env : Env) (k : String) : Result :=
  let kid := keyIDOf c env k
  if !isAccepted c k kid then .rejected .unlisted
  else match getReplaceKey c k kid with
    | none => .rejected .blank
    | some r => .sent r

/-- `postOTLPTrace` / `postOTLPLogs`: accept on the client's key; `keyToUse, _ := GetReplaceKey`
(error dropped, key `""`); husky validation of the *client's* headers tolerates a missing key iff
`keyToUse` is non-empty; then `ri.ApiKey = keyToUse` and husky validates again while translating
(`logs500`: the logs handler answers that second failure with 500, the trace handler with 401). -/
def handleOTLPHTTP (logs500 : Bool) (c : Cfg) (env : Env) (k : String) : Result :=
  let kid := keyIDOf c env k
  if !isAccepted c k kid then .rejected .unlisted
  else
    let keyToUse := (getReplaceKey c k kid).getD ""
    if !env.huskyOK k && keyToUse == "" then .rejected .nohdr
    else if !env.huskyOK keyToUse then (if logs500 then .failed else .rejected .nohdr)
    else .sent keyToUse

/-- `customTraceExportHandler` then `ExportTraceData` (as repaired): accept on the client's key,
then replace; after unmarshalling (where husky validates the replaced key) `ExportTraceData` looks up
the key ID of the *replaced* key and runs `IsAccepted` once more on the *replaced* key (redundant:
`Props.C24.grpcTraces_second_check_redundant`). -/
def handleTracesGRPC (c : Cfg) (env : Env) (k : String) : Result :=
  let kid := keyIDOf c env k
  if !isAccepted c k kid then .rejected .unlisted
  else match getReplaceKey c k kid with
    | none => .rejected .blank
    | some r =>
      if !env.huskyOK r then .rejected .nohdr
      else if !isAccepted c r (keyIDOf c env r) then .rejected .unlisted
      else .sent r

/-- `LogsServer.Export`: accept on the client's key; `keyToUse, _ := GetReplaceKey`; a missing key
header is tolerated by the handler's own validation whatever `keyToUse` is; `TranslateLogsRequest`
then validates `keyToUse`. -/
def handleLogsGRPC (c : Cfg) (env : Env) (k : String) : Result :=
  let kid := keyIDOf c env k
  if !isAccepted c k kid then .rejected .unlisted
  else
    let keyToUse := (getReplaceKey c k kid).getD ""
    if !env.huskyOK keyToUse then .rejected .nohdr
    else .sent keyToUse

/-- what each endpoint does with the key it extracted from the request -/
def handle (ep : Endpoint) (c : Cfg) (env : Env) (k : String) : Result :=
  match ep with
  | .event | .batch => handleV1 c env k
  | .otlpTracesHTTP => handleOTLPHTTP false c env k
  | .otlpLogsHTTP => handleOTLPHTTP true c env k
  | .otlpTracesGRPC => handleTracesGRPC c env k
  | .otlpLogsGRPC => handleLogsGRPC c env k

/-- a whole request: header extraction, then the endpoint's composition -/
def serve (ep : Endpoint) (c : Cfg) (env : Env) (long short : String) : Result :=
  handle ep c env (clientKey ep long short)

/-! ## Specification -/

/-- The property's reference behaviour, the same for every endpoint: *accept on the key the client
sent, then replace*; `none` = refused, `some k` = data leaves with key `k`. -/
def refHandle (c : Cfg) (env : Env) (k : String) : Option String :=
  let kid := keyIDOf c env k
  if isAccepted c k kid then getReplaceKey c k kid else none

/-- The client-key classes of the property's quantifier.  Priority for overlapping cases: blank,
then `= SendKey`, then listed by key, then listed by key ID. -/
inductive KeyClass where
  | blank | sendKey | listed | listedByID | unlisted
  deriving Repr, DecidableEq

def KeyClass.name : KeyClass → String
  | .blank => "blank" | .sendKey => "sendkey" | .listed => "listed"
  | .listedByID => "listedbyid" | .unlisted => "unlisted"

def KeyClass.list : List KeyClass := [.blank, .sendKey, .listed, .listedByID, .unlisted]

def classify (c : Cfg) (key keyID : String) : KeyClass :=
  if key == "" then .blank
  else if c.sendKey != "" && key == c.sendKey then .sendKey
  else if c.receiveKeys.contains key then .listed
  else if keyID != "" && c.receiveKeyIDs.contains keyID then .listedByID
  else .unlisted

/-- the modes the configuration accepts (`choices` of `AccessKeys.SendKeyMode`) -/
inductive Mode where
  | none | all | nonblank | listedonly | unlisted | missingonly
  deriving Repr, DecidableEq

def Mode.name : Mode → String
  | .none => "none" | .all => "all" | .nonblank => "nonblank"
  | .listedonly => "listedonly" | .unlisted => "unlisted" | .missingonly => "missingonly"

def Mode.list : List Mode := [.none, .all, .nonblank, .listedonly, .unlisted, .missingonly]

def Mode.ofName? (s : String) : Option Mode := Mode.list.find? (fun m => m.name == s)

/-- which key the documentation prescribes -/
inductive Action where
  | keep          -- "uses the incoming key" (a blank key that is kept is refused: nothing leaves blank)
  | useSendKey    -- "overwrites with SendKey"
  deriving Repr, DecidableEq

/-- The documented SendKeyMode table (config.md / configMeta.yaml, `AccessKeys.SendKeyMode`), per
client-key class, when a `SendKey` is configured:

* `none` uses the incoming key for all telemetry;
* `all` overwrites all keys, even missing ones;
* `nonblank` overwrites all supplied keys but will not inject `SendKey` if the incoming key is blank;
* `listedonly` overwrites only the keys listed in `ReceiveKeys` (or, by key ID, in `ReceiveKeyIDs`);
* `unlisted` uses `SendKey` for all events except those with listed keys (the code comment narrows
  "all" to *non-blank* keys; a blank key keeps being blank, i.e. is refused);
* `missingonly` injects `SendKey` only into events with blank keys.

A client key equal to `SendKey` is its own replacement, so `keep` and `useSendKey` coincide. -/
def docTable : Mode → KeyClass → Action
  | .none, _ => .keep
  | .all, _ => .useSendKey
  | .nonblank, .blank => .keep
  | .nonblank, _ => .useSendKey
  | .listedonly, .listed => .useSendKey
  | .listedonly, .listedByID => .useSendKey
  | .listedonly, _ => .keep
  | .unlisted, .unlisted => .useSendKey
  | .unlisted, _ => .keep
  | .missingonly, .blank => .useSendKey
  | .missingonly, _ => .keep

def Action.isSend : Action → Bool
  | .useSendKey => true
  | .keep => false

/-- the key an action yields; blank never leaves -/
def realize (sendKey key : String) : Action → Option String
  | .keep => if key == "" then none else some key
  | .useSendKey => some sendKey

/-- The documented outcome for a client key: without a `SendKey` nothing is replaced. -/
def docReplace (c : Cfg) (m : Mode) (key keyID : String) : Option String :=
  if c.sendKey == "" then realize "" key .keep
  else realize c.sendKey key (docTable m (classify c key keyID))

/-- acceptance in the property's words: `AcceptOnlyListedKeys` is off, or the key equals `SendKey`,
or the key or its key ID is listed -/
def KeyClass.authorised : KeyClass → Bool
  | .sendKey | .listed | .listedByID => true
  | .blank | .unlisted => false

def acceptedByClass (c : Cfg) (cl : KeyClass) : Bool :=
  !c.acceptOnlyListed || cl.authorised

/-- the property's expected outcome of a request, from documentation only (`none` = refused) -/
def docOutcome (c : Cfg) (m : Mode) (key keyID : String) : Option String :=
  if acceptedByClass c (classify c key keyID) then docReplace c m key keyID else none

end Refinery.Model.Auth
