import Refinery.Basic.AList
import Refinery.Basic.Sort
import Refinery.Gen.Deadline
/-!
# Model of one collector worker's trace buffer: decision deadlines and memory ejection (C03, C07)

Mirrors, for ONE `CollectorWorker` (workers share nothing but the clock and the configuration):

* `collect/collector_worker.go` `processSpan` — creation of a buffered trace with
  `SendBy = now + TraceTimeout` (`0 → fallbackTraceTimeout`), and the lowering of `SendBy` on a
  root span (`now + SendDelay`, `0 → fallbackSendDelay`) or when the span count exceeds `SpanLimit`
  (`now`), guarded by `trace.SendBy.After(updated)`;
* `collect/cache/cache.go` `TakeExpiredTraces(now, max, nil)` — the keyed priority queue pops in
  `SendBy` order with unspecified tie order, so the step is an **acceptor**: the list of traces the
  implementation took is an input, checked by `ValidTake`; `takeExpiredRef` is a deterministic
  reference implementation over a sorted-list queue that mirrors the Go loop;
* `sendExpiredTracesInCache` — send-reason selection (`uint(DescendantCount()) > SpanLimit`, the same
  comparison as in `processSpan`);
* `sendTracesEarly(bytes)` — traces sorted by `CacheImpact` descending (`sort.Slice` over map
  order: ties unspecified; the impact depends on the wall clock), so again an acceptor: impacts and
  the order of ejected traces are inputs, checked by `ValidEject`;
* `collect/collect.go` `checkAlloc` — `evictionShare`.

Time is nanoseconds on the injected clock (`Int`), trace ids are `Nat` (the harness uses "t<n>").
A decided trace stays decided (the sent-trace cache is assumed not to forget within a case), so a
later span for it is `late` and is never re-buffered.  Keep/drop is not modelled (C01/C02): the
harness keeps every trace so that each decision is observable at the transmission.
-/
namespace Refinery.Model.Deadline
open Refinery

/-- `config.TracesConfig` as configured (all unsigned in the code). -/
structure Cfg where
  traceTimeout : Nat      -- ns; 0 = unset
  sendDelay : Nat         -- ns; 0 = unset
  spanLimit : Nat         -- 0 = no limit
  maxExpired : Nat        -- 0 = no limit
  deriving Repr, DecidableEq

/-- `timeout := tcfg.GetTraceTimeout(); if timeout == 0 { timeout = 60 * time.Second }` -/
def Cfg.effTimeout (c : Cfg) : Int :=
  if c.traceTimeout = 0 then Gen.Deadline.fallbackTraceTimeout else (c.traceTimeout : Int)

/-- `timeout := tcfg.GetSendDelay(); if timeout == 0 { timeout = 2 * time.Second }` -/
def Cfg.effDelay (c : Cfg) : Int :=
  if c.sendDelay = 0 then Gen.Deadline.fallbackSendDelay else (c.sendDelay : Int)

/-- `int(MaxExpiredTraces)` with `max <= 0` meaning "no limit" in `TakeExpiredTraces`. -/
def Cfg.effMax (c : Cfg) : Option Nat :=
  if c.maxExpired = 0 ∨ 2 ^ (Gen.Deadline.maxExpiredIntBits.toNat - 1) ≤ c.maxExpired then none
  else some c.maxExpired

/-- A buffered trace (`types.Trace`, the fields the two properties read). -/
structure Tr where
  first : Int        -- ArrivalTime
  sendBy : Int       -- SendBy
  count : Nat        -- DescendantCount(): descendants of all kinds (spans, span events, links)
  hasRoot : Bool     -- RootSpan != nil
  size : Nat         -- DataSize
  deriving Repr, DecidableEq

inductive Reason where
  | gotRoot | spanLimit | expired | ejectedMemsize
  deriving Repr, DecidableEq

def Reason.name : Reason → String
  | .gotRoot => Gen.Deadline.reasonGotRoot
  | .spanLimit => Gen.Deadline.reasonSpanLimit
  | .expired => Gen.Deadline.reasonExpired
  | .ejectedMemsize => Gen.Deadline.reasonEjectedMemsize

structure St where
  cfg : Cfg
  now : Int := 0
  buf : AList Nat Tr := []
  decided : List Nat := []     -- ids that have a recorded decision (sent-trace cache)
  memo : AList Nat Nat := []   -- `Trace.totalImpact`: memoised cache impact (absent / 0 = not memoised)
  deriving Repr

/-- how the code classifies an arriving descendant (`types.Span.AnnotationType`, from
`meta.annotation_type`): a plain span, a span event or a span link -/
inductive Kind where
  | plain | spanEvent | link
  deriving Repr, DecidableEq

inductive Op where
  | adv (d : Nat)                                   -- the clock only moves forward
  /-- `processSpan` at `now`.  The kind is carried but never read: `Trace.DescendantCount()` is
  `len(spans)` — every stored descendant, span events and links included — and it is this count
  that `processSpan` compares with `SpanLimit` and that selects the send reason. -/
  | span (id : Nat) (root : Bool) (size : Nat) (kind : Kind := .plain)
  | tick (taken : List Nat)                         -- sendExpiredTracesInCache(now); acceptor input
  /-- `sendTracesEarly(bytes)`; acceptor inputs: the impacts the code computed, the order in which it
  ejected, and per buffered trace its spans as (data size, lower and upper bound of
  `time.Since(ArrivalTime)` in ns while the call ran — the wall clock is not the injected clock) -/
  | eject (bytes : Nat) (imp : AList Nat Nat) (order : List Nat)
      (ages : AList Nat (List (Nat × Nat × Nat)))
  deriving Repr

/-- one decided trace as seen at the transmission: id, send reason, number of spans -/
abbrev Sent := Nat × Reason × Nat

inductive Out where
  | none
  | buffered (sendBy : Int) (count size : Nat) (hasRoot : Bool)
  | late
  | sent (l : List Sent) (left : List Nat)      -- decided traces in order; ids still buffered (sorted)
  | reject                                      -- the acceptor refused the implementation's choice
  deriving Repr, DecidableEq

/-! ## processSpan -/

/-- the part of `processSpan` after the trace has been found or created -/
def addSpan (s : St) (id : Nat) (tr : Tr) (root : Bool) (size : Nat) : St × Out :=
  let tr1 : Tr := { tr with count := tr.count + 1, size := tr.size + size, hasRoot := tr.hasRoot || root }
  let over : Bool := decide (0 < s.cfg.spanLimit ∧ s.cfg.spanLimit < tr1.count)
  let mark : Bool := root || over
  let timeout : Int := if over then 0 else s.cfg.effDelay
  let upd : Int := s.now + timeout
  let tr2 : Tr := if mark ∧ upd < tr1.sendBy then { tr1 with sendBy := upd } else tr1
  -- `Trace.AddSpan` resets `totalImpact` to 0
  ({ s with buf := AList.put s.buf id tr2, memo := AList.del s.memo id },
    .buffered tr2.sendBy tr2.count tr2.size tr2.hasRoot)

def processSpan (s : St) (id : Nat) (root : Bool) (size : Nat) : St × Out :=
  match AList.get s.buf id with
  | some tr => addSpan s id tr root size
  | none =>
    if id ∈ s.decided then (s, .late)
    else
      addSpan s id { first := s.now, sendBy := s.now + s.cfg.effTimeout, count := 0,
                     hasRoot := false, size := 0 } root size

/-! ## sendExpiredTracesInCache -/

/-- `SendBy` of a buffered trace (0 for ids that are not buffered; only used under a membership guard) -/
def sb (s : St) (id : Nat) : Int :=
  match AList.get s.buf id with
  | some tr => tr.sendBy
  | none => 0

/-- ids whose `SendBy` is not after `now` (`!now.Before(sendBy)`) -/
def expiredIds (s : St) : List Nat :=
  (s.buf.filter (fun p => decide (p.2.sendBy ≤ s.now))).map (·.1)

def takeLen (c : Cfg) (nExpired : Nat) : Nat :=
  match c.effMax with
  | none => nExpired
  | some m => min m nExpired

/-- Relational specification of `TakeExpiredTraces(now, max, nil)`: the traces taken are expired,
distinct, in non-decreasing `SendBy` order, no expired trace left behind is earlier than a taken
one, and exactly `min(max, #expired)` are taken. -/
def ValidTake (s : St) (taken : List Nat) : Prop :=
  taken.Nodup ∧
  (∀ id ∈ taken, id ∈ expiredIds s) ∧
  taken.Pairwise (fun a b => sb s a ≤ sb s b) ∧
  (∀ x ∈ expiredIds s, x ∉ taken → ∀ y ∈ taken, sb s y ≤ sb s x) ∧
  taken.length = takeLen s.cfg (expiredIds s).length

instance (s : St) (taken : List Nat) : Decidable (ValidTake s taken) := by
  unfold ValidTake; infer_instance

/-- send reason chosen by `sendExpiredTracesInCache` -/
def reasonOf (c : Cfg) (tr : Tr) : Reason :=
  if tr.hasRoot then .gotRoot
  else if 0 < c.spanLimit ∧ c.spanLimit < tr.count then .spanLimit
  else .expired

def sentOf (s : St) (f : Tr → Reason) (ids : List Nat) : List Sent :=
  ids.filterMap fun id => (AList.get s.buf id).map fun tr => (id, f tr, tr.count)

def removeIds (s : St) (ids : List Nat) : St :=
  { s with buf := s.buf.filter (fun p => decide (p.1 ∉ ids)), decided := ids ++ s.decided }

def leftIds (s : St) : List Nat := isort (AList.keys s.buf)

def tick (s : St) (taken : List Nat) : St × Out :=
  if ValidTake s taken then
    let s' := removeIds s taken
    (s', .sent (sentOf s (reasonOf s.cfg) taken) (leftIds s'))
  else (s, .reject)

/-! ## sendTracesEarly -/

/-- impact the code computed for a trace (0 when absent; `ValidEject` requires presence) -/
def impOf (imp : AList Nat Nat) (id : Nat) : Nat :=
  match AList.get imp id with
  | some v => v
  | none => 0

def sizeOf (s : St) (id : Nat) : Nat :=
  match AList.get s.buf id with
  | some tr => tr.size
  | none => 0

def sizeSum (s : St) (ids : List Nat) : Nat := (ids.map (sizeOf s)).sum

/-! ### the estimated impact (`types/event.go` `Span.CacheImpact`, `Trace.CacheImpact`) -/

/-- `cacheImpactFactor` -/
def impactFactor : Nat := Gen.Deadline.cacheImpactFactor.toNat

/-- `Span.CacheImpact`: `(int(cacheImpactFactor*time.Since(ArrivalTime)/traceTimeout) + 1) * DataSize`
— the factor is applied BEFORE the (truncating) Duration division. -/
def spanImpact (tt size since : Nat) : Nat := (impactFactor * since / tt + 1) * size

/-- `Trace.CacheImpact` when nothing is memoised: the sum over the spans, given as (size, age) -/
def traceImpact (tt : Nat) (spans : List (Nat × Nat)) : Nat :=
  (spans.map fun p => spanImpact tt p.1 p.2).sum

/-- `traceTimeout` of `sendTracesEarly` (`0 → 60 s`), as a natural number of ns -/
def Cfg.impactTimeout (c : Cfg) : Nat := c.effTimeout.toNat

def lows (sp : List (Nat × Nat × Nat)) : List (Nat × Nat) := sp.map fun e => (e.1, e.2.1)
def highs (sp : List (Nat × Nat × Nat)) : List (Nat × Nat) := sp.map fun e => (e.1, e.2.2)

/-- Is the impact `imp id` the code reports for a buffered trace what `Trace.CacheImpact` defines?
A non-zero memoised value is returned as it is; so is whatever is stored when the sort never looked
at the trace (fewer than two buffered traces: `sort.Slice` calls no comparison).  Otherwise it is
the sum of the span impacts at the instant of the call, which lies between the sums computed with
the lower and the upper bounds of the span ages (the estimate is monotone in the age); the span
list must be the trace's (count and total data size). -/
def impactOK (s : St) (imp : AList Nat Nat) (ages : AList Nat (List (Nat × Nat × Nat))) (id : Nat) : Bool :=
  let v := impOf imp id
  let m := impOf s.memo id
  if m ≠ 0 ∨ s.buf.length < 2 then decide (v = m)
  else match AList.get ages id, AList.get s.buf id with
    | some sp, some tr =>
      decide (sp.length = tr.count ∧ ((sp.map (·.1)).sum = tr.size) ∧ (∀ e ∈ sp, e.2.1 ≤ e.2.2) ∧
        traceImpact s.cfg.impactTimeout (lows sp) ≤ v ∧ v ≤ traceImpact s.cfg.impactTimeout (highs sp))
    | _, _ => false

/-- Relational specification of `sendTracesEarly(bytes)`: ejected traces are buffered, distinct, in
non-increasing impact order, nothing left behind is heavier than an ejected one, the loop did not
stop before the last ejected trace (released size `≤ bytes` after every proper prefix) and it
stopped because the released size exceeded `bytes` or because the buffer was exhausted; and the
impacts are the estimates `Trace.CacheImpact` defines (`impactOK`). -/
def ValidEject (s : St) (bytes : Nat) (imp : AList Nat Nat) (order : List Nat)
    (ages : AList Nat (List (Nat × Nat × Nat))) : Prop :=
  order.Nodup ∧
  (∀ id ∈ order, id ∈ AList.keys s.buf) ∧
  (∀ id ∈ AList.keys s.buf, (AList.get imp id).isSome) ∧
  order.Pairwise (fun a b => impOf imp b ≤ impOf imp a) ∧
  (∀ x ∈ AList.keys s.buf, x ∉ order → ∀ y ∈ order, impOf imp x ≤ impOf imp y) ∧
  (∀ k ∈ List.range order.length, sizeSum s (order.take k) ≤ bytes) ∧
  (bytes < sizeSum s order ∨ order.length = s.buf.length) ∧
  (∀ id ∈ AList.keys s.buf, impactOK s imp ages id = true)

instance (s : St) (bytes : Nat) (imp : AList Nat Nat) (order : List Nat)
    (ages : AList Nat (List (Nat × Nat × Nat))) :
    Decidable (ValidEject s bytes imp order ages) := by
  unfold ValidEject; infer_instance

def setMemo (s : St) (m : AList Nat Nat) : St := { s with memo := m }

/-- after the sort every buffered trace carries its impact in `totalImpact` (when at least two were
buffered; a zero impact is not a memo) -/
def memoAfter (s : St) (imp : AList Nat Nat) : AList Nat Nat :=
  if s.buf.length < 2 then s.memo else imp

def eject (s : St) (bytes : Nat) (imp : AList Nat Nat) (order : List Nat)
    (ages : AList Nat (List (Nat × Nat × Nat))) : St × Out :=
  if ValidEject s bytes imp order ages then
    let s' := setMemo (removeIds s order) (memoAfter s imp)
    (s', .sent (sentOf s (fun _ => Reason.ejectedMemsize) order) (leftIds s'))
  else (s, .reject)

/-! ## checkAlloc -/

/-- `checkAlloc`: `none` when within budget (`maxAlloc == 0 || currentAlloc < maxAlloc`), otherwise
the byte count every worker is asked to release: `int(currentAlloc - maxAlloc) / len(workers)`. -/
def evictionShare (heap maxAlloc workers : Nat) : Option Nat :=
  if maxAlloc = 0 ∨ heap < maxAlloc then none else some ((heap - maxAlloc) / workers)

/-! ## state machine -/

def step (s : St) : Op → St × Out
  | .adv d => ({ s with now := s.now + d }, .none)
  | .span id root size _ => processSpan s id root size
  | .tick taken => tick s taken
  | .eject bytes imp order ages => eject s bytes imp order ages

def init (c : Cfg) : St := { cfg := c }

def runFrom (s : St) (ops : List Op) : St := ops.foldl (fun s o => (step s o).1) s

def run (c : Cfg) (ops : List Op) : St := runFrom (init c) ops

/-- number of buffered traces whose `SendBy` is not after `D` (the backlog of deadlines `≤ D`) -/
def backlog (s : St) (D : Int) : Nat := s.buf.countP (fun p => decide (p.2.sendBy ≤ D))

/-! ## Reference implementation of `TakeExpiredTraces` over a sorted-list priority queue -/

/-- keyed priority queue as a list sorted by priority; `cmp = v1.Before(v2)` -/
def pqInsert (k : Nat) (p : Int) : List (Nat × Int) → List (Nat × Int)
  | [] => [(k, p)]
  | (k', p') :: t => if p < p' then (k, p) :: (k', p') :: t else (k', p') :: pqInsert k p t

def pqOfBuf : AList Nat Tr → List (Nat × Int)
  | [] => []
  | (id, tr) :: t => pqInsert id tr.sendBy (pqOfBuf t)

/-- the loop of `TakeExpiredTraces`: pop the head while the queue is non-empty and
(`max <= 0` or fewer than `max` taken); stop at the first entry that has not expired. -/
def takeLoop (now : Int) (max : Option Nat) : List (Nat × Int) → Nat → List Nat
  | [], _ => []
  | (k, p) :: q, n =>
    if (match max with | none => true | some m => decide (n < m)) then
      if now < p then [] else k :: takeLoop now max q (n + 1)
    else []

def takeExpiredRef (s : St) : List Nat := takeLoop s.now s.cfg.effMax (pqOfBuf s.buf) 0

/-! ## The documented deadline, computed from the arrival history alone -/

/-- what the history says about one trace: first arrival, first root arrival, the instant its
span count first exceeded `SpanLimit`, number of spans so far -/
structure Arr where
  first : Int
  rootAt : Option Int
  limitAt : Option Int
  count : Nat
  deriving Repr, DecidableEq

structure Spec where
  now : Int := 0
  arr : Nat → Option Arr := fun _ => none

/-- the arrival record of a trace, a fresh one (first arrival = now) if it has never been seen -/
def Spec.arrOf (sp : Spec) (id : Nat) : Arr :=
  match sp.arr id with
  | some a => a
  | none => { first := sp.now, rootAt := none, limitAt := none, count := 0 }

def Spec.step (c : Cfg) (sp : Spec) : Op → Spec
  | .adv d => { sp with now := sp.now + d }
  | .span id root _ _ =>
    let a : Arr := sp.arrOf id
    let cnt := a.count + 1
    let a' : Arr :=
      { first := a.first, count := cnt,
        rootAt := if root ∧ a.rootAt = none then some sp.now else a.rootAt,
        limitAt := if 0 < c.spanLimit ∧ c.spanLimit < cnt ∧ a.limitAt = none then some sp.now
                   else a.limitAt }
    { sp with arr := fun k => if k = id then some a' else sp.arr k }
  | _ => sp

def Spec.runFrom (c : Cfg) (sp : Spec) (ops : List Op) : Spec := ops.foldl (Spec.step c) sp
def Spec.run (c : Cfg) (ops : List Op) : Spec := Spec.runFrom c {} ops

/-- the documented `TraceTimeout`: the configured value, or the documented default
(`config.TracesConfig` struct tag) when it is left at zero -/
def Cfg.docTimeout (c : Cfg) : Int :=
  if c.traceTimeout = 0 then Gen.Deadline.cfgDefaultTraceTimeout else (c.traceTimeout : Int)

/-- the documented `SendDelay` (documented default when zero) -/
def Cfg.docDelay (c : Cfg) : Int :=
  if c.sendDelay = 0 then Gen.Deadline.cfgDefaultSendDelay else (c.sendDelay : Int)

/-- deadline of an arrival record under a trace timeout `tt` and a send delay `sd` -/
def documentedWith (tt sd : Int) (a : Arr) : Int :=
  let d0 := a.first + tt
  let d1 := match a.rootAt with
    | some r => min d0 (r + sd)
    | none => d0
  match a.limitAt with
  | some l => min d1 l
  | none => d1

/-- **The documented deadline**: `TraceTimeout` after the first span, `SendDelay` after the (first)
root span if one has arrived, or the instant the span count first exceeded `SpanLimit` — whichever
comes first. -/
def documented (c : Cfg) (a : Arr) : Int := documentedWith c.docTimeout c.docDelay a

/-- the documented send reason at a tick -/
def documentedReason (c : Cfg) (a : Arr) : Reason :=
  if a.rootAt.isSome then .gotRoot
  else if 0 < c.spanLimit ∧ c.spanLimit < a.count then .spanLimit
  else .expired

end Refinery.Model.Deadline
