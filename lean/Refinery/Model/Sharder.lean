/-!
# Model of `sharder.DeterministicSharder` and of the router's local-vs-forward decision (C17)

Anchors: `sharder/deterministic.go` (`GetHashesFor`, `loadPeerList`, `Start`, `MyShard`,
`WhichShard`, `detShard.Equals`), `route/route.go` `processEvent` ("Figure out if we should handle
this span locally or pass on to a peer"), `internal/peer` (`GetPeers`, `GetInstanceID`,
`RegisterUpdatedPeersCallback`).

Addresses and trace ids are Go strings = byte strings; the model uses Lean `String`s whose
characters are the bytes (code point = byte value), so Lean's lexicographic `<` on `String` is
Go's `<` on strings.

**The hash function is a parameter.**  `h s seed` stands for `wyhash.Hash([]byte(s), seed)`; every
definition takes it as an argument and every theorem quantifies over all `h : String → Nat → Nat`
(in particular over all functions into `[0, 2^64)`).  So are the two constants of the code
(`partitionCount` — a local constant of `loadPeerList` — and `peerSeed`): arguments here, values
regenerated from the compiled code for the oracle (`Refinery.Gen.Sharder`).

What the code does, and the model with it:
* `loadPeerList`: an empty list is refused (error, state untouched).  Otherwise the addresses are
  sorted ascending — **no de-duplication** — ; every position `ix` of the sorted list gets
  `partitionCount / len + 1` partition hashes `h addr seedₖ` with `seed₀ = peerSeed`,
  `seedₖ₊₁ = h "anything" seedₖ` (the same seed sequence for every address); the table of
  `(uhash, ix)` is sorted by `uhash` with Go's **unstable** `sort.Slice`; `(peers, table)` replace
  the current ones only if the sorted address list differs from the current one.
  The executable model sorts stably (`table`); the theorems are stated for *every* arrangement the
  unstable sort may produce (`IsTable`).
* `WhichShard`: scan the table in order with `bestix = 0`, `maxHash = 0`; an entry wins if
  `h traceID uhash > maxHash` (strict); answer `peers[bestix]` — an index panic when no list was
  ever loaded (`none` here).
* `Start`: registers the reload callback, loads the list (an error is only logged), then looks for
  `Peers.GetInstanceID()` among the loaded addresses; found ⇒ `myShard := that address`, else an
  error (after 5 retries 5 s apart).  `myShard` is never updated afterwards.
* router: `target := WhichShard(id)`; `!target.Equals(MyShard())` (string equality) ⇒ forward to
  `target.GetAddress()`, else keep locally.
-/
namespace Refinery.Model.Sharder

/-- `wyhash.Hash(bytes, seed)` — a parameter of everything below. -/
abbrev HashFn := String → Nat → Nat

/-- `hashShard` -/
structure Entry where
  uhash : Nat
  ix : Nat
  deriving Repr, DecidableEq

/-- the constants of `sharder/deterministic.go` the model depends on -/
structure Consts where
  partitionCount : Nat
  peerSeed : Nat
  deriving Repr

/-- the literal hashed to derive the next seed in `GetHashesFor` -/
def seedLabel : String := "anything"

/-! ## sorting (structural insertion sort; stable) -/

def insBy {α : Type} (le : α → α → Bool) (x : α) : List α → List α
  | [] => [x]
  | y :: t => if le x y then x :: y :: t else y :: insBy le x t

def isortBy {α : Type} (le : α → α → Bool) : List α → List α
  | [] => []
  | x :: t => insBy le x (isortBy le t)

/-- `sort.Sort(SortableShardList(newPeers))`: ascending by Go string order, duplicates kept -/
def sortAddrs (l : List String) : List String := isortBy (fun a b => decide (a ≤ b)) l

def hashLe (a b : Entry) : Bool := decide (a.uhash ≤ b.uhash)

/-! ## `GetHashesFor` and the partition table -/

/-- the seed sequence `seed, h "anything" seed, …` (`n` of them) -/
def seeds (h : HashFn) : Nat → Nat → List Nat
  | 0, _ => []
  | n + 1, s => s :: seeds h n (h seedLabel s)

/-- `detShard(addr).GetHashesFor(ix, n, seed)` -/
def hashesFor (h : HashFn) (addr : String) (ix n seed : Nat) : List Entry :=
  (seeds h n seed).map fun s => { uhash := h addr s, ix := ix }

/-- the `for ix := range newPeers { hashes = append(hashes, …) }` loop, from position `ix` on -/
def entriesFrom (h : HashFn) (n seed : Nat) : List String → Nat → List Entry
  | [], _ => []
  | a :: t, ix => hashesFor h a ix n seed ++ entriesFrom h n seed t (ix + 1)

/-- `partitionsPerPeer := partitionCount/len(peerList) + 1` -/
def partitionsPerPeer (c : Consts) (npeers : Nat) : Nat := c.partitionCount / npeers + 1

/-- all partition entries of a (sorted) peer list, before sorting by hash -/
def entries (c : Consts) (h : HashFn) (peers : List String) : List Entry :=
  entriesFrom h (partitionsPerPeer c peers.length) c.peerSeed peers 0

/-- one arrangement `sort.Slice(hashes, uhash <)` may produce: the stable one -/
def table (c : Consts) (h : HashFn) (peers : List String) : List Entry :=
  isortBy hashLe (entries c h peers)

/-- what the unstable sort guarantees: a rearrangement of the entries, ascending by `uhash` -/
def IsTable (c : Consts) (h : HashFn) (peers : List String) (t : List Entry) : Prop :=
  t.Perm (entries c h peers) ∧ t.Pairwise (fun a b => a.uhash ≤ b.uhash)

/-! ## `WhichShard` -/

/-- one iteration of the loop in `WhichShard`; accumulator = `(bestix, maxHash)` -/
def scanStep (h : HashFn) (id : String) (acc : Nat × Nat) (e : Entry) : Nat × Nat :=
  if h id e.uhash > acc.2 then (e.ix, h id e.uhash) else acc

def scan (h : HashFn) (id : String) (t : List Entry) : Nat × Nat :=
  t.foldl (scanStep h id) (0, 0)

/-- `WhichShard(id)` on a sharder holding `peers` and `hashes`; `none` = index-out-of-range panic -/
def whichShard (h : HashFn) (peers : List String) (hashes : List Entry) (id : String) :
    Option String :=
  peers[(scan h id hashes).1]?

/-! ## one node: mock peers + sharder + router decision -/

structure Node where
  /-- `Peers.GetInstanceID()` -/
  self : String
  /-- the list `Peers.GetPeers()` currently returns -/
  src : List String := []
  /-- the reload callback is registered (`Start` was called) -/
  started : Bool := false
  /-- `d.peers` -/
  peers : List String := []
  /-- `d.hashes` -/
  hashes : List Entry := []
  /-- `d.myShard` (zero value: the empty address) -/
  my : String := ""
  deriving Repr

/-- `loadPeerList`; the Boolean is "no error" -/
def loadPeerList (c : Consts) (h : HashFn) (n : Node) : Node × Bool :=
  if n.src = [] then (n, false)
  else if n.peers = sortAddrs n.src then (n, true)
  else ({ n with peers := sortAddrs n.src, hashes := table c h (sortAddrs n.src) }, true)

/-- `Start`; the Boolean is "no error" (`false` = "failed to find self in the peer list") -/
def start (c : Consts) (h : HashFn) (n : Node) : Node × Bool :=
  if n.self ∈ (loadPeerList c h { n with started := true }).1.peers then
    ({ (loadPeerList c h { n with started := true }).1 with my := n.self }, true)
  else ((loadPeerList c h { n with started := true }).1, false)

/-- `MockPeers.UpdatePeers(l)` / a changed peer source: the callbacks run (errors only logged) -/
def update (c : Consts) (h : HashFn) (n : Node) (l : List String) : Node :=
  if n.started then (loadPeerList c h { n with src := l }).1 else { n with src := l }

inductive Decision where
  | keep                      -- handed to the local collector
  | forward (addr : String)   -- enqueued on the peer transmission with `APIHost := addr`
  | crash                     -- `WhichShard` panicked
  deriving Repr, DecidableEq

/-- `processEvent`, the part after stress relief: local or peer -/
def route (h : HashFn) (n : Node) (id : String) : Decision :=
  match whichShard h n.peers n.hashes id with
  | none => .crash
  | some t => if t = n.my then .keep else .forward t

/-! ## a cluster: what happens to a span entering at one node -/

inductive Ev where
  | collect (addr : String)   -- reached the collector of the node whose instance id is `addr`
  | fwd (addr : String)       -- forwarded to `addr`
  | lost (addr : String)      -- forwarded to an address that is no node of the cluster
  | crash
  | more                      -- still travelling when the hop budget ran out
  deriving Repr, DecidableEq

/-- the node that listens on `addr` -/
def nodeAt (nodes : List Node) (addr : String) : Option Node := nodes.find? (fun m => m.self = addr)

/-- follow a span from node `n` for at most `fuel` routing decisions -/
def deliver (h : HashFn) (nodes : List Node) (id : String) : Nat → Node → List Ev
  | 0, _ => [.more]
  | fuel + 1, n =>
    match route h n id with
    | .crash => [.crash]
    | .keep => [.collect n.self]
    | .forward t =>
      .fwd t :: (match nodeAt nodes t with
        | none => [.lost t]
        | some m => deliver h nodes id fuel m)

/-! ## operations of the transcript -/

inductive Op where
  | start (i : Nat)
  | update (i : Nat) (l : List String)
  deriving Repr

def modifyNth (f : Node → Node) : List Node → Nat → List Node
  | [], _ => []
  | n :: t, 0 => f n :: t
  | n :: t, i + 1 => n :: modifyNth f t i

def stepOp (c : Consts) (h : HashFn) (nodes : List Node) : Op → List Node
  | .start i => modifyNth (fun n => (start c h n).1) nodes i
  | .update i l => modifyNth (fun n => update c h n l) nodes i

def initNodes (selfs : List String) : List Node := selfs.map fun s => { self := s }

def run (c : Consts) (h : HashFn) (selfs : List String) (ops : List Op) : List Node :=
  ops.foldl (stepOp c h) (initNodes selfs)

/-! ## vocabulary of the property statements (C17) -/

/-- **The tie hypothesis.**  Among the partition hashes generated for the list, two different
addresses never share a value: `h a seedᵢ = h b seedⱼ → a = b`.  (For wyhash: no 64-bit collision
among at most `len + partitionCount` values.) -/
def TieFree (c : Consts) (h : HashFn) (l : List String) : Prop :=
  ∀ a ∈ l, ∀ b ∈ l,
    ∀ s ∈ seeds h (partitionsPerPeer c l.length) c.peerSeed,
    ∀ s' ∈ seeds h (partitionsPerPeer c l.length) c.peerSeed,
      h a s = h b s' → a = b

/-- The owner computed by the executable model for the peer list `l` (any order). -/
def ownerOf (c : Consts) (h : HashFn) (l : List String) (id : String) : Option String :=
  whichShard h (sortAddrs l) (table c h (sortAddrs l)) id

/-- A node holds the list `L`: its `d.peers` is the sorted form of some rearrangement of `L` and
its `d.hashes` is one of the tables the unstable sort can produce for it. -/
structure Configured (c : Consts) (h : HashFn) (L : List String) (n : Node) : Prop where
  peers : ∃ l, l.Perm L ∧ n.peers = sortAddrs l
  table : IsTable c h n.peers n.hashes

/-- A stably configured cluster: every node holds `L` and found itself (`myShard` = its own
instance id), and every listed address is a node. -/
structure Stable (c : Consts) (h : HashFn) (L : List String) (nodes : List Node) : Prop where
  conf : ∀ n ∈ nodes, Configured c h L n
  me : ∀ n ∈ nodes, n.my = n.self
  all : ∀ a ∈ L, ∃ m ∈ nodes, m.self = a

end Refinery.Model.Sharder
