import Refinery.Basic.AList
import Refinery.Model.Rates
/-!
# Content of forwarded spans  (properties C04, C06)

Model of what `collect.InMemCollector` writes on a span before it hands it to the transmission,
on the three paths a span can take:

* on time   — `processSpan` buffers it, `makeDecision` + `send` decide the trace (root counts are
              written on `trace.RootSpan` there already), `sendTraces` decorates and forwards
* late      — `processSpan` finds a decision record (`sampleCache.CheckSpan`, which also counts
              the span in the kept record) and calls `dealWithSentTrace`
* stress    — `ProcessSpanImmediately` (decision record if there is one, else
              `StressRelief.GetSampleRate` and a fresh record made from an empty trace)

The sampler's answer and the stress reliever's answer are parameters of the operations.  A span's
payload is modelled by the fields Refinery can write (`types.Payload.Set`): `int64` metadata
fields read back as absent when they hold 0, string metadata fields when they hold "".
The hostname is captured once (`Start`) and never re-read; everything else is read from the
configuration at the moment of use.  The decision record stores the rate at full `uint` width and
`uint32` counters.  Eviction of decision records is not modelled (the harness sizes the caches so that it
does not happen).
-/
namespace Refinery.Model.Decorate
open Refinery Refinery.Model.Rates

inductive Val where
  | str (s : String)
  | int (i : Int)
  | nat (n : Nat)      -- a Go `uint` stored in the generic field map
  | bool (b : Bool)
  deriving Repr, DecidableEq, Inhabited

abbrev Fields := AList String Val

/-! field names (`types/payload.go`, `config.DryRunFieldName`, `collect.go`) -/
def kHost := "meta.refinery.local_hostname"
def kStressed := "meta.stressed"
def kReason := "meta.refinery.reason"
def kSendReason := "meta.refinery.send_reason"
def kSpanEventCount := "meta.span_event_count"
def kSpanLinkCount := "meta.span_link_count"
def kSpanCount := "meta.span_count"
def kEventCount := "meta.event_count"
def kOriginal := "meta.refinery.original_sample_rate"
def kFinal := "meta.refinery.final_sample_rate"
def kSampleKey := "meta.refinery.sample_key"
def kDryKept := "meta.refinery.dryrun.kept"
def kDryRate := "meta.dryrun.sample_rate"

def sendGotRoot := "trace_send_got_root"
def sendExpired := "trace_send_expired"
def sendLateSpan := "trace_send_late_span"
def lateSuffix := " - late arriving span"
def lateOnly := "late arriving span"

/-- every field name Refinery itself writes; additional attributes are assumed not to use them -/
def reserved : List String :=
  [kHost, kStressed, kReason, kSendReason, kSpanEventCount, kSpanLinkCount, kSpanCount, kEventCount,
   kOriginal, kFinal, kSampleKey, kDryKept, kDryRate]

/-- `Payload.Set` on an `int64` metadata field. -/
def setInt (f : Fields) (k : String) (v : Int) : Fields :=
  if v = 0 then AList.del f k else AList.put f k (.int v)

/-- `Payload.Set` on a string metadata field. -/
def setStr (f : Fields) (k : String) (v : String) : Fields :=
  if v = "" then AList.del f k else AList.put f k (.str v)

/-- `Payload.Set` on a `nullableBool` metadata field or on any non-metadata key. -/
def setAny (f : Fields) (k : String) (v : Val) : Fields := AList.put f k v

/-- `addAdditionalAttributes` (a Go map: keys are distinct, so the order is immaterial). -/
def addAttrs (f : Fields) (attrs : List (String × String)) : Fields :=
  attrs.foldl (fun f kv => setAny f kv.1 (.str kv.2)) f

inductive Kind where
  | span | event | link
  deriving Repr, DecidableEq, Inhabited

structure Span where
  sid : Nat
  kind : Kind
  root : Bool
  rate : Nat          -- `SampleRate` (as received until `mergeTraceAndSpanSampleRates` rewrites it)
  fields : Fields
  deriving Repr, DecidableEq, Inhabited

/-- The options read at forwarding time (all `reload: true` in configMeta.yaml). -/
structure Cfg where
  attrs : List (String × String) := []
  host : Bool := false          -- AddHostMetadataToTrace (only `Start` reads it)
  reason : Bool := false        -- AddRuleReasonToTrace
  spanCount : Bool := false     -- AddSpanCountToRoot
  counts : Bool := false        -- AddCountsToRoot
  dry : Bool := false           -- DryRun
  deriving Repr, DecidableEq, Inhabited

/-- `keptTraceCacheEntry`. -/
structure Rec where
  rate : Nat
  reason : String
  desc : Nat
  events : Nat
  links : Nat
  spans : Nat
  deriving Repr, DecidableEq, Inhabited

def countKind (k : Kind) (l : List Span) : Nat := (l.filter (fun sp => sp.kind = k)).length

/-- `keptTraceCacheEntry.Count`. -/
def Rec.count (r : Rec) (k : Kind) : Rec :=
  let r := { r with desc := (r.desc + 1) % two32 }
  match k with
  | .event => { r with events := (r.events + 1) % two32 }
  | .link => { r with links := (r.links + 1) % two32 }
  | .span => { r with spans := (r.spans + 1) % two32 }

/-- the root decoration shared by `send`, `sendTraces` and `dealWithSentTrace` -/
def setRootCounts (cfg : Cfg) (f : Fields) (desc events links spans : Nat) : Fields :=
  if cfg.counts then
    setInt (setInt (setInt (setInt f kSpanEventCount events) kSpanLinkCount links) kSpanCount spans)
      kEventCount desc
  else if cfg.spanCount then setInt f kSpanCount desc
  else f

/-- the root decoration from the live trace's own (`uint32`) counters (`send`, `sendTraces`) -/
def traceRootCounts (cfg : Cfg) (spans : List Span) (sp : Span) : Span :=
  let f := setRootCounts cfg sp.fields (spans.length % two32) (countKind .event spans % two32)
    (countKind .link spans % two32) (countKind .span spans % two32)
  { sp with fields := f }

/-- `mergeTraceAndSpanSampleRates`. -/
def applyMerge (sp : Span) (traceRate : Nat) (dry : Bool) : Span :=
  let m := merge sp.rate traceRate dry
  let f := match m.original with | some v => setInt sp.fields kOriginal v | none => sp.fields
  let f := match m.dryRate with | some v => setAny f kDryRate (.nat v) | none => f
  let f := match m.final with | some v => setInt f kFinal v | none => f
  { sp with rate := m.rate, fields := f }

def setHost (f : Fields) (host : String) : Fields := if host ≠ "" then setStr f kHost host else f

/-- The sampler's answer for a trace (`Sampler.GetSampleRate`). -/
structure Decision where
  rate : Nat
  keep : Bool
  reason : String
  key : String
  deriving Repr, DecidableEq, Inhabited

/-- `sendableTrace` waiting in `tracesToSend`. -/
structure Pending where
  tid : String
  spans : List Span
  reason : String
  sendReason : String
  key : String
  shouldSend : Bool
  rate : Nat
  deriving Repr, DecidableEq, Inhabited

/-- what the loop body of `sendTraces` writes before the rate merge -/
def preOnTime (cfg : Cfg) (host : String) (p : Pending) (sp : Span) : Fields :=
  let f := sp.fields
  let f := if cfg.reason then
      let f := setStr (setStr f kReason p.reason) kSendReason p.sendReason
      if p.key ≠ "" then setStr f kSampleKey p.key else f
    else f
  let f := if sp.root then (traceRootCounts cfg p.spans { sp with fields := f }).fields else f
  let f := if cfg.dry then setAny f kDryKept (.bool p.shouldSend) else f
  setHost f host

/-- loop body of `sendTraces` for one span -/
def fwdOnTime (cfg : Cfg) (host : String) (p : Pending) (sp : Span) : Span :=
  let sp := applyMerge { sp with fields := preOnTime cfg host p sp } p.rate cfg.dry
  { sp with fields := addAttrs sp.fields cfg.attrs }

/-- what `dealWithSentTrace` writes before it looks at the decision -/
def preLate (cfg : Cfg) (host : String) (kept : Option Rec) (sp : Span) : Fields :=
  let keptReason := match kept with | some r => r.reason | none => ""
  let f := sp.fields
  let f := if cfg.reason then
      let mr := if keptReason ≠ "" then keptReason ++ lateSuffix else lateOnly
      setStr (setStr f kReason mr) kSendReason sendLateSpan
    else f
  let f := setHost f host
  if cfg.dry then setAny f kDryKept (.bool kept.isSome) else f

/-- `dealWithSentTrace`; `kept = none` is the dropped record. `none`: the span is dropped. -/
def fwdLate (cfg : Cfg) (host : String) (kept : Option Rec) (sp : Span) : Option Span :=
  let f := preLate cfg host kept sp
  match kept with
  | none => if cfg.dry then some { sp with fields := addAttrs f cfg.attrs } else none
  | some r =>
    let sp := applyMerge { sp with fields := f } r.rate cfg.dry
    let f := if sp.root then setRootCounts cfg sp.fields r.desc r.events r.links r.spans else sp.fields
    some { sp with fields := addAttrs f cfg.attrs }

/-- what `ProcessSpanImmediately` writes before the rate merge -/
def preStress (cfg : Cfg) (host : String) (reason : String) (sp : Span) : Fields :=
  let f := setAny sp.fields kStressed (.bool true)
  let f := if cfg.reason then setStr f kReason reason else f
  let f := setHost f host
  addAttrs f cfg.attrs

/-- the forwarding half of `ProcessSpanImmediately` -/
def fwdStress (cfg : Cfg) (host : String) (rate : Nat) (reason : String) (sp : Span) : Span :=
  applyMerge { sp with fields := preStress cfg host reason sp } rate cfg.dry

/-- per trace id: the buffered trace (if any) and the two halves of the decision record -/
structure TraceSt where
  live : Option (List Span) := none
  dropped : Bool := false
  kept : Option Rec := none
  deriving Repr, DecidableEq, Inhabited

structure St where
  cfg : Cfg
  host : String                      -- `InMemCollector.hostname`
  traces : AList String TraceSt := []
  pending : List Pending := []
  deriving Repr, DecidableEq

inductive Op where
  | span (tid : String) (sp : Span)                                  -- processSpan
  | decide (tid : String) (d : Option Decision)                      -- expiry of that trace
  | drain                                                            -- sendTraces takes one trace
  | stress (tid : String) (sp : Span) (sr : Option (Nat × Bool × String))  -- ProcessSpanImmediately
  | reload (cfg : Cfg)
  deriving Repr

inductive Out where
  | none
  | buf
  | late (sp : Span)
  | lateDrop
  | noTrace
  | dropped
  | queued
  | empty
  | sent (tid : String) (spans : List Span)
  | stressDrop
  | fwd (sp : Span)
  | bad
  deriving Repr, DecidableEq

/-- `cuckooSentCache.CheckSpan`: `none` = no record; `some none` = dropped; `some (some r)` = kept
record, already counting this span. -/
def checkSpan (t : TraceSt) (k : Kind) : Option (Option Rec) × TraceSt :=
  if t.dropped then (some none, t)
  else match t.kept with
    | some r => (some (some (r.count k)), { t with kept := some (r.count k) })
    | none => (none, t)

/-- `NewKeptTraceCacheEntry` -/
def mkRec (rate : Nat) (reason : String) (spans : List Span) : Rec :=
  { rate := rate, reason := reason, desc := spans.length % two32,
    events := countKind .event spans % two32, links := countKind .link spans % two32,
    spans := countKind .span spans % two32 }

/-- `cuckooSentCache.Record` -/
def record (t : TraceSt) (rate : Nat) (keep : Bool) (reason : String) (spans : List Span) : TraceSt :=
  if keep then { t with kept := some (mkRec rate reason spans) } else { t with dropped := true }

/-- apply `g` to `trace.RootSpan`, the last root span that was added -/
def updLastRoot (g : Span → Span) : List Span → List Span
  | [] => []
  | sp :: rest =>
    if rest.any (·.root) then sp :: updLastRoot g rest
    else if sp.root then g sp :: rest else sp :: rest

def lateOut : Option Span → Out
  | some sp => .late sp
  | none => .lateDrop

def getT (s : St) (tid : String) : TraceSt := (AList.get s.traces tid).getD {}
def putT (s : St) (tid : String) (t : TraceSt) : St := { s with traces := AList.put s.traces tid t }

def step (s : St) : Op → St × Out
  | .span tid sp =>
    let t := getT s tid
    match t.live with
    | some spans => (putT s tid { t with live := some (spans ++ [sp]) }, .buf)
    | none =>
      match checkSpan t sp.kind with
      | (some r, t') =>
        (putT s tid t', lateOut (fwdLate s.cfg s.host r sp))
      | (none, _) => (putT s tid { t with live := some [sp] }, .buf)
  | .decide tid d =>
    let t := getT s tid
    match t.live, d with
    | none, _ => (s, .noTrace)
    | some _, none => (s, .bad)
    | some spans, some d =>
      let s' := putT s tid { (record t d.rate d.keep d.reason spans) with live := none }
      if !d.keep && !s.cfg.dry then (s', .dropped)
      else
        let spans' := updLastRoot (traceRootCounts s.cfg spans) spans
        let sr := if spans.any (·.root) then sendGotRoot else sendExpired
        let p : Pending := ⟨tid, spans', d.reason, sr, d.key, d.keep, d.rate⟩
        ({ s' with pending := s'.pending ++ [p] }, .queued)
  | .drain =>
    match s.pending with
    | [] => (s, .empty)
    | p :: rest => ({ s with pending := rest }, .sent p.tid (p.spans.map (fwdOnTime s.cfg s.host p)))
  | .stress tid sp sr =>
    let t := getT s tid
    match checkSpan t sp.kind, sr with
    | (some none, t'), none => (putT s tid t', .stressDrop)
    | (some (some r), t'), none => (putT s tid t', .fwd (fwdStress s.cfg s.host r.rate r.reason sp))
    | (some _, _), some _ => (s, .bad)
    | (none, _), none => (s, .bad)
    | (none, _), some (rate, keep, reason) =>
      let s' := putT s tid (record t rate keep reason [])
      if keep then (s', .fwd (fwdStress s.cfg s.host rate reason sp)) else (s', .stressDrop)
  | .reload cfg => ({ s with cfg := cfg }, .none)

/-- `Start`: the hostname is read when (and only when) AddHostMetadataToTrace is on at start. -/
def init (cfg : Cfg) (hostname : String) : St :=
  { cfg := cfg, host := if cfg.host then hostname else "" }

def run (s : St) (ops : List Op) : St := ops.foldl (fun s o => (step s o).1) s

end Refinery.Model.Decorate
