/-!
# Model of the usage tracker and the agent's usage send loop  (property C34)

Code: `agent/usage_report.go` (`usageTracker.Add / NewReport / completeSend`) and
`agent/agent.go` (`sendUsageReport`).

The tracker keeps three Go maps `signal ↦ float64`:
`lastUsageData` (last cumulative reading), `currentDataPoints` (growth since the last report) and
`lastDataPoints` (what the last report contained, kept "until we know the report was sent").

The model keeps the same three stores, but instead of one number per signal it keeps the *bag of
contributions* the number is the sum of: every effective `Add` call creates one contribution
`(signal, id, delta)` with a fresh ghost identity.  A Go map entry exists for a signal iff the bag
has a contribution of that signal (`Add` creates the entry even when the delta is 0); its value is
the sum of the amounts (`tot`).  Readings are naturals (counter values; the harness only feeds
integers below 2^53, where float64 arithmetic is exact), so all sums are integers.

Operations (the calls the two agent goroutines make, in any interleaving):
* `add s v`   — `Add(signal, reading)`             (health-check loop)
* `report`    — `NewReport(...)`; on success the send loop now *holds* that report
* `sent`      — `completeSend()`: the send loop saw the held report go out
* `fail`      — the send loop gives up on the held report (`SendCustomMessage` failed): no call

One iteration of `sendUsageReport` is `report`, then (only if a report was made) any number of
concurrent `add`s, then `sent` (outcomes *success* and *pending-then-success*) or `fail`
(outcomes *failure*, *pending-then-failure*).

Ghost state (not in the code): `next` id, the report `held` by the send loop, `limbo` = the
contributions that are carried by the held report only (no longer in any tracker map),
`delivered` = the reports that went out, `lost` = contributions that can never be sent any more,
`spurious` = a `completeSend` happened with no report held (the agent never does that).

`fixed = false` is the code as it is: `lastDataPoints = currentDataPoints` (overwrite).
`fixed = true` is the proposed repair: merge the current data points into `lastDataPoints`.
-/
namespace Refinery.Model.Usage

/-- One effective `Add` call: signal, ghost identity, delta to the previous reading. -/
structure Contrib where
  sig : Nat
  id : Nat
  amt : Int
  deriving Repr, DecidableEq

abbrev Bag := List Contrib

/-- additive measure of a bag -/
def wsum (f : Contrib → Int) : Bag → Int
  | [] => 0
  | c :: t => f c + wsum f t

/-- value of the Go map entry for signal `s` -/
def tot (s : Nat) (b : Bag) : Int := wsum (fun c => if c.sig = s then c.amt else 0) b

/-- how many contributions of the bag have identity `i` -/
def cnt (i : Nat) (b : Bag) : Int := wsum (fun c => if c.id = i then 1 else 0) b

/-- the Go map has an entry for signal `s` -/
def has (s : Nat) (b : Bag) : Bool := b.any (fun c => c.sig == s)

/-- `convertFloat64ToInt64` refuses some entry of the map (`invalid negative value`) -/
def negIn (b : Bag) : Bool := b.any (fun c => decide (tot c.sig b < 0))

/-- the data point a map contributes to a report for signal `s` -/
def dataPoint (s : Nat) (b : Bag) : List Int := if has s b then [tot s b] else []

/-- A usage report: the data points from `currentDataPoints` and those from `lastDataPoints`. -/
structure Report where
  fresh : Bag
  carried : Bag
  deriving Repr, DecidableEq

def Report.all (r : Report) : Bag := r.fresh ++ r.carried

/-- the data point values the report contains for signal `s` (one per map that has the signal) -/
def Report.points (r : Report) (s : Nat) : List Int := dataPoint s r.fresh ++ dataPoint s r.carried

structure St where
  lastUsage : Nat → Nat := fun _ => 0      -- lastUsageData (absent = 0)
  cur : Bag := []                           -- currentDataPoints
  last : Bag := []                          -- lastDataPoints
  -- ghost
  next : Nat := 0
  held : Option Report := none
  limbo : Bag := []
  delivered : List Report := []
  lost : Bag := []
  spurious : Bool := false

inductive Op where
  | add (s v : Nat)
  | report
  | sent
  | fail
  deriving Repr, DecidableEq

inductive Out where
  | none
  | report (r : Report)
  | noData          -- errNoData
  | negative        -- "invalid negative value"
  deriving Repr, DecidableEq

/-- `Add`: a zero reading is ignored; otherwise the delta to the previous reading is added to the
current data point and the reading remembered. -/
def addReading (st : St) (s v : Nat) : St :=
  if v = 0 then st else
    { st with
      cur := st.cur ++ [⟨s, st.next, (v : Int) - (st.lastUsage s : Int)⟩]
      lastUsage := fun s' => if s' = s then v else st.lastUsage s'
      next := st.next + 1 }

/-- `NewReport`.  Errors leave the tracker untouched. -/
def newReport (fixed : Bool) (st : St) : St × Out :=
  if st.cur.isEmpty && st.last.isEmpty then (st, .noData)
  else if negIn st.cur || negIn st.last then (st, .negative)
  else
    let r : Report := ⟨st.cur, st.last⟩
    ({ st with
        cur := []
        last := if fixed then st.last ++ st.cur else st.cur     -- as is: overwrite
        held := some r
        lost := st.lost ++ st.limbo        -- a report still held is silently abandoned
        limbo := if fixed then [] else st.last }, .report r)

/-- `completeSend` -/
def completeSend (st : St) : St :=
  match st.held with
  | some r => { st with last := [], limbo := [], held := none, delivered := st.delivered ++ [r] }
  | none => { st with last := [], lost := st.lost ++ st.last, spurious := true }

/-- the send loop returns an error after a report was made: nothing is called -/
def giveUp (st : St) : St :=
  { st with lost := st.lost ++ st.limbo, limbo := [], held := none }

def step (fixed : Bool) (st : St) : Op → St × Out
  | .add s v => (addReading st s v, .none)
  | .report => newReport fixed st
  | .sent => (completeSend st, .none)
  | .fail => (giveUp st, .none)

def runFrom (fixed : Bool) (st : St) (ops : List Op) : St :=
  ops.foldl (fun s o => (step fixed s o).1) st

def run (fixed : Bool) (ops : List Op) : St := runFrom fixed {} ops

/-! ## The agent's send loop as a whole

`Agent.sendUsageReport`: `NewReport`; on error return it.  Otherwise `SendCustomMessage` (once, or
twice when the first answer is "pending"); meanwhile the health-check goroutine may call `Add`
(`mids`); if the client accepted the message wait for it to go out and call `completeSend`
(`deliver = true`: outcomes success / pending-then-success), otherwise return the error
(`deliver = false`: failure / pending-then-failure). -/

inductive AOp where
  | add (s v : Nat)
  | tick (deliver : Bool) (mids : List (Nat × Nat))
  deriving Repr, DecidableEq

/-- the tracker calls (and give-ups) an agent-level operation performs in state `st` -/
def AOp.expand (fixed : Bool) (st : St) : AOp → List Op
  | .add s v => [.add s v]
  | .tick deliver mids =>
    match (step fixed st .report).2 with
    | .report _ => .report :: (mids.map fun m => Op.add m.1 m.2) ++ [if deliver then .sent else .fail]
    | _ => [.report]

def astep (fixed : Bool) (st : St) (a : AOp) : St := runFrom fixed st (a.expand fixed st)

def arunFrom (fixed : Bool) (st : St) (as : List AOp) : St := as.foldl (astep fixed) st

def arun (fixed : Bool) (as : List AOp) : St := arunFrom fixed {} as

/-- the history of tracker calls an agent-level history amounts to -/
def aops (fixed : Bool) (st : St) : List AOp → List Op
  | [] => []
  | a :: r => a.expand fixed st ++ aops fixed (astep fixed st a) r

/-! ### The send loop's control flow over the client's answers

`SendCustomMessage` answers each call with: accepted (no error; the returned channel is closed once
the message went out), pending (`ErrCustomMessagePending` + the channel of the message occupying
the slot), or another error.  A channel may also never be closed before the agent shuts down
(`…Hang`: the loop then leaves through `ctx.Done()`).  `loopRes` is `sendUsageReport` after a
successful `NewReport`: how many calls it makes, how it ends, whether the client accepted the
report, and whether it consumed a hanging answer (the agent is shut down: nothing follows).
A script that is too short is continued with errors. -/

inductive Resp where
  | acc | accHang | pend | pendHang | err
  deriving Repr, DecidableEq

inductive LoopEnd where
  | completed        -- completeSend called, returns nil
  | sendErr          -- returns the client's error
  | stillPending     -- returns ErrCustomMessagePending (the single retry was refused too)
  | cancelled        -- returns ctx.Err()
  deriving Repr, DecidableEq

structure LoopRes where
  sends : Nat
  fin : LoopEnd
  accepted : Bool
  dead : Bool
  deriving Repr, DecidableEq

/-- the single retry after "pending, then that message went out" -/
def retryRes : List Resp → LoopRes
  | .acc :: _ => ⟨2, .completed, true, false⟩
  | .accHang :: _ => ⟨2, .cancelled, true, true⟩
  | .pend :: _ => ⟨2, .stillPending, false, false⟩
  | .pendHang :: _ => ⟨2, .stillPending, false, true⟩
  | .err :: _ => ⟨2, .sendErr, false, false⟩
  | [] => ⟨2, .sendErr, false, false⟩

def loopRes : List Resp → LoopRes
  | .acc :: _ => ⟨1, .completed, true, false⟩
  | .accHang :: _ => ⟨1, .cancelled, true, true⟩
  | .pend :: t => retryRes t
  | .pendHang :: _ => ⟨1, .cancelled, false, true⟩
  | .err :: _ => ⟨1, .sendErr, false, false⟩
  | [] => ⟨1, .sendErr, false, false⟩

/-- one loop iteration with a scripted client: `completeSend` exactly when the loop completes -/
def AOp.ofScript (script : List Resp) (mids : List (Nat × Nat)) : AOp :=
  .tick (decide ((loopRes script).fin = .completed)) mids

/-! ### The reporting loop (`reportUsagePeriodically`) against a one-slot client

The loop runs `sendUsageReport` *synchronously* on every tick of its ticker (channel of capacity 1:
one tick is remembered while the loop is busy, further ones are dropped).  The OpAMP client holds
at most one custom message; while the slot is occupied `SendCustomMessage` answers "pending" with
the occupant's channel; the channel is closed when the occupant has gone out (`confirm`).
`accept` is how the client answers when the slot is free (accept / other error). -/

inductive Phase where
  | idle                         -- at the loop's select
  | waitOther (r : Report)       -- first send answered "pending": waiting for the occupant
  | waitOwn (r : Report)         -- report accepted: waiting for it to go out
  deriving Repr, DecidableEq

inductive Slot where
  | free | other | report (r : Report)
  deriving Repr, DecidableEq

structure LSt where
  st : St := {}
  phase : Phase := .idle
  slot : Slot := .free
  tickBuf : Bool := false
  accept : Bool := true

inductive LOp where
  | add (s v : Nat)
  | tick (accept : Bool)        -- one report interval elapses
  | confirm (accept : Bool)     -- the message in the slot has gone out
  | other                       -- some other custom message takes the slot
  deriving Repr, DecidableEq

/-- result of a loop-level operation: new state, the tracker calls made, the reports the client
accepted, the number of `SendCustomMessage` calls -/
structure LRes where
  l : LSt
  trace : List Op := []
  acc : List Report := []
  sends : Nat := 0

/-- the loop takes a tick: `NewReport`, first `SendCustomMessage` -/
def startIter (fixed : Bool) (l : LSt) : LRes :=
  match step fixed l.st .report with
  | (st1, .report r) =>
    match l.slot with
    | .free =>
      if l.accept then ⟨{ l with st := st1, phase := .waitOwn r, slot := .report r }, [.report], [r], 1⟩
      else ⟨{ l with st := (step fixed st1 .fail).1 }, [.report, .fail], [], 1⟩
    | _ => ⟨{ l with st := st1, phase := .waitOther r }, [.report], [], 1⟩
  | (st1, _) => ⟨{ l with st := st1 }, [.report], [], 0⟩

/-- back at the select: a remembered tick starts the next iteration at once -/
def drain (fixed : Bool) (l : LSt) : LRes :=
  if l.tickBuf then startIter fixed { l with tickBuf := false } else ⟨l, [], [], 0⟩

def LRes.andThen (a : LRes) (f : LSt → LRes) : LRes :=
  let b := f a.l
  ⟨b.l, a.trace ++ b.trace, a.acc ++ b.acc, a.sends + b.sends⟩

def lstep (fixed : Bool) (l : LSt) : LOp → LRes
  | .add s v => ⟨{ l with st := (step fixed l.st (.add s v)).1 }, [.add s v], [], 0⟩
  | .tick a =>
    let l := { l with accept := a }
    match l.phase with
    | .idle => startIter fixed l
    | _ => ⟨{ l with tickBuf := true }, [], [], 0⟩
  | .other =>
    match l.slot with
    | .free => ⟨{ l with slot := .other }, [], [], 0⟩
    | _ => ⟨l, [], [], 0⟩
  | .confirm a =>
    let l := { l with accept := a }
    match l.slot with
    | .free => ⟨l, [], [], 0⟩
    | _ =>
      let l := { l with slot := .free }
      match l.phase with
      | .idle => ⟨l, [], [], 0⟩
      | .waitOwn _ =>
        LRes.andThen ⟨{ l with st := (step fixed l.st .sent).1, phase := .idle }, [.sent], [], 0⟩ (drain fixed)
      | .waitOther r =>
        if l.accept then ⟨{ l with phase := .waitOwn r, slot := .report r }, [], [r], 1⟩
        else LRes.andThen ⟨{ l with st := (step fixed l.st .fail).1, phase := .idle }, [.fail], [], 1⟩ (drain fixed)

def lrunFrom (fixed : Bool) (l : LSt) (ops : List LOp) : LSt := ops.foldl (fun l o => (lstep fixed l o).l) l

def lrun (fixed : Bool) (ops : List LOp) : LSt := lrunFrom fixed {} ops

/-- the history of tracker calls a loop-level history amounts to -/
def ltrace (fixed : Bool) (l : LSt) : List LOp → List Op
  | [] => []
  | o :: r => (lstep fixed l o).trace ++ ltrace fixed (lstep fixed l o).l r

/-! ## Quantities of the property -/

/-- every contribution the model still knows about, wherever it is -/
def St.everything (st : St) : Bag :=
  st.cur ++ st.last ++ st.limbo ++ st.lost ++ st.delivered.flatMap Report.all

/-- usage of signal `s` carried by successfully sent reports -/
def St.sentTotal (st : St) (s : Nat) : Int := tot s (st.delivered.flatMap Report.all)

/-- usage of signal `s` still waiting to be sent: in the tracker's two maps or only in the report
the send loop is holding right now -/
def St.waiting (st : St) (s : Nat) : Int := tot s st.cur + tot s st.last + tot s st.limbo

def St.lostTotal (st : St) (s : Nat) : Int := tot s st.lost

/-! ## History-level notions (independent of the model state) -/

def readStep (lr : Nat → Nat) : Op → (Nat → Nat)
  | .add s v => if v = 0 then lr else fun s' => if s' = s then v else lr s'
  | _ => lr

/-- last non-zero reading of each signal = growth of the counter since start (counters start at 0) -/
def lastReading (ops : List Op) : Nat → Nat := ops.foldl readStep (fun _ => 0)

/-- every non-zero reading of a signal is at least the previous one (the counter never restarts) -/
def MonotoneFrom (lr : Nat → Nat) : List Op → Prop
  | [] => True
  | op :: r =>
    (match op with
      | .add s v => v = 0 ∨ lr s ≤ v
      | _ => True) ∧ MonotoneFrom (readStep lr op) r

def Monotone (ops : List Op) : Prop := MonotoneFrom (fun _ => 0) ops

/-- No report attempt fails while it carries the usage of an earlier failed attempt: between two
failures (`fail`, or a `report` made while another report is still held) there is a `sent`.
Flags: `d` a failure happened since the last `sent`; `o` a report was made since the last
`sent`/`fail`. -/
def noTwoFails : Bool → Bool → List Op → Bool
  | _, _, [] => true
  | d, o, .add _ _ :: r => noTwoFails d o r
  | d, o, .report :: r => if o then (if d then false else noTwoFails true true r) else noTwoFails d true r
  | d, _, .fail :: r => if d then false else noTwoFails true false r
  | _, _, .sent :: r => noTwoFails false false r

end Refinery.Model.Usage
