import Refinery.Basic.AList
import Refinery.Basic.Sort
/-!
# Model of `internal/health.Health`  (property C30)

Durations are nanoseconds (`Int`, as `time.Duration`), subsystems are `Nat` (the harness uses
the names "s0","s1",…).  The tick period `T` (`health.TickerTime`) is a parameter of the model;
the oracle and the specialised theorems instantiate it with the value extracted from the code
(`Refinery.Gen.Health.tickerTime`).

The three Go maps the property depends on are kept as they are in the code:

* `timeouts[s]`  registered timeout
* `timeLeft[s]`  countdown; **-1** = registered but no report seen yet, **0** = dead,
                 positive = time left.  `Register` writes the literal `-1`, `Ready` writes
                 `timeouts[s]`, every tick subtracts `T` from *positive* counters only and
                 clamps at `0`, `Unregister` deletes the entry.
* `readies[s]`   never deleted; `Register` and `Unregister` write `false`, an accepted `Ready`
                 writes the reported flag.  `Ready` for a subsystem without a `timeouts` entry
                 is ignored.

`checkAlive`  = no counter **equal to 0**;
`checkReady`  = `readies` non-empty ∧ every counter `> 0` ∧ every `readies` flag true.

Not modelled: the `alives` map (only drives log lines), the metrics gauges, logging.  No `int64`
overflow can occur in the code (`v - T` is only computed for `v > 0`), so `Int` is exact.
-/
namespace Refinery.Model.Health

/-- apply `f` to every value (the tick loop over `timeLeft`) -/
def mapVals (f : Int → Int) (l : AList Nat Int) : AList Nat Int := l.map (fun p => (p.1, f p.2))

structure St where
  timeouts : AList Nat Int := []
  timeLeft : AList Nat Int := []
  readies : AList Nat Bool := []
  deriving Repr

/-- operations of the untimed machine: the three `Recorder` calls and one firing of the ticker -/
inductive Op where
  | register (s : Nat) (t : Int)
  | unregister (s : Nat)
  | report (s : Nat) (ready : Bool)
  | tick
  deriving Repr, DecidableEq

/-- body of the ticker loop for one counter:
`if timeLeft > 0 { timeLeft -= TickerTime; if timeLeft < 0 { timeLeft = 0 } }` -/
def tickOne (T : Nat) (v : Int) : Int :=
  if v > 0 then (if v - (T : Int) < 0 then 0 else v - (T : Int)) else v

def step (T : Nat) (st : St) : Op → St
  | .register s t =>
    { timeouts := AList.put st.timeouts s t
      readies := AList.put st.readies s false
      timeLeft := AList.put st.timeLeft s (-1) }
  | .unregister s =>
    { timeouts := AList.del st.timeouts s
      timeLeft := AList.del st.timeLeft s
      readies := AList.put st.readies s false }
  | .report s r =>
    match AList.get st.timeouts s with
    | none => st                        -- unregistered (or never registered): ignored
    | some t => { st with readies := AList.put st.readies s r, timeLeft := AList.put st.timeLeft s t }
  | .tick => { st with timeLeft := mapVals (tickOne T) st.timeLeft }

/-- `checkAlive`: "if any counter is 0, we're dead" -/
def isAlive (st : St) : Bool := st.timeLeft.all (fun p => p.2 != 0)

/-- `checkReady` -/
def isReady (st : St) : Bool :=
  !st.readies.isEmpty && st.timeLeft.all (fun p => decide (p.2 > 0)) && st.readies.all (fun p => p.2)

def runFrom (T : Nat) (st : St) (ops : List Op) : St := ops.foldl (step T) st
def run (T : Nat) (ops : List Op) : St := runFrom T {} ops

/-! ## Wall-clock layer

The ticker is created when `Start` runs (instant 0 of the model's clock) and fires at every
positive multiple of `T`.  A clock advance of `d` from instant `now` therefore contains
`(now+d)/T - now/T` firings; nothing else depends on the clock. -/

inductive TOp where
  | register (s : Nat) (t : Int)
  | unregister (s : Nat)
  | report (s : Nat) (ready : Bool)
  | adv (d : Nat)
  deriving Repr, DecidableEq

/-- number of tick instants `k·T` (k ≥ 1) in the half-open interval `(now, now+d]` -/
def ticksIn (T now d : Nat) : Nat := (now + d) / T - now / T

def expand (T now : Nat) : TOp → List Op
  | .register s t => [.register s t]
  | .unregister s => [.unregister s]
  | .report s r => [.report s r]
  | .adv d => List.replicate (ticksIn T now d) .tick

def dur : TOp → Nat
  | .adv d => d
  | _ => 0

/-- the subsystem an operation is about -/
def subject : TOp → Option Nat
  | .register s _ => some s
  | .unregister s => some s
  | .report s _ => some s
  | .adv _ => none

structure TSt where
  core : St := {}
  now : Nat := 0
  deriving Repr

def tstep (T : Nat) (ts : TSt) (o : TOp) : TSt :=
  { core := runFrom T ts.core (expand T ts.now o), now := ts.now + dur o }

def trun (T : Nat) (tops : List TOp) : TSt := tops.foldl (tstep T) {}

/-- the untimed history a timed history stands for, starting at instant `now` -/
def compile (T : Nat) : Nat → List TOp → List Op
  | _, [] => []
  | now, o :: os => expand T now o ++ compile T (now + dur o) os

/-! ## History-indexed specification, per subsystem

What the property talks about: whether the subsystem was ever mentioned, whether its most recent
register/unregister was a register (and with which timeout), and the most recent report accepted
since that registration. -/

structure Track where
  known : Bool := false                 -- ever registered or unregistered
  reg : Option Int := none              -- currently registered, with this timeout
  rep : Option (Nat × Bool) := none     -- (ticks fired since the latest accepted report, its flag)
  deriving Repr, DecidableEq

def Track.step (s : Nat) (h : Track) : Op → Track
  | .register s' t => if s' = s then { known := true, reg := some t, rep := none } else h
  | .unregister s' => if s' = s then { known := true, reg := none, rep := none } else h
  | .report s' r =>
    if s' = s then (match h.reg with | some _ => { h with rep := some (0, r) } | none => h) else h
  | .tick => { h with rep := h.rep.map (fun p => (p.1 + 1, p.2)) }

def trackFrom (s : Nat) (h : Track) (ops : List Op) : Track := ops.foldl (Track.step s) h
def track (s : Nat) (ops : List Op) : Track := trackFrom s {} ops

/-- a counter that started at `t` after `k` ticks -/
def decay (T : Nat) (t : Int) : Nat → Int
  | 0 => t
  | k + 1 => tickOne T (decay T t k)

/-- the same, for timed histories: the clock and the instant of the latest accepted report -/
structure TTrack where
  now : Nat := 0
  known : Bool := false
  reg : Option Int := none
  rep : Option (Nat × Bool) := none     -- (instant of the latest accepted report, its flag)
  deriving Repr, DecidableEq

def TTrack.step (s : Nat) (h : TTrack) : TOp → TTrack
  | .register s' t => if s' = s then { h with known := true, reg := some t, rep := none } else h
  | .unregister s' => if s' = s then { h with known := true, reg := none, rep := none } else h
  | .report s' r =>
    if s' = s then (match h.reg with | some _ => { h with rep := some (h.now, r) } | none => h) else h
  | .adv d => { h with now := h.now + d }

def ttrackFrom (s : Nat) (h : TTrack) (tops : List TOp) : TTrack := tops.foldl (TTrack.step s) h
def ttrack (s : Nat) (tops : List TOp) : TTrack := ttrackFrom s {} tops

end Refinery.Model.Health
