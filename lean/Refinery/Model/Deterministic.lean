/-!
# Model of `sample.DeterministicSampler` and of stress-relief sampling  (property C10)

Go code mirrored (as it is now):

```go
// sample/deterministic.go   (after the C28 repair, commit 2ccad7d)
func (d *DeterministicSampler) Start() error {
    d.sampleRate = d.Config.SampleRate                       // int (64 bit), any value: no range validation
    if d.sampleRate > 1 {
        d.upperBound = uint32(math.MaxUint32 / uint64(d.sampleRate))   // 64-bit division, divisor >= 2
    }                                                        // otherwise upperBound stays 0 and is never read
}
func (d *DeterministicSampler) GetSampleRate(trace) (rate uint, keep bool, reason string, key string) {
    if d.sampleRate <= 1 { return 1, true, "deterministic/always", "" }
    sum := sha1.Sum([]byte(trace.TraceID + shardingSalt)); v := binary.BigEndian.Uint32(sum[:4])
    return uint(d.sampleRate), v <= d.upperBound, "deterministic/chance", ""
}
// collect/stressRelief.go
func (s *StressRelief) UpdateFromConfig() {
    s.sampleRate = cfg.SamplingRate                          // uint64
    if s.sampleRate == 0 { s.sampleRate = 1 }
    s.upperBound = math.MaxUint64 / s.sampleRate
}
func (s *StressRelief) GetSampleRate(traceID string) (rate uint, keep bool, reason string) {
    if s.sampleRate <= 1 { return 1, true, "stress_relief/always" }
    hash := wyhash.Hash([]byte(traceID), hashSeed)
    return uint(s.sampleRate), hash <= s.upperBound, "stress_relief/deterministic/" + s.reason
}
```

The hash value (`v`, `hash`) is a **parameter**: the harness computes it with the same library
call and the package's own salt/seed and passes it as an `ext` line; the theorems quantify over
every hash value.  Fixed-width arithmetic is `Nat`/`Int` with the truncation written out
(`toU32`, here of a value that always fits); unsigned division is the checked `udiv` (a zero divisor is the explicit outcome
`panicDivZero`, never `x / 0 = 0`).  `int`/`uint` are 64 bits wide (amd64/arm64).
-/
namespace Refinery.Model.Deterministic

/-- `math.MaxUint32` -/
def maxU32 : Nat := 4294967295
/-- `math.MaxUint64` -/
def maxU64 : Nat := 18446744073709551615

/-- Go conversion `uint32(x)` of a `uint64`: the low 32 bits. -/
def toU32 (x : Nat) : Nat := x % 4294967296

/-- Result of a call that may panic. -/
inductive Outcome (α : Type) where
  | ok (a : α)
  | panicDivZero                    -- "runtime error: integer divide by zero"
  deriving Repr, DecidableEq

/-- Go unsigned integer division. -/
def udiv (a b : Nat) : Outcome Nat := if b = 0 then .panicDivZero else .ok (a / b)

inductive Reason where
  | detAlways      -- "deterministic/always"
  | detChance      -- "deterministic/chance"
  | stressAlways   -- "stress_relief/always"
  | stressDet      -- "stress_relief/deterministic/" ++ s.reason
  deriving Repr, DecidableEq

/-- What `GetSampleRate` returns. -/
structure Decision where
  rate : Nat
  keep : Bool
  reason : Reason
  deriving Repr, DecidableEq

/-! ## Deterministic sampler (32-bit threshold on a SHA-1 prefix) -/

/-- The fields of `DeterministicSampler` that `Start` sets. -/
structure Det where
  sampleRate : Int          -- `int`; the configured value as is
  upperBound : Nat          -- `uint32`
  deriving Repr, DecidableEq

/-- `DeterministicSampler.Start` for a configured `SampleRate`: for `rate > 1` the bound is
`uint32(MaxUint32 / uint64(rate))` (for a positive `int`, `uint64(rate)` is the same number);
otherwise the field keeps its zero value. -/
def Det.start (rate : Int) : Outcome Det :=
  if rate > 1 then
    match udiv maxU32 rate.toNat with
    | .ok q => .ok { sampleRate := rate, upperBound := toU32 q }
    | .panicDivZero => .panicDivZero
  else .ok { sampleRate := rate, upperBound := 0 }

/-- `DeterministicSampler.GetSampleRate`; `h` = big-endian uint32 of the first four bytes of
`sha1(traceID ++ shardingSalt)`. -/
def Det.get (d : Det) (h : Nat) : Decision :=
  if d.sampleRate ≤ 1 then { rate := 1, keep := true, reason := .detAlways }
  else { rate := d.sampleRate.toNat, keep := decide (h ≤ d.upperBound), reason := .detChance }

/-- Construct a sampler for `rate` (as the `SamplerFactory` does) and ask it about hash value `h`. -/
def detSample (rate : Int) (h : Nat) : Outcome Decision :=
  match Det.start rate with
  | .ok d => .ok (d.get h)
  | .panicDivZero => .panicDivZero

/-- keep flag of `detSample`; a sampler that could not be constructed keeps nothing -/
def detKeeps (rate : Int) (h : Nat) : Bool :=
  match detSample rate h with
  | .ok d => d.keep
  | .panicDivZero => false

/-! ## Stress relief (64-bit threshold on wyhash) -/

/-- The fields of `StressRelief` that `UpdateFromConfig` sets and `GetSampleRate` reads. -/
structure Stress where
  sampleRate : Nat          -- `uint64`
  upperBound : Nat          -- `uint64`
  deriving Repr, DecidableEq

/-- `StressRelief.UpdateFromConfig` for a configured `SamplingRate` (`uint64`). -/
def Stress.update (cfgRate : Nat) : Outcome Stress :=
  let r := if cfgRate = 0 then 1 else cfgRate
  match udiv maxU64 r with
  | .ok ub => .ok { sampleRate := r, upperBound := ub }
  | .panicDivZero => .panicDivZero

/-- `StressRelief.GetSampleRate`; `h` = `wyhash.Hash(traceID, hashSeed)`. -/
def Stress.get (s : Stress) (h : Nat) : Decision :=
  if s.sampleRate ≤ 1 then { rate := 1, keep := true, reason := .stressAlways }
  else { rate := s.sampleRate, keep := decide (h ≤ s.upperBound), reason := .stressDet }

def stressSample (rate : Nat) (h : Nat) : Outcome Decision :=
  match Stress.update rate with
  | .ok s => .ok (s.get h)
  | .panicDivZero => .panicDivZero

def stressKeeps (rate : Nat) (h : Nat) : Bool :=
  match stressSample rate h with
  | .ok d => d.keep
  | .panicDivZero => false

/-! ## One long-lived `StressRelief` through a history of reloads and state changes

`UpdateFromConfig` is called by the collector at start and on every configuration reload; it sets
`mode`, `sampleRate` (0 ↦ 1) and `upperBound` unconditionally.  `Recalc` sets `stressed` from the
mode (`never` ↦ false, `always` ↦ true; `monitor` with idle queues and no cluster reports ↦ false,
which is the only load the harness applies).  `GetSampleRate` reads `sampleRate`/`upperBound` only. -/

inductive Mode where
  | never | monitor | always
  deriving Repr, DecidableEq

structure Relief where
  mode : Mode
  stressed : Bool
  s : Stress
  deriving Repr, DecidableEq

inductive ROp where
  | reload (m : Mode) (rate : Nat)     -- config reload: `UpdateFromConfig` with Mode, SamplingRate
  | recalc                             -- `Recalc` with idle queues
  deriving Repr, DecidableEq

def Relief.step (r : Relief) : ROp → Outcome Relief
  | .reload m rate =>
    match Stress.update rate with
    | .ok s => .ok { r with mode := m, s := s }
    | .panicDivZero => .panicDivZero
  | .recalc => .ok { r with stressed := (match r.mode with | .always => true | _ => false) }

/-- zero-valued struct, then the `UpdateFromConfig` of collector start-up -/
def Relief.init (m : Mode) (rate : Nat) : Outcome Relief :=
  Relief.step { mode := .never, stressed := false, s := { sampleRate := 0, upperBound := 0 } } (.reload m rate)

def Relief.run (r : Outcome Relief) (ops : List ROp) : Outcome Relief :=
  ops.foldl (fun acc o => match acc with | .ok r => r.step o | .panicDivZero => .panicDivZero) r

/-- the `SamplingRate` of the most recent reload (`init` when there was none) -/
def lastRate (init : Nat) (ops : List ROp) : Nat :=
  ops.foldl (fun a o => match o with | .reload _ r => r | .recalc => a) init

/-! ## Counting -/

/-- Number of hash values `0 … total-1` for which `p` holds. -/
def keptCount (p : Nat → Bool) (total : Nat) : Nat := ((List.range total).filter p).length

/-- Number of the given hash values for which `p` holds (the `frac` operation of the harness). -/
def keptOf (p : Nat → Bool) (hs : List Nat) : Nat := (hs.filter p).length

end Refinery.Model.Deterministic
