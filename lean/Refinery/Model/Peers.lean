import Refinery.Basic.AList
/-!
# Model of Redis-pubsub peer membership (`internal/peer/pubsub_redis.go`, property C18)

Three layers, all executable:

1. **Codec** — `peerCommand.marshal` / `unmarshal` on Go strings, i.e. byte sequences
   (`Bytes = List UInt8`; Go indexes bytes, and `','`, `'R'`, `'U'` are single bytes).
   `unmarshal` is transcribed operation for operation: `strings.LastIndex(msg, ",")`, the
   `len(msg) < 2 || idx == -1` guard, the action byte, `msgData[:idx-1]`, `msgData[idx:]`.
2. **One node** — the `generics.MapWithTTL[string,string]` of peers (id ↦ address, expiration)
   with the comparison of `mapttl.go` as written (`Expiration.Before(now)`), driven by
   `Start` (sets the node's own entry), `listen` (unmarshal; `Set`/`Delete`; `checkHash`, which
   lists the keys and therefore cleans up) and `GetPeers` (`SortedValues`, own address when empty).
   The same container with `Nat` keys is `Refinery.Model.TTL` (C32); here keys and values are the
   strings that come off the wire, because what the codec does to them is part of the property.
3. **Timed network** — what one node experiences is a list of events `Ev`: handler invocations
   `recv sent at msg` (a message published at `sent` is handled at local time `at`) and
   `query at` (a `GetPeers` call).  `Timed d` says the node's clock is monotone and every
   delivery took at most `d`; nothing is assumed about the *order* of deliveries, so every
   reordering of messages published within `d` of each other is covered.  `Fair`,
   `PublishesEvery`, `Silent`, `OnlyOwn` relate the node's events to the global record of what
   was published on the topic (`Pubs`).

Time is nanoseconds on the injected clock (`Int`).  TTL, refresh interval and jitter bound are
parameters here; `Props/C18.lean` instantiates them with the constants regenerated from the code.
-/
namespace Refinery.Model.Peers
open Refinery

abbrev Bytes := List UInt8

/-! ## 1. codec -/

inductive Action where
  | register      -- "R"
  | unregister    -- "U"
  deriving Repr, DecidableEq

def Action.byte : Action → UInt8
  | .register => 82
  | .unregister => 85

structure Cmd where
  action : Action
  id : Bytes
  address : Bytes
  deriving Repr, DecidableEq

def comma : UInt8 := 44

/-- `string(p.action) + p.address + "," + p.id` -/
def marshal (c : Cmd) : Bytes := c.action.byte :: (c.address ++ comma :: c.id)

/-- `strings.LastIndex(msg, string(b))`; `none` is Go's `-1` -/
def lastIndexOf (b : UInt8) : Bytes → Option Nat
  | [] => none
  | x :: t =>
    match lastIndexOf b t with
    | some i => some (i + 1)
    | none => if x = b then some 0 else none

/-- `peerCommand.unmarshal`: `none` is `return false`.  The message is split at its **last** comma
(the id is the last field; the address may contain commas).  The slices are taken only in the
`R`/`U` branch, exactly as in the code, so `idx - 1` is never evaluated at `idx = 0` (then the
first byte is the only comma and the action switch has already returned false). -/
def unmarshal (msg : Bytes) : Option Cmd :=
  match lastIndexOf comma msg with
  | none => none
  | some idx =>
    if msg.length < 2 then none
    else match msg with
      | [] => none
      | a :: msgData =>
        if a = Action.register.byte then
          some ⟨.register, msgData.drop idx, msgData.take (idx - 1)⟩
        else if a = Action.unregister.byte then
          some ⟨.unregister, msgData.drop idx, msgData.take (idx - 1)⟩
        else none

/-! ## 2. one node's peer map -/

/-- byte-wise lexicographic `≤` (Go's string order, used by `slices.Sort` in `SortedKeys`) -/
def bytesLe : Bytes → Bytes → Bool
  | [], _ => true
  | _ :: _, [] => false
  | x :: xs, y :: ys =>
    if x.toNat < y.toNat then true else if y.toNat < x.toNat then false else bytesLe xs ys

def insertKey (x : Bytes) : List Bytes → List Bytes
  | [] => [x]
  | y :: t => if bytesLe x y then x :: y :: t else y :: insertKey x t

def ksort : List Bytes → List Bytes
  | [] => []
  | x :: t => insertKey x (ksort t)

/-- identity of one `RedisPubsubPeers`: `InstanceID` and `publicAddr(...)` -/
structure Node where
  id : Bytes
  addr : Bytes
  deriving Repr, DecidableEq

structure St where
  items : AList Bytes (Bytes × Int) := []     -- id ↦ (address, expiration)
  now : Int := 0
  deriving Repr

def expired (now : Int) (e : Int) : Bool := decide (e < now)      -- `Expiration.Before(now)`

def cleanup (s : St) : St :=
  { s with items := AList.keep s.items (fun _ ve => !expired s.now ve.2) }

/-- `MapWithTTL.Get` (no cleanup) -/
def lookup (s : St) (k : Bytes) : Option Bytes :=
  match AList.get s.items k with
  | none => none
  | some (v, e) => if expired s.now e then none else some v

def sortedKeys (s : St) : List Bytes := ksort (AList.keys (cleanup s).items)

/-- `SortedValues`: values in key order -/
def sortedValues (s : St) : List Bytes :=
  (sortedKeys s).filterMap (fun k => (AList.get (cleanup s).items k).map (·.1))

/-- `Start`: a fresh map holding the node's own entry -/
def start (ttl : Int) (self : Node) (t : Int) : St :=
  { items := AList.put [] self.id (self.addr, t + ttl), now := t }

/-- `listen`: messages that do not unmarshal are ignored (no `checkHash`); otherwise `Delete` or
`Set`, then `checkHash` → `SortedKeys` → `cleanup`. -/
def listen (ttl : Int) (s : St) (msg : Bytes) : St :=
  match unmarshal msg with
  | none => s
  | some c =>
    match c.action with
    | .unregister => cleanup { s with items := AList.del s.items c.id }
    | .register => cleanup { s with items := AList.put s.items c.id (c.address, s.now + ttl) }

/-- `GetPeers`: never empty — the node's own address when the map lists nobody -/
def getPeers (self : Node) (s : St) : List Bytes :=
  match sortedValues s with
  | [] => [self.addr]
  | vs => vs

/-! ## 3. what one node experiences -/

inductive Ev where
  | recv (sent : Int) (at_ : Int) (msg : Bytes)   -- `listen` ran at `at_` for a message published at `sent`
  | query (at_ : Int)                              -- `GetPeers` at `at_`
  deriving Repr, DecidableEq

def Ev.time : Ev → Int
  | .recv _ t _ => t
  | .query t => t

def stepEv (ttl : Int) (s : St) : Ev → St
  | .recv _ t m => listen ttl { s with now := t } m
  | .query t => cleanup { s with now := t }

def runEvs (ttl : Int) (self : Node) (startT : Int) (evs : List Ev) : St :=
  evs.foldl (stepEv ttl) (start ttl self startT)

/-- the node's state at instant `t`, after handling `evs` -/
def stateAt (ttl : Int) (self : Node) (startT : Int) (evs : List Ev) (t : Int) : St :=
  { runEvs ttl self startT evs with now := t }

def peersAt (ttl : Int) (self : Node) (startT : Int) (evs : List Ev) (t : Int) : List Bytes :=
  getPeers self (stateAt ttl self startT evs t)

/-! ### change notification (`checkHash`) and what a registered callback sees

`listen` ends with `checkHash()`: it lists the ids (`SortedKeys`, which cleans up), hashes the list
and, when the hash differs from the one it stored last time, stores it and runs the callbacks
registered with `RegisterUpdatedPeersCallback` (the deterministic sharder reloads its peer list
there).  Nothing else calls `checkHash`: **an expiry is noticed at the next handled message**, not
when it happens, and `GetPeers` itself never notifies.  The hash (`wyhash` over the id list) is a
parameter: the model compares the id lists themselves, i.e. it assumes `hashList` is injective on
the lists that occur and never returns the zero value `p.hash` starts with.
`view` is what a callback that calls `GetPeers()` saw the last time it ran. -/

structure NSt where
  st : St
  lastKeys : Option (List Bytes) := none     -- the id list whose hash `p.hash` holds; `none`: still zero
  view : Option (List Bytes) := none         -- `GetPeers()` at the most recent callback invocation
  deriving Repr

/-- `checkHash`, on the state `listen` has just updated -/
def checkHashN (self : Node) (n : NSt) : NSt :=
  if n.lastKeys = some (sortedKeys n.st) then n
  else { n with lastKeys := some (sortedKeys n.st), view := some (getPeers self n.st) }

/-- `listen` with its notification: messages that do not unmarshal return before `checkHash` -/
def listenN (ttl : Int) (self : Node) (n : NSt) (msg : Bytes) : NSt :=
  match unmarshal msg with
  | none => n
  | some _ => checkHashN self { n with st := listen ttl n.st msg }

def stepEvN (ttl : Int) (self : Node) (n : NSt) : Ev → NSt
  | .recv _ t m => listenN ttl self { n with st := { n.st with now := t } } m
  | .query t => { n with st := cleanup { n.st with now := t } }

/-- `Start` does not call `checkHash`: no callback has run, the stored hash is zero -/
def startN (ttl : Int) (self : Node) (t : Int) : NSt := { st := start ttl self t }

def runEvsN (ttl : Int) (self : Node) (startT : Int) (evs : List Ev) : NSt :=
  evs.foldl (stepEvN ttl self) (startN ttl self startT)

/-- the message is one `listen` acts on -/
def Ev.handled : Ev → Bool
  | .recv _ _ m => (unmarshal m).isSome
  | .query _ => false

/-- delivery took between 0 and `d` -/
def Ev.DelayOK (d : Int) : Ev → Prop
  | .recv s t _ => s ≤ t ∧ t ≤ s + d
  | .query _ => True

/-- `Timed d t₀ evs t`: starting at `t₀` the node's clock never goes back, ends at or before `t`,
and every delivery took at most `d`.  The order of the deliveries is otherwise arbitrary. -/
def Timed (d : Int) : Int → List Ev → Int → Prop
  | t0, [], t => t0 ≤ t
  | t0, e :: es, t => t0 ≤ e.time ∧ e.DelayOK d ∧ Timed d e.time es t

/-! ### history-based characterisation of presence -/

/-- Per id: address and handling instant of the most recently *handled* register, `none` when the
most recently handled command for the id was an unregister (or there was none). -/
abbrev Hist := Bytes → Option (Bytes × Int)

def histStart (self : Node) (startT : Int) : Hist :=
  fun k => if self.id = k then some (self.addr, startT) else none

def histStep (h : Hist) : Ev → Hist
  | .recv _ t m =>
    match unmarshal m with
    | none => h
    | some c =>
      match c.action with
      | .unregister => fun k => if c.id = k then none else h k
      | .register => fun k => if c.id = k then some (c.address, t) else h k
  | .query _ => h

def hist (self : Node) (startT : Int) (evs : List Ev) : Hist :=
  evs.foldl histStep (histStart self startT)

/-- presence according to the history: listed for `ttl` after the most recently handled register -/
def present (ttl : Int) (h : Hist) (t : Int) (k : Bytes) : Option Bytes :=
  match h k with
  | none => none
  | some (a, p) => if t ≤ p + ttl then some a else none

/-! ### the global record of publications -/

/-- `P s m`: message `m` was published on the peers topic at instant `s` -/
abbrev Pubs := Int → Bytes → Prop

/-- every handled message was published when it says, and every message published since the node
subscribed, and more than `d` ago, has been handled -/
def Fair (P : Pubs) (d startT : Int) (evs : List Ev) (t : Int) : Prop :=
  (∀ s a m, Ev.recv s a m ∈ evs → P s m) ∧
  (∀ s m, P s m → startT ≤ s → s + d < t → ∃ a, Ev.recv s a m ∈ evs)

def regMsg (n : Node) : Bytes := marshal ⟨.register, n.id, n.addr⟩
def unregMsg (n : Node) : Bytes := marshal ⟨.unregister, n.id, n.addr⟩

/-- from `S` on, node `n` re-registers at least every `G` -/
def PublishesEvery (P : Pubs) (n : Node) (S G : Int) : Prop :=
  ∀ τ, S ≤ τ → ∃ s, τ ≤ s ∧ s ≤ τ + G ∧ P s (regMsg n)

/-- no register for id `k` is published after `T0` (the node stopped, or crashed, at `T0`) -/
def Silent (P : Pubs) (k : Bytes) (T0 : Int) : Prop :=
  ∀ s m a, P s m → unmarshal m = some ⟨.register, k, a⟩ → s ≤ T0

/-- every published message that names `n`'s id is `n`'s own register (ids are unique, and a
live node does not unregister) -/
def OnlyOwn (P : Pubs) (n : Node) : Prop :=
  ∀ s m c, P s m → unmarshal m = some c → c.id = n.id → c = ⟨.register, n.id, n.addr⟩

/-- the refresh ticker of `Ready`: started at `S` with period `I`, it publishes the node's
register at `S + I`, `S + 2I`, … -/
def Ticker (P : Pubs) (n : Node) (S I : Int) : Prop :=
  ∀ i : Nat, P (S + ((i : Int) + 1) * I) (regMsg n)

/-! ### the heartbeat loop of `Ready`

The loop draws its period once (`refreshCacheInterval` + jitter), creates the ticker with it and
from then on does one thing per tick: publish the node's register.  Whether that `Publish` call
returns an error or not, the loop only logs — it touches neither the period nor the ticker.  A
failed publish therefore delivers nothing and changes nothing about *when* the node publishes
next. -/

structure Beat where
  period : Int        -- the ticker's period
  next : Int          -- instant of the next tick
  deriving Repr, DecidableEq

/-- one tick: `published` is whether `PubSub.Publish` succeeded -/
def Beat.step (b : Beat) (_published : Bool) : Beat := { b with next := b.next + b.period }

/-- the loop after the ticks whose outcomes are listed -/
def Beat.run (b : Beat) (outcomes : List Bool) : Beat := outcomes.foldl Beat.step b

/-- A heartbeat started at `S` with period `I`, some of whose publishes fail: attempt `i` happens
at `S + (i+1)·I`, and is on the record `P` when `ok i`. -/
def Heartbeat (P : Pubs) (n : Node) (S I : Int) (ok : Nat → Bool) : Prop :=
  ∀ i : Nat, ok i = true → P (S + ((i : Int) + 1) * I) (regMsg n)

end Refinery.Model.Peers
