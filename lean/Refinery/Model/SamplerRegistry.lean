import Refinery.Basic.AList
import Refinery.Gen.Samplerreg
/-!
# Model of `sample.SamplerFactory`'s shared dynsampler registry  (properties C12, C13)

Anchors: `sample/sample.go` (`makeDynsamplerKey`, `getSharedDynsamplerAndRecorder`, `createSampler`,
`GetSamplerImplementationForKey`, `GetDownstreamSampler`, `updatePeerCounts`, `ClearDynsamplers`),
`sample/rules.go` (`RulesBasedSampler.Start` creates one downstream sampler per rule),
`sample/{totalthroughput,ema_throughput,windowed_throughput}.go` (goal at creation),
`collect/collector_worker.go` (`makeDecision`: per-worker sampler cache; the `reload` case clears it),
`collect/collect.go` (`reloadConfigs`: `ClearDynsamplers`, then one signal per worker).

Strings are `List Char`; the registry key is built exactly as
`fmt.Sprintf("%s:%s:%d:%v", prefix, samplerType, rate, sortedFields)` builds it.  The constants of
the key format come from `Refinery.Gen.Samplerreg` (read off the running code by the harness).

A dynsampler instance is a heap object: `St.insts[id]`; only its `GoalThroughputPerSec` is mutable.
Fields marked *ghost* are never read by `step`; they only record history for the theorems.
Everything outside the registry (the parameters that are not part of the key) is the opaque
`Def.tuning`.  Core Lean only.
-/
namespace Refinery.Model.SamplerRegistry
open Refinery

abbrev Str := List Char

/-- sampler types; `determ` has no dynsampler -/
inductive Kind where
  | dynamic | emadynamic | total | emathroughput | windowed | determ
  deriving DecidableEq, Repr

/-- the `samplerType` literal `createSampler` passes to `makeDynsamplerKey` -/
def Kind.name : Kind → Str
  | .dynamic => Gen.Samplerreg.nameDynamic.toList
  | .emadynamic => Gen.Samplerreg.nameEMADynamic.toList
  | .total => Gen.Samplerreg.nameTotalThroughput.toList
  | .emathroughput => Gen.Samplerreg.nameEMAThroughput.toList
  | .windowed => Gen.Samplerreg.nameWindowedThroughput.toList
  | .determ => []

/-- the dynsampler types with `SetGoalThroughputPerSec` (`CanSetGoalThroughputPerSec`) -/
def Kind.isThroughput : Kind → Bool
  | .total | .emathroughput | .windowed => true
  | _ => false

/-- `entry.dynsampler.(ST)` in `getSharedDynsamplerAndRecorder`: `DynamicSampler` asks for the
interface `dynsampler.Sampler` (what `createDynForDynamicSampler` returns; every dynsampler
satisfies it), every other sampler for its concrete dynsampler type. -/
def assertOk (existing requested : Kind) : Bool :=
  requested == .dynamic || existing == requested

/-- One sampler definition of the rules file. `rate` is the number that goes into the key
(`SampleRate`, `GoalSampleRate` or `GoalThroughputPerSec`); `tuning` stands for every other
parameter (ClearFrequency, MaxKeys, UseTraceLength, Weight, AgeOutValue, Burst*, AdjustmentInterval,
UpdateFrequency, LookbackFrequency, InitialSampleRate). -/
structure Def where
  kind : Kind
  rate : Int
  fields : List Str
  useCluster : Bool
  tuning : Nat
  deriving DecidableEq, Repr

inductive EnvCfg where
  | leaf (d : Def)             -- a dynsampler-backed or deterministic sampler at top level
  | rules (ds : List Def)      -- RulesBasedSampler: one downstream sampler per rule
  deriving DecidableEq, Repr

/-- rules file: environment / dataset name ↦ sampler -/
abbrev Config := AList Str EnvCfg

def defaultEnv : Str := Gen.Samplerreg.defaultEnv.toList

/-- `GetSamplerConfigForDestName`: the entry of that name, else `__default__` -/
def lookupCfg (c : Config) (env : Str) : Option EnvCfg :=
  match AList.get c env with
  | some x => some x
  | none => AList.get c defaultEnv

/-! ## the registry key -/

def leStr (a b : Str) : Bool := decide (a ≤ b)

def insertStr (x : Str) : List Str → List Str
  | [] => [x]
  | y :: t => if leStr x y then x :: y :: t else y :: insertStr x t

/-- `slices.Sort` on a copy of the field list -/
def sortStr : List Str → List Str
  | [] => []
  | x :: t => insertStr x (sortStr t)

/-- `%v` of a `[]string` without the brackets: elements separated by one space -/
def joinSp : List Str → Str
  | [] => []
  | [a] => a
  | a :: b :: t => a ++ ' ' :: joinSp (b :: t)

/-- `%d` -/
def intDigits (i : Int) : Str :=
  if i < 0 then '-' :: Nat.toDigits 10 i.natAbs else Nat.toDigits 10 i.natAbs

/-- `makeDynsamplerKey(prefix, type, rate, fieldList)` -/
def makeKeyRaw (pfx : Str) (name : Str) (rate : Int) (fields : List Str) : Str :=
  pfx ++ ':' :: name ++ ':' :: intDigits rate ++ ':' :: '[' :: joinSp (sortStr fields) ++ [']']

def makeKey (pfx : Str) (d : Def) : Str := makeKeyRaw pfx d.kind.name d.rate d.fields

/-- `GetDownstreamSampler`: `fmt.Sprintf("rules:%s:", parentSamplerKey)` -/
def rulesPrefix (env : Str) : Str :=
  Gen.Samplerreg.rulesPrefixL.toList ++ env ++ Gen.Samplerreg.rulesPrefixR.toList

/-! ## state -/

structure Inst where
  kind : Kind
  goal : Int          -- GoalThroughputPerSec (meaningful for throughput kinds only)
  pfx : Str           -- ghost: key prefix it was created for
  creator : Def       -- ghost: the definition `create(config)` was called with
  born : Nat          -- ghost: number of `ClearDynsamplers` calls before its creation
  deriving DecidableEq, Repr

/-- one dynsampler-backed (or deterministic: `id = none`) sampler object held by a worker's sampler -/
structure Slot where
  pfx : Str
  d : Def
  id : Option Nat
  deriving DecidableEq, Repr

/-- a worker's cached sampler for one environment -/
structure Entry where
  slots : List Slot
  epoch : Nat         -- ghost: number of `ClearDynsamplers` calls before it was built
  deriving DecidableEq, Repr

structure St where
  cfg : Config                         -- rules file in force
  actual : Option Nat                  -- what `Peers.GetPeers` answers now: `none` = error, `some n` = n peers
  peerCount : Nat                      -- `SamplerFactory.peerCount`
  reg : AList Str Nat := []            -- `sharedDynsamplers`: key ↦ instance
  goalCfg : AList Str Int := []        -- `goalThroughputConfigs`
  insts : List Inst := []              -- the heap of dynsampler instances, `id` = index
  caches : AList (Nat × Str) Entry := []   -- (worker, sampler key) ↦ cached sampler (`datasetSamplers`)
  fed : AList Nat Nat := []            -- instance ↦ events counted in its current window (the rate-tracking state)
  epoch : Nat := 0                     -- ghost
  deriving Repr

/-- the dynsampler library's `Start()` replaces a goal of 0 by its default -/
def creationGoal (rate : Int) : Int := if rate = 0 then Gen.Samplerreg.defaultGoal else rate

/-- `max(cfg/s.peerCount, 1)` (Go integer division truncates) -/
def newGoal (c : Int) (pc : Nat) : Int := max (Int.tdiv c (pc : Int)) 1

/-- `SetGoalThroughputPerSec`: ignored unless positive -/
def setGoal (insts : List Inst) (id : Nat) (g : Int) : List Inst :=
  if g > 0 then insts.modify id (fun i => { i with goal := g }) else insts

/-- first half of `updatePeerCounts`: the stored count changes only on a successful, non-empty answer -/
def refreshCount (actual : Option Nat) (pc : Nat) : Nat :=
  match actual with
  | some n => if n > 0 then n else pc
  | none => pc

/-- second half: every registered throughput dynsampler with a remembered configured goal is re-set -/
def applyGoals (goalCfg : AList Str Int) (pc : Nat) : AList Str Nat → List Inst → List Inst
  | [], insts => insts
  | (k, id) :: t, insts =>
    match insts[id]?, AList.get goalCfg k with
    | some i, some c =>
      applyGoals goalCfg pc t (if i.kind.isThroughput then setGoal insts id (newGoal c pc) else insts)
    | _, _ => applyGoals goalCfg pc t insts

def updatePeers (st : St) : St :=
  let pc := refreshCount st.actual st.peerCount
  { st with peerCount := pc, insts := applyGoals st.goalCfg pc st.reg st.insts }

/-- `getSharedDynsamplerAndRecorder`: the registered instance if its type assertion succeeds,
otherwise a new instance stored under the key (replacing what was there). -/
def regStep (st : St) (pfx : Str) (d : Def) : St × Nat :=
  let k := makeKey pfx d
  let fresh : St × Nat :=
    ({ st with
        insts := st.insts ++ [{ kind := d.kind, goal := if d.kind.isThroughput then creationGoal d.rate else 0,
                                pfx := pfx, creator := d, born := st.epoch }],
        reg := AList.put st.reg k st.insts.length }, st.insts.length)
  match AList.get st.reg k with
  | some id =>
    match st.insts[id]? with
    | some i => if assertOk i.kind d.kind then (st, id) else fresh
    | none => fresh
  | none => fresh

/-- `createSampler` for one non-rules definition -/
def createDyn (st : St) (pfx : Str) (d : Def) : St × Slot :=
  if d.kind = .determ then (updatePeers st, ⟨pfx, d, none⟩)
  else
    let r := regStep st pfx d
    let st2 : St :=
      if d.kind.isThroughput && d.useCluster then
        { r.1 with goalCfg := AList.put r.1.goalCfg (makeKey pfx d) d.rate }
      else r.1
    (updatePeers st2, ⟨pfx, d, some r.2⟩)

/-- `RulesBasedSampler.Start`: the downstream samplers, in rule order -/
def createMany (st : St) (pfx : Str) : List Def → St × List Slot
  | [] => (st, [])
  | d :: ds =>
    let r := createDyn st pfx d
    let r2 := createMany r.1 pfx ds
    (r2.1, r.2 :: r2.2)

/-- `GetSamplerImplementationForKey`; `none`: no definition and no `__default__` (`os.Exit(1)`) -/
def getSampler (st : St) (env : Str) : Option (St × List Slot) :=
  match lookupCfg st.cfg env with
  | none => none
  | some (.leaf d) => let r := createDyn st env d; some (r.1, [r.2])
  | some (.rules ds) => let r := createMany st (rulesPrefix env) ds; some (updatePeers r.1, r.2)

inductive Op where
  | get (w : Nat) (env : Str)    -- worker `w` makes a decision for sampler key `env`
  | peers (n : Nat)              -- membership is now `n` peers, callback fires
  | peersFail                    -- the peer query fails from now on, callback fires
  | peerset (n : Nat)            -- the peer source now answers `n` peers; the callback has not run yet
  | peersetFail                  -- the peer source now fails; the callback has not run yet
  | peercb                       -- the registered callback `updatePeerCounts` runs
  | setcfg (j : Nat)             -- rules file replaced by configuration `j`
  | clear                        -- `ClearDynsamplers`
  | wreload (w : Nat)            -- worker `w` handles its reload signal
  | feed (w : Nat) (env : Str) (n : Nat)   -- worker `w` asks its sampler for `env` about `n` traces
  deriving DecidableEq, Repr

/-- `makeDecision`'s sampler lookup: the cached sampler, else create it and cache it -/
def stepGet (st : St) (w : Nat) (env : Str) : St :=
  match AList.get st.caches (w, env) with
  | some _ => st
  | none =>
    match getSampler st env with
    | none => st
    | some (st1, slots) =>
      { st1 with caches := AList.put st1.caches (w, env) { slots := slots, epoch := st1.epoch } }

/-- every dynsampler behind the sampler counts `n` more events -/
def feedSlots (n : Nat) (fed : AList Nat Nat) (slots : List Slot) : AList Nat Nat :=
  slots.foldl (fun f s => match s.id with
    | some id => AList.put f id ((AList.get f id).getD 0 + n)
    | none => f) fed

def step (cfgs : List Config) (st : St) : Op → St
  | .get w env => stepGet st w env
  | .feed w env n =>
    let st1 := stepGet st w env
    match AList.get st1.caches (w, env) with
    | some ent => { st1 with fed := feedSlots n st1.fed ent.slots }
    | none => st1
  | .peers n => updatePeers { st with actual := some n }
  | .peersFail => updatePeers { st with actual := none }
  | .peerset n => { st with actual := some n }
  | .peersetFail => { st with actual := none }
  | .peercb => updatePeers st
  | .setcfg j =>
    match cfgs[j]? with
    | some c => { st with cfg := c }
    | none => st
  | .clear => { st with reg := [], goalCfg := [], epoch := st.epoch + 1 }
  | .wreload w => { st with caches := AList.keep st.caches (fun k _ => k.1 != w) }

/-- `SamplerFactory.Start()` followed by the peer implementation announcing the initial membership -/
def init (c0 : Config) (actual0 : Option Nat) : St :=
  { cfg := c0, actual := actual0, peerCount := refreshCount actual0 1 }

def run (c0 : Config) (actual0 : Option Nat) (cfgs : List Config) (ops : List Op) : St :=
  ops.foldl (step cfgs) (init c0 actual0)

/-! ## vocabulary of the theorems -/

/-- the (prefix, definition) pairs `GetSamplerImplementationForKey env` creates samplers for -/
def slotsOf (c : Config) (env : Str) : List (Str × Def) :=
  match lookupCfg c env with
  | some (.leaf d) => [(env, d)]
  | some (.rules ds) => ds.map (fun d => (rulesPrefix env, d))
  | none => []

/-- the sampler key an operation asks for, if any -/
def Op.env? : Op → Option Str
  | .get _ e => some e
  | .feed _ e _ => some e
  | _ => none

/-- the sampler keys (environment names) a history asks for all satisfy `E` -/
def OpsIn (E : Str → Prop) (ops : List Op) : Prop := ∀ op ∈ ops, ∀ e, op.env? = some e → E e

/-- the peer count the property speaks of: the size of the most recent non-empty, successful
membership answer (1 before any) -/
def lastGood (actual0 : Option Nat) (ops : List Op) : Nat :=
  ops.foldl (fun pc o => match o with
    | .peers n => if n > 0 then n else pc
    | _ => pc) (refreshCount actual0 1)

/-- what the peer source answers after an operation -/
def srcStep (a : Option Nat) : Op → Option Nat
  | .peers n => some n
  | .peerset n => some n
  | .peersFail => none
  | .peersetFail => none
  | _ => a

def srcAnswer (actual0 : Option Nat) (ops : List Op) : Option Nat := ops.foldl srcStep actual0

/-- histories in which every membership change is delivered together with its callback -/
def NoSplit (ops : List Op) : Prop := ∀ op ∈ ops, (∀ n, op ≠ .peerset n) ∧ op ≠ .peersetFail

end Refinery.Model.SamplerRegistry
