/-!
# Model of configuration reloads  (property C27)

Anchors: `config/file_config.go` (`NewConfig`, `newFileConfig`, `Reload`, `RegisterReloadCallback`),
`config/configLoadHelpers.go` (`getConfigDataForLocations`, `loadConfigsInto`: the hash is the MD5 of
the raw bytes), `config/validate.go` (errors vs. warnings), `internal/configwatcher/watcher.go`
(`monitor` and `SubscriptionListener` both just call `Config.Reload()`), `cmd/refinery/main.go`
(startup exits only when `NewConfig` returns a nil config).

## Contents of a file

What `newFileConfig` can tell apart: a file that validates (`ok`), one that validates with a
deprecation *warning* (`warn`), one that is rejected (`bad`: validation error, wrong datatype, syntax
error) and a path that cannot be read (`gone`).  `v` is the value observable through a getter
(`Traces.SendDelay` / the default sampler's `SampleRate`), `n` distinguishes byte-different files
with the same value (the hash is over the bytes).  The MD5 hash is taken to be injective on the
contents in play, so a pair of contents *is* the pair of hashes (`Key`).

## Two machines

* `Seq`: `Reload` as one atomic operation (what the differential harness replays).
* `CSt`/`stepThr`: a small-step semantics where any number of triggers overlap; one trigger is
  `read+build ; compare ; lock-assign-unlock ; callback 0 ; … ; callback L-1`.

Both take the *shape* of `Reload` as parameters so that the same statements can be examined for the
code as it is and for the proposed repair:
`aw` — does `Reload` go on when `newFileConfig` returns a config *and* a warnings-only error
       (as coded: no, `if err != nil { return err }`; `NewConfig` does);
`Lock` — `cas`: `f.mux` is taken before the hashes are compared and held through the assignment
         (compare-and-assign is one critical section) — the code as it is since commit 8a38f8f;
         file reading and `newFileConfig` still run before the lock and the callbacks after it;
         `unlocked`: the shape before that commit (hashes compared outside any lock, `f.mux` held only
         around the assignment), kept to record which defect the commit removed;
         `serial`: the whole `Reload` under a dedicated mutex (proposed).
`Lock.asCoded` is `cas`.
-/
namespace Refinery.Model.Reload

inductive Content where
  | ok (v n : Nat)
  | warn (v n : Nat)
  | bad (k v : Nat)
  | gone
  deriving DecidableEq, Repr

/-- the value a getter shows once this content is the running configuration -/
def Content.val : Content → Nat
  | .ok v _ => v
  | .warn v _ => v
  | _ => 0

/-- (config file, rules file): identifies the pair of hashes `mainHash`, `rulesHash` -/
abbrev Key := Content × Content

/-- What `newConfigAndRules` + `newFileConfig` return: `(nil, err)`, `(cfg, nil)`, `(cfg, warningErr)`.
Rules validation results are only consulted through `HasErrors()`, a rules warning is dropped. -/
inductive Build where
  | fail | okc | warnc
  deriving DecidableEq, Repr

def build : Content → Content → Build
  | .gone, _ => .fail
  | _, .gone => .fail
  | .bad _ _, _ => .fail
  | _, .bad _ _ => .fail
  | .warn _ _, _ => .warnc
  | .ok _ _, _ => .okc

/-- `NewConfig` (and `main`) go on iff the config is non-nil: warnings are allowed. -/
def startupAccepts (k : Key) : Bool := build k.1 k.2 != .fail

/-- `Reload` goes on past `newFileConfig` (parameter `aw`: warnings tolerated as at startup). -/
def reloadable (aw : Bool) (k : Key) : Bool :=
  match build k.1 k.2 with
  | .okc => true
  | .warnc => aw
  | .fail => false

theorem reloadable_accepts {aw : Bool} {k : Key} (h : reloadable aw k = true) : startupAccepts k = true := by
  unfold reloadable at h; unfold startupAccepts
  cases hb : build k.1 k.2 <;> simp_all

/-! ## Sequential machine -/
namespace Seq

structure St where
  aw : Bool := false
  cfile : Content := .gone
  rfile : Content := .gone
  started : Bool := false
  applied : Key := (.gone, .gone)
  /-- per listener, in registration order: notifications received -/
  counts : List Nat := []
  /-- ghost: number of changes applied so far, and its value when each listener registered -/
  napplied : Nat := 0
  regAt : List Nat := []
  deriving Repr, DecidableEq

inductive Op where
  | wc (c : Content)
  | wr (c : Content)
  | start (listeners : Nat)
  | reg
  | reload
  | nop                                   -- pubsub message that does not parse: no reload
  deriving Repr, DecidableEq

inductive Err where
  | none | warn | fail
  deriving Repr, DecidableEq

structure Out where
  su : Build        -- what a startup on the present files would return
  err : Err
  deriving Repr, DecidableEq

def St.file (s : St) : Key := (s.cfile, s.rfile)

def buildErr : Build → Err
  | .fail => .fail
  | .okc => .none
  | .warnc => .warn

/-- `fileConfig.Reload` -/
def reload (s : St) : St × Err :=
  if reloadable s.aw s.file then
    if s.file = s.applied then (s, .none)
    else ({ s with applied := s.file, counts := s.counts.map (· + 1), napplied := s.napplied + 1 },
          buildErr (build s.cfile s.rfile))
  else (s, buildErr (build s.cfile s.rfile))

def step (s : St) : Op → St × Option Out
  | .wc c => ({ s with cfile := c }, none)
  | .wr c => ({ s with rfile := c }, none)
  | .start l =>
    let b := build s.cfile s.rfile
    if s.started then (s, none)
    else if b = .fail then (s, some ⟨b, .fail⟩)
    else ({ s with started := true, applied := s.file, counts := List.replicate l 0,
                   regAt := List.replicate l 0, napplied := 0 }, some ⟨b, buildErr b⟩)
  | .reg =>
    if s.started then ({ s with counts := s.counts ++ [0], regAt := s.regAt ++ [s.napplied] }, none)
    else (s, none)
  | .reload =>
    if s.started then
      let r := reload s
      (r.1, some ⟨build s.cfile s.rfile, r.2⟩)
    else (s, none)
  | .nop => (s, none)

def run (s : St) (ops : List Op) : St := ops.foldl (fun s o => (step s o).1) s

end Seq

/-! ## Overlapping triggers -/

inductive Lock where
  | unlocked | cas | serial
  deriving DecidableEq, Repr

/-- the locking `fileConfig.Reload` has now (commits 8a38f8f, f62292a) -/
@[reducible] def Lock.asCoded : Lock := .cas

inductive Pc where
  | idle            -- trigger has not fired
  | read            -- in `Reload` (serial: holding the reload mutex), about to read the files and build
  | cmp             -- `newFileConfig` succeeded, about to compare the hashes (`cas`: lock, compare, assign, unlock)
  | asg             -- (`unlocked`/`serial` only) hashes differed, about to `mux.Lock(); assign; mux.Unlock()`
  | ntf (j : Nat)   -- about to call callback `j`
  | done
  deriving DecidableEq, Repr

structure Thr where
  pc : Pc := .idle
  snap : Key := (.gone, .gone)
  /-- ghost: version of the files this trigger read -/
  sv : Nat := 0
  deriving DecidableEq, Repr

structure CSt where
  n : Nat                   -- triggers `0 … n-1` may fire
  L : Nat                   -- registered listeners
  file : Key
  applied : Key
  /-- ghost: number of writes so far; version of the content that is applied -/
  ver : Nat := 0
  apv : Nat := 0
  /-- ghost: trigger id and file version of every assignment, most recent first -/
  aplog : List Nat := []
  apvers : List Nat := []
  /-- ghost: per listener, the triggers whose assignment it was told about -/
  notes : Nat → List Nat := fun _ => []
  thr : Nat → Thr := fun _ => {}
  /-- who holds the reload mutex (`serial` only) -/
  holder : Option Nat := none

inductive Ev where
  | step (t : Nat)
  | wc (c : Content)
  | wr (c : Content)
  deriving DecidableEq, Repr

def setThr (s : CSt) (t : Nat) (th : Thr) : CSt :=
  { s with thr := fun u => if u = t then th else s.thr u }

/-- trigger `t` returns from `Reload` -/
def finish (lk : Lock) (s : CSt) (t : Nat) : CSt :=
  let s' := setThr s t { s.thr t with pc := .done }
  if lk = .serial then { s' with holder := none } else s'

def doAssign (s : CSt) (t : Nat) : CSt :=
  { s with applied := (s.thr t).snap, apv := (s.thr t).sv, aplog := t :: s.aplog,
           apvers := (s.thr t).sv :: s.apvers }

def afterAssign (lk : Lock) (s : CSt) (t : Nat) : CSt :=
  if s.L = 0 then finish lk s t else setThr s t { s.thr t with pc := .ntf 0 }

def stepThr (aw : Bool) (lk : Lock) (s : CSt) (t : Nat) : CSt :=
  if s.n ≤ t then s else
  match (s.thr t).pc with
  | .idle =>
    if lk = .serial then
      match s.holder with
      | some _ => s                                   -- blocked on the reload mutex
      | none => { setThr s t { s.thr t with pc := .read } with holder := some t }
    else setThr s t { s.thr t with pc := .read }
  | .read =>
    if reloadable aw s.file then setThr s t { pc := .cmp, snap := s.file, sv := s.ver }
    else finish lk (setThr s t { pc := .read, snap := s.file, sv := s.ver }) t
  | .cmp =>
    if (s.thr t).snap = s.applied then finish lk s t
    else if lk = .cas then afterAssign lk (doAssign s t) t
    else setThr s t { s.thr t with pc := .asg }
  | .asg => afterAssign lk (doAssign s t) t
  | .ntf j =>
    let s' := { s with notes := fun l => if l = j then t :: s.notes l else s.notes l }
    if j + 1 < s.L then setThr s' t { s.thr t with pc := .ntf (j + 1) } else finish lk s' t
  | .done => s

def stepEv (aw : Bool) (lk : Lock) (s : CSt) : Ev → CSt
  | .step t => stepThr aw lk s t
  | .wc c => { s with file := (c, s.file.2), ver := s.ver + 1 }
  | .wr c => { s with file := (s.file.1, c), ver := s.ver + 1 }

/-- `n` idle triggers, `L` listeners, the running configuration is the content on disk -/
def cinit (n L : Nat) (f : Key) : CSt := { n := n, L := L, file := f, applied := f }

def crun (aw : Bool) (lk : Lock) (s : CSt) (sched : List Ev) : CSt := sched.foldl (stepEv aw lk) s

/-- every trigger that fired has returned -/
def Quiescent (s : CSt) : Prop := ∀ t, t < s.n → (s.thr t).pc = .idle ∨ (s.thr t).pc = .done

instance (s : CSt) : Decidable (Quiescent s) := by unfold Quiescent; exact inferInstance

end Refinery.Model.Reload
