import Refinery.Gen.Rules
/-!
# Model of `sample.RulesBasedSampler` and the condition matchers of `config/sampler_config.go` (C08)

The model follows the code as it is:

* `matcherOf`  — `RulesBasedSamplerCondition.Init` / `setMatchesFunction`: which closure, if any, is
  installed in `Matches` (15 operators × 5 datatypes, including the error paths that leave it nil);
* `untyped`    — `conditionMatchesValue` + `compare`, used when `Matches == nil`;
* `extract`    — `extractValueFromSpan` (`?.NUM_DESCENDANTS`, `Fields` order, `root.` prefix, the
  `checkedOnlyRoot` flag, the `CheckNestedFields` fallback);
* `matchTrace` / `matchSpan` — `ruleMatchesTrace` / `ruleMatchesSpanInTrace` with their counters,
  `break`s and early `return`s;
* `getSampleRate` — the rule loop of `GetSampleRate`.

External functions are parameters (`Ext`): `fmt.Sprintf("%v",·)`, `strconv.Atoi`, `ParseFloat`,
`ParseBool`, `regexp.Compile` / `MatchString`; so are the downstream samplers' answers (`down`) and
the `rand.Intn` draw (`intn`).  Floats are exact rationals `num/den` (every finite float64 is one).
Strings are `String`; Go compares bytes, Lean code points, which agree on valid UTF-8.
-/
namespace Refinery.Model.Rules
open Refinery.Gen.Rules (rootPrefix computedPrefix numDescendants)

/-- A field value (span side: string, int64, float64, bool, nil, anything else) or a scalar
condition `Value` (config side: string, int, float64, bool, nil, a mapping / a list taken as a whole). -/
inductive Val where
  | str (s : String)
  | int (n : Int)
  | flt (num : Int) (den : Nat)
  | bool (b : Bool)
  | nil
  | other (id : String)
  deriving DecidableEq, Repr, Inhabited

inductive Op where
  | neq | eq | gt | lt | gte | lte
  | contains | doesNotContain | startsWith
  | ex | notEx | hasRootSpan | regex | isIn | notIn
  | unknown
  deriving DecidableEq, Repr, Inhabited

/-- `Datatype`: "", "string", "int", "float", "bool" (validation admits nothing else). -/
inductive DT where
  | none | str | int | float | bool
  deriving DecidableEq, Repr, Inhabited

structure Cond where
  field : String := ""
  fields : List String := []
  op : Op
  val : Val := .nil
  /-- `some l` when `Value` is a YAML sequence (`[]any`); `val` is then the sequence as a whole. -/
  items : Option (List Val) := none
  dt : DT := .none
  deriving Repr, Inhabited

/-- The external functions the Go code calls. -/
structure Ext where
  fmt : Val → String                      -- fmt.Sprintf("%v", v)
  atoi : String → Option Int              -- strconv.Atoi
  pfloat : String → Option (Int × Nat)    -- strconv.ParseFloat(s, 64), as an exact fraction
  pbool : String → Option Bool            -- strconv.ParseBool
  rxCompiles : String → Bool              -- regexp.Compile succeeds
  /-- `gjson.Get(json.Marshal(…), path).String()` for a path that ends on this value: the text
  gjson returns for the JSON encoding of the value (number text, unquoted string, raw object). -/
  jsonStr : Val → String := fun _ => ""
  rxMatch : String → String → Bool        -- regexp.MustCompile(p).MatchString(s)

/-! ## strings -/

def hasPrefix (s p : String) : Bool := p.toList.isPrefixOf s.toList

def infixOf : List Char → List Char → Bool
  | sub, [] => sub.isEmpty
  | sub, c :: cs => sub.isPrefixOf (c :: cs) || infixOf sub cs

def containsStr (s sub : String) : Bool := infixOf sub.toList s.toList

/-- `field[len(prefix):]` -/
def dropPrefix (s p : String) : String := String.ofList (s.toList.drop p.toList.length)

def cmpStr (a b : String) : Ordering := if a < b then .lt else if a = b then .eq else .gt

/-! ## conversions (`tryConvertToInt`, `tryConvertToFloat`, `TryConvertToBool`) -/

def tryInt (E : Ext) : Val → Option Int
  | .int n => some n
  | .flt n d => some (Int.tdiv n d)          -- int(float64): truncation
  | .str s => E.atoi s
  | _ => none

def tryFloat (E : Ext) : Val → Option (Int × Nat)
  | .flt n d => some (n, d)
  | .int n => some (n, 1)
  | .str s => E.pfloat s
  | _ => none

def toBool (E : Ext) (v : Val) : Bool := E.pbool (E.fmt v) == some true

def cmpQ (a b : Int × Nat) : Ordering := compare (a.1 * b.2) (b.1 * a.2)

def cmpBool (a b : Bool) : Ordering :=
  if !a && b then .lt else if a && !b then .gt else .eq

/-- the six basic operators applied to a three-way comparison result -/
def ordOp : Op → Ordering → Bool
  | .neq, o => o != .eq
  | .eq, o => o == .eq
  | .gt, o => o == .gt
  | .lt, o => o == .lt
  | .gte, o => o != .lt
  | .lte, o => o != .gt
  | _, _ => false

/-! ## `conditionMatchesValue` / `compare` (no matcher installed) -/

def compareVals : Val → Val → Option Ordering
  | .nil, .nil => some .eq
  | .nil, _ => some .lt
  | _, .nil => some .gt
  | .int x, .int y => some (compare x y)
  | .int x, .flt n d => some (cmpQ (x, 1) (n, d))
  | .flt n d, .int y => some (cmpQ (n, d) (y, 1))
  | .flt n d, .flt n' d' => some (cmpQ (n, d) (n', d'))
  | .bool x, .bool y => some (cmpBool x y)
  | .str x, .str y => some (cmpStr x y)
  | _, _ => none

def untyped (c : Cond) (v : Val) (ex : Bool) : Bool :=
  if ex then
    match c.op with
    | .ex => true
    | .neq | .eq | .gt | .lt | .gte | .lte =>
      match compareVals v c.val with
      | some o => ordOp c.op o
      | none => false
    | _ => false
  else
    c.op == .notEx

/-! ## `setMatchesFunction` -/

abbrev Matcher := Val → Bool → Bool

def compareMatcher (E : Ext) (c : Cond) : Option Matcher :=
  match c.dt with
  | .str =>
    let cv := E.fmt c.val
    some fun v _ => ordOp c.op (cmpStr (E.fmt v) cv)
  | .int =>
    match tryInt E c.val with
    | none => none
    | some cv => some fun v ex =>
      match tryInt E v with
      | some n => ex && ordOp c.op (compare n cv)
      | none => false
  | .float =>
    match tryFloat E c.val with
    | none => none
    | some cv => some fun v ex =>
      match tryFloat E v with
      | some q => ex && ordOp c.op (cmpQ q cv)
      | none => false
  | .bool =>
    if c.op = .neq ∨ c.op = .eq then
      let cv := toBool E c.val
      some fun v ex => ex && ordOp c.op (cmpBool (toBool E v) cv)
    else none
  | .none => none

/-- the list `in` / `not-in` test against: a sequence, or a single string / int / float -/
def inItems (c : Cond) : Option (List Val) :=
  match c.items with
  | some l => some l
  | none =>
    match c.val with
    | .str _ | .int _ | .flt _ _ => some [c.val]
    | _ => none

def inBase (E : Ext) (c : Cond) : Option (Val → Bool) :=
  match inItems c with
  | none => none
  | some items =>
    match c.dt with
    | .str | .none =>
      let set := items.map E.fmt
      some fun v => set.contains (E.fmt v)
    | .int =>
      let set := items.filterMap (tryInt E)
      some fun v => match tryInt E v with
        | some i => set.contains i
        | none => false
    | .float =>
      let set := items.filterMap (tryFloat E)
      some fun v => match tryFloat E v with
        | some q => set.any fun q' => cmpQ q q' == .eq
        | none => false
    | .bool => none

/-- The closure `setMatchesFunction` installs, `none` when `Matches` stays nil. -/
def matcher (E : Ext) (c : Cond) : Option Matcher :=
  match c.op with
  | .ex => some fun _ ex => ex
  | .notEx => some fun _ ex => !ex
  | .neq | .eq | .gt | .lt | .gte | .lte => compareMatcher E c
  | .startsWith => let cv := E.fmt c.val; some fun v _ => hasPrefix (E.fmt v) cv
  | .contains => let cv := E.fmt c.val; some fun v _ => containsStr (E.fmt v) cv
  | .doesNotContain => let cv := E.fmt c.val; some fun v _ => !containsStr (E.fmt v) cv
  | .isIn => match inBase E c with
    | some f => some fun v _ => f v
    | none => none
  | .notIn => match inBase E c with
    | some f => some fun v _ => !f v
    | none => none
  | .regex =>
    let p := E.fmt c.val
    if E.rxCompiles p then some fun v _ => E.rxMatch p (E.fmt v) else none
  | .hasRootSpan => none
  | .unknown => none

/-- `Init`: with both `Field` and `Fields` set it reports an error before `setMatchesFunction`. -/
def initErr (c : Cond) : Bool := c.field != "" && !c.fields.isEmpty

def matcherOf (E : Ext) (c : Cond) : Option Matcher := if initErr c then none else matcher E c

/-- `Fields` after `Init` -/
def effFields (c : Cond) : List String :=
  if c.field != "" && c.fields.isEmpty then [c.field] else c.fields

/-- what both rule loops do with an extracted `(value, exists)` -/
def condValue (E : Ext) (c : Cond) (v : Val) (ex : Bool) : Bool :=
  match matcherOf E c with
  | some f => f v ex
  | none => untyped c v ex

/-! ## `extractValueFromSpan` -/

/-- what an element of a trace is (`meta.annotation_type`): an ordinary span, a span event or a link -/
inductive Kind where
  | span | event | link
  deriving DecidableEq, Repr, Inhabited

structure Span where
  data : List (String × Val)
  kind : Kind := .span
  deriving Repr, Inhabited

/-- an ordinary span with these fields -/
abbrev Span.of (data : List (String × Val)) : Span := { data := data }

/-- The trace as the sampler sees it, together with the sampler's `CheckNestedFields` option.
`maps` describes the map-valued field values: `Val.other id` is a map with these entries iff
`maps.lookup id = some entries` (entries may again be maps: nesting by reference). -/
structure Trace where
  spans : List Span
  root : Option Span
  nested : Bool := false
  maps : List (String × List (String × Val)) := []
  deriving Repr, Inhabited

structure Extract where
  val : Val
  ex : Bool
  cor : Bool         -- checkedOnlyRoot
  deriving DecidableEq, Repr

def extractLoop (t : Trace) (s : Span) : List String → Bool → Extract
  | [], _ => ⟨.nil, false, false⟩
  | f :: fs, cor =>
    if hasPrefix f rootPrefix then
      match t.root with
      | some r =>
        match r.data.lookup (dropPrefix f rootPrefix) with
        | some v => ⟨v, true, cor⟩
        | none => extractLoop t s fs cor
      | none => extractLoop t s fs cor
    else
      match s.data.lookup f with
      | some v => ⟨v, true, false⟩
      | none => extractLoop t s fs false

def isNumDescendants (c : Cond) : Bool := hasPrefix c.field computedPrefix && c.field == numDescendants

/-! ### the `CheckNestedFields` fallback: `gjson.Get(json.Marshal(span.Data), field)`

Modelled for paths made of plain keys separated by `.` (no gjson wildcards, escapes, array
indices or modifiers). -/

def splitDotsAux : List Char → List Char → List (List Char)
  | [], cur => [cur.reverse]
  | c :: cs, cur => if c = '.' then cur.reverse :: splitDotsAux cs [] else splitDotsAux cs (c :: cur)

/-- the path segments of a field name -/
def splitDots (f : String) : List String := (splitDotsAux f.toList []).map String.ofList

/-- descend through map values along the path -/
def nestedGet (maps : List (String × List (String × Val))) (entries : List (String × Val)) : List String → Option Val
  | [] => none
  | [k] => entries.lookup k
  | k :: k' :: ks =>
    match entries.lookup k with
    | some (.other id) =>
      match maps.lookup id with
      | some es => nestedGet maps es (k' :: ks)
      | none => none
    | _ => none

/-- the second field loop: the first field (taken verbatim, `root.` included) that names a nested
value of `sp`; the result is that value's JSON text -/
def nestedLoop (E : Ext) (t : Trace) (sp : Span) : List String → Option String
  | [] => none
  | f :: fs =>
    match nestedGet t.maps sp.data (splitDots f) with
    | some v => some (E.jsonStr v)
    | none => nestedLoop E t sp fs

/-- The pointer held by the variable `span` when the first field loop ends without a result
(`none` = nil): every iteration starts from the span under test and switches to the root span only
after checking that there is one. -/
def spanAfterLoop (t : Trace) (s : Span) (fs : List String) : Option Span :=
  fs.foldl (fun _ f =>
    if hasPrefix f rootPrefix then
      match t.root with
      | some r => some r
      | none => some s        -- `continue`: `span` is still the span under test
    else some s) (some s)

/-- the same, as a span -/
def lastSpan (t : Trace) (s : Span) (fs : List String) : Span :=
  match fs.getLast? with
  | some f => if hasPrefix f rootPrefix then t.root.getD s else s
  | none => s

def nestedResult (E : Ext) (t : Trace) (sp : Span) (fs : List String) : Extract :=
  match nestedLoop E t sp fs with
  | some str => ⟨.str str, true, false⟩
  | none => ⟨.nil, false, false⟩

/-- `extractValueFromSpan` with its one pointer dereference that is not guarded by the code itself
made explicit: `none` = nil-pointer panic in `json.Marshal(span.Data)`. -/
def extractP (E : Ext) (t : Trace) (s : Span) (c : Cond) : Option Extract :=
  if isNumDescendants c then some ⟨.int t.spans.length, true, true⟩   -- trace.DescendantCount(): every element
  else
    let x := extractLoop t s (effFields c) true
    if x.ex then some x
    else if t.nested then
      match spanAfterLoop t s (effFields c) with
      | none => none
      | some sp => some (nestedResult E t sp (effFields c))
    else some ⟨.nil, false, false⟩

/-- `extractValueFromSpan` (total: `Props.C08.rules_never_panic` shows `extractP` never panics and
equals this) -/
def extract (E : Ext) (t : Trace) (s : Span) (c : Cond) : Extract :=
  if isNumDescendants c then ⟨.int t.spans.length, true, true⟩
  else
    let x := extractLoop t s (effFields c) true
    if x.ex then x
    else if t.nested then nestedResult E t (lastSpan t s (effFields c)) (effFields c)
    else ⟨.nil, false, false⟩

def condOnSpan (E : Ext) (t : Trace) (c : Cond) (s : Span) : Bool :=
  condValue E c (extract E t s c).val (extract E t s c).ex

/-! ## `ruleMatchesTrace` -/

/-- the `span:` loop of one condition -/
def traceCond (E : Ext) (t : Trace) (c : Cond) : List Span → Bool
  | [] => false
  | s :: rest =>
    if condOnSpan E t c s then true
    else if (extract E t s c).cor then false
    else traceCond E t c rest

/-- the loop over conditions: `some matched` at the end, `none` for the early `return false` -/
def traceLoop (E : Ext) (t : Trace) : List Cond → Nat → Option Nat
  | [], m => some m
  | c :: cs, m =>
    if c.op = .hasRootSpan then
      if t.root.isSome == toBool E c.val then traceLoop E t cs (m + 1) else none
    else if traceCond E t c t.spans then traceLoop E t cs (m + 1)
    else traceLoop E t cs m

def matchTrace (E : Ext) (t : Trace) (conds : List Cond) : Bool :=
  if conds.isEmpty then true else traceLoop E t conds 0 == some conds.length

/-! ## `ruleMatchesSpanInTrace` -/

inductive SpanRes where
  | all          -- every condition matched this span
  | failed       -- some condition failed: `break`, next span
  | failedRoot   -- it failed having looked at the root span only: `return false`
  deriving DecidableEq, Repr

def spanConds (E : Ext) (t : Trace) (s : Span) : List Cond → SpanRes
  | [] => .all
  | c :: cs =>
    if condOnSpan E t c s then spanConds E t s cs
    else if (extract E t s c).cor then .failedRoot else .failed

def spanLoop (E : Ext) (t : Trace) (conds : List Cond) : List Span → Bool
  | [] => false
  | s :: rest =>
    match spanConds E t s conds with
    | .all => true
    | .failed => spanLoop E t conds rest
    | .failedRoot => false

def matchSpan (E : Ext) (t : Trace) (conds : List Cond) : Bool :=
  if conds.isEmpty then true else spanLoop E t conds t.spans

/-! ## `GetSampleRate` -/

inductive Scope where
  | trace | span | invalid
  deriving DecidableEq, Repr, Inhabited

/-- A rule; `conds = []` stands for `Conditions == nil`. `sampler = some id`: the rule has a
downstream sampler (its answer for the trace is `down id`). -/
structure Rule where
  name : String
  rate : Int
  drop : Bool
  scope : Scope
  conds : List Cond
  sampler : Option Nat := none
  deriving Repr, Inhabited

structure DownRes where
  rate : Nat
  keep : Bool
  reason : String
  key : String
  deriving DecidableEq, Repr

inductive Reason where
  | noRuleMatched                                    -- "no rule matched"
  | rule (sc : Scope) (name : String)                -- "rules/<scope>/" + name
  | delegated (sc : Scope) (name sub : String)       -- … + name + ":" + downstream reason
  | badRule (sc : Scope) (name : String)             -- … + "bad_rule:" + name
  deriving DecidableEq, Repr

structure Decision where
  rate : Nat
  keep : Bool
  reason : Reason
  key : String
  deriving DecidableEq, Repr

/-- `uint(int)` on a 64-bit platform -/
def toUint (n : Int) : Nat := (n % 18446744073709551616).toNat

def ruleMatches (E : Ext) (t : Trace) (r : Rule) : Bool :=
  match r.scope with
  | .span => matchSpan E t r.conds
  | .trace => matchTrace E t r.conds
  | .invalid => true

def noMatch : Decision := ⟨1, true, .noRuleMatched, ""⟩

/-- the body of `if matched { … }`; `down id = none`: no sampler registered for the rule;
`intn n` is the value `rand.Intn(n)` returns in this call -/
def applyRule (down : Nat → Option DownRes) (intn : Int → Nat) (r : Rule) : Decision :=
  match r.sampler with
  | some id =>
    match down id with
    | none => ⟨1, true, .badRule r.scope r.name, ""⟩
    | some d => ⟨d.rate, d.keep, .delegated r.scope r.name d.reason, d.key⟩
  | none =>
    ⟨toUint r.rate, !r.drop && decide (r.rate > 0) && intn r.rate == 0, .rule r.scope r.name, ""⟩

def getSampleRate (E : Ext) (t : Trace) (down : Nat → Option DownRes) (intn : Int → Nat) : List Rule → Decision
  | [] => noMatch
  | r :: rs => if ruleMatches E t r then applyRule down intn r else getSampleRate E t down intn rs

end Refinery.Model.Rules
