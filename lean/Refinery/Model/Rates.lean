/-!
# Sample-rate arithmetic of the collector  (property C04)

Go's `uint` is 64 bit on every platform Refinery ships for; the model keeps rates as `Nat` and
writes every fixed-width conversion the code performs explicitly:

* `uint(int64)` / `uint(int)` in the router (`route/batched_event.go getSampleRate`,
  `route/route.go requestToEvent`)                                  → `uintOfInt`, `batchRate`, `headerRate`
* `tempSampleRate * traceSampleRate` on `uint` (`mergeTraceAndSpanSampleRates`)  → `mulU64`
* `int64(finalSampleRate)` when the product is written to a metadata field      → `toInt64`
* the kept decision record (`cache.keptTraceCacheEntry.rate`) keeps the rate at full `uint` width
* an `int64` metadata field of `types.Payload` is *absent* exactly when it holds 0 → `metaInt`
* the samplers' floor: `deterministic.go` (`sampleRate <= 1 ⇒ 1`), `dynamic.go` & co
  (dynsampler answer `< 1 ⇒ 1`, then `uint`), `rules.go` (`keep` requires `rule.SampleRate > 0`)
-/
namespace Refinery.Model.Rates

def two31 : Nat := 2147483648
def two32 : Nat := 4294967296
def two63 : Nat := 9223372036854775808
def two64 : Nat := 18446744073709551616

/-- `uint(x)` for a signed 64-bit `x` (two's complement reinterpretation). -/
def uintOfInt (i : Int) : Nat := (i % (two64 : Int)).toNat

/-- `int64(x)` for a `uint` `x`. -/
def toInt64 (n : Nat) : Int :=
  if n % two64 < two63 then ((n % two64 : Nat) : Int) else ((n % two64 : Nat) : Int) - (two64 : Int)

/-- `a * b` on `uint`. -/
def mulU64 (a b : Nat) : Nat := (a * b) % two64

/-- `batchedEvent.getSampleRate`: 0 (absent) ⇒ 1, otherwise `uint(int64)`. -/
def batchRate (i : Int) : Nat := if i = 0 then 1 else uintOfInt i

/-- `requestToEvent`: `strconv.Atoi` of the sample-rate header, 1 when it does not parse, `uint(int)`. -/
def headerRate (parsed : Option Int) : Nat :=
  match parsed with
  | none => 1
  | some i => uintOfInt i

/-- value of an `int64` metadata field after `Set(key, v)`: 0 is "absent". -/
def metaInt (v : Int) : Option Int := if v = 0 then none else some v

/-- What `mergeTraceAndSpanSampleRates(sp, traceRate, dryRun)` does to a span whose incoming
`SampleRate` is `client`: the new `SampleRate` and the values passed to `Data.Set` (`none`: the
field is not written; an `int64` metadata field written with 0 reads back as absent, `metaInt`). -/
structure Merged where
  rate : Nat                      -- sp.SampleRate afterwards
  original : Option Int           -- value written to meta.refinery.original_sample_rate
  final : Option Int              -- value written to meta.refinery.final_sample_rate
  dryRate : Option Nat            -- value written to meta.dryrun.sample_rate (a `uint` in the generic field map)
  deriving Repr, DecidableEq

def temp (client : Nat) : Nat := if client < 1 then 1 else client

def merge (client traceRate : Nat) (dry : Bool) : Merged :=
  let orig := if client ≠ 0 then some (toInt64 client) else none
  if dry then
    { rate := temp client, original := orig, final := none, dryRate := some (mulU64 (temp client) traceRate) }
  else
    let f := mulU64 (temp client) traceRate
    { rate := f, original := orig, final := some (toInt64 f), dryRate := none }

/-! ## Sampler floors -/

/-- `DeterministicSampler.GetSampleRate`'s rate for a configured `SampleRate`. -/
def deterministicRate (cfg : Int) : Nat := if cfg ≤ 1 then 1 else uintOfInt cfg

/-- dynamic / EMA dynamic / EMA throughput / total throughput / windowed throughput:
`answer := dynsampler.GetSampleRateMulti(..); if answer < 1 { answer = 1 }; rate = uint(answer)`
(the floor is applied to the `int`, before the conversion, so a negative answer gives 1). -/
def dynRate (r : Int) : Nat := if r < 1 then 1 else uintOfInt r

/-- rules sampler, rule without downstream sampler: `rate = uint(rule.SampleRate)`,
`keep = !rule.Drop && rule.SampleRate > 0 && rand.Intn(rule.SampleRate) == 0` (`draw` is the
random draw, a parameter). -/
def rulesRate (ruleRate : Int) : Nat := uintOfInt ruleRate
def rulesKeep (drop : Bool) (ruleRate : Int) (draw : Nat) : Bool := !drop && decide (ruleRate > 0) && draw == 0

end Refinery.Model.Rates
