/-!
# Abstract execution model for C35 (no data race under a locking discipline)

This is not a model of one Go file: it is the (small) memory model against which a *locking
discipline* is proved sufficient for race freedom.  The tie to the code is `Fact` (one lexical
access to a shared struct field, regenerated from the Go sources by
`harness/locks-extract` on every run) and `factComplies` (the decidable, lexical form of the
discipline), see the end of this file and `Refinery.Model.LocksTable`.

* A trace is a list of events `(thread, operation, object, argument)`.  Mutexes, locations,
  functions and roles are natural numbers; the generated module `Refinery.Gen.Access` gives every
  `Struct.field` and every function of the analysed packages a named constant
  (`L.«StressRelief.stressed»`, `F.«StressRelief.Recalc»`), so tables and facts are written with
  names and decided on numbers (string comparison is very slow in the kernel).
* Operations: acquire/release of a mutex in shared (`RLock`) or exclusive (`Lock`) mode,
  plain read / plain write / atomic (or other synchronising) operation on a location, `spawn u`
  (the `go` statement creating thread `u`), `join u` (waiting for thread `u` to end:
  `WaitGroup.Wait`, `Server.Shutdown`, …).
* Well-formed traces (`WF`): an acquire happens only when no other acquisition of the same mutex is
  outstanding, except shared/shared by different threads; a release only by a holder; every
  thread other than the main thread 0 runs only after it was spawned; a joined thread has no later
  event.
* Happens-before `HB` = transitive closure of: program order, release → later acquire of the same
  mutex when at least one of the two is exclusive (Go memory model for `sync.Mutex`/`RWMutex`),
  spawn → events of the child, events of a thread → its join.
  Channel edges are **not** modelled (no discipline below relies on them).
-/
namespace Refinery.Locks

inductive Mode | sh | ex
  deriving DecidableEq, Repr

inductive Op | acqSh | acqEx | relSh | relEx | read | write | atomic | spawn | join
  deriving DecidableEq, Repr

/-- `obj` is the mutex (acquire/release) or the location (read/write/atomic); `arg` is the child
thread of `spawn`/`join` (unused otherwise). -/
structure Event where
  tid : Nat
  op : Op
  obj : Nat := 0
  arg : Nat := 0
  deriving DecidableEq, Repr

abbrev Trace := List Event

def acqOp : Mode → Op | .sh => .acqSh | .ex => .acqEx
def relOp : Mode → Op | .sh => .relSh | .ex => .relEx

def Event.isAccess (e : Event) : Prop := e.op = .read ∨ e.op = .write ∨ e.op = .atomic
instance (e : Event) : Decidable e.isAccess := by unfold Event.isAccess; infer_instance

/-! Decidability of the two quantifier shapes over `tr[i]?` used everywhere below. -/
instance decForallSome {α} (o : Option α) (P : α → Prop) [∀ a, Decidable (P a)] :
    Decidable (∀ a, o = some a → P a) :=
  match o with
  | none => isTrue (by intro a h; cases h)
  | some a => if h : P a then isTrue (by intro b hb; cases hb; exact h)
              else isFalse (fun H => h (H a rfl))

instance decExistsSome {α} (o : Option α) (P : α → Prop) [∀ a, Decidable (P a)] :
    Decidable (∃ a, o = some a ∧ P a) :=
  match o with
  | none => isFalse (by rintro ⟨a, h, _⟩; cases h)
  | some a => if h : P a then isTrue ⟨a, rfl, h⟩
              else isFalse (by rintro ⟨b, hb, hp⟩; cases hb; exact h hp)

/-- Thread `t` holds mutex `m` in mode `md` just before position `i`: an acquire by `t` at some
`q < i` that `t` has not released since. -/
def holdsAt (tr : Trace) (i t : Nat) (m : Nat) (md : Mode) : Prop :=
  ∃ q, q < i ∧ (∃ e, tr[q]? = some e ∧ (e.tid = t ∧ e.op = acqOp md ∧ e.obj = m)) ∧
    ∀ r, r < i → q < r → ∀ e, tr[r]? = some e → ¬ (e.tid = t ∧ e.op = relOp md ∧ e.obj = m)
instance (tr i t m md) : Decidable (holdsAt tr i t m md) := by unfold holdsAt; infer_instance

/-- Well-formed traces. -/
structure WF (tr : Trace) : Prop where
  /-- mutual exclusion: at an acquire of `m`, every outstanding acquisition of `m` belongs to
  another thread and both are shared -/
  mutex : ∀ q, q < tr.length → ∀ e, tr[q]? = some e → ∀ md, e.op = acqOp md →
    ∀ p, p < q → ∀ e', tr[p]? = some e' → ∀ md', e'.op = acqOp md' → e'.obj = e.obj →
      (∀ r, r < q → p < r → ∀ x, tr[r]? = some x → ¬ (x.tid = e'.tid ∧ x.op = relOp md' ∧ x.obj = e'.obj)) →
      e'.tid ≠ e.tid ∧ md = .sh ∧ md' = .sh
  /-- a release is performed by a holder (in that mode) -/
  relHeld : ∀ r, r < tr.length → ∀ e, tr[r]? = some e → ∀ md, e.op = relOp md →
    holdsAt tr r e.tid e.obj md
  /-- threads other than 0 exist only after their `spawn` -/
  spawned : ∀ i, i < tr.length → ∀ e, tr[i]? = some e → e.tid ≠ 0 →
    ∃ s, s < i ∧ ∃ a, tr[s]? = some a ∧ (a.op = .spawn ∧ a.arg = e.tid)
  /-- a joined thread has terminated -/
  joined : ∀ s, s < tr.length → ∀ a, tr[s]? = some a → a.op = .join →
    ∀ k, k < tr.length → s < k → ∀ b, tr[k]? = some b → b.tid ≠ a.arg

/-- One happens-before edge between positions `i < j`. -/
def Edge (tr : Trace) (i j : Nat) : Prop :=
  i < j ∧ ∃ a, tr[i]? = some a ∧ ∃ b, tr[j]? = some b ∧
    (a.tid = b.tid
     ∨ (((a.op = .relEx ∧ (b.op = .acqEx ∨ b.op = .acqSh)) ∨ (a.op = .relSh ∧ b.op = .acqEx)) ∧ a.obj = b.obj)
     ∨ (a.op = .spawn ∧ b.tid = a.arg)
     ∨ (b.op = .join ∧ a.tid = b.arg))
instance (tr i j) : Decidable (Edge tr i j) := by unfold Edge; infer_instance

/-- Happens-before: transitive closure of `Edge`. -/
inductive HB (tr : Trace) : Nat → Nat → Prop
  | base {i j} : Edge tr i j → HB tr i j
  | step {i k j} : Edge tr i k → HB tr k j → HB tr i j

theorem Edge.lt {tr i j} (h : Edge tr i j) : i < j := h.1

theorem HB.lt {tr i j} (h : HB tr i j) : i < j := by
  induction h with
  | base e => exact e.lt
  | step e _ ih => exact Nat.lt_trans e.lt ih

theorem HB.trans {tr i j k} (h1 : HB tr i j) (h2 : HB tr j k) : HB tr i k := by
  induction h1 with
  | base e => exact .step e h2
  | step e _ ih => exact .step e (ih h2)

/-- Two accesses conflict: same location, different threads, at least one is not a plain read,
and they are not both atomic. -/
def Conflict (tr : Trace) (i j : Nat) : Prop :=
  ∃ a, tr[i]? = some a ∧ ∃ b, tr[j]? = some b ∧
    (a.isAccess ∧ b.isAccess ∧ a.obj = b.obj ∧ a.tid ≠ b.tid ∧
     (a.op ≠ .read ∨ b.op ≠ .read) ∧ ¬ (a.op = .atomic ∧ b.op = .atomic))
instance (tr i j) : Decidable (Conflict tr i j) := by unfold Conflict; infer_instance

/-- A data race: two conflicting accesses not ordered by happens-before. -/
def Race (tr : Trace) (i j : Nat) : Prop := i < j ∧ Conflict tr i j ∧ ¬ HB tr i j

/-- Synchronisation discipline of one shared location (threads named by id). -/
inductive Discipline
  | lock (m : Nat)              -- every access holds `m`; reads may hold it shared
  | confined (t : Nat)             -- only thread `t` accesses it
  | atomic                         -- only atomic / synchronising operations
  | initOnly                       -- written only during initialisation; read freely afterwards
  | ownedLock (t : Nat) (m : Nat) -- written only by `t` holding `m` exclusively; `t` may read
                                   -- without the lock, everybody else reads holding `m`
  deriving DecidableEq, Repr

/-- Initialisation access: by the main thread before it (or anybody) spawned any thread. -/
def preSpawn (tr : Trace) (i : Nat) (e : Event) : Prop :=
  e.tid = 0 ∧ ∀ s, s < i → ∀ a, tr[s]? = some a → a.op ≠ .spawn
instance (tr i e) : Decidable (preSpawn tr i e) := by unfold preSpawn; infer_instance

/-- Tear-down access: the accessing thread has joined every other thread that ever runs. -/
def postJoin (tr : Trace) (i : Nat) (e : Event) : Prop :=
  ∀ k, k < tr.length → ∀ b, tr[k]? = some b → b.tid ≠ e.tid →
    ∃ s, s < i ∧ ∃ a, tr[s]? = some a ∧ (a.tid = e.tid ∧ a.op = .join ∧ a.arg = b.tid)
instance (tr i e) : Decidable (postJoin tr i e) := by unfold postJoin; infer_instance

def compliesD (tr : Trace) (i : Nat) (e : Event) : Discipline → Prop
  | .lock m => holdsAt tr i e.tid m .ex ∨ (e.op = .read ∧ holdsAt tr i e.tid m .sh)
  | .confined t => e.tid = t
  | .atomic => e.op = .atomic
  | .initOnly => e.op = .read
  | .ownedLock t m => (e.tid = t ∧ holdsAt tr i e.tid m .ex) ∨
      (e.op = .read ∧ (e.tid = t ∨ holdsAt tr i e.tid m .sh ∨ holdsAt tr i e.tid m .ex))
instance (tr i e d) : Decidable (compliesD tr i e d) := by
  cases d <;> simp only [compliesD] <;> infer_instance

/-- The access `e` at position `i` complies with the discipline table `D`. -/
def Complies (tr : Trace) (D : Nat → Discipline) (i : Nat) (e : Event) : Prop :=
  preSpawn tr i e ∨ postJoin tr i e ∨ compliesD tr i e (D e.obj)
instance (tr D i e) : Decidable (Complies tr D i e) := by unfold Complies; infer_instance

/-- Every access of the trace complies. -/
def AllComply (tr : Trace) (D : Nat → Discipline) : Prop :=
  ∀ i, i < tr.length → ∀ e, tr[i]? = some e → e.isAccess → Complies tr D i e
instance (tr D) : Decidable (AllComply tr D) := by unfold AllComply; infer_instance

/-! Decidable form of `WF` (for the concrete example traces). -/
/-- the acquisition `e'` at `p` is not released before `q` -/
def outstanding (tr : Trace) (p q : Nat) (e' : Event) : Prop :=
  ∀ r, r < q → p < r → ∀ x, tr[r]? = some x →
    ¬ (x.tid = e'.tid ∧ x.op = (if e'.op = .acqSh then .relSh else .relEx) ∧ x.obj = e'.obj)
instance (tr p q e') : Decidable (outstanding tr p q e') := by unfold outstanding; infer_instance

def wfMutexAt (tr : Trace) (q : Nat) (e : Event) : Prop :=
  ∀ p, p < q → ∀ e', tr[p]? = some e' →
    ((e.op = .acqSh ∨ e.op = .acqEx) ∧ (e'.op = .acqSh ∨ e'.op = .acqEx) ∧ e'.obj = e.obj) →
    outstanding tr p q e' → e'.tid ≠ e.tid ∧ e.op = .acqSh ∧ e'.op = .acqSh
instance (tr q e) : Decidable (wfMutexAt tr q e) := by unfold wfMutexAt; infer_instance

def wfMutex (tr : Trace) : Prop :=
  ∀ q, q < tr.length → ∀ e, tr[q]? = some e → wfMutexAt tr q e
instance (tr) : Decidable (wfMutex tr) := by unfold wfMutex; infer_instance

def wfRel (tr : Trace) : Prop :=
  ∀ r, r < tr.length → ∀ e, tr[r]? = some e →
    (e.op = .relSh → holdsAt tr r e.tid e.obj .sh) ∧ (e.op = .relEx → holdsAt tr r e.tid e.obj .ex)
instance (tr) : Decidable (wfRel tr) := by unfold wfRel; infer_instance

def wfSpawned (tr : Trace) : Prop :=
  ∀ i, i < tr.length → ∀ e, tr[i]? = some e → e.tid ≠ 0 →
    ∃ s, s < i ∧ ∃ a, tr[s]? = some a ∧ (a.op = .spawn ∧ a.arg = e.tid)
instance (tr) : Decidable (wfSpawned tr) := by unfold wfSpawned; infer_instance

def wfJoined (tr : Trace) : Prop :=
  ∀ s, s < tr.length → ∀ a, tr[s]? = some a → a.op = .join →
    ∀ k, k < tr.length → s < k → ∀ b, tr[k]? = some b → b.tid ≠ a.arg
instance (tr) : Decidable (wfJoined tr) := by unfold wfJoined; infer_instance

theorem wf_of_dec {tr : Trace} (h1 : wfMutex tr) (h2 : wfRel tr) (h3 : wfSpawned tr)
    (h4 : wfJoined tr) : WF tr := by
  refine ⟨?_, ?_, h3, h4⟩
  · intro q hq e he md hmd p hp e' he' md' hmd' hobj hnr
    have hout : outstanding tr p q e' := by
      intro r hr hpr x hx
      have := hnr r hr hpr x hx
      cases md'
      · have h : e'.op = .acqSh := hmd'
        simpa [h, relOp] using this
      · have h : e'.op = .acqEx := hmd'
        simpa [h, relOp] using this
    have hops : (e.op = .acqSh ∨ e.op = .acqEx) ∧ (e'.op = .acqSh ∨ e'.op = .acqEx) ∧ e'.obj = e.obj := by
      refine ⟨?_, ?_, hobj⟩
      · cases md
        · exact Or.inl hmd
        · exact Or.inr hmd
      · cases md'
        · exact Or.inl hmd'
        · exact Or.inr hmd'
    have h := h1 q hq e he p hp e' he' hops hout
    refine ⟨h.1, ?_, ?_⟩
    · cases md
      · rfl
      · have h5 : e.op = .acqEx := hmd
        rw [h5] at h; exact absurd h.2.1 (by decide)
    · cases md'
      · rfl
      · have h5 : e'.op = .acqEx := hmd'
        rw [h5] at h; exact absurd h.2.2 (by decide)
  · intro r hr e he md hmd
    have h := h2 r hr e he
    cases md
    · exact h.1 hmd
    · exact h.2 hmd

/-! ## Lexical access facts (the tie to the Go sources)

One `Fact` = one syntactic access to a tracked struct field in a function of the analysed packages:
`loc` = `Struct.field`, `fn` = enclosing function (`Recv.Method`, closures `…$n`), `kind`, and the
mutex fields of the *same receiver expression* that are lexically held at that point
(`x.mu.Lock()` … `x.mu.Unlock()`, `defer x.mu.Unlock()` ⇒ to the end of the function).
A location `S.f*` is the object a field `S.f` refers to (only for fields with declared mutating
methods); `S.m()` is the pseudo-location "call of `S.m`, which requires a mutex". -/

inductive AKind | read | write | atomic
  deriving DecidableEq, Repr

structure Fact where
  loc : Nat
  fn : Nat
  kind : AKind
  held : List (Nat × Mode) := []
  /-- the base expression is a local bound, in this very function, to a composite literal or to the
  result of a constructor: the object is not shared yet -/
  fresh : Bool := false
  deriving DecidableEq, Repr

/-- Which goroutine(s) run a function (hand-written role table). `any`: callable from several
goroutines at once. `named r`: only the single goroutine playing role `r` for that object. -/
inductive Role | init | teardown | any | named (r : Nat)
  deriving DecidableEq, Repr

/-- Discipline of a field, with roles instead of thread ids. -/
inductive LDisc
  | lock (m : Nat) | confined (r : Nat) | atomic | initOnly | ownedLock (r : Nat) (m : Nat)
  deriving DecidableEq, Repr

def Fact.holds (f : Fact) (m : Nat) (md : Mode) : Bool := f.held.contains (m, md)

/-- The part of the lexical test that does not depend on who runs the function. -/
def factBasic (d : LDisc) (f : Fact) : Bool :=
  match d with
  | .lock m => f.holds m .ex || (f.kind == .read && f.holds m .sh)
  | .confined _ => false
  | .atomic => f.kind == .atomic
  | .initOnly => f.kind == .read
  | .ownedLock _ m => f.kind == .read && (f.holds m .sh || f.holds m .ex)

/-- The part that depends on the role of the enclosing function. -/
def factByRole (role : Role) (d : LDisc) (f : Fact) : Bool :=
  match role with
  | .init | .teardown => true
  | .any => false
  | .named q =>
    match d with
    | .confined r => q == r
    | .ownedLock r m => q == r && (f.holds m .ex || f.kind == .read)
    | _ => false

/-- The lexical compliance test of one access fact with the discipline of its field
(the role is consulted last: most facts are decided by `factBasic`). -/
def factComplies (role : Role) (d : LDisc) (f : Fact) : Bool :=
  f.fresh || factBasic d f || factByRole role d f

def lookup {β} (t : List (Nat × β)) (k : Nat) : Option β :=
  match t with
  | [] => none
  | (k', v) :: rest => if k' == k then some v else lookup rest k

def roleOf (roles : List (Nat × Role)) (fn : Nat) : Role := (lookup roles fn).getD .any

/-- A fact complies with the table; a field without an entry never complies. -/
def factOK (disc : List (Nat × LDisc)) (roles : List (Nat × Role)) (f : Fact) : Bool :=
  match lookup disc f.loc with
  | some d => factComplies (roleOf roles f.fn) d f
  | none => false

def isKnown (known : List (Nat × Nat × AKind)) (f : Fact) : Bool :=
  known.any (fun k => k.1 == f.loc && k.2.1 == f.fn && k.2.2 == f.kind)

def cacheLookup (disc : List (Nat × LDisc)) (cache : Option (Nat × Option LDisc)) (loc : Nat) : Option LDisc :=
  match cache with
  | some (l, d) => if l == loc then d else lookup disc loc
  | none => lookup disc loc

/-- `factOK` with the discipline of the previous fact's location cached (the generated list is
sorted by location; the result does not depend on the order). -/
def checkFrom (disc : List (Nat × LDisc)) (roles : List (Nat × Role)) (known : List (Nat × Nat × AKind)) :
    Option (Nat × Option LDisc) → List Fact → Bool
  | _, [] => true
  | cache, f :: fs =>
    let d? : Option LDisc := cacheLookup disc cache f.loc
    ((match d? with
      | some d => factComplies (roleOf roles f.fn) d f
      | none => false) || isKnown known f) && checkFrom disc roles known (some (f.loc, d?)) fs

/-- Every fact complies with the table or is one of the listed known violations. -/
def allFactsComply (disc : List (Nat × LDisc)) (roles : List (Nat × Role))
    (known : List (Nat × Nat × AKind)) (fs : List Fact) : Bool :=
  checkFrom disc roles known none fs

def failing (disc : List (Nat × LDisc)) (roles : List (Nat × Role)) (fs : List Fact) : List Fact :=
  fs.filter (fun f => !factOK disc roles f)

def opOfKind : AKind → Op | .read => .read | .write => .write | .atomic => .atomic

/-- Interpretation of a lexical discipline in the thread-level model, given the thread that
plays each role. -/
def LDisc.interp (thr : Nat → Nat) : LDisc → Discipline
  | .lock m => .lock m
  | .confined r => .confined (thr r)
  | .atomic => .atomic
  | .initOnly => .initOnly
  | .ownedLock r m => .ownedLock (thr r) m

/-- What the extractor and the role table are trusted to deliver for a dynamic access `e` at
position `i` that is an instance of the lexical fact `f`. -/
structure Instance (tr : Trace) (thr : Nat → Nat) (role : Role) (f : Fact) (i : Nat) (e : Event) : Prop where
  loc : e.obj = f.loc
  kind : e.op = opOfKind f.kind
  held : ∀ m md, f.holds m md = true → holdsAt tr i e.tid m md
  isFresh : f.fresh = true → preSpawn tr i e
  isInit : role = .init → preSpawn tr i e
  isTeardown : role = .teardown → postJoin tr i e
  isRole : ∀ r, role = .named r → e.tid = thr r

end Refinery.Locks
