import Refinery.Basic.AList
import Refinery.Basic.Sort
/-!
# Model of `generics.SetWithTTL` and `generics.MapWithTTL`  (property C32)

Time is nanoseconds on the injected clock (`Int`), keys are `Nat` (the harness uses the
strings "0","1",…, ordered numerically by zero padding), values are `Nat`.

Both containers are a Go map `key ↦ (value, expiration)`.  The model keeps the code's
comparison operators as written:

* `Set`/`Add`         : `Items[k] = now + TTL`
* `Remove`/`Delete`   : `delete(Items, k)`
* `Get` / `Contains`  : absent when `Expiration.Before(now)` i.e. `exp < now`
* `cleanup`           : deletes entries with `exp < now` (called by Members/Length/Keys/Values)

`SetWithTTL` is the same machine with unit values (`Contains` = `Get ≠ none`), which is what
the repaired `Contains` (`!item.Before(now)`) does.
-/
namespace Refinery.Model.TTL

structure St where
  items : AList Nat (Nat × Int) := []   -- key ↦ (value, expiration)
  ttl : Int
  now : Int := 0
  deriving Repr

inductive Op where
  | adv (d : Nat)            -- clock advance (the fake clock only moves forward)
  | set (k v : Nat)          -- Set / Add (sets use v = 0)
  | del (k : Nat)            -- Delete / Remove
  | get (k : Nat)            -- Get / Contains   (no cleanup)
  | keys                     -- SortedKeys / Members (cleanup first)
  | values                   -- SortedValues (cleanup first)
  | length                   -- Length (cleanup)
  deriving Repr, DecidableEq

inductive Out where
  | none
  | opt (v : Option Nat)
  | list (l : List Nat)
  | num (n : Nat)
  deriving Repr, DecidableEq

def expired (now : Int) (e : Int) : Bool := decide (e < now)     -- `Expiration.Before(now)`

def cleanup (s : St) : St :=
  { s with items := AList.keep s.items (fun _ ve => !expired s.now ve.2) }

def lookup (s : St) (k : Nat) : Option Nat :=
  match AList.get s.items k with
  | none => none
  | some (v, e) => if expired s.now e then none else some v

/-- keys after cleanup, ascending (`SortedKeys`, `Members`) -/
def sortedKeys (s : St) : List Nat := isort (AList.keys (cleanup s).items)

def sortedValues (s : St) : List Nat :=
  (sortedKeys s).filterMap (fun k => (AList.get (cleanup s).items k).map (·.1))

def length (s : St) : Nat := (cleanup s).items.length

def step (s : St) : Op → St × Out
  | .adv d => ({ s with now := s.now + d }, .none)
  | .set k v => ({ s with items := AList.put s.items k (v, s.now + s.ttl) }, .none)
  | .del k => ({ s with items := AList.del s.items k }, .none)
  | .get k => (s, .opt (lookup s k))
  | .keys => (cleanup s, .list (sortedKeys s))
  | .values => (cleanup s, .list (sortedValues s))
  | .length => (cleanup s, .num (length s))

def init (ttl : Int) : St := { ttl := ttl }

def run (ttl : Int) (ops : List Op) : St := ops.foldl (fun s o => (step s o).1) (init ttl)

/-! ## The specification: a history-indexed abstract map -/

/-- Abstract state: the clock and, per key, the value and instant of the most recent add
that has not been followed by a removal. -/
structure Spec where
  now : Int := 0
  last : Nat → Option (Nat × Int) := fun _ => none

def Spec.step (sp : Spec) : Op → Spec
  | .adv d => { sp with now := sp.now + d }
  | .set k v => { sp with last := fun k' => if k = k' then some (v, sp.now) else sp.last k' }
  | .del k => { sp with last := fun k' => if k = k' then none else sp.last k' }
  | _ => sp

def Spec.run (ops : List Op) : Spec := ops.foldl Spec.step {}

/-- The property's notion of membership: present for `ttl` after the most recent add
(the expiry instant itself included, as `MapWithTTL` has always done), absent afterwards. -/
def Spec.present (sp : Spec) (ttl : Int) (k : Nat) : Option Nat :=
  match sp.last k with
  | none => none
  | some (v, t) => if sp.now ≤ t + ttl then some v else none

end Refinery.Model.TTL
