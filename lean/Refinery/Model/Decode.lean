import Refinery.Model.Rules
import Refinery.Model.TraceKey
/-!
# Model of what Go value each wire encoding decodes to, per ingestion path  (property C09)

`goOf : … → Path → … → Wire → GoVal` is the Go value the samplers see (through `Payload.Get`) for a field
that came in over a given ingestion path in a given wire encoding.  It mirrors

* `/1/events`, JSON:      `jsoniter.Unmarshal` into `map[string]interface{}`         — every number a `float64`
* `/1/batch`, JSON:       `fastjson` → `types.AppendJSONValue` (`msgp.AppendFloat64`) → `msgp.ReadIntfBytes`
                          — every number a `float64`, namely the one `fastjson`'s own parser makes of the
                            literal (an external function here: it is not correctly rounded for every spelling)
* `/1/events`, msgpack:   `vmihailenco/msgpack` with `UseLooseInterfaceDecoding(true)`
                          — int family → `int64`, uint family → `uint64`, float32 *and* float64 → `float64`,
                            str *and* bin → `string`
* `/1/batch`, msgpack:    `Payload` keeps the bytes, values are read with `msgp.ReadIntfBytes`
                          — int → `int64`, uint → `uint64`, float32 → `float32`, float64 → `float64`,
                            str → `string`, bin → `[]byte`
* OTLP:                   husky writes attributes with `msgp.AppendInt64 / AppendFloat64 / AppendString /
                          AppendBool`; read back with `msgp.ReadIntfBytes`
* forwarded by a peer:    the first node re-encodes the (memoized) value with `Payload.MarshalMsg` →
                          `appendValue` → `msgp.AppendIntf` (scalars), the peer reads it with `msgp.ReadIntfBytes`.  `AppendUint64`
                          writes values below 128 as a positive fixint, which reads back as `int64`.

Numbers are exact rationals `num/den` in lowest terms (every finite float is one); the harness only
generates literals / floats whose value is exactly representable in the wire type.  Negative zero,
NaN and infinities are outside the model.

The rest of the file composes the decode with the existing models of the rules sampler
(`Refinery.Model.Rules`) and of the dynamic sample key (`Refinery.Model.TraceKey`).
-/
namespace Refinery.Model.Decode
open Refinery.Model

/-- A scalar field value as it is on the wire. -/
inductive Wire where
  | jnum (lit : String) (n : Int) (d : Nat)   -- JSON number: its spelling and the value n/d it denotes
  | jstr (s : String)
  | jbool (b : Bool)
  | jnull
  | mint (n : Int)                  -- msgpack int family: fixint, int8 … int64
  | muint (n : Nat)                 -- msgpack uint family: uint8 … uint64 (0xcc … 0xcf)
  | mf32 (n : Int) (d : Nat)        -- msgpack float32
  | mf64 (n : Int) (d : Nat)        -- msgpack float64
  | mstr (s : String)
  | mbin (s : String)
  | mbool (b : Bool)
  | mnil
  | oint (n : Int)                  -- OTLP AnyValue int_value
  | odbl (n : Int) (d : Nat)        -- OTLP AnyValue double_value
  | ostr (s : String)
  | obool (b : Bool)
  deriving DecidableEq, Repr, Inhabited

inductive Format where
  | json | msgpack | otlp
  deriving DecidableEq, Repr

def Wire.format : Wire → Format
  | .jnum .. | .jstr _ | .jbool _ | .jnull => .json
  | .mint _ | .muint _ | .mf32 .. | .mf64 .. | .mstr _ | .mbin _ | .mbool _ | .mnil => .msgpack
  | .oint _ | .odbl .. | .ostr _ | .obool _ => .otlp

/-- the endpoint a span arrives at -/
inductive Entry where
  | jsonEvent | jsonBatch | msgpEvent | msgpBatch | otlp
  deriving DecidableEq, Repr, Inhabited

def Entry.format : Entry → Format
  | .jsonEvent | .jsonBatch => .json
  | .msgpEvent | .msgpBatch => .msgpack
  | .otlp => .otlp

/-- an ingestion path: the endpoint of the node that received the span from the client, and whether
that node forwarded it to the peer that owns the trace -/
structure Path where
  entry : Entry
  viaPeer : Bool := false
  deriving DecidableEq, Repr, Inhabited

/-- The Go value held by `Payload` for a field: the dynamic types the decoders can produce. -/
inductive GoVal where
  | str (s : String)
  | int (n : Int)                   -- int64
  | flt (n : Int) (d : Nat)         -- float64
  | bool (b : Bool)
  | nil
  | u64 (n : Nat)                   -- uint64
  | f32 (n : Int) (d : Nat)         -- float32
  | bin (s : String)                -- []byte
  deriving DecidableEq, Repr, Inhabited

/-- the Go types `compare`, `tryConvertToInt`, `tryConvertToFloat` and `AddAsString` have a case
for: string, int64, float64, bool, nil -/
def GoVal.plain : GoVal → Bool
  | .u64 _ | .f32 .. | .bin _ => false
  | _ => true

/-- decode at the node that received the span from the client.  `fj` is `fastjson`'s number parser
(`Value.GetFloat64`, external), which the JSON batch path uses; `jsoniter` on the JSON event path
yields the float64 nearest to the literal, which for the literals considered is its value. -/
def decode (fj : String → Int × Nat) : Entry → Wire → GoVal
  | .jsonBatch, .jnum lit _ _ => .flt (fj lit).1 (fj lit).2
  | _, .jnum _ n d => .flt n d
  | _, .jstr s => .str s
  | _, .jbool b => .bool b
  | _, .jnull => .nil
  | _, .mint n => .int n
  | _, .muint n => .u64 n
  | .msgpEvent, .mf32 n d => .flt n d
  | _, .mf32 n d => .f32 n d
  | _, .mf64 n d => .flt n d
  | _, .mstr s => .str s
  | .msgpEvent, .mbin s => .str s
  | _, .mbin s => .bin s
  | _, .mbool b => .bool b
  | _, .mnil => .nil
  | _, .oint n => .int n
  | _, .odbl n d => .flt n d
  | _, .ostr s => .str s
  | _, .obool b => .bool b

/-- `msgp.AppendIntf` followed by `msgp.ReadIntfBytes` on the peer: the identity except that
`AppendUint64` writes a value below 128 as a positive fixint, which is read back as `int64` -/
def forwarded : GoVal → GoVal
  | .u64 n => if n < 128 then .int n else .u64 n
  | v => v

/-- does the receiving node hold the field as a Go value (memoized) when it forwards the span?
`/1/events` decodes the whole body into a map; the other endpoints keep the msgpack bytes and
memoize only the dataset's sampling key fields (`extractCriticalFieldsFromBytes`), except OTLP,
which memoizes nothing (`UnmarshalMsgpEventMetadataOnly`).  Bytes that were not memoized are
copied verbatim by `Payload.MarshalMsg`. -/
def Entry.memoizes (e : Entry) (sampled : Bool) : Bool :=
  match e with
  | .jsonEvent | .msgpEvent => true
  | .jsonBatch | .msgpBatch => sampled
  | .otlp => false

/-- the Go value the deciding node's samplers see; `sampled`: the field is one of the dataset's
sampling key fields (every field a sampler reads is) -/
def goOf (fj : String → Int × Nat) (p : Path) (sampled : Bool) (w : Wire) : GoVal :=
  if p.viaPeer && p.entry.memoizes sampled then forwarded (decode fj p.entry w) else decode fj p.entry w

/-- The value an encoding *means*: a number, a string, a boolean or null.  This is the property's
"numerically equal values": two encodings carry the same value iff their `logical` is equal. -/
inductive Logical where
  | num (n : Int) (d : Nat)
  | str (s : String)
  | bool (b : Bool)
  | null
  deriving DecidableEq, Repr

def logical : Wire → Logical
  | .jnum _ n d | .mf32 n d | .mf64 n d | .odbl n d => .num n d
  | .mint n | .oint n => .num n 1
  | .muint n => .num n 1
  | .jstr s | .mstr s | .mbin s | .ostr s => .str s
  | .jbool b | .mbool b | .obool b => .bool b
  | .jnull | .mnil => .null

/-! ## spans and traces as they arrive -/

structure ESpan where
  path : Path
  data : List (String × Wire)
  deriving Repr, Inhabited

/-- spans in arrival order and `trace.RootSpan` (the span that arrived without a parent id) -/
structure ETrace where
  spans : List ESpan
  root : Option ESpan := none
  deriving Repr, Inhabited

/-- a span can only carry values of its endpoint's format -/
def ESpan.realizable (s : ESpan) : Bool := s.data.all fun kw => kw.2.format == s.path.entry.format

def ETrace.realizable (t : ETrace) : Bool :=
  t.spans.all ESpan.realizable && (match t.root with | some r => r.realizable | none => true)

/-- the external / configuration-derived functions of decoding: `fastjson`'s number parser and
the set of sampling key fields -/
structure Dec where
  fj : String → Int × Nat
  sampled : String → Bool

def goSpan (D : Dec) (s : ESpan) : List (String × GoVal) :=
  s.data.map fun kw => (kw.1, goOf D.fj s.path (D.sampled kw.1) kw.2)

/-! ## bridge to the rules model: uint64, float32 and []byte are values `compare`,
`tryConvertToInt` and `tryConvertToFloat` have no case for (`Val.other`) -/

def toVal : GoVal → Rules.Val
  | .str s => .str s
  | .int n => .int n
  | .flt n d => .flt n d
  | .bool b => .bool b
  | .nil => .nil
  | .u64 n => .other ("u64:" ++ toString n)
  | .f32 n d => .other ("f32:" ++ toString n ++ "/" ++ toString d)
  | .bin s => .other ("bin:" ++ s)

def rulesSpan (D : Dec) (s : ESpan) : Rules.Span :=
  { data := (goSpan D s).map fun kv => (kv.1, toVal kv.2) }

/-- the trace as the rules model takes it, with the model's defaults for everything else
(`CheckNestedFields` off, no map-valued fields: values here are scalars) -/
def mkRulesTrace (spans : List Rules.Span) (root : Option Rules.Span) : Rules.Trace :=
  { spans := spans, root := root }

def rulesTrace (D : Dec) (t : ETrace) : Rules.Trace :=
  mkRulesTrace (t.spans.map (rulesSpan D)) (t.root.map (rulesSpan D))

/-! ## bridge to the trace-key model: int64 and uint64 are its integer values (rendered as their
decimal by `AddAsString` and `%v` alike), string / bool / nil its plain values; float64, float32 and
`[]byte` are values whose two renderings are external (`TraceKey.Ext`, keyed by Go type name and a
payload: the integer for an integral float, `num/den` otherwise; the bytes) -/

def fracRaw (n : Int) (d : Nat) : String := if d = 1 then toString n else toString n ++ "/" ++ toString d

def toTK : GoVal → TraceKey.Val
  | .str s => .str s
  | .int n => .int "int64" n
  | .flt n d => .ext "float64" (fracRaw n d)
  | .bool b => .bool b
  | .nil => .nil
  | .u64 n => .int "uint64" n
  | .f32 n d => .ext "float32" (fracRaw n d)
  | .bin s => .ext "[]uint8" s

def keySpan (D : Dec) (s : ESpan) : TraceKey.Span :=
  (goSpan D s).map fun kv => (kv.1, toTK kv.2)

def keyTrace (D : Dec) (t : ETrace) : TraceKey.Trace :=
  { spans := t.spans.map (keySpan D), root := t.root.map (keySpan D) }

/-! ## the samplers -/

/-- a rule's downstream sampler -/
inductive Down where
  | missing
  /-- a sampler that does not look at span data (deterministic: a function of the trace id) -/
  | fixed (d : Rules.DownRes)
  /-- a dynsampler-backed sampler: its rate and keep decision are a function of the sample key and
  the span count (`GetSampleRateMulti(key, count)` and the draw), and it reports the key -/
  | keyed (c : TraceKey.Cfg) (ans : String → Nat → Nat × Bool) (reason : String)

/-- Configuration and external functions of one evaluation: the JSON batch path's number parser,
the rules sampler (rule list, downstream samplers, `%v` / strconv / regexp, `rand.Intn`) and a
dynamic sampler (key configuration, value renderings, dynsampler's answer, its draw). -/
structure Samplers where
  fj : String → Int × Nat
  /-- the root prefix and computed-field prefix of `config.GetKeyFields` -/
  computedPre : String
  E : Rules.Ext
  x : TraceKey.Ext
  cap : Nat
  pre : String
  rules : List Rules.Rule
  downs : Nat → Down
  intn : Int → Nat
  keyCfg : TraceKey.Cfg
  dyn : String → Nat → Int
  dintn : Nat → Nat

/-- the rendering of key values: the plain types as the trace-key model defines them, floats and
other types by the external functions -/
def Samplers.render (S : Samplers) : TraceKey.Render := TraceKey.renderOf S.x

def downOf (S : Samplers) (kt : TraceKey.Trace) (id : Nat) : Option Rules.DownRes :=
  match S.downs id with
  | .missing => none
  | .fixed d => some d
  | .keyed c ans reason =>
    let k := TraceKey.key S.cap S.pre S.render c kt
    some { rate := (ans k kt.spans.length).1, keep := (ans k kt.spans.length).2, reason := reason, key := k }

/-- `config.GetKeyFields` on the configured samplers' `GetSamplingFields`: the condition fields of
every rule, the downstream samplers' and the dynamic sampler's key fields, with the `root.` prefix
cut off and computed (`?.`) fields left out.  These are the fields ingestion memoizes. -/
def samplingFields (S : Samplers) : List String :=
  let downFields (id : Option Nat) : List String :=
    match id with
    | some id => match S.downs id with
      | .keyed c _ _ => c.fields
      | _ => []
    | none => []
  let all := (S.rules.flatMap fun r => (r.conds.flatMap Rules.effFields) ++ downFields r.sampler) ++ S.keyCfg.fields
  (all.filter fun f => !Rules.hasPrefix f S.computedPre || Rules.hasPrefix f S.pre).map fun f =>
    if Rules.hasPrefix f S.pre then Rules.dropPrefix f S.pre else f

def Samplers.dec (S : Samplers) : Dec := ⟨S.fj, fun f => (samplingFields S).contains f⟩

/-- what the property compares: decision, rate (and reason, key) of the rules sampler; key, rate
and decision of the dynamic sampler -/
structure Outcome where
  rules : Rules.Decision
  dynKey : String
  dyn : TraceKey.Decision
  deriving DecidableEq, Repr

def rulesOutcome (S : Samplers) (t : ETrace) : Rules.Decision :=
  Rules.getSampleRate S.E (rulesTrace S.dec t) (downOf S (keyTrace S.dec t)) S.intn S.rules

def dynOutcome (S : Samplers) (t : ETrace) : String × TraceKey.Decision :=
  TraceKey.getSampleRate S.cap S.pre S.render S.keyCfg (keyTrace S.dec t) S.dyn S.dintn

def outcome (S : Samplers) (t : ETrace) : Outcome :=
  ⟨rulesOutcome S t, (dynOutcome S t).1, (dynOutcome S t).2⟩

end Refinery.Model.Decode
