/-!
# Model of "rules file → validation → sampler construction → first decisions"  (property C28)

Go code mirrored (as it is now; each flag of `Fixes` selects one *proposed* repair, see `Fixes`):

* `config/validate.go`  `Metadata.ValidateRules` / `Metadata.Validate` interpreting
  `config/metadata/rulesMeta.yaml` — the metadata table is a **parameter** (`Meta`), supplied from
  the real file through `Refinery.Gen.Nocrash.rulesMeta` (harness `facts`).  Struct tags such as
  `validate:"gte=1"` are *not* interpreted by anything and therefore do not appear here.
* `config/configLoadHelpers.go` `load` (YAML → structs): the only decoding failure of an accepted
  document that the model knows is a negative number for a `uint` field (`BurstDetectionDelay`).
* `config/sampler_config.go` `GetSamplingFields`, `RulesBasedSamplerCondition.Init`;
  `config/config.go` `GetKeyFields` (indexes `field[0]` of every name);
* `sample/sample.go` `createSampler`, `GetDownstreamSampler` (both `os.Exit(1)` on "no sampler");
  `sample/deterministic.go` `Start` (`MaxUint32 / uint32(rate)`);
  `sample/{dynamic,dynamic_ema,ema_throughput,totalthroughput,windowed_throughput}.go`
  `createDynFor…`, `Start`, `GetSampleRate` (`uint(answer)`, `rand.Intn(int(rate))`);
  `sample/rules.go` `Start`, `GetSampleRate`.
* of `dynsampler-go` only what the calls above reach on the first evaluation: the defaults applied
  in `Start`, the goroutine that calls `time.NewTicker(interval)` (panics for a non-positive
  interval — in a goroutine nobody can recover), `EMAThroughput.Start` refusing intervals under 1 ms
  *before* it allocates its maps (the caller drops that error), and the answer of
  `GetSampleRateMulti` before the first tick.  Later answers are a parameter (`later`).

Go's partial operations are explicit outcomes (`Crash`), never totalised.  Which rule of a
rules-based sampler matches a trace (regexps, comparisons) is a parameter (`m : Nat → Bool`).
`int`/`uint` are 64 bits wide.
-/
namespace Refinery.Model.Startup

/-! ## Metadata table (`rulesMeta.yaml`) -/

/-- a validation: type, numeric argument in thousandths, string arguments (choices, children, …) -/
abbrev VRow := String × Int × List String
/-- a field: name, type, validations -/
abbrev FRow := String × String × List VRow
/-- a group: name, fields -/
abbrev GRow := String × List FRow
abbrev Meta := List GRow

def findGroup (md : Meta) (g : String) : Option (List FRow) := (md.find? (·.1 == g)).map (·.2)
def findField (fr : List FRow) (k : String) : Option FRow := fr.find? (·.1 == k)

/-! ## The YAML document as the validator sees it -/

/-- element of a YAML sequence -/
inductive Elem where
  | str (s : String)
  | int (i : Int)
  | null
  deriving Repr, DecidableEq

/-- value of a scalar-or-sequence key -/
inductive Val where
  | null
  | int (i : Int)               -- YAML integer literal
  | flt (milli : Int)           -- YAML float literal, in thousandths
  | str (s : String)            -- a string that is not a Go duration
  | dur (ns : Int)              -- a string `time.ParseDuration` accepts, with its value
  | bool (b : Bool)
  | list (l : List Elem)
  deriving Repr, DecidableEq

abbrev Fields := List (String × Val)

/-- how a node that is meant to be a mapping was written -/
inductive Shape (α : Type) where
  | obj (a : α)
  | null                        -- `key:` / `- ` with nothing after it
  | scalar                      -- a number where a mapping belongs
  deriving Repr

/-- one `<SamplerName>: …` entry of a `Sampler:` mapping or of `Samplers.<name>` -/
structure RawDown where
  group : String
  value : Shape Fields
  deriving Repr

structure RawRule where
  fields : Fields                               -- Name, Drop, SampleRate, Scope, …
  conds : Option (List (Shape Fields))          -- `Conditions:` absent | a sequence
  sampler : Option (List RawDown)               -- `Sampler:` absent | a mapping with these entries
  deriving Repr

structure RawRules where
  fields : Fields                               -- CheckNestedFields, …
  rules : Option (List (Shape RawRule))         -- `Rules:` absent | a sequence
  deriving Repr

inductive RawEntry where
  | leaf (group : String) (value : Shape Fields)
  | rules (value : Shape RawRules)
  deriving Repr

/-- `RulesVersion: <version>` and `Samplers: { __default__: { <entries> } }` -/
structure RawCfg where
  version : Val := .int 2
  entries : List RawEntry := []
  deriving Repr

/-- One flag per proposed repair (all `false`: the code as it is).  The coordinator flips a flag in
the oracle when the corresponding `fix:` commit lands. -/
structure Fixes where
  keyFields : Bool := false    -- `GetKeyFields` skips empty names
  det : Bool := false          -- `DeterministicSampler.Start` divides in 64 bits, only for rates > 1
  intn : Bool := false         -- the `GetSampleRate` methods clamp the `int` answer before converting to `uint`
  emaInterval : Bool := false  -- `createDynForEMAThroughputSampler`: an interval under 1 ms selects the default
  ticker : Bool := false       -- the other four `createDynFor…`: a negative interval selects the default
  nullElems : Bool := false    -- `Validate`: every member of an `objectarray` must be a mapping
  noSampler : Bool := false    -- `newFileConfig`: every `Samplers` entry / rule `Sampler:` configures a sampler type
  deriving Repr, DecidableEq

def Fixes.none : Fixes := {}
def Fixes.all : Fixes :=
  { keyFields := true, det := true, intn := true, emaInterval := true, ticker := true, nullElems := true, noSampler := true }

/-! ## `validateDatatype` and the per-field validations -/

def isInt64 (i : Int) : Bool := decide (-9223372036854775808 ≤ i ∧ i ≤ 9223372036854775807)

def elemIsStr : Elem → Bool
  | .str _ => true
  | _ => false

/-- Go type of a decoded sequence element, as `fmt.Sprintf("%T")` distinguishes them -/
def elemTag : Elem → Nat
  | .str _ => 0
  | .int i => if isInt64 i then 1 else 2
  | .null => 3

/-- `validateDatatype(k, v, ty) == ""` for the types rules metadata uses on non-mapping keys.
An integer literal outside int64 decodes as `uint64`, which no type accepts. -/
def typeOk (ty : String) (v : Val) : Bool :=
  match v with
  | .null => false                                           -- "field … must not be nil"
  | .int i =>
    if ty == "int" || ty == "float" || ty == "sliceorscalar" || ty == "anyscalar" then isInt64 i else false
  | .flt _ => ty == "float" || ty == "sliceorscalar" || ty == "anyscalar"
  | .str _ => ty == "string" || ty == "sliceorscalar" || ty == "anyscalar"
  | .dur _ => ty == "string" || ty == "duration" || ty == "sliceorscalar" || ty == "anyscalar"
  | .bool _ => ty == "bool" || ty == "sliceorscalar" || ty == "anyscalar"
  | .list l =>
    if ty == "stringarray" then l.all elemIsStr
    else if ty == "sliceorscalar" then
      (match l with
       | [] => true
       | e :: es => es.all (fun x => elemTag x == elemTag e))
    else false

/-- `asFloat`, in thousandths (a duration string counts in whole milliseconds) -/
def asMilli : Val → Option Int
  | .int i => some (i * 1000)
  | .flt m => some m
  | .dur ns => some (Int.tdiv ns 1000000 * 1000)
  | _ => none

def knownValidations : List String :=
  ["choice", "format", "minimum", "minOrZero", "maximum", "notempty", "elementType", "validChildren",
   "noReservedHeaders", "required", "requiredInGroup", "requiredWith", "conflictsWith"]

/-- one entry of `field.Validations` applied to a value of the right type -/
def validationOk (v : Val) (row : VRow) : Bool :=
  let ty := row.1
  let arg := row.2.1
  let sargs := row.2.2
  if ty == "minimum" then (match asMilli v with | some m => decide (arg ≤ m) | none => false)
  else if ty == "maximum" then (match asMilli v with | some m => decide (m ≤ arg) | none => false)
  else if ty == "minOrZero" then (match asMilli v with | some m => decide (m = 0 ∨ arg ≤ m) | none => false)
  else if ty == "notempty" then (match v with | .str s => s != "" | _ => true)
  else if ty == "choice" then (match v with | .str s => sargs.contains s | _ => false)
  else if ty == "elementType" then
    (match v with
     | .list l => if sargs == ["string"] then l.all elemIsStr else false
     | _ => false)
  else if ty == "format" then false                                   -- not used by rules metadata
  else knownValidations.contains ty                                   -- presence rules: see `presenceOk`

def fieldOk (frows : List FRow) (kv : String × Val) : Bool :=
  match findField frows kv.1 with
  | none => false                                                     -- "unknown field"
  | some fr => typeOk fr.2.1 kv.2 && fr.2.2.all (validationOk kv.2)

/-- the second loop of `Validate`: required / conflicting keys of a group that is present -/
def presenceOk (frows : List FRow) (present : List String) : Bool :=
  frows.all fun fr => fr.2.2.all fun row =>
    let ty := row.1
    if ty == "requiredInGroup" || ty == "required" then present.contains fr.1
    else if ty == "conflictsWith" then !(present.contains fr.1 && row.2.2.any present.contains)
    else if ty == "requiredWith" then !(row.2.2.any present.contains) || present.contains fr.1
    else true

def hasTyped (frows : List FRow) (k ty : String) : Bool :=
  match findField frows k with
  | some fr => fr.2.1 == ty
  | none => false

/-- `Validate({g: value})` for a group without mapping-valued keys -/
def validateGroup (md : Meta) (g : String) (value : Shape Fields) : Bool :=
  match findGroup md g with
  | none => false                                                     -- "unknown group"
  | some frows =>
    match value with
    | .obj f => f.all (fieldOk frows) && presenceOk frows (f.map (·.1))
    | _ => presenceOk frows []              -- `g: null` / `g: 5`: only the presence rules run

def childrenOf (frows : List FRow) (k : String) : List String :=
  match findField frows k with
  | some fr => (fr.2.2.filter (·.1 == "validChildren")).flatMap (·.2.2)
  | none => []

def validateRule (md : Meta) (r : RawRule) : Bool :=
  match findGroup md "Rules" with
  | none => false
  | some frows =>
    r.fields.all (fieldOk frows)
    && (match r.conds with
        | none => true
        | some cs => hasTyped frows "Conditions" "objectarray" && cs.all (validateGroup md "Conditions"))
    && (match r.sampler with
        | none => true
        | some es => hasTyped frows "Sampler" "object"
                     && es.all (fun e => validateGroup md e.group e.value)
                     && es.all (fun e => (childrenOf frows "Sampler").contains e.group))
    && presenceOk frows (r.fields.map (·.1) ++ (if r.conds.isSome then ["Conditions"] else [])
                          ++ (if r.sampler.isSome then ["Sampler"] else []))

def validateRuleShape (md : Meta) : Shape RawRule → Bool
  | .obj r => validateRule md r
  | _ => match findGroup md "Rules" with
         | some frows => presenceOk frows []
         | none => false

def validateRules (md : Meta) (value : Shape RawRules) : Bool :=
  match findGroup md "RulesBasedSampler" with
  | none => false
  | some frows =>
    match value with
    | .obj rb =>
      rb.fields.all (fieldOk frows)
      && (match rb.rules with
          | none => true
          | some rs => hasTyped frows "Rules" "objectarray" && rs.all (validateRuleShape md))
      && presenceOk frows (rb.fields.map (·.1) ++ (if rb.rules.isSome then ["Rules"] else []))
    | _ => presenceOk frows []

def validateEntry (md : Meta) : RawEntry → Bool
  | .leaf g v => validateGroup md g v
  | .rules v => validateRules md v

def isObj {α : Type} : Shape α → Bool
  | .obj _ => true
  | _ => false

def ruleElemsObj : Shape RawRule → Bool
  | .obj r => (r.conds.getD []).all isObj
  | _ => false

def entryElemsObj : RawEntry → Bool
  | .rules (.obj rb) => (rb.rules.getD []).all ruleElemsObj
  | _ => true

/-- proposed repair `nullElems`: in `Validate`'s `objectarray` case a member that is not a mapping
(`- ` with nothing after it, a scalar) is an error -/
def elemsObj (c : RawCfg) : Bool := c.entries.all entryElemsObj

/-- `ValidateRules` has no error-level result -/
def validate (md : Meta) (fx : Fixes) (c : RawCfg) : Bool :=
  (c.version == .int 2) && c.entries.all (validateEntry md) && (!fx.nullElems || elemsObj c)

/-! ## Decoding into the configuration structs -/

inductive DynKind where
  | dynamic | emaDynamic | emaThroughput | windowed | total
  deriving Repr, DecidableEq

/-- what the five dynsampler-backed samplers read from their configuration on the modelled paths -/
structure DynCfg where
  kind : DynKind
  rate : Int := 0            -- SampleRate / GoalSampleRate
  initial : Int := 0         -- InitialSampleRate
  interval : Int := 0        -- ClearFrequency / AdjustmentInterval / UpdateFrequency, ns
  fieldList : List String := []
  deriving Repr, DecidableEq

inductive Leaf where
  | det (rate : Int)
  | dyn (c : DynCfg)
  deriving Repr, DecidableEq

structure Cond where
  field : String
  fields : List String
  deriving Repr, DecidableEq

/-- `*RulesBasedDownstreamSampler` that is not nil -/
inductive Down where
  | empty                    -- `Sampler: {}`: the wrapper exists, no member is set
  | leaf (l : Leaf)
  deriving Repr, DecidableEq

structure Rule where
  sampleRate : Int
  conds : List (Option Cond)         -- `none`: a nil `*RulesBasedSamplerCondition`
  sampler : Option Down              -- `none`: `rule.Sampler == nil`
  deriving Repr, DecidableEq

/-- what `V2SamplerChoice.Sampler()` returns for `__default__` -/
inductive Choice where
  | none                                   -- no member set: `(nil, "")`
  | leaf (l : Leaf)
  | rules (rs : List (Option Rule))        -- `none`: a nil `*RulesBasedSamplerRule`
  deriving Repr, DecidableEq

def getInt (f : Fields) (k : String) : Int :=
  match f.lookup k with
  | some (.int i) => i
  | _ => 0

def getDur (f : Fields) (k : String) : Int :=
  match f.lookup k with
  | some (.dur n) => n
  | _ => 0

def getStr (f : Fields) (k : String) : String :=
  match f.lookup k with
  | some (.str s) => s
  | _ => ""

def elemStr? : Elem → Option String
  | .str s => some s
  | _ => none

def getStrs (f : Fields) (k : String) : List String :=
  match f.lookup k with
  | some (.list l) => l.filterMap elemStr?
  | _ => []

inductive LoadErr where
  | decode
  deriving Repr, DecidableEq

/-- a sampler's mapping into its struct; `none`: the name is not a member of the choice struct
(YAML decoding ignores unknown keys) -/
def decodeLeaf (g : String) (f : Fields) : Except LoadErr (Option Leaf) :=
  if g == "DeterministicSampler" then .ok (some (.det (getInt f "SampleRate")))
  else if g == "DynamicSampler" then
    .ok (some (.dyn { kind := .dynamic, rate := getInt f "SampleRate",
                      interval := getDur f "ClearFrequency", fieldList := getStrs f "FieldList" }))
  else if g == "EMADynamicSampler" then
    if getInt f "BurstDetectionDelay" < 0 then .error .decode           -- `uint`
    else .ok (some (.dyn { kind := .emaDynamic, rate := getInt f "GoalSampleRate",
                           interval := getDur f "AdjustmentInterval", fieldList := getStrs f "FieldList" }))
  else if g == "EMAThroughputSampler" then
    if getInt f "BurstDetectionDelay" < 0 then .error .decode           -- `uint`
    else .ok (some (.dyn { kind := .emaThroughput, initial := getInt f "InitialSampleRate",
                           interval := getDur f "AdjustmentInterval", fieldList := getStrs f "FieldList" }))
  else if g == "WindowedThroughputSampler" then
    .ok (some (.dyn { kind := .windowed, interval := getDur f "UpdateFrequency",
                      fieldList := getStrs f "FieldList" }))
  else if g == "TotalThroughputSampler" then
    .ok (some (.dyn { kind := .total, interval := getDur f "ClearFrequency",
                      fieldList := getStrs f "FieldList" }))
  else .ok none

/-- the sampler members of `V2SamplerChoice` / `RulesBasedDownstreamSampler` other than the rules-based one -/
def leafNames : List String :=
  ["DeterministicSampler", "DynamicSampler", "EMADynamicSampler", "EMAThroughputSampler",
   "WindowedThroughputSampler", "TotalThroughputSampler"]

def decodeLeafShape (g : String) (v : Shape Fields) : Except LoadErr (Option Leaf) :=
  if !leafNames.contains g then .ok none      -- not a member of the struct: the key is ignored whatever its value
  else match v with
    | .obj f => decodeLeaf g f
    | .null => .ok none                       -- nil pointer
    | .scalar => .error .decode               -- "cannot unmarshal !!int into …"

/-- `Except` version of `List.map` (first error wins, in list order) -/
def mapE {α β ε : Type} (f : α → Except ε β) : List α → Except ε (List β)
  | [] => .ok []
  | a :: as =>
    match f a with
    | .error e => .error e
    | .ok b =>
      match mapE f as with
      | .error e => .error e
      | .ok bs => .ok (b :: bs)

def decodeCond : Shape Fields → Except LoadErr (Option Cond)
  | .obj f => .ok (some { field := getStr f "Field", fields := getStrs f "Fields" })
  | .null => .ok none
  | .scalar => .error .decode

/-- the `Sampler:` mapping of a rule (at most one entry is generated) -/
def decodeDown : List RawDown → Except LoadErr Down
  | [] => .ok .empty
  | e :: _ =>
    match decodeLeafShape e.group e.value with
    | .error x => .error x
    | .ok none => .ok .empty
    | .ok (some l) => .ok (.leaf l)

def decodeRule : Shape RawRule → Except LoadErr (Option Rule)
  | .null => .ok none
  | .scalar => .error .decode
  | .obj r =>
    match mapE decodeCond (r.conds.getD []) with
    | .error x => .error x
    | .ok cs =>
      match r.sampler with
      | none => .ok (some { sampleRate := getInt r.fields "SampleRate", conds := cs, sampler := none })
      | some es =>
        match decodeDown es with
        | .error x => .error x
        | .ok d => .ok (some { sampleRate := getInt r.fields "SampleRate", conds := cs, sampler := some d })

def decodeEntry : RawEntry → Except LoadErr Choice
  | .leaf g v =>
    match decodeLeafShape g v with
    | .error x => .error x
    | .ok none => .ok .none
    | .ok (some l) => .ok (.leaf l)
  | .rules .null => .ok .none
  | .rules .scalar => .error .decode
  | .rules (.obj rb) =>
    match mapE decodeRule (rb.rules.getD []) with
    | .error x => .error x
    | .ok rs => .ok (.rules rs)

def decode (c : RawCfg) : Except LoadErr Choice :=
  match c.entries with
  | [] => .ok .none
  | e :: _ => decodeEntry e

inductive Load where
  | reject                   -- validation errors: `NewConfig` returns an error, nothing starts
  | loaderr                  -- validation passed, YAML decoding into the structs failed: same
  | ok (c : Choice)
  deriving Repr, DecidableEq

/-! ### proposed repair `noSampler`: a structural check on the decoded rules

A `(*V2SamplerConfig)` check called by `newFileConfig` after decoding (its error is returned like a
decoding error): every `Samplers` entry configures a sampler type, no `Sampler:` mapping of a rule
is empty. -/

def missingSampler : Choice → Bool
  | .none => true
  | .leaf _ => false
  | .rules rs => rs.any fun
      | some r => r.sampler == some .empty
      | none => false

/-- a nil rule or a nil condition somewhere -/
def hasNil : Choice → Bool
  | .rules rs => rs.any fun
      | none => true
      | some r => r.conds.any Option.isNone
  | _ => false

/-- `config.NewConfig` on the rules file -/
def load (md : Meta) (fx : Fixes) (c : RawCfg) : Load :=
  if validate md fx c then
    match decode c with
    | .ok ch => if fx.noSampler && missingSampler ch then .loaderr else .ok ch
    | .error _ => .loaderr
  else .reject

/-! ## Starting and asking samplers: Go's partial operations as outcomes -/

inductive Crash where
  | index        -- "index out of range [0] with length 0"            (`field[0]`, GetKeyFields)
  | divzero      -- "integer divide by zero"                           (DeterministicSampler.Start)
  | intn         -- "invalid argument to Intn"                         (GetSampleRate of the dynsampler-backed samplers)
  | nilmap       -- "assignment to entry in nil map"                   (EMAThroughput whose Start was refused)
  | nilptr       -- "invalid memory address or nil pointer dereference" (nil rule / nil condition)
  | exit         -- `os.Exit(1)` after "… Exiting."                    (no sampler type set)
  | ticker       -- "non-positive interval for NewTicker", in a goroutine of dynsampler-go: process dies
  deriving Repr, DecidableEq

/-- `config.GetKeyFields`: evaluates `field[0]` for every name.  Proposed repair: skip empty names. -/
def keyFields (fx : Fixes) (fs : List String) : Except Crash Unit :=
  if !fx.keyFields && fs.contains "" then .error .index else .ok ()

/-- `DeterministicSampler.Start`: `math.MaxUint32 / uint32(rate)`.
Proposed repair: `if rate > 1 { upperBound = uint32(MaxUint32 / uint64(rate)) }`. -/
def detStart (fx : Fixes) (rate : Int) : Except Crash Unit :=
  if !fx.det && rate % 4294967296 = 0 then .error .divzero else .ok ()

def second : Int := 1000000000
def millisecond : Int := 1000000

/-- `createDynFor…` + the third-party `Start`: the interval that reaches `time.NewTicker` in the
sampler's goroutine.  `.ok true`: `EMAThroughput.Start` returned its "unreasonably short" error
before allocating its maps and the error was dropped.  Proposed repairs: `ticker` — a negative
interval selects the default (the four samplers with a ticker on any interval); `emaInterval` — an
interval under 1 ms selects the default (EMAThroughput). -/
def dynCreate (fx : Fixes) (c : DynCfg) : Except Crash Bool :=
  match c.kind with
  | .dynamic | .total =>
    let iv := if c.interval = 0 ∨ (fx.ticker = true ∧ c.interval < 0) then 30 * second else c.interval
    if iv ≤ 0 then .error .ticker else .ok false
  | .emaDynamic =>
    let iv := if c.interval = 0 ∨ (fx.ticker = true ∧ c.interval < 0) then 15 * second else c.interval
    if iv ≤ 0 then .error .ticker else .ok false
  | .windowed =>
    let iv := if c.interval = 0 ∨ (fx.ticker = true ∧ c.interval < 0) then second else c.interval
    if iv ≤ 0 then .error .ticker else .ok false
  | .emaThroughput =>
    let iv := if c.interval = 0 ∨ (fx.emaInterval = true ∧ c.interval < millisecond) then 15 * second else c.interval
    if iv < millisecond then .ok true else .ok false

/-- a started leaf sampler -/
inductive LeafS where
  | det (rate : Int)
  | dyn (c : DynCfg) (mapsNil : Bool)
  deriving Repr, DecidableEq

/-- `SamplerFactory.createSampler` for one configuration: shared dynsampler first, then `Start` -/
def leafStart (fx : Fixes) : Leaf → Except Crash LeafS
  | .det rate =>
    match detStart fx rate with
    | .error e => .error e
    | .ok _ => .ok (.det rate)
  | .dyn c =>
    match dynCreate fx c with
    | .error e => .error e
    | .ok mapsNil =>
      match keyFields fx c.fieldList with
      | .error e => .error e
      | .ok _ => .ok (.dyn c mapsNil)

def toU64 (x : Int) : Int := x % 18446744073709551616
def toI64 (u : Int) : Int := if u < 9223372036854775808 then u else u - 18446744073709551616

/-- what `GetSampleRateMulti` answers before the sampler's first tick -/
def initialAnswer (c : DynCfg) : Int :=
  match c.kind with
  | .dynamic | .emaDynamic => if c.rate = 0 then 10 else c.rate
  | .emaThroughput => if c.initial = 0 then 10 else c.initial
  | .total => 1
  | .windowed => 0

/-- `GetSampleRate` of a leaf sampler; result: the rate it reports (`uint`).
`later`: the third-party sampler's answer once it has data (`none`: still the initial answer).
Current code: `rate = uint(answer); if rate < 1 { rate = 1 }; rand.Intn(int(rate))`.
Proposed repair: clamp the `int` answer before converting. -/
def leafEval (fx : Fixes) (s : LeafS) (later : Option Int) : Except Crash Int :=
  match s with
  | .det rate => .ok (if rate ≤ 1 then 1 else rate)
  | .dyn c mapsNil =>
    if mapsNil then .error .nilmap
    else
      let a := later.getD (initialAnswer c)
      if fx.intn then .ok (toU64 (if a < 1 then 1 else a))
      else
        let r := toU64 a
        let r := if r < 1 then 1 else r
        if toI64 r ≤ 0 then .error .intn else .ok r

/-! ### Rules-based sampler -/

/-- the field names a condition contributes after `Init` moved `Field` into `Fields` -/
def condFields (c : Cond) : List String :=
  if c.field != "" && c.fields.isEmpty then [c.field] else c.fields

def leafFields : Leaf → List String
  | .det _ => []
  | .dyn c => c.fieldList

def downFields : Option Down → List String
  | some (.leaf l) => leafFields l
  | _ => []

/-- `GetSamplingFields` calls `condition.Init()` on every condition of every non-nil rule -/
def hasNilCond (rs : List (Option Rule)) : Bool :=
  rs.any fun
    | some r => r.conds.any Option.isNone
    | none => false

def ruleFields (r : Rule) : List String :=
  (r.conds.filterMap id).flatMap condFields ++ downFields r.sampler

def allFields (rs : List (Option Rule)) : List String := (rs.filterMap id).flatMap ruleFields

/-- `config.GetKeyFields(cfg.GetSamplingFields())` for a rules-based sampler -/
def rulesKeyFields (fx : Fixes) (rs : List (Option Rule)) : Except Crash Unit :=
  if hasNilCond rs then .error .nilptr else keyFields fx (allFields rs)

structure RuleS where
  sampleRate : Int
  hasSampler : Bool                   -- `rule.Sampler != nil`
  down : Option LeafS                 -- the entry of `s.samplers`, if one was registered
  deriving Repr, DecidableEq

/-- one iteration of the loop in `RulesBasedSampler.Start` -/
def startRule (fx : Fixes) : Option Rule → Except Crash RuleS
  | none => .error .nilptr                                  -- `rule.Conditions` of a nil rule
  | some r =>
    match r.sampler with
    | none => .ok { sampleRate := r.sampleRate, hasSampler := false, down := none }
    | some .empty => .error .exit                           -- "can not continue with an unknown sampler type. Exiting."
    | some (.leaf l) =>
      match leafStart fx l with
      | .error e => .error e
      | .ok s => .ok { sampleRate := r.sampleRate, hasSampler := true, down := some s }

inductive Sampler where
  | leaf (s : LeafS)
  | rules (rs : List RuleS)
  deriving Repr, DecidableEq

/-- `SamplerFactory.GetSamplerImplementationForKey` (what a collector worker does the first time it
decides a trace of an environment) -/
def start (fx : Fixes) : Choice → Except Crash Sampler
  | .none => .error .exit                                   -- "unknown sampler type <nil>. Exiting."
  | .leaf l =>
    match leafStart fx l with
    | .error e => .error e
    | .ok s => .ok (.leaf s)
  | .rules rs =>
    match rulesKeyFields fx rs with
    | .error e => .error e
    | .ok _ =>
      match mapE (startRule fx) rs with
      | .error e => .error e
      | .ok ss => .ok (.rules ss)

/-- `types.NewCoreFieldsUnmarshaler`, run by the router for every incoming request -/
def reqKeyFields (fx : Fixes) : Choice → Except Crash Unit
  | .none => .ok ()
  | .leaf l => keyFields fx (leafFields l)
  | .rules rs => rulesKeyFields fx rs

/-- `RulesBasedSampler.GetSampleRate`: first matching rule (`m i`: rule `i` matches the trace) -/
def rulesEval (fx : Fixes) (m : Nat → Bool) (later : Option Int) : Nat → List RuleS → Except Crash Int
  | _, [] => .ok 1                                          -- "no rule matched"
  | i, r :: rest =>
    if m i then
      if r.hasSampler then
        match r.down with
        | none => .ok 1                                     -- "bad_rule"
        | some s => leafEval fx s later
      else .ok (toU64 r.sampleRate)                         -- `rand.Intn` is guarded by `SampleRate > 0`
    else rulesEval fx m later (i + 1) rest

def eval (fx : Fixes) (s : Sampler) (m : Nat → Bool) (later : Option Int) : Except Crash Int :=
  match s with
  | .leaf l => leafEval fx l later
  | .rules rs => rulesEval fx m later 0 rs

def isOk {ε α : Type} : Except ε α → Bool
  | .ok _ => true
  | .error _ => false

/-- The conclusion of C28 on the modelled paths: request key-field derivation, sampler construction
and every decision succeed, whatever rule matches and whatever the third-party sampler later
answers (`laterOk` restricts those answers). -/
def NoCrash (fx : Fixes) (laterOk : Int → Prop) (c : Choice) : Prop :=
  reqKeyFields fx c = .ok () ∧
  ∃ s, start fx c = .ok s ∧
    ∀ (m : Nat → Bool) (later : Option Int), (∀ a, later = some a → laterOk a) →
      isOk (eval fx s m later) = true

end Refinery.Model.Startup
