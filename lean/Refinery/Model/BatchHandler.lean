import Refinery.Gen.Responses
/-!
# Model of the ingestion handlers' control flow  (property C23)

`route/route.go` (`event`, `batch`, `requestToEvent`, `processOTLPRequest`,
`processOTLPRequestBatchMsgp`, `processEvent`), `route/errors.go` (`handlerReturnWithError`),
`route/otlp_trace.go` (`postOTLPTrace`, `customTraceExportHandler`, `ExportTraceData`),
`route/otlp_logs.go` (`postOTLPLogs`, `LogsServer.Export`), `route/middleware.go`
(`apiKeyProcessor`, which sits in front of `/1/…` on the mux).

Each handler is a function from the request's shape and the fault points that fire to
* the response acts it performs, in order (`Act`: a `handlerReturnWithError`, the batch status
  list, an OTLP success / failure document, the value a gRPC method returns), and
* its effects: which events were handed to which sink, which were refused by the collector, which
  reached `processEvent` at all.

The control flow is the code's own, **including the two missing `return`s in `batch` and the
`return nil` of `processOTLPRequest*` when the environment lookup fails**; `fixed = true` is the
repaired shape (both `return`s present, the lookup error propagated).  Status codes are not typed
in: they are the values of `Refinery.Gen.Responses`, computed by the compiled code.

Access-key configuration is the default one (every non-blank key accepted, nothing replaced —
that is C24's subject); `keyBlank` is the one authentication fault kept, because it is the first
exit of every handler.  Stress relief is off (`Collector.Stressed() = false`).
-/
namespace Refinery.Model.BatchHandler
open Refinery.Gen.Responses

/-- which of the two routers serves the request: the one on the client-facing listener
(`RouterTypeIncoming`) or the one on the peer listener (`RouterTypePeer`).  Both run the same
handlers; the kind is consulted in one place only, at the end of `processEvent`. -/
inductive Listener where
  | incoming | peer
  deriving DecidableEq, Repr

/-- the collector's two input queues -/
inductive Queue where
  | addSpan           -- `Collector.AddSpan`
  | addSpanFromPeer   -- `Collector.AddSpanFromPeer`
  deriving DecidableEq, Repr

/-- `if r.routerType.IsIncoming() { AddSpan } else { AddSpanFromPeer }` -/
def collectorQueue : Listener → Queue
  | .incoming => .addSpan
  | .peer => .addSpanFromPeer

/-- where `processEvent` hands an event -/
inductive Sink where
  | upstream              -- `UpstreamTransmission.EnqueueEvent`: no trace id
  | peer                  -- `PeerTransmission.EnqueueEvent`: the trace belongs to another shard
  | collector (q : Queue) -- `Collector.AddSpan` / `AddSpanFromPeer` returned nil
  deriving DecidableEq, Repr

/-- one event of a request, by what decides its fate -/
inductive Item where
  | emptyData   -- `"data": {}` (batch) / `{}` (single event)
  | noData      -- batch member without a `data` object: `Payload.IsEmpty()` is false for it
  | nonTrace    -- no trace id
  | peer        -- trace id owned by another shard
  | localOk     -- own trace, the collector's queue has room
  | localFull   -- own trace, the collector answers `ErrWouldBlock`
  | probe       -- `meta.refinery.probe = true`
  deriving DecidableEq, Repr

/-- result of `Router.processEvent` -/
inductive PE where
  | sent (s : Sink)   -- returned nil after handing the event to `s`
  | dropped           -- returned nil without handing it anywhere (probe)
  | wouldBlock        -- returned `collect.ErrWouldBlock`
  deriving DecidableEq, Repr

/-- `Router.processEvent` (it does not look at emptiness: an event without data has no trace id and
goes upstream). -/
def processEvent (l : Listener) : Item → PE
  | .probe => .dropped
  | .emptyData | .noData | .nonTrace => .sent .upstream
  | .peer => .sent .peer
  | .localOk => .sent (.collector (collectorQueue l))
  | .localFull => .wouldBlock   -- the error of the queue `collectorQueue l`, returned as it is

/-- the fault points of one request (`true` = the fault fires if the handler gets there) -/
structure Faults where
  keyBlank : Bool := false     -- no API key at all
  readFails : Bool := false    -- body cannot be read / decompressed
  datasetBad : Bool := false   -- `getDatasetFromRequest` fails (undecodable escape)
  envFails : Bool := false     -- the key needs an environment lookup and the lookup fails
  parseFails : Bool := false   -- body is not a parsable payload
  ctBad : Bool := false        -- unsupported Content-Type (OTLP/HTTP)
  deriving DecidableEq, Repr

inductive Req where
  | event (viaMux : Bool) (f : Faults) (item : Item)         -- POST /1/events/{dataset}
  | batch (viaMux : Bool) (f : Faults) (items : List Item)   -- POST /1/batch/{dataset}
  | otlpHttp (logs : Bool) (f : Faults) (items : List Item)  -- POST /v1/traces, /v1/logs
  | otlpGrpc (logs : Bool) (f : Faults) (items : List Item)  -- TraceService/Export, LogsService/Export
  deriving DecidableEq, Repr

def Req.items : Req → List Item
  | .event _ _ it => [it]
  | .batch _ _ l | .otlpHttp _ _ l | .otlpGrpc _ _ l => l

/-- one response act -/
inductive Act where
  | err (code : Int)        -- `handlerReturnWithError`: WriteHeader(code) + error JSON
  | list (sts : List Int)   -- `w.Write(json.Marshal(batchedResponses))`
  | otlpOk                  -- `WriteOtlpHttpTraceSuccessResponse`: WriteHeader(200) + empty message
  | otlpFail (code : Int)   -- `handleOTLPFailureResponse`: WriteHeader(code) + status message
  | grpc (code : Int)       -- the gRPC method returns (code 0 = response, nil)
  deriving DecidableEq, Repr

structure Effects where
  sent : List (Nat × Sink) := []   -- (index of the event in the request, sink), in order
  refused : List Nat := []         -- events the collector refused (queue full)
  attempts : List Nat := []        -- events handed to `processEvent`
  deriving DecidableEq, Repr

structure Out where
  acts : List Act
  eff : Effects := {}
  deriving DecidableEq, Repr

/-- what the per-event part of a loop iteration yields -/
structure ItemRes where
  status : Int
  sink : Option Sink
  refused : Bool
  attempted : Bool
  deriving DecidableEq, Repr

/-- one iteration of the event loop.  `checkEmpty`: `batch` tests `bev.Data.IsEmpty()` first and
answers 400 without calling `processEvent`; the OTLP loops have no such test.  The status is what
`batch` puts in the list (`errors.Is(err, ErrWouldBlock)` → 429, other error → 400, nil → 202);
the OTLP loops only log the error. -/
def itemRes (l : Listener) (checkEmpty : Bool) (it : Item) : ItemRes :=
  if checkEmpty && it == .emptyData then ⟨stBadRequest, none, false, false⟩
  else match processEvent l it with
    | .sent s => ⟨stAccepted, some s, false, true⟩
    | .dropped => ⟨stAccepted, none, false, true⟩
    | .wouldBlock => ⟨stTooManyRequests, none, true, true⟩

structure Loop where
  sts : List Int := []
  eff : Effects := {}
  deriving DecidableEq, Repr

/-- `for _, ev := range events { … }` starting at index `i` -/
def loop (l : Listener) (checkEmpty : Bool) : Nat → List Item → Loop
  | _, [] => {}
  | i, it :: rest =>
    let r := itemRes l checkEmpty it
    let t := loop l checkEmpty (i + 1) rest
    { sts := r.status :: t.sts
      eff := { sent := (match r.sink with | some s => [(i, s)] | none => []) ++ t.eff.sent
               refused := (if r.refused then [i] else []) ++ t.eff.refused
               attempts := (if r.attempted then [i] else []) ++ t.eff.attempts } }

/-- `Router.event` behind `apiKeyProcessor` (when reached through the mux). -/
def handleEvent (l : Listener) (viaMux : Bool) (f : Faults) (it : Item) : Out :=
  if viaMux && f.keyBlank then ⟨[.err stAuthInvalid], {}⟩            -- apiKeyProcessor
  else if f.readFails then ⟨[.err stPostBody], {}⟩                   -- readAndCloseMaybeCompressedBody
  else if f.datasetBad then ⟨[.err stReqToEvent], {}⟩                -- requestToEvent: dataset
  else if f.envFails then ⟨[.err stReqToEvent], {}⟩                  --   getEnvironmentName
  else if f.parseFails then ⟨[.err stReqToEvent], {}⟩                --   unmarshal
  else if it == .emptyData then ⟨[.err stReqToEvent], {}⟩            --   len(data) == 0
  else match processEvent l it with
    | .sent s => ⟨[], { sent := [(0, s)], attempts := [0] }⟩         -- nothing written: implicit 200
    | .dropped => ⟨[], { attempts := [0] }⟩
    | .wouldBlock => ⟨[.err stReqToEvent], { refused := [0], attempts := [0] }⟩

/-- `Router.batch`.  With `fixed = false` (the code as it is) the dataset and the environment
error are answered with `handlerReturnWithError` and the handler carries on. -/
def handleBatch (fixed : Bool) (l : Listener) (viaMux : Bool) (f : Faults) (items : List Item) : Out :=
  if viaMux && f.keyBlank then ⟨[.err stAuthInvalid], {}⟩            -- apiKeyProcessor
  else if f.readFails then ⟨[.err stPostBody], {}⟩
  else
    let a1 : List Act := if f.datasetBad then [.err stReqToEvent] else []
    if fixed && f.datasetBad then ⟨a1, {}⟩                           -- the missing `return`
    else
      let a2 : List Act := if f.envFails then [.err stReqToEvent] else []
      if fixed && f.envFails then ⟨a1 ++ a2, {}⟩                     -- the missing `return`
      else if f.parseFails then ⟨a1 ++ a2 ++ [.err stBatchToEvent], {}⟩
      else
        let t := loop l true 0 items
        ⟨a1 ++ a2 ++ [.list t.sts], t.eff⟩

/-- `processOTLPRequest` / `processOTLPRequestBatchMsgp`: (returned an error?, effects). -/
def processOTLP (fixed : Bool) (l : Listener) (f : Faults) (items : List Item) : Bool × Effects :=
  if f.envFails then (fixed, {})                                     -- `return nil` / fixed: `return err`
  else (false, (loop l false 0 items).eff)

/-- `postOTLPTrace` / `postOTLPLogs` -/
def handleOtlpHttp (fixed : Bool) (l : Listener) (logs : Bool) (f : Faults) (items : List Item) : Out :=
  if f.ctBad then ⟨[.otlpFail stOtlpContentType], {}⟩               -- Validate…Headers: content type first
  else if f.keyBlank then ⟨[.otlpFail stUnauthorized], {}⟩          --   then the key
  else if f.readFails || f.parseFails then
    ⟨[.otlpFail (if logs then stInternal else stOtlpParseBody)], {}⟩ -- husky translate…FromReader
  else
    let (failed, eff) := processOTLP fixed l f items
    if failed then ⟨[.otlpFail stInternal], eff⟩ else ⟨[.otlpOk], eff⟩

/-- `customTraceExportHandler` + `ExportTraceData` / `LogsServer.Export` -/
def handleOtlpGrpc (fixed : Bool) (l : Listener) (logs : Bool) (f : Faults) (items : List Item) : Out :=
  if f.keyBlank then ⟨[.grpc grpcUnauthenticated], {}⟩
  else if !logs && (f.parseFails || f.readFails) then ⟨[.grpc grpcUnknown], {}⟩   -- `dec(in)` fails
  else
    let (failed, eff) := processOTLP fixed l f items
    if failed then ⟨[.grpc grpcInternal], eff⟩ else ⟨[.grpc grpcOK], eff⟩

def handle (fixed : Bool) (l : Listener) : Req → Out
  | .event viaMux f it => handleEvent l viaMux f it
  | .batch viaMux f items => handleBatch fixed l viaMux f items
  | .otlpHttp logs f items => handleOtlpHttp fixed l logs f items
  | .otlpGrpc logs f items => handleOtlpGrpc fixed l logs f items

/-! ## Reading a response -/

/-- does this act tell the client "error for the request as a whole"? -/
def Act.isError : Act → Bool
  | .err c | .otlpFail c => decide (400 ≤ c)
  | .list _ | .otlpOk => false          -- written with status 200
  | .grpc c => c != grpcOK

/-- The status the client receives is the first one written (`net/http` ignores later
`WriteHeader`s); a handler that returns without writing answers 200. -/
def Out.isError (o : Out) : Bool :=
  match o.acts with
  | [] => false
  | a :: _ => a.isError

/-- number of answers the request receives (the implicit 200 counts as one) -/
def Out.answers (o : Out) : Nat := if o.acts.isEmpty then 1 else o.acts.length

/-- the request reaches one of `batch`'s two missing `return`s -/
def hitsBatchDefect : Req → Bool
  | .batch viaMux f _ => !(viaMux && f.keyBlank) && !f.readFails && (f.datasetBad || f.envFails)
  | _ => false

/-- the request reaches the `return nil` of `processOTLPRequest*` -/
def hitsOtlpDefect : Req → Bool
  | .otlpHttp _ f _ => !f.ctBad && !f.keyBlank && !(f.readFails || f.parseFails) && f.envFails
  | .otlpGrpc logs f _ => !f.keyBlank && !(!logs && (f.parseFails || f.readFails)) && f.envFails
  | _ => false

end Refinery.Model.BatchHandler
